# setup: offline; checks the toolchain, translates/parses every specification, byte-compiles the python glue
.PHONY: setup sany manifest
setup: sany
	@which tlc g++ python3 timeout >/dev/null
	@python3 -m compileall -q tools checks check >/dev/null
	@mkdir -p build evidence replays
	@echo setup ok
sany:
	@set -e; for f in spec/*/*.tla; do (cd $$(dirname $$f) && tla-sany $$(basename $$f) >/tmp/sany.$$$$ 2>&1 || { cat /tmp/sany.$$$$; exit 1; }; rm -f /tmp/sany.$$$$); done; echo "sany: all specifications parse"
manifest:
	@python3 tools/gen_manifest.py
