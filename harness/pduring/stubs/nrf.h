/* Minimal host stub of Nordic's <nrf.h>: just enough for
 * bluetoe/bindings/nordic/include/bluetoe/nrf.hpp to be includable on the host, so that the C18
 * harness can use the real bluetoe::nrf_details::encrypted_pdu_layout. No register is ever touched
 * by the harness (only the layout class is used). */
#ifndef VERIF_STUB_NRF_H
#define VERIF_STUB_NRF_H
#include <stdint.h>

#define __NVIC_PRIO_BITS 3

typedef struct { volatile uint32_t dummy; } NRF_RADIO_Type;
typedef struct { volatile uint32_t dummy; } NRF_TIMER_Type;
typedef struct {
    volatile uint32_t TASKS_HFCLKSTART, TASKS_HFCLKSTOP, TASKS_LFCLKSTART, TASKS_LFCLKSTOP;
    volatile uint32_t EVENTS_HFCLKSTARTED, EVENTS_LFCLKSTARTED, LFCLKSRC;
} NRF_CLOCK_Type;
typedef struct { volatile uint32_t dummy; } NRF_TEMP_Type;
typedef struct { volatile uint32_t TASKS_START, TASKS_STOP, EVTEN, EVTENSET, EVTENCLR; } NRF_RTC_Type;
typedef struct { volatile uint32_t dummy; } NRF_CCM_Type;
typedef struct { volatile uint32_t dummy; } NRF_AAR_Type;
typedef struct { volatile uint32_t dummy; } NRF_PPI_Type;
typedef struct { volatile uint32_t dummy; } NRF_RNG_Type;
typedef struct { volatile uint32_t dummy; } NRF_ECB_Type;
typedef struct { volatile uint32_t dummy; } NRF_GPIOTE_Type;
typedef struct { volatile uint32_t dummy; } NVIC_Type;

#ifdef __cplusplus
template <class T> inline T* verif_stub_peripheral() { static T t; return &t; }
#define NRF_RADIO  (verif_stub_peripheral<NRF_RADIO_Type>())
#define NRF_TIMER0 (verif_stub_peripheral<NRF_TIMER_Type>())
#define NRF_TIMER1 (verif_stub_peripheral<NRF_TIMER_Type>())
#define NRF_CLOCK  (verif_stub_peripheral<NRF_CLOCK_Type>())
#define NRF_TEMP   (verif_stub_peripheral<NRF_TEMP_Type>())
#define NRF_RTC0   (verif_stub_peripheral<NRF_RTC_Type>())
#define NRF_CCM    (verif_stub_peripheral<NRF_CCM_Type>())
#define NRF_AAR    (verif_stub_peripheral<NRF_AAR_Type>())
#define NRF_PPI    (verif_stub_peripheral<NRF_PPI_Type>())
#define NRF_RNG    (verif_stub_peripheral<NRF_RNG_Type>())
#define NRF_ECB    (verif_stub_peripheral<NRF_ECB_Type>())
#define NRF_GPIOTE (verif_stub_peripheral<NRF_GPIOTE_Type>())
#define NVIC       (verif_stub_peripheral<NVIC_Type>())
#endif

#define RTC_EVTEN_COMPARE0_Enabled 1u
#define RTC_EVTEN_COMPARE0_Pos 16u
#define RTC_EVTEN_COMPARE1_Enabled 1u
#define RTC_EVTEN_COMPARE1_Pos 17u
#define RTC_EVTEN_OVRFLW_Enabled 1u
#define RTC_EVTEN_OVRFLW_Pos 1u
#define CLOCK_LFCLKSRCCOPY_SRC_Pos 0u
#define CLOCK_LFCLKSRCCOPY_SRC_RC 0u
#define CLOCK_LFCLKSRCCOPY_SRC_Xtal 1u
#define CLOCK_LFCLKSRCCOPY_SRC_Synth 2u
#endif
