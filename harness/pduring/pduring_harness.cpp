// C18: replays operation scripts on the real bluetoe::link_layer::pdu_ring_buffer< Size, read_buffer, Layout >
// and records an NDJSON trace that TLC validates against spec/PduRing/PduRingTrace.tla.
//
//   usage: pduring_harness <script> <trace>
//
// script lines (ints):
//   reset <Size> <layout 0=default_pdu_layout | 1=nrf_details::encrypted_pdu_layout>
//                       new execution: fresh arena (canary | storage | canary), ring constructed on the storage
//   alloc <size>        alloc_front( buffer, size )
//   push <id> <size> <len>
//                       alloc_front( buffer, size ) (logged as "alloc"); if a buffer was returned: fill the whole
//                       returned region with the PDU <id> (len bytes: header byte0 = id, byte1 = len - min, rest id;
//                       the unused rest of the region = id) and push_front (logged as "push")
//   peek                next_end(), logged with the bytes read through the returned buffer (run length encoded)
//   pop                 next_end() (logged as "peek") and, if not empty, pop_end() (logged as "pop")
//   undo                restore ring object + arena to the state before the matching (most recent not yet undone)
//                       operation line; lets the check walk a *tree* of histories without re-executing prefixes
//
// every event:  "b":1 on the first event of a script line, "w":[[addr,value]...] = every byte of the arena that the
// ring call itself changed (addr relative to the storage; <0 or >=Size is a canary byte), "empty", "more" = the
// observers next_end().size == 0 and more_than_one() after the call.
#include <iterator>
#include <cassert>
#include <cstring>
#include <memory>
#include <vector>
#include <string>
#include <bluetoe/ring_buffer.hpp>
#include <bluetoe/default_pdu_layout.hpp>
#ifndef PDURING_NO_NRF
#include <bluetoe/nrf.hpp>           // the real encrypted layout; <nrf.h> comes from harness/pduring/stubs
using encrypted_layout = bluetoe::nrf_details::encrypted_pdu_layout;
#else
// same geometry as bluetoe::nrf_details::encrypted_pdu_layout (one extra byte between header and body)
struct encrypted_layout : bluetoe::link_layer::details::layout_base< encrypted_layout > {
    static constexpr std::size_t header_size = sizeof( std::uint16_t );
    using bluetoe::link_layer::details::layout_base< encrypted_layout >::header;
    static std::uint16_t header( const std::uint8_t* pdu ) { return ::bluetoe::details::read_16bit( pdu ); }
    static void header( std::uint8_t* pdu, std::uint16_t v ) { ::bluetoe::details::write_16bit( pdu, v ); }
    static std::pair< std::uint8_t*, std::uint8_t* > body( const bluetoe::link_layer::read_buffer& pdu ) { return { &pdu.buffer[ header_size + 1 ], &pdu.buffer[ pdu.size ] }; }
    static std::pair< const std::uint8_t*, const std::uint8_t* > body( const bluetoe::link_layer::write_buffer& pdu ) { return { &pdu.buffer[ header_size + 1 ], &pdu.buffer[ pdu.size ] }; }
    static constexpr std::size_t data_channel_pdu_memory_size( std::size_t payload_size ) { return header_size + payload_size + 1; }
};
#endif
#include "trace.hpp"

using bluetoe::link_layer::read_buffer;

extern "C" void (*verif_sanitizer_hook)(const char*);      // sanitizer_hooks.cpp
static void on_sanitizer_report(const char* what) { verif::tracer::crash(what, 0); }

static const int CANARY = 32;
static const std::uint8_t CANARY_BYTE = 0xA5, STALE_BYTE = 0xEE;

struct machine {
    virtual ~machine() {}
    virtual void run(const verif::command& c, verif::tracer& t) = 0;
};

template <std::size_t Size, class Layout>
struct ring_machine : machine {
    typedef bluetoe::link_layer::pdu_ring_buffer<Size, read_buffer, Layout> ring_t;
    static const std::size_t min_size = Layout::data_channel_pdu_memory_size(0);

    std::vector<std::uint8_t>* arena;     // heap, exact size: ASan guards what lies beyond the canaries
    std::uint8_t* buffer;
    ring_t* ring;
    std::vector<std::uint8_t> before;
    struct snapshot { std::vector<std::uint8_t> mem; ring_t ring; };
    std::vector<snapshot> undo_stack;
    bool first_event;

    ring_machine(verif::tracer& t, int layout_id) {
        arena = new std::vector<std::uint8_t>(CANARY + Size + CANARY, CANARY_BYTE);
        buffer = arena->data() + CANARY;
        std::memset(buffer, STALE_BYTE, Size);
        first_event = true;
        snap();
        ring = new ring_t(buffer);
        begin(t, "Reset").f("size", (long long)Size).f("min", (long long)min_size).f("layout", layout_id);
        finish(t);
    }
    ~ring_machine() { delete ring; delete arena; }

    void snap() { before = *arena; }

    verif::tracer& begin(verif::tracer& t, const char* name) {
        t.ev(name);
        if (first_event) t.f("b", 1);
        first_event = false;
        return t;
    }
    // diff of the arena against the snapshot taken right before the ring call + observers
    void finish(verif::tracer& t) {
        std::string w = "[";
        bool fst = true;
        for (std::size_t i = 0; i < arena->size(); ++i)
            if ((*arena)[i] != before[i]) {
                char tmp[48];
                std::snprintf(tmp, sizeof tmp, "%s[%d,%d]", fst ? "" : ",", int(i) - CANARY, int((*arena)[i]));
                w += tmp; fst = false;
            }
        w += "]";
        t.raw("w", w);
        const read_buffer e = ring->next_end();
        t.f("empty", e.size == 0).f("more", ring->more_than_one());
        t.end();
    }

    read_buffer do_alloc(verif::tracer& t, std::size_t size) {
        snap();
        const read_buffer b = ring->alloc_front(buffer, size);
        begin(t, "alloc").f("size", (long long)size).f("r", b.size != 0)
            .f("off", b.size ? (long long)(b.buffer - buffer) : -1LL).f("rsize", (long long)b.size);
        finish(t);
        return b;
    }

    void do_peek(verif::tracer& t) {
        snap();
        const read_buffer b = ring->next_end();
        begin(t, "peek").f("r", b.size != 0).f("off", b.size ? (long long)(b.buffer - buffer) : -1LL).f("len", (long long)b.size);
        std::string runs = "[";
        for (std::size_t i = 0; i < b.size; ) {
            std::size_t j = i;
            while (j < b.size && b.buffer[j] == b.buffer[i]) ++j;      // reads through the returned buffer: ASan checks it
            char tmp[48];
            std::snprintf(tmp, sizeof tmp, "%s[%d,%d]", i ? "," : "", int(b.buffer[i]), int(j - i));
            runs += tmp; i = j;
        }
        runs += "]";
        t.raw("runs", runs);
        finish(t);
    }

    void run(const verif::command& c, verif::tracer& t) {
        first_event = true;
        if (c.op == "undo") {
            if (undo_stack.empty()) { std::fprintf(stderr, "undo without operation\n"); std::exit(3); }
            *arena = undo_stack.back().mem;
            *ring = undo_stack.back().ring;
            undo_stack.pop_back();
            t.ev("Undo").end();
            return;
        }
        if (c.w.size() && c.w.back() == "u") {         // operation lines that will be undone end in " u"
            snapshot s = { *arena, *ring };
            undo_stack.push_back(s);
        }
        if (c.op == "alloc") {
            do_alloc(t, c.arg(0));
        } else if (c.op == "push") {
            const int id = int(c.arg(0)); const std::size_t size = c.arg(1), len = c.arg(2);
            const read_buffer b = do_alloc(t, size);
            if (b.size) {
                // the user's own writes: the whole region that alloc_front handed out
                std::memset(b.buffer, id, b.size);
                Layout::header(b.buffer, std::uint16_t(((len - min_size) << 8) | (id & 0xff)));
                snap();
                ring->push_front(buffer, b);
                begin(t, "push").f("id", id).f("off", (long long)(b.buffer - buffer)).f("size", (long long)b.size).f("len", (long long)len);
                finish(t);
            }
        } else if (c.op == "peek") {
            do_peek(t);
        } else if (c.op == "pop") {
            do_peek(t);
            const bool nonempty = ring->next_end().size != 0;
            snap();
            if (nonempty) ring->pop_end(buffer);
            begin(t, "pop").f("r", nonempty);
            finish(t);
        } else { std::fprintf(stderr, "bad op %s\n", c.op.c_str()); std::exit(3); }
    }
};

template <class Layout>
static machine* make(verif::tracer& t, std::size_t size, int layout_id) {
    switch (size) {
#define R(N) case N: return new ring_machine<N, Layout>(t, layout_id);
        R(6) R(7) R(8) R(9) R(10) R(11) R(12) R(13) R(16) R(29) R(30) R(32) R(50) R(61) R(100) R(255) R(256) R(257) R(300) R(512) R(600)
#undef R
    }
    std::fprintf(stderr, "ring size %zu not instantiated\n", size); std::exit(3);
}

int main(int argc, char** argv) {
    if (argc < 3) return 3;
    std::ifstream in(argv[1]);
    verif::tracer t(argv[2]);
    verif_sanitizer_hook = on_sanitizer_report;
    verif::command c;
    std::unique_ptr<machine> m;
    while (verif::read_command(in, c)) {
        if (c.op == "reset") {
            m.reset();
            m.reset(c.arg(1) == 0 ? make<bluetoe::link_layer::default_pdu_layout>(t, c.arg(0), 0) : make<encrypted_layout>(t, c.arg(0), 1));
            continue;
        }
        if (!m) { std::fprintf(stderr, "script must start with reset\n"); return 3; }
        m->run(c, t);
    }
    m.reset();
    t.flush();
    return 0;
}
