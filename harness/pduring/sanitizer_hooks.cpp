// Strong definitions of the sanitizer callbacks for the C18 harness (own translation unit: the inline ones of trace.hpp
// are not emitted by the compilers here).  On an ASan / UBSan report the harness records {"e":"Crash"} in the trace and
// ends, so that a memory error of the code under test is a recorded event and not a tool failure.
extern "C" {
void (*verif_sanitizer_hook)(const char*) = 0;
void __asan_on_error() { if (verif_sanitizer_hook) verif_sanitizer_hook("asan"); }
void __ubsan_on_report() { if (verif_sanitizer_hook) verif_sanitizer_hook("ubsan"); }
}
