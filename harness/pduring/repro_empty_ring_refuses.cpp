// Standalone reproduction of the C18 known finding "alloc:refused:empty:size<Size:*" (unchanged tree):
// an *empty* pdu_ring_buffer refuses allocations it documents to accept ("When the ring buffer is empty it is
// garantied that the buffer can store one elemente of at least Size - 1 in size"), because pop_end() leaves
// front_ == end_ in the middle of the storage and alloc_front() only looks at the room behind / strictly below it.
//   g++ -std=c++11 -I/repo -I/repo/bluetoe/utility/include -I/repo/bluetoe/link_layer/include \
//       repro_empty_ring_refuses.cpp && ./a.out
#include <cstdio>
#include <bluetoe/ring_buffer.hpp>

int main()
{
    static const std::size_t Size = 29;            // a receive ring of exactly one default sized PDU (allowed by
                                                    // the static_asserts of ll_data_pdu_buffer)
    std::uint8_t storage[ Size ];
    bluetoe::link_layer::pdu_ring_buffer< Size > ring( storage );

    auto pdu = ring.alloc_front( storage, 29 );     // radio allocates max_rx_size
    std::printf( "1st alloc_front( 29 ) on the new ring   -> size %zu\n", pdu.size );
    pdu.buffer[ 0 ] = 2; pdu.buffer[ 1 ] = 5;       // a PDU with 5 bytes payload is received
    ring.push_front( storage, pdu );
    ring.pop_end( storage );                        // ... and consumed
    std::printf( "ring empty again: next_end().size == %zu\n", ring.next_end().size );

    for ( std::size_t size : { 29u, 28u, 23u, 22u } )
        std::printf( "alloc_front( %2zu ) on the empty ring      -> size %zu%s\n", size,
            ring.alloc_front( storage, size ).size,
            ring.alloc_front( storage, size ).size == 0 && size <= Size - 1 ? "   <-- refused although empty and size <= Size - 1" : "" );
    // nothing but reset() gets the ring out of this state: no PDU can be received any more
    return ring.alloc_front( storage, 28 ).size == 0 ? 1 : 0;
}
