// Standalone reproduction of the C17 finding (no framework needed):
//   g++ -std=c++11 -DNDEBUG -I/repo -I/repo/bluetoe/utility/include -I/repo/bluetoe/link_layer/include repro_c17.cpp && ./a.out
// A *new* PDU (SN == NESN expected by the peripheral) arrives with valid CRC but invalid MIC. The radio ISR
// (nrf52.hpp radio_interrupt_handler: valid_crc && !valid_pdu) calls acknowledge(read_buffer). The answer carries a
// toggled NESN, i.e. the PDU is acknowledged to the central although it was neither stored nor counted.
#include <iterator>
#include <cstdio>
#include <bluetoe/ll_data_pdu_buffer.hpp>

struct radio : bluetoe::link_layer::ll_data_pdu_buffer<61, 61, radio> {
    struct lock_guard {};
    int rx = 0, tx = 0;
    void increment_receive_packet_counter()  { ++rx; }
    void increment_transmit_packet_counter() { ++tx; }

    int run() {
        // connection event 1: central sends data PDU A (SN=0, NESN=0), valid -> stored, NESN becomes 1
        auto b = allocate_receive_buffer();
        b.buffer[0] = 2; b.buffer[1] = 1; b.buffer[2] = 0xA1;
        auto t = received(b);
        std::printf("event 1 (ok):  answer NESN=%d  stored=%d rx_counter=%d\n", (t.buffer[0] >> 2) & 1, next_received().size != 0, rx);
        free_received();
        // connection event 2: central sends NEW data PDU B (SN=1, NESN=1), CRC ok, MIC wrong
        b = allocate_receive_buffer();
        b.buffer[0] = 2 | 8 | 4; b.buffer[1] = 1; b.buffer[2] = 0xEE;   // garbage plaintext
        t = acknowledge(b);
        const int nesn = (t.buffer[0] >> 2) & 1;
        std::printf("event 2 (mic): answer NESN=%d  stored=%d rx_counter=%d\n", nesn, next_received().size != 0, rx);
        // The central sees NESN != its SN (1): PDU B is acknowledged and will never be sent again.
        const bool bug = nesn == 0 && next_received().size == 0;
        std::printf("%s\n", bug ? "DEFECT: PDU with invalid MIC acknowledged but not delivered" : "ok: PDU not acknowledged");
        return bug ? 1 : 0;
    }
};

int main() { radio r; return r.run(); }
