// C15 / C16 / C17: drives the real bluetoe::link_layer::ll_data_pdu_buffer<Tx, Rx, Radio> through its protected
// radio interface. The harness plays the central (SN/NESN state machine of the Core specification, validated by
// the trace specification as `CentralSends` / `CentralRx`), the channel (outcome per packet taken from the script)
// and the peripheral's upper layer (commit / read).
//
//   usage: lldata_harness <script> <trace>          (buffer sizes compiled in: -DLL_TX=<n> -DLL_RX=<n>)
//
// script lines (ints unless noted):
//   reset <fresh> <max_rx> <max_tx>        fresh=1: new object, 0: reset_pdu_buffer() on the used one; max_* = 0: default
//   commit <len> <llid> <exact>            allocate_transmit_buffer (exact size or maximum), fill, commit_transmit_buffer
//   read                                   next_received(); free_received() if there was a PDU
//   x <out:lost|crc|mic|ok|enc> <ch> <len> <llid>   connection event, central -> peripheral; if the central may choose:
//                                          ch=0 empty PDU, 1 new data PDU <len> <llid>, 2 PDU without payload and the
//                                          reserved LLID 0, 3 new PDU with payload <len> and the reserved LLID 0 (it is
//                                          numbered and encrypted like a data PDU); enc = CRC ok on an encrypted link:
//                                          MIC ok iff the buffer's receive packet counter equals the packet counter of the PDU
//   r <pout:lost|ok|nak>                   peripheral -> central
//
// Dispatch of the radio ISR (environment assumption "isr-dispatch", transcribed from
// bluetoe/bindings/nordic/nrf52/include/bluetoe/nrf52.hpp radio_interrupt_handler(), state evt_wait_connect):
//   receive_buffer_ = allocate_receive_buffer(), or a private dummy buffer when that is empty
//   timeout / no valid anchor              -> nothing is called, nothing is transmitted              ("lost")
//   dummy buffer in use  or  CRC error     -> next_transmit()                                        ("nobuf", "crc")
//   CRC ok and PDU valid (MIC ok)          -> received( receive_buffer_ )                            ("ok")
//   CRC ok, MIC failed (only len != 0)     -> acknowledge( receive_buffer_ )                         ("mic")
//
// payload of data PDU k (k = 1, 2, ... per direction): byte i = (k + 37 * i) & 0xff
#include <iterator>
#include <cstring>
#include <string>
#include <bluetoe/ll_data_pdu_buffer.hpp>
#include "trace.hpp"

namespace {

int lock_depth = 0;
int lock_nested = 0;

struct counting_lock_guard {
    counting_lock_guard()  { if (lock_depth++) ++lock_nested; }
    ~counting_lock_guard() { --lock_depth; }
    counting_lock_guard(const counting_lock_guard&) = delete;
    counting_lock_guard& operator=(const counting_lock_guard&) = delete;
};

template <std::size_t Tx, std::size_t Rx>
struct mock_radio : bluetoe::link_layer::ll_data_pdu_buffer<Tx, Rx, mock_radio<Tx, Rx>> {
    using base       = bluetoe::link_layer::ll_data_pdu_buffer<Tx, Rx, mock_radio<Tx, Rx>>;
    using lock_guard = counting_lock_guard;

    int rx_counter = 0, tx_counter = 0;
    void increment_receive_packet_counter()  { ++rx_counter; }
    void increment_transmit_packet_counter() { ++tx_counter; }

    // the protected radio interface (acknowledge(bool) is private, so no using-declarations)
    bluetoe::link_layer::read_buffer  isr_allocate_receive_buffer() const { return this->allocate_receive_buffer(); }
    bluetoe::link_layer::write_buffer isr_received(bluetoe::link_layer::read_buffer p)    { return this->received(p); }
    bluetoe::link_layer::write_buffer isr_acknowledge(bluetoe::link_layer::read_buffer p) { return this->acknowledge(p); }
    bluetoe::link_layer::write_buffer isr_next_transmit()                                 { return this->next_transmit(); }
};

struct pdu { int id, len, llid; };

std::uint8_t pattern(int id, int i) { return std::uint8_t(id + 37 * i); }

// decodes header + payload of a PDU in memory (default layout: 16 bit header, payload follows)
struct decoded { int sn, nesn, md, llid, len, id; bool ok; };
decoded decode(const std::uint8_t* p, std::size_t size) {
    decoded d;
    d.llid = p[0] & 3; d.nesn = (p[0] >> 2) & 1; d.sn = (p[0] >> 3) & 1; d.md = (p[0] >> 4) & 1;
    d.len  = p[1];
    d.id   = d.len ? p[2] : 0;
    d.ok   = size == std::size_t(d.len) + 2 && (p[0] & 0xe0) == 0;
    for (int i = 0; i < d.len && d.ok; ++i) d.ok = p[2 + i] == pattern(d.id, i);
    return d;
}

template <std::size_t Tx, std::size_t Rx>
int run(const char* script, const char* trace) {
    using radio = mock_radio<Tx, Rx>;
    std::ifstream in(script);
    if (!in) { std::perror(script); return 3; }
    verif::tracer t(trace);
    verif::command c;
    radio* b = nullptr;

    // central
    int c_sn = 0, c_nesn = 0, c_next = 1, c_got = 0;
    bool c_has = false; pdu c_cur = {0, 0, 1};
    // answer of the peripheral in the running connection event
    bool have_answer = false; decoded ans = {};
    int p_next = 1;

    while (verif::read_command(in, c)) {
        if (c.op == "reset") {
            if (c.arg(0) || !b) { delete b; b = new radio(); }
            else { b->reset_pdu_buffer(); b->rx_counter = 0; b->tx_counter = 0; }
            if (c.arg(1)) b->max_rx_size(std::size_t(c.arg(1)));
            if (c.arg(2)) b->max_tx_size(std::size_t(c.arg(2)));
            c_sn = c_nesn = 0; c_next = 1; c_got = 0; c_has = false; have_answer = false; p_next = 1;
            lock_nested = 0;
            t.ev("Reset").f("tx", (long long)Tx).f("rx", (long long)Rx).f("fresh", c.arg(0) != 0)
             .f("maxrx", (long long)b->max_rx_size()).f("maxtx", (long long)b->max_tx_size()).end();
        }
        else if (c.op == "commit") {
            const int len = int(c.arg(0)), llid = int(c.arg(1));
            const std::size_t asz = c.arg(2) ? std::size_t(len) + 2 : b->max_tx_size();     // requested allocation size
            auto buf = c.arg(2) ? b->allocate_transmit_buffer(asz) : b->allocate_transmit_buffer();
            const bool r = buf.size != 0;
            if (r) {
                buf.buffer[0] = std::uint8_t(llid); buf.buffer[1] = std::uint8_t(len);
                for (int i = 0; i < len; ++i) buf.buffer[2 + i] = pattern(p_next, i);
                b->commit_transmit_buffer(buf);
            }
            t.ev("commit").f("id", p_next).f("len", len).f("llid", llid).f("r", r).f("asz", (long long)asz)
             .f("pending", b->pending_outgoing_data_available()).f("rxhead", b->next_received().size != 0).end();
            if (r) ++p_next;
        }
        else if (c.op == "read") {
            const auto w = b->next_received();
            decoded d = {0, 0, 0, 1, 0, 0, true};
            if (w.size) { d = decode(w.buffer, w.size); b->free_received(); }
            t.ev("read").f("id", d.id).f("len", d.len).f("llid", d.llid).f("ok", d.ok)
             .f("pending", b->pending_outgoing_data_available()).f("rxhead", b->next_received().size != 0).end();
        }
        else if (c.op == "x") {
            std::string out = c.w.at(0);
            if (!c_has) {
                const int ch = int(c.arg(1));
                if (ch & 1) { c_cur.id = c_next++; c_cur.len = int(c.arg(2)); c_cur.llid = (ch & 2) ? 0 : int(c.arg(3)); }
                else        { c_cur.id = 0; c_cur.len = 0; c_cur.llid = (ch & 2) ? 0 : 1; }
                c_has = true;
            }
            const int rx0 = b->rx_counter, tx0 = b->tx_counter;
            bluetoe::link_layer::write_buffer tr;
            have_answer = false;
            if (out != "lost") {
                auto buf = b->isr_allocate_receive_buffer();
                if (buf.size == 0) {
                    out = "nobuf";
                    tr  = b->isr_next_transmit();
                } else {
                    // "enc": encrypted link, CRC ok; CCM: the MIC is valid iff the receiver's packet counter equals the
                    // counter the PDU was encrypted with (data PDU k of the central uses counter k - 1)
                    if (out == "enc") out = (c_cur.len != 0 && b->rx_counter != c_cur.id - 1) ? "mic" : "ok";
                    if (out == "mic" && c_cur.len == 0) out = "ok";     // empty PDUs carry no MIC
                    const bool garbage_header = out == "crc";
                    const bool garbage_body   = out != "ok";
                    buf.buffer[0] = std::uint8_t((c_cur.llid | (c_nesn << 2) | (c_sn << 3)) ^ (garbage_header ? 0x0c : 0));
                    buf.buffer[1] = std::uint8_t(c_cur.len);
                    for (int i = 0; i < c_cur.len; ++i) buf.buffer[2 + i] = std::uint8_t(pattern(c_cur.id, i) ^ (garbage_body ? 0xa5 : 0));
                    if (out == "crc")      tr = b->isr_next_transmit();
                    else if (out == "mic") tr = b->isr_acknowledge(buf);
                    else                   tr = b->isr_received(buf);
                }
                have_answer = true;
                if (tr.buffer == nullptr || tr.size < 2) { ans = decoded(); ans.ok = false; ans.llid = 1; }
                else ans = decode(tr.buffer, tr.size);
            }
            t.ev("x").f("out", out).f("csn", c_sn).f("cnesn", c_nesn).f("cid", c_cur.id).f("clen", c_cur.len).f("cllid", c_cur.llid)
             .f("resp", have_answer);
            if (have_answer)
                t.f("psn", ans.sn).f("pnesn", ans.nesn).f("pid", ans.id).f("plen", ans.len).f("pllid", ans.llid).f("pmd", ans.md).f("pok", ans.ok);
            else
                t.f("psn", 0).f("pnesn", 0).f("pid", 0).f("plen", 0).f("pllid", 1).f("pmd", 0).f("pok", true);
            t.f("rxinc", b->rx_counter - rx0).f("txinc", b->tx_counter - tx0)
             .f("pending", b->pending_outgoing_data_available()).f("rxhead", b->next_received().size != 0).f("locknest", lock_nested).end();
        }
        else if (c.op == "r") {
            const std::string pout = c.w.at(0);
            if (have_answer) {
                if (pout != "lost") {
                    if (ans.nesn != c_sn) { c_sn ^= 1; c_has = false; }                                  // acknowledged
                    if (pout == "ok" && ans.sn == c_nesn) { c_nesn ^= 1; if (ans.len) ++c_got; }         // new PDU accepted
                }
                t.ev("crx").f("pout", pout).f("csn", c_sn).f("cnesn", c_nesn).f("cfree", !c_has).f("cgot", c_got).end();
                have_answer = false;
            }
        }
        else { std::fprintf(stderr, "bad op %s\n", c.op.c_str()); return 3; }
    }
    delete b;
    t.flush();
    return 0;
}

} // namespace

#ifndef LL_TX
#define LL_TX 31
#endif
#ifndef LL_RX
#define LL_RX 31
#endif

int main(int argc, char** argv) {
    if (argc < 3) { std::fprintf(stderr, "usage: %s <script> <trace>   (sizes are compiled in: -DLL_TX= -DLL_RX=)\n", argv[0]); return 3; }
    return run<LL_TX, LL_RX>(argv[1], argv[2]);
}
