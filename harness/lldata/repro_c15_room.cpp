// Standalone reproduction of the C15 "room" finding (no framework needed):
//   g++ -std=c++11 -DNDEBUG -I/repo -I/repo/bluetoe/utility/include -I/repo/bluetoe/link_layer/include repro_c15_room.cpp && ./a.out
// ll_data_pdu_buffer<31,31> (the documented minimum, max_rx_size 29): after one received PDU was read and freed the
// receive ring is empty at offset 7, and allocate_receive_buffer() fails for ever (29 bytes fit neither behind nor
// before offset 7; pdu_ring_buffer::pop_end does not rewind an empty ring). The peripheral keeps answering but never
// accepts (never acknowledges) a PDU again. The transmit ring behaves the same for allocate_transmit_buffer().
#include <iterator>
#include <cstdio>
#include <bluetoe/ll_data_pdu_buffer.hpp>

struct radio : bluetoe::link_layer::ll_data_pdu_buffer<31, 31, radio> {
    struct lock_guard {};
    void increment_receive_packet_counter()  {}
    void increment_transmit_packet_counter() {}

    int run() {
        auto b = allocate_receive_buffer();
        b.buffer[0] = 2; b.buffer[1] = 5; for (int i = 0; i < 5; ++i) b.buffer[2 + i] = i;
        received(b);
        std::printf("stored: %d\n", next_received().size != 0);
        free_received();
        std::printf("receive buffer empty: %d\n", next_received().size == 0);
        int failed = 0;
        for (int i = 0; i < 5; ++i) failed += allocate_receive_buffer().size == 0;
        std::printf("allocate_receive_buffer() on the empty buffer failed %d/5 times\n", failed);

        std::printf("%s\n", failed ? "DEFECT: empty receive buffer refuses every further PDU" : "ok");
        return failed ? 1 : 0;
    }
};

int main() { radio r; return r.run(); }
