// C13: replays interleavings on the real bluetoe::notification_queue (hook H2: every access to a queue byte /
// the single-entry state is one scheduler step). Context 0 = producer (notify()/indicate() from an ISR or
// another thread -> queue_notification / queue_indication), context 1 = consumer (link layer ->
// dequeue_indication_or_confirmation, indication_confirmed).
//   usage: notifq_isr_harness <script> <trace>
// script:  reset | s 0 <i> <n|i> | s 1 | cf
#define VERIF_SCHEDULED 1
#include <iterator>
#include <tuple>
#include <bluetoe/notification_queue.hpp>
#include "trace.hpp"

#ifndef QN
#define QN 2
#endif
struct mixin {};
typedef bluetoe::notification_queue<std::tuple<std::integral_constant<int, QN>>, mixin> queue_t;
typedef bluetoe::details::notification_queue_entry_type entry_t;
static verif::scheduler& S = verif::scheduler::get();

struct run_state {
    queue_t* q = nullptr;
    bool active[2] = {false, false};
    bool qres = false; std::pair<entry_t, std::size_t> dres;
};

static const char* kind_name(entry_t e) { return e == entry_t::notification ? "n" : e == entry_t::indication ? "i" : "e"; }

static void finish_call(verif::tracer& t, run_state& st, int ctx) {
    S.join(ctx); st.active[ctx] = false;
    if (ctx == 0) t.ev("QEnd").f("r", st.qres).end();
    else t.ev("DEnd").f("k", kind_name(st.dres.first)).f("i", st.dres.first == entry_t::empty ? 0 : (long long)st.dres.second).end();
}

static void step(verif::tracer& t, run_state& st, int ctx, int i, bool ind) {
    if (!st.active[ctx]) {
        if (ctx == 0) {
            t.ev("QBegin").f("i", i).f("k", ind ? "i" : "n").end();
            S.begin(0, [&st, i, ind] { st.qres = ind ? st.q->queue_indication(i) : st.q->queue_notification(i); });
        } else {
            t.ev("DBegin").end();
            S.begin(1, [&st] { st.dres = st.q->dequeue_indication_or_confirmation(); });
        }
        st.active[ctx] = true;
        if (S.done(ctx)) { finish_call(t, st, ctx); return; }
    }
    const long off = static_cast<const char*>(S.pending_addr(ctx)) - reinterpret_cast<const char*>(st.q);
    t.ev("Acc").f("p", ctx == 0 ? "P" : "C").f("k", S.pending_kind(ctx)).f("a", off).end();
    S.step(ctx);
    if (S.done(ctx)) finish_call(t, st, ctx);
}

// quiescence: finish open calls, then (confirm; dequeue) until the queue reports empty twice
static void drain(verif::tracer& t, run_state& st) {
    for (bool any = true; any;) {
        any = false;
        for (int ctx = 0; ctx < 2; ++ctx) if (st.active[ctx]) { step(t, st, ctx, 0, false); any = true; }
    }
    for (int empties = 0, guard = 0; empties < 2 && guard < 8 * QN + 8; ++guard) {
        st.q->indication_confirmed(); t.ev("Conf").end();
        step(t, st, 1, 0, false);
        while (st.active[1]) step(t, st, 1, 0, false);
        empties = st.dres.first == entry_t::empty ? empties + 1 : 0;
    }
}

int main(int argc, char** argv) {
    if (argc < 3) return 3;
    std::ifstream in(argv[1]);
    verif::tracer t(argv[2]);
    verif::command c;
    run_state st;
    while (verif::read_command(in, c)) {
        if (c.op == "reset") {
            if (st.q) { drain(t, st); delete st.q; }
            st = run_state(); st.q = new queue_t();
            t.ev("Reset").f("n", QN).end();
        } else if (c.op == "s") {
            const int ctx = (int)c.arg(0);
            step(t, st, ctx, (int)c.arg(1), c.w.size() > 2 && c.w[2] == "i");
        } else if (c.op == "cf") {
            if (!st.active[1]) { st.q->indication_confirmed(); t.ev("Conf").end(); }
        } else return 3;
    }
    if (st.q) { drain(t, st); delete st.q; }
    t.flush();
    return 0;
}
