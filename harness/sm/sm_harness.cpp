// C32-C36: drives the three real security manager implementations (legacy_security_manager,
// lesc_security_manager, security_manager), instantiated exactly as tests/security_manager/test_sm.hpp
// does (SecurityFunctions = test toolbox with real AES / uECC, connection data with link_state), from a
// script and records one NDJSON event per public call.
//
//   usage: sm_harness <script> <trace>
//
// compile time configuration (one binary per configuration, see checks/sm.py):
//   SM_KIND  0 legacy_security_manager, 1 lesc_security_manager, 2 security_manager
//   SM_IN    0 pairing_no_input, 1 pairing_yes_no, 2 pairing_keyboard
//   SM_OUT   0 pairing_no_output, 1 pairing_numeric_output
//   SM_MITM  1: require_man_in_the_middle_protection option
//   SM_BOND  1: bonding_data_base option (key distribution)
// The OOB callback option is always present; whether it has data is script controlled.
//
// script lines (ints):
//   reset <oob_present> <sync_answer -1|0|1> [<this> <other>]   new manager + connection (as link_layer does on connect);
//                                                 this / other: bit masks of the (EDIV,Rand) slots the application's bond
//                                                 data base holds an entry for, for this peer / for another peer (default 2 0)
//   req <io> <oob> <auth> [<maxkey> <idist> <rdist> [<retry>]]   Pairing Request with exactly these fields   (C36 + C32);
//                                                 retry = 1: a central that re-pairs: if the request is answered with Pairing
//                                                 Failed it sends the same request once more (a second Req event)
//   pdu <opcode> <lenclass 0 ok|1 short|2 long> <label>   any other SMP PDU from the central
//        label: confirm(3): 0 honest, 1 honest for a wrong TK, 2 flipped bit
//               random(4):  0 honest, 1 wrong (legacy: flipped bit, does not match the confirm value; LESC: another nonce)
//               public key(0x0c): 0 valid, 1 not on the curve
//               dhkey check(0x0d): 0 honest Ea, 1 wrong (flipped bit)
//   poll                                          l2cap_output
//   user <0|1>                                    the user answers the pending yes/no question (if one is pending)
//   enc <0|1>                                     what link_layer does on LL_START_ENC_RSP / LL_PAUSE_ENC_*
//   find <slot>                                   find_key as link_layer does on LL_ENC_REQ for the (EDIV,Rand) of the slot:
//                                                 0 (0,0), 1 (ediv,rand) of an earlier bond, 2 (ediv,rand) nobody distributed,
//                                                 3 (ediv,rand) of the bond created by pairing, 4 (0,rand#0), 5 (ediv#0,0)
//   db <peer 0 this|1 other> <slot> <0|1>         the application erases / stores the bond data base entry (slot, peer); every
//                                                 (slot, peer) has its own key value, different from every pairing result
#include <iterator>
#include <vector>
#include <tuple>
#include <map>
#include <string>
#include <cstring>
#define BOOST_REQUIRE(x)
#define BOOST_CHECK(x)
#define BOOST_CHECK_EQUAL_COLLECTIONS(a, b, c, d)
#include "../security_manager/test_sm.hpp"
#include "trace.hpp"

#ifndef SM_KIND
#define SM_KIND 2
#endif
#ifndef SM_IN
#define SM_IN 1
#endif
#ifndef SM_OUT
#define SM_OUT 1
#endif
#ifndef SM_MITM
#define SM_MITM 0
#endif
#ifndef SM_BOND
#define SM_BOND 0
#endif

using bluetoe::details::uint128_t;
using bluetoe::link_layer::device_address;

// ---------------------------------------------------------------------------------------------
// script controlled user interface / OOB source / bond data base (application side objects)
// ---------------------------------------------------------------------------------------------
struct io_t {
    bluetoe::pairing_yes_no_response* pending;
    int sync_answer;      // -1: answer later (asynchronous), 0/1: answer inside the callback
    int asked, displayed, ndisplayed, passkey;
    void init(int sync) { pending = nullptr; sync_answer = sync; asked = 0; displayed = -1; ndisplayed = 0; passkey = 123456; }
    void sm_pairing_yes_no(bluetoe::pairing_yes_no_response& r) {
        ++asked;
        if (sync_answer >= 0) r.yes_no_response(sync_answer != 0); else pending = &r;
    }
    bool sm_pairing_yes_no() { ++asked; return sync_answer != 0; }   // interface documented for pairing_keyboard (unused by the library today)
    void sm_pairing_numeric_output(int v) { displayed = v; ++ndisplayed; }
    int sm_pairing_passkey() { return passkey; }
} io;

struct oob_t {
    bool present; int asked;
    static uint128_t data() { return uint128_t{{0x0f, 0x1e, 0x2d, 0x3c, 0x4b, 0x5a, 0x69, 0x78, 0x87, 0x96, 0xa5, 0xb4, 0xc3, 0xd2, 0xe1, 0xf0}}; }
    std::pair<bool, std::array<std::uint8_t, 16> > sm_oob_authentication_data(const device_address&) {
        ++asked;
        return std::make_pair(present, present ? data() : uint128_t{{0}});
    }
} oob;

static const std::uint16_t PRESET_EDIV = 0x4711; static const std::uint64_t PRESET_RAND = 0x1122334455667788ull;
static const std::uint16_t NEW_EDIV = 0x1234;    static const std::uint64_t NEW_RAND = 0xaabbccdd00112233ull;
// (EDIV,Rand) classes ("slots") of the spec
static const int NSLOTS = 6;
static std::uint16_t slot_ediv(int s) { static const std::uint16_t v[NSLOTS] = {0, PRESET_EDIV, 0x0bad, NEW_EDIV, 0, PRESET_EDIV}; return v[s]; }
static std::uint64_t slot_rand(int s) { static const std::uint64_t v[NSLOTS] = {0, PRESET_RAND, 0x0badbadbadull, NEW_RAND, PRESET_RAND, 0}; return v[s]; }
// the key the application stores for (slot, this peer / another peer): one value per entry, none of them a pairing result
static uint128_t app_key(int peer, int slot) {
    uint128_t k; k.fill(std::uint8_t((peer ? 0x61 : 0x41) + slot)); k[0] = 0x99; k[15] = std::uint8_t(peer);
    return k;
}

struct db_t {
    struct entry { std::uint16_t ediv; std::uint64_t rand; device_address addr; uint128_t key; };
    std::vector<entry> entries;
    std::vector<uint128_t> made;          // keys handed out by create_new_bond, oldest first
    int created, stored;
    device_address peers[2];              // [0] the peer of the connection under test, [1] some other bonded device
    void init(const device_address& bonded_peer, unsigned mask_this, unsigned mask_other) {
        entries.clear(); made.clear(); created = stored = 0;
        peers[0] = bonded_peer;
        peers[1] = bluetoe::link_layer::random_device_address({0xc6, 0xc5, 0xc4, 0xc3, 0xc2, 0xc1});
        for (int s = 0; s < NSLOTS; ++s) {
            if (mask_this  & (1u << s)) set(0, s, true);
            if (mask_other & (1u << s)) set(1, s, true);
        }
    }
    // the application stores / erases the entry (slot, peer)
    void set(int peer, int slot, bool on) {
        for (std::size_t i = 0; i < entries.size(); ++i)
            if (entries[i].ediv == slot_ediv(slot) && entries[i].rand == slot_rand(slot) && entries[i].addr == peers[peer]) { entries.erase(entries.begin() + i); break; }
        if (on) entries.push_back(entry{slot_ediv(slot), slot_rand(slot), peers[peer], app_key(peer, slot)});
    }
    bool holds(int peer, int slot) const {
        for (auto& e : entries)
            if (e.ediv == slot_ediv(slot) && e.rand == slot_rand(slot) && e.addr == peers[peer] && e.key == app_key(peer, slot)) return true;
        return false;
    }
    template <class Radio>
    bluetoe::details::longterm_key_t create_new_bond(Radio&, const device_address&) {
        ++created;
        bluetoe::details::longterm_key_t k;
        for (int i = 0; i < 16; ++i) k.longterm_key[i] = std::uint8_t(0xc0 + i + 16 * created);   // a fresh key per bond
        k.rand = NEW_RAND; k.ediv = NEW_EDIV;
        made.push_back(k.longterm_key);
        return k;
    }
    template <class Connection>
    void store_bond(const bluetoe::details::longterm_key_t& key, const Connection& c) {
        ++stored;
        for (auto& e : entries)
            if (e.ediv == key.ediv && e.rand == key.rand && e.addr == c.remote_address()) { e.key = key.longterm_key; return; }
        entries.push_back(entry{key.ediv, key.rand, c.remote_address(), key.longterm_key});
    }
    std::pair<bool, uint128_t> find_key(std::uint16_t ediv, std::uint64_t rand, const device_address& a) const {
        for (auto& e : entries)
            if (e.ediv == ediv && e.rand == rand && e.addr == a) return std::make_pair(true, e.key);
        return std::make_pair(false, uint128_t{{0}});
    }
    template <class Connection> void restore_cccds(Connection&) {}
} db;

// ---------------------------------------------------------------------------------------------
// the manager under test
// ---------------------------------------------------------------------------------------------
#if SM_IN == 1
#define OPT_IN , bluetoe::pairing_yes_no<io_t, io>
#elif SM_IN == 2
#define OPT_IN , bluetoe::pairing_keyboard<io_t, io>
#else
#define OPT_IN , bluetoe::pairing_no_input
#endif
#if SM_OUT == 1
#define OPT_OUT , bluetoe::pairing_numeric_output<io_t, io>
#else
#define OPT_OUT , bluetoe::pairing_no_output
#endif
#if SM_MITM
#define OPT_MITM , bluetoe::require_man_in_the_middle_protection
#else
#define OPT_MITM
#endif
#if SM_BOND
#define OPT_BOND , bluetoe::bonding_data_base<db_t, db>
#else
#define OPT_BOND
#endif

#if SM_KIND == 0
using manager_tag = bluetoe::legacy_security_manager;
using functions_t = test::legacy_security_functions;
static const std::size_t MTU = 23;
#elif SM_KIND == 1
using manager_tag = bluetoe::lesc_security_manager;
using functions_t = test::lesc_security_functions;
static const std::size_t MTU = 65;
#else
using manager_tag = bluetoe::security_manager;
using functions_t = test::all_security_functions;
static const std::size_t MTU = 65;
#endif

using sm_t = test::security_manager_base<manager_tag, functions_t, MTU,
    bluetoe::oob_authentication_callback<oob_t, oob> OPT_IN OPT_OUT OPT_MITM OPT_BOND>;
using conn_t = sm_t::connection_data_t;

static const bool HAS_LEGACY = SM_KIND != 1;
static const bool HAS_LESC   = SM_KIND != 0;

// getters that exist only for some connection data types
template <class C> static auto legacy_alg(const C& c, int) -> decltype(int(c.legacy_pairing_algorithm())) { return int(c.legacy_pairing_algorithm()); }
template <class C> static int legacy_alg(const C&, long) { return -1; }
template <class C> static auto lesc_alg(const C& c, int) -> decltype(int(c.lesc_pairing_algorithm())) { return int(c.lesc_pairing_algorithm()); }
template <class C> static int lesc_alg(const C&, long) { return -1; }

static const char* state_name(bluetoe::details::sm_pairing_state s) {
    using st = bluetoe::details::sm_pairing_state;
    switch (s) {
    case st::idle: return "idle";
    case st::pairing_completed: return "completed";
    case st::user_response_wait: return "user_wait";
    case st::user_response_failed: return "user_failed";
    case st::user_response_success: return "user_success";
    case st::legacy_pairing_requested: return "legacy_requested";
    case st::legacy_pairing_confirmed: return "legacy_confirmed";
    case st::lesc_pairing_requested: return "lesc_requested";
    case st::lesc_public_keys_exchanged: return "lesc_keys_exchanged";
    case st::lesc_pairing_confirm_send: return "lesc_confirm_send";
    case st::lesc_pairing_random_exchanged: return "lesc_random_exchanged";
    }
    return "invalid";
}
static const char* legacy_alg_name(int a) {
    static const char* n[] = {"just_works", "oob", "passkey_display", "passkey_input"};
    return a >= 0 && a < 4 ? n[a] : "none";
}
static const char* lesc_alg_name(int a) {
    static const char* n[] = {"just_works", "oob", "passkey_display", "passkey_input", "numeric_comparison"};
    return a >= 0 && a < 5 ? n[a] : "none";
}
static const char* status_name(bluetoe::device_pairing_status s) {
    switch (s) {
    case bluetoe::device_pairing_status::no_key: return "no_key";
    case bluetoe::device_pairing_status::unauthenticated_key: return "unauthenticated";
    case bluetoe::device_pairing_status::authenticated_key: return "authenticated";
    case bluetoe::device_pairing_status::authenticated_key_with_secure_connection: return "authenticated";
    }
    return "invalid";
}

// ---------------------------------------------------------------------------------------------
// harness side central: turns labels into bytes with the reference toolbox
// ---------------------------------------------------------------------------------------------
static const std::uint8_t central_public_key[64] = {     // a valid P-256 point (tests/security_manager/test_sm.hpp)
    0xe6, 0x9d, 0x35, 0x0e, 0x48, 0x01, 0x03, 0xcc, 0xdb, 0xfd, 0xf4, 0xac, 0x11, 0x91, 0xf4, 0xef,
    0xb9, 0xa5, 0xf9, 0xe9, 0xa7, 0x83, 0x2c, 0x5e, 0x2c, 0xbe, 0x97, 0xf2, 0xd2, 0x03, 0xb0, 0x20,
    0x8b, 0xd2, 0x89, 0x15, 0xd0, 0x8e, 0x1c, 0x74, 0x24, 0x30, 0xed, 0x8f, 0xc2, 0x45, 0x63, 0x76,
    0x5c, 0x15, 0x52, 0x5a, 0xbf, 0x9a, 0x32, 0x63, 0x6d, 0xeb, 0x2a, 0x65, 0x49, 0x9c, 0x80, 0xdc };

struct central_t {
    test::all_security_functions ref;           // reference toolbox (independent object)
    device_address ia, ra;                      // initiator (central) / responder (peripheral) address
    int exchange;                               // number of Pairing Requests answered with a Pairing Response
    bool have_rsp, lesc;
    std::uint8_t preq[7], pres[7];
    uint128_t mrand, na;                        // central's random for the current exchange
    bool mconfirm_sent_honest;
    bool have_pk, have_nb, have_key;
    uint128_t nb, mac_key, cur_key;             // cur_key: the key the current exchange produces (STK / LTK), by reference computation
    std::vector<uint128_t> old_keys;            // keys of earlier exchanges on this connection

    void init(const device_address& i, const device_address& r) {
        ia = i; ra = r; ref.local_address(r); exchange = 0; have_rsp = lesc = false; have_pk = have_nb = have_key = false; old_keys.clear();
        mconfirm_sent_honest = false;
    }
    void new_exchange(const std::uint8_t* req, const std::uint8_t* rsp) {
        if (have_key) old_keys.push_back(cur_key);
        ++exchange; have_rsp = true; have_pk = have_nb = have_key = false; mconfirm_sent_honest = false;
        std::memcpy(preq, req, 7); std::memcpy(pres, rsp, 7);
        lesc = (req[3] & 0x08) && (rsp[3] & 0x08);
        for (int k = 0; k < 16; ++k) { mrand[k] = std::uint8_t(0x10 * exchange + k); na[k] = std::uint8_t(0x11 * exchange + 3 * k + 1); }
    }
    uint128_t p1() const {
        uint128_t r{{ std::uint8_t(ia.is_random() ? 1 : 0), std::uint8_t(ra.is_random() ? 1 : 0) }};
        std::copy(preq, preq + 7, &r[2]); std::copy(pres, pres + 7, &r[9]);
        return r;
    }
    uint128_t p2() const {
        uint128_t r{{0}};
        std::copy(ra.begin(), ra.end(), r.begin()); std::copy(ia.begin(), ia.end(), r.begin() + 6);
        return r;
    }
    uint128_t confirm(const uint128_t& tk) { return ref.c1(tk, mrand, p1(), p2()); }
    void legacy_key(const uint128_t& tk, const uint128_t& srand) { cur_key = ref.s1(tk, srand, mrand); have_key = true; }
    // LESC: DHKey from the peripheral's (fixed, toolbox generated) private key and the central's public key
    void lesc_keys() {
        const auto keys = ref.generate_keys();
        const auto dh = ref.p256(keys.second.data(), central_public_key);
        std::tie(mac_key, cur_key) = ref.f5(dh, na, nb, ia, ra);
        have_key = true;
    }
    uint128_t ea() { const bluetoe::details::io_capabilities_t ioa = {{preq[1], preq[2], preq[3]}}; const uint128_t z = {{0}}; return ref.f6(mac_key, na, nb, z, ioa, ia, ra); }
    uint128_t eb() { const bluetoe::details::io_capabilities_t iob = {{pres[1], pres[2], pres[3]}}; const uint128_t z = {{0}}; return ref.f6(mac_key, nb, na, z, iob, ra, ia); }
};

static uint128_t passkey_tk(int v) { uint128_t r{{0}}; bluetoe::details::write_32bit(r.data(), std::uint32_t(v)); return r; }

// ---------------------------------------------------------------------------------------------
struct harness {
    sm_t* sm;
    central_t central;
    verif::tracer& t;
    int last_asked, last_ndisp;       // user interface counters at the previous event

    explicit harness(verif::tracer& tr) : sm(nullptr), t(tr), last_asked(0), last_ndisp(0) {}
    conn_t& conn() { return sm->connection_data_; }

    void reset(int oob_present, int sync, unsigned mask_this, unsigned mask_other) {
        delete sm;
        io.init(sync); oob.present = oob_present != 0; oob.asked = 0; last_asked = last_ndisp = 0;
        sm = new sm_t();                                   // local b1..b6 public, remote a1..a6 random (test_sm.hpp)
        const device_address remote = bluetoe::link_layer::random_device_address({0xa6, 0xa5, 0xa4, 0xa3, 0xa2, 0xa1});
        db.init(remote, mask_this, mask_other);
        sm->connection_data_ = conn_t();                   // as link_layer does when a connection is requested
        sm->connection_data_.remote_connection_created(remote);
        central.init(remote, sm->local_address());
        t.ev("Reset").f("kind", SM_KIND).f("in", SM_IN).f("out", SM_OUT).f("mitm", bool(SM_MITM)).f("bond", bool(SM_BOND))
         .f("oob", oob.present).f("sync", sync);
        std::vector<int> pre, prex;
        for (int s = 0; s < NSLOTS; ++s) { if (db.holds(0, s)) pre.push_back(s); if (db.holds(1, s)) prex.push_back(s); }
        t.fl("pre", pre).fl("prex", prex);
        obs(); t.end();
    }

    // the TK an honest central would use, given the method the peripheral selected
    uint128_t right_tk() {
        switch (legacy_alg(conn(), 0)) {
        case 1: return oob_t::data();
        case 2: return passkey_tk(0x4cc7);                 // test toolbox create_passkey(), shown on the display
        case 3: return passkey_tk(io.passkey);             // what the user types on the peripheral
        default: return uint128_t{{0}};
        }
    }

    // observable state, logged with every event
    void obs() {
        const auto st = conn().state();
        t.f("st", state_name(st)).f("lstat", status_name(conn().local_device_pairing_status()))
         .f("encrypted", conn().is_encrypted()).f("linkstat", status_name(conn().pairing_status()))
         .f("upend", io.pending != nullptr).f("dask", io.asked - last_asked).f("ddisp", io.ndisplayed - last_ndisp);
        last_asked = io.asked; last_ndisp = io.ndisplayed;
    }

    // classify an output PDU of the peripheral
    void out_fields(const std::uint8_t* out, std::size_t n) {
        t.f("olen", (long long)n).f("oop", n ? int(out[0]) : 0).f("oerr", (n == 2 && out[0] == 5) ? int(out[1]) : 0);
        const char* carries = "none";
        if (n == 17 && out[0] == 4 && HAS_LEGACY && !central.lesc && srand_known() && std::equal(out + 1, out + 17, srand().begin())) carries = "srand";
        else if (n == 17 && out[0] == 4) carries = "random";
        else if (n == 17 && out[0] == 0x0d) carries = (central.have_key && central.have_nb && std::equal(out + 1, out + 17, central.eb().begin())) ? "eb" : "dhkey";
        else if (n == 17 && out[0] == 6) carries = "ltk";
        else if (n == 11 && out[0] == 7) carries = "ediv_rand";
        t.f("carries", carries);
        t.fl("out", out, n > 20 ? 20 : n);
    }
    static uint128_t srand() { return test::legacy_security_functions().create_srand(); }
    static bool srand_known() { return true; }

    void after_output(const std::uint8_t* out, std::size_t n) {
        // central side bookkeeping from what the peripheral sent
        if (n == 17 && out[0] == 4 && central.have_rsp && central.lesc && central.have_pk && !central.have_nb) {
            std::copy(out + 1, out + 17, central.nb.begin()); central.have_nb = true; central.lesc_keys();
        }
    }

    void req(const verif::command& c) {
        if (!req_once(c) && c.arg(6, 0) != 0) req_once(c);
    }

    // -> Pairing Response received
    bool req_once(const verif::command& c) {
        std::uint8_t in[7] = {1, std::uint8_t(c.arg(0)), std::uint8_t(c.arg(1)), std::uint8_t(c.arg(2)),
                              std::uint8_t(c.arg(3, 16)), std::uint8_t(c.arg(4, 0)), std::uint8_t(c.arg(5, 0))};
        std::uint8_t out[MTU]; std::size_t n = MTU;
        sm->l2cap_input(in, 7, out, n, conn());
        const bool ok = n == 7 && out[0] == 2;
        if (ok) central.new_exchange(in, out);
        const auto st = conn().state();
        const bool is_lesc = st == bluetoe::details::sm_pairing_state::lesc_pairing_requested;
        const bool is_leg  = st == bluetoe::details::sm_pairing_state::legacy_pairing_requested;
        t.ev("Req").f("io", c.arg(0)).f("oobf", c.arg(1)).f("auth", c.arg(2)).f("maxkey", c.arg(3, 16)).f("idist", c.arg(4, 0)).f("rdist", c.arg(5, 0))
         .f("oobdata", oob.present);
        t.f("rsp", ok).f("rio", ok ? int(out[1]) : -1).f("roob", ok ? int(out[2]) : -1).f("rauth", ok ? int(out[3]) : -1)
         .f("rmaxkey", ok ? int(out[4]) : -1).f("ridist", ok ? int(out[5]) : -1).f("rrdist", ok ? int(out[6]) : -1);
        t.f("alg", is_lesc ? lesc_alg_name(lesc_alg(conn(), 0)) : is_leg ? legacy_alg_name(legacy_alg(conn(), 0)) : "none")
         .f("family", is_lesc ? "lesc" : is_leg ? "legacy" : "none");
        out_fields(out, n); obs(); t.end();
        return ok;
    }

    void pdu(const verif::command& c) {
        const int op = int(c.arg(0)), lc = int(c.arg(1)), label = int(c.arg(2));
        static const int nominal[16] = {1, 7, 7, 17, 17, 2, 17, 11, 17, 8, 17, 2, 65, 17, 2, 1};
        std::size_t len = nominal[op & 15];
        std::vector<std::uint8_t> in(80, 0);
        in[0] = std::uint8_t(op);
        switch (op) {
        case 1: { const std::uint8_t r[6] = {3, 0, 0, 16, 0, 0}; std::copy(r, r + 6, &in[1]); break; }   // only used with a wrong length
        case 3: {
            uint128_t v{{0}};
            if (central.have_rsp) {
                uint128_t tk = right_tk();
                if (label == 1) tk[0] ^= 0x01;             // a confirm value computed with another TK
                v = central.confirm(tk);
            }
            if (label == 2) v[5] ^= 0x10;
            std::copy(v.begin(), v.end(), &in[1]);
            central.mconfirm_sent_honest = label == 0;
            break; }
        case 4: {
            // LESC: the central's nonce Na is not committed to, so "wrong" just means another nonce, which an honest
            // central then keeps using; legacy: Mrand that does not belong to the confirm value sent before
            if (central.have_rsp && central.lesc && label == 1) central.na[7] ^= 0x04;
            uint128_t v = (central.have_rsp && central.lesc) ? central.na : central.mrand;
            if (!central.have_rsp) v = uint128_t{{1, 2, 3}};
            if (label == 1 && !(central.have_rsp && central.lesc)) v[7] ^= 0x04;
            std::copy(v.begin(), v.end(), &in[1]);
            break; }
        case 0x0c: {
            std::copy(central_public_key, central_public_key + 64, &in[1]);
            if (label == 1) in[1 + 40] ^= 0x01;            // y coordinate changed: not on the curve
            break; }
        case 0x0d: {
            uint128_t v{{0x55}};
            if (central.have_key && central.have_nb) v = central.ea();
            if (label == 1) v[3] ^= 0x80;
            std::copy(v.begin(), v.end(), &in[1]);
            break; }
        default:
            for (std::size_t k = 1; k < in.size(); ++k) in[k] = std::uint8_t(k);
        }
        if (lc == 1) len = len > 1 ? len - 1 : 0;
        if (lc == 2) len = len + 1;
        // what an honest central knows before the call
        const bool leg_random = op == 4 && lc == 0 && conn().state() == bluetoe::details::sm_pairing_state::legacy_pairing_confirmed;
        const uint128_t tk_before = HAS_LEGACY ? right_tk() : uint128_t{{0}};
        std::uint8_t out[MTU]; std::size_t n = MTU;
        sm->l2cap_input(in.data(), len, out, n, conn());
        if (op == 0x0c && lc == 0 && label == 0 && n == 65 && out[0] == 0x0c) central.have_pk = true;
        if (leg_random && label == 0) central.legacy_key(tk_before, srand());
        after_output(out, n);
        t.ev("Pdu").f("op", op).f("lc", lc).f("label", label).f("ilen", (long long)len);
        t.f("alg", HAS_LEGACY && !central.lesc ? legacy_alg_name(legacy_alg(conn(), 0)) : "n/a");
        out_fields(out, n); obs(); t.end();
    }

    void poll() {
        std::uint8_t out[MTU]; std::size_t n = MTU;
        sm->l2cap_output(out, n, conn());
        after_output(out, n);
        t.ev("Poll"); out_fields(out, n); obs(); t.end();
    }

    void user(int answer) {
        const bool pending = io.pending != nullptr;
        if (pending) { auto* p = io.pending; io.pending = nullptr; p->yes_no_response(answer != 0); }
        t.ev("User").f("answer", answer != 0).f("waspending", pending); obs(); t.end();
    }

    void enc(int on) {
        const bool changed = conn().is_encrypted(on != 0);
        if (changed) conn().pairing_status(conn().local_device_pairing_status());
        t.ev("Enc").f("on", on != 0).f("changed", changed); obs(); t.end();
    }

    void find(int which) {
        if (which < 0 || which >= NSLOTS) which = 2;
        const std::uint16_t ediv = slot_ediv(which); const std::uint64_t rand = slot_rand(which);
        const std::pair<bool, uint128_t> r = conn().find_key(ediv, rand);
        // identity of the offered key: which of the keys that exist in this execution is it?
        const char* kid = "none"; int kslot = -1;
        if (r.first) {
            kid = "unknown";
            if (central.have_key && r.second == central.cur_key) kid = "cur";
            else {
                for (auto& k : central.old_keys) if (k == r.second) kid = "old";
                for (std::size_t i = 0; i < db.made.size(); ++i) if (db.made[i] == r.second) kid = i + 1 == db.made.size() ? "new" : "newold";
                for (int p = 0; p < 2; ++p) for (int sl = 0; sl < NSLOTS; ++sl) if (r.second == app_key(p, sl)) { kid = p ? "other" : "this"; kslot = sl; }
            }
        }
        // is the returned key also what the bond data base holds for this (ediv, rand, peer)?
        const auto in_db = db.find_key(ediv, rand, conn().remote_address());
        t.ev("Find").f("which", which).f("found", r.first).f("kid", kid).f("kslot", kslot).f("indb", in_db.first)
         .f("dbsame", in_db.first && r.first && in_db.second == r.second);
        obs(); t.end();
    }

    void dbset(int peer, int slot, int on) {
        if (slot < 0 || slot >= NSLOTS) slot = 2;
        db.set(peer != 0, slot, on != 0);
        t.ev("Db").f("peer", peer != 0 ? 1 : 0).f("slot", slot).f("on", on != 0); obs(); t.end();
    }
};

int main(int argc, char** argv) {
    if (argc < 3) return 3;
    std::ifstream in(argv[1]);
    if (!in) return 3;
    verif::tracer t(argv[2]);
    harness h(t);
    verif::command c;
    while (verif::read_command(in, c)) {
        if (c.op == "reset") { h.reset(int(c.arg(0)), int(c.arg(1, -1)), unsigned(c.arg(2, 2)), unsigned(c.arg(3, 0))); continue; }
        if (!h.sm) h.reset(0, -1, 2, 0);
        if (c.op == "req") h.req(c);
        else if (c.op == "pdu") h.pdu(c);
        else if (c.op == "poll") h.poll();
        else if (c.op == "user") h.user(int(c.arg(0)));
        else if (c.op == "enc") h.enc(int(c.arg(0)));
        else if (c.op == "find") h.find(int(c.arg(0)));
        else if (c.op == "db") h.dbset(int(c.arg(0)), int(c.arg(1)), int(c.arg(2)));
        else { std::fprintf(stderr, "bad op %s\n", c.op.c_str()); return 3; }
    }
    t.flush();
    return 0;
}
