// C36: sends Pairing Requests to the real security managers (all manager kinds x local IO configurations x MITM
// option in ONE binary) and records request, response and the pairing algorithm the manager selected.
//   usage: iocaps_req <script> <trace>
// script lines (ints):
//   cfg <kind 0 legacy|1 lesc|2 combined> <in 0 none|1 yes_no|2 keyboard> <out 0 none|1 numeric> <mitm 0|1>
//   reset <oob_data_present>                         new manager + connection (as link_layer does on connect); no event
//   req <io> <oob> <auth> <maxkey> <idist> <rdist>   Pairing Request with exactly these fields
// Configurations that do not compile are left out with -DNO_LESC_KEYBOARD (checks/sm.py probes that).
#include <iterator>
#include <vector>
#include <tuple>
#include <cstring>
#define BOOST_REQUIRE(x)
#define BOOST_CHECK(x)
#define BOOST_CHECK_EQUAL_COLLECTIONS(a, b, c, d)
#include "../security_manager/test_sm.hpp"
#include "trace.hpp"

using bluetoe::details::uint128_t;
using bluetoe::link_layer::device_address;

struct io_t {
    void sm_pairing_yes_no(bluetoe::pairing_yes_no_response&) {}
    bool sm_pairing_yes_no() { return true; }      // interface documented for pairing_keyboard (unused by the library today)
    void sm_pairing_numeric_output(int) {}
    int sm_pairing_passkey() { return 123456; }
} io;

struct oob_t {
    bool present;
    std::pair<bool, std::array<std::uint8_t, 16> > sm_oob_authentication_data(const device_address&) {
        return std::make_pair(present, uint128_t{{0x0f, 0x1e, 0x2d, 0x3c, 0x4b, 0x5a, 0x69, 0x78, 0x87, 0x96, 0xa5, 0xb4, 0xc3, 0xd2, 0xe1, 0xf0}});
    }
} oob;

template <int Kind> struct kind_t;
template <> struct kind_t<0> { using tag = bluetoe::legacy_security_manager; using fn = test::legacy_security_functions; static const std::size_t mtu = 23; };
template <> struct kind_t<1> { using tag = bluetoe::lesc_security_manager;   using fn = test::lesc_security_functions;   static const std::size_t mtu = 65; };
template <> struct kind_t<2> { using tag = bluetoe::security_manager;        using fn = test::all_security_functions;    static const std::size_t mtu = 65; };

template <int In> struct in_t { using type = bluetoe::pairing_no_input; };
template <> struct in_t<1> { using type = bluetoe::pairing_yes_no<io_t, io>; };
template <> struct in_t<2> { using type = bluetoe::pairing_keyboard<io_t, io>; };
template <int Out> struct out_t { using type = bluetoe::pairing_no_output; };
template <> struct out_t<1> { using type = bluetoe::pairing_numeric_output<io_t, io>; };

struct no_mitm_option {       // an option the managers ignore
    struct meta_type : bluetoe::link_layer::details::valid_link_layer_option_meta_type {};
};
template <bool Mitm> struct mitm_t { using type = no_mitm_option; };
template <> struct mitm_t<true> { using type = bluetoe::require_man_in_the_middle_protection; };

template <class C> static auto legacy_alg(const C& c, int) -> decltype(int(c.legacy_pairing_algorithm())) { return int(c.legacy_pairing_algorithm()); }
template <class C> static int legacy_alg(const C&, long) { return -1; }
template <class C> static auto lesc_alg(const C& c, int) -> decltype(int(c.lesc_pairing_algorithm())) { return int(c.lesc_pairing_algorithm()); }
template <class C> static int lesc_alg(const C&, long) { return -1; }

static const char* legacy_alg_name(int a) {
    static const char* n[] = {"just_works", "oob", "passkey_display", "passkey_input"};
    return a >= 0 && a < 4 ? n[a] : "none";
}
static const char* lesc_alg_name(int a) {
    static const char* n[] = {"just_works", "oob", "passkey_display", "passkey_input", "numeric_comparison"};
    return a >= 0 && a < 5 ? n[a] : "none";
}

struct runner {
    virtual ~runner() {}
    virtual void reset(verif::tracer& t, int oob_present) = 0;
    virtual void req(verif::tracer& t, const verif::command& c) = 0;
    virtual void announce(verif::tracer& t) = 0;
};

template <int Kind, int In, int Out, bool Mitm>
struct runner_impl : runner {
    using K = kind_t<Kind>;
    using sm_t = test::security_manager_base<typename K::tag, typename K::fn, K::mtu,
        bluetoe::oob_authentication_callback<oob_t, oob>, typename in_t<In>::type, typename out_t<Out>::type, typename mitm_t<Mitm>::type>;
    using conn_t = typename sm_t::connection_data_t;
    sm_t* sm;
    runner_impl() : sm(nullptr) {}
    ~runner_impl() { delete sm; }

    void reset(verif::tracer& t, int oob_present) override {
        delete sm;
        oob.present = oob_present != 0;
        sm = new sm_t();
        sm->connection_data_ = conn_t();
        sm->connection_data_.remote_connection_created(bluetoe::link_layer::random_device_address({0xa6, 0xa5, 0xa4, 0xa3, 0xa2, 0xa1}));
        (void)t;            // the fresh manager is part of the "Req" row that follows (rows are independent of each other)
    }
    void announce(verif::tracer& t) override {
        t.ev("Reset").f("kind", Kind).f("in", In).f("out", Out).f("mitm", Mitm).end();
    }

    void req(verif::tracer& t, const verif::command& c) override {
        std::uint8_t in[7] = {1, std::uint8_t(c.arg(0)), std::uint8_t(c.arg(1)), std::uint8_t(c.arg(2)),
                              std::uint8_t(c.arg(3, 16)), std::uint8_t(c.arg(4, 0)), std::uint8_t(c.arg(5, 0))};
        std::uint8_t out[K::mtu]; std::size_t n = K::mtu;
        sm->l2cap_input(in, 7, out, n, sm->connection_data_);
        const bool ok = n == 7 && out[0] == 2;
        const auto st = sm->connection_data_.state();
        const bool is_lesc = st == bluetoe::details::sm_pairing_state::lesc_pairing_requested;
        const bool is_leg  = st == bluetoe::details::sm_pairing_state::legacy_pairing_requested;
        t.ev("Req").f("kind", Kind).f("in", In).f("out", Out).f("mitm", Mitm).f("io", c.arg(0)).f("oobf", c.arg(1)).f("auth", c.arg(2)).f("maxkey", c.arg(3, 16)).f("idist", c.arg(4, 0)).f("rdist", c.arg(5, 0))
         .f("oobdata", oob.present)
         .f("rsp", ok).f("rio", ok ? int(out[1]) : -1).f("roob", ok ? int(out[2]) : -1).f("rauth", ok ? int(out[3]) : -1)
         .f("rmaxkey", ok ? int(out[4]) : -1).f("ridist", ok ? int(out[5]) : -1).f("rrdist", ok ? int(out[6]) : -1)
         .f("alg", is_lesc ? lesc_alg_name(lesc_alg(sm->connection_data_, 0)) : is_leg ? legacy_alg_name(legacy_alg(sm->connection_data_, 0)) : "none")
         .f("family", is_lesc ? "lesc" : is_leg ? "legacy" : "none")
         .f("olen", (long long)n).f("oop", n ? int(out[0]) : 0).f("oerr", (n == 2 && out[0] == 5) ? int(out[1]) : 0).end();
    }
};

template <int Kind, int In, int Out>
static runner* make2(bool mitm) { return mitm ? static_cast<runner*>(new runner_impl<Kind, In, Out, true>()) : new runner_impl<Kind, In, Out, false>(); }

template <int Kind>
static runner* make1(int in, int out, bool mitm) {
    switch (in * 2 + out) {
    case 0: return make2<Kind, 0, 0>(mitm);
    case 1: return make2<Kind, 0, 1>(mitm);
    case 2: return make2<Kind, 1, 0>(mitm);
    case 3: return make2<Kind, 1, 1>(mitm);
#ifndef NO_LESC_KEYBOARD
    case 4: return make2<Kind, 2, 0>(mitm);
    case 5: return make2<Kind, 2, 1>(mitm);
#endif
    }
    return nullptr;
}
#ifdef NO_LESC_KEYBOARD
template <>
runner* make1<0>(int in, int out, bool mitm) {
    switch (in * 2 + out) {
    case 0: return make2<0, 0, 0>(mitm);
    case 1: return make2<0, 0, 1>(mitm);
    case 2: return make2<0, 1, 0>(mitm);
    case 3: return make2<0, 1, 1>(mitm);
    case 4: return make2<0, 2, 0>(mitm);
    case 5: return make2<0, 2, 1>(mitm);
    }
    return nullptr;
}
#endif

// -DONLY_KIND=k: only manager kind k is instantiated (three binaries compile in parallel)
static runner* make(int kind, int in, int out, bool mitm) {
#if !defined(ONLY_KIND) || ONLY_KIND == 0
    if (kind == 0) return make1<0>(in, out, mitm);
#endif
#if !defined(ONLY_KIND) || ONLY_KIND == 1
    if (kind == 1) return make1<1>(in, out, mitm);
#endif
#if !defined(ONLY_KIND) || ONLY_KIND == 2
    if (kind == 2) return make1<2>(in, out, mitm);
#endif
    return nullptr;
}

int main(int argc, char** argv) {
    if (argc < 3) return 3;
    std::ifstream in(argv[1]);
    if (!in) return 3;
    verif::tracer t(argv[2]);
    verif::command c;
    runner* r = nullptr;
    while (verif::read_command(in, c)) {
        if (c.op == "cfg") {
            delete r; r = nullptr;
            r = make(int(c.arg(0)), int(c.arg(1)), int(c.arg(2)), c.arg(3) != 0);
            if (!r) { std::fprintf(stderr, "configuration not available\n"); return 4; }
            r->announce(t);
            continue;
        }
        if (!r) return 3;
        if (c.op == "reset") r->reset(t, int(c.arg(0)));
        else if (c.op == "req") r->req(t, c);
        else return 3;
    }
    delete r;
    t.flush();
    return 0;
}
