// C36: prints every cell of the real io_capabilities_matrix (io_capabilities.hpp) for the six local
// input/output configurations the library supports. No security manager is involved, so this also covers the
// configurations that cannot be instantiated with the LESC managers.
//   usage: iocaps_matrix <trace>
#include <iterator>
#include <array>
#include <cstdint>
#include <bluetoe/io_capabilities.hpp>
#include "trace.hpp"

struct io_t {
    void sm_pairing_yes_no(bluetoe::pairing_yes_no_response&) {}
    void sm_pairing_numeric_output(int) {}
    int sm_pairing_passkey() { return 0; }
} io;

static const char* legacy_name(bluetoe::details::legacy_pairing_algorithm a) {
    static const char* n[] = {"just_works", "oob", "passkey_display", "passkey_input"};
    return unsigned(a) < 4 ? n[unsigned(a)] : "invalid";
}
static const char* lesc_name(bluetoe::details::lesc_pairing_algorithm a) {
    static const char* n[] = {"just_works", "oob", "passkey_display", "passkey_input", "numeric_comparison"};
    return unsigned(a) < 5 ? n[unsigned(a)] : "invalid";
}

template <class M>
static void rows(verif::tracer& t, int in, int out) {
    for (int rio = 0; rio <= 4; ++rio)
        t.ev("Matrix").f("in", in).f("out", out).f("io", rio).f("lio", int(M::get_io_capabilities()))
         .f("legacy", legacy_name(M::select_legacy_pairing_algorithm(std::uint8_t(rio))))
         .f("lesc", lesc_name(M::select_lesc_pairing_algorithm(std::uint8_t(rio)))).end();
}

int main(int argc, char** argv) {
    if (argc < 2) return 3;
    verif::tracer t(argv[1]);
    using namespace bluetoe;
    using details::io_capabilities_matrix;
    t.ev("Reset").f("kind", 0).f("in", 0).f("out", 0).end();
    rows<io_capabilities_matrix<> >(t, 0, 0);                                   // the defaults
    rows<io_capabilities_matrix<pairing_no_input, pairing_no_output> >(t, 0, 0);
    rows<io_capabilities_matrix<pairing_yes_no<io_t, io>, pairing_no_output> >(t, 1, 0);
    rows<io_capabilities_matrix<pairing_keyboard<io_t, io>, pairing_no_output> >(t, 2, 0);
    rows<io_capabilities_matrix<pairing_no_input, pairing_numeric_output<io_t, io> > >(t, 0, 1);
    rows<io_capabilities_matrix<pairing_yes_no<io_t, io>, pairing_numeric_output<io_t, io> > >(t, 1, 1);
    rows<io_capabilities_matrix<pairing_keyboard<io_t, io>, pairing_numeric_output<io_t, io> > >(t, 2, 1);
    t.flush();
    return 0;
}
