// Standalone reproductions of the security manager findings recorded in /verif/known_findings.jsonl (C32-C36).
// Uses only /repo (bluetoe + tests/security_manager/test_sm.hpp toolbox). Build:
//   gcc -O2 -std=c99 -w -DuECC_CURVE=uECC_secp256r1 -c /repo/tests/test_tools/uECC.c /repo/tests/test_tools/aes.c
//   g++ -std=c++11 -DNDEBUG -w -I/repo -I/repo/bluetoe/utility/include -I/repo/bluetoe/link_layer/include \
//       -I/repo/bluetoe/sm/include -I/repo/tests/test_tools repro_sm_findings.cpp /repo/bluetoe/utility/address.cpp uECC.o aes.o
#include <iterator>
#include <vector>
#include <tuple>
#include <cstdio>
#define BOOST_REQUIRE(x)
#define BOOST_CHECK(x)
#define BOOST_CHECK_EQUAL_COLLECTIONS(a, b, c, d)
#include "../security_manager/test_sm.hpp"

struct io_t {
    bluetoe::pairing_yes_no_response* pending = nullptr;
    void sm_pairing_yes_no(bluetoe::pairing_yes_no_response& r) { pending = &r; }
    void sm_pairing_numeric_output(int) {}
} io;
struct oob_t {
    std::pair<bool, std::array<std::uint8_t, 16> > sm_oob_authentication_data(const bluetoe::link_layer::device_address&) {
        return std::make_pair(true, std::array<std::uint8_t, 16>{{1, 2, 3}});
    }
} oob;

static const std::uint8_t pk[65] = { 0x0c,
    0xe6, 0x9d, 0x35, 0x0e, 0x48, 0x01, 0x03, 0xcc, 0xdb, 0xfd, 0xf4, 0xac, 0x11, 0x91, 0xf4, 0xef,
    0xb9, 0xa5, 0xf9, 0xe9, 0xa7, 0x83, 0x2c, 0x5e, 0x2c, 0xbe, 0x97, 0xf2, 0xd2, 0x03, 0xb0, 0x20,
    0x8b, 0xd2, 0x89, 0x15, 0xd0, 0x8e, 0x1c, 0x74, 0x24, 0x30, 0xed, 0x8f, 0xc2, 0x45, 0x63, 0x76,
    0x5c, 0x15, 0x52, 0x5a, 0xbf, 0x9a, 0x32, 0x63, 0x6d, 0xeb, 0x2a, 0x65, 0x49, 0x9c, 0x80, 0xdc };

template <class SM>
static std::vector<std::uint8_t> in(SM& sm, std::vector<std::uint8_t> pdu) {
    std::uint8_t out[65]; std::size_t n = sizeof out;
    sm.l2cap_input(pdu.data(), pdu.size(), out, n, sm.connection_data_);
    return std::vector<std::uint8_t>(out, out + n);
}
template <class SM>
static std::vector<std::uint8_t> poll(SM& sm) {
    std::uint8_t out[65]; std::size_t n = sizeof out;
    sm.l2cap_output(out, n, sm.connection_data_);
    return std::vector<std::uint8_t>(out, out + n);
}
static void show(const char* what, const std::vector<std::uint8_t>& v) {
    std::printf("  %-44s:", what);
    for (std::size_t i = 0; i < v.size() && i < 8; ++i) std::printf(" %02x", v[i]);
    std::printf(v.size() > 8 ? " .. (%zu bytes)\n" : " (%zu bytes)\n", v.size());
}
static const char* stat(bluetoe::device_pairing_status s) {
    return s == bluetoe::device_pairing_status::no_key ? "no_key" : s == bluetoe::device_pairing_status::unauthenticated_key ? "unauthenticated" : "authenticated";
}

using nc_combined = test::security_manager_base<bluetoe::security_manager, test::all_security_functions, 65,
    bluetoe::pairing_numeric_output<io_t, io>, bluetoe::pairing_yes_no<io_t, io> >;
using nc_lesc = test::security_manager_base<bluetoe::lesc_security_manager, test::lesc_security_functions, 65,
    bluetoe::pairing_numeric_output<io_t, io>, bluetoe::pairing_yes_no<io_t, io> >;

template <class SM> static void until_user_question(SM& sm) {
    show("Pairing Request (DisplayYesNo, SC|MITM)", in(sm, {1, 1, 0, 0x0c, 16, 0, 0}));
    show("Pairing Public Key", in(sm, std::vector<std::uint8_t>(pk, pk + 65)));
    show("poll -> Pairing Confirm", poll(sm));
    show("Pairing Random", in(sm, std::vector<std::uint8_t>{4, 1, 2, 3, 4, 5, 6, 7, 8, 9, 10, 11, 12, 13, 14, 15, 16}));
}

int main() {
    std::puts("C32/C33 (a): a WRONG DHKey check received while the user is asked is dropped; after 'yes' Eb is sent, pairing completes, key offered");
    {
        nc_combined sm; io.pending = nullptr;
        until_user_question(sm);
        show("DHKey check with garbage Ea (no answer)", in(sm, std::vector<std::uint8_t>(17, 0x0d)));
        io.pending->yes_no_response(true);
        show("poll -> peripheral's DHKey check Eb", poll(sm));
        std::printf("  find_key(0,0).first = %d, status = %s\n", int(sm.connection_data_.find_key(0, 0).first), stat(sm.connection_data_.local_device_pairing_status()));
    }
    std::puts("C32/C33 (b): no DHKey check at all: after 'yes' the next output poll sends Eb and completes the pairing");
    {
        nc_lesc sm; io.pending = nullptr;
        until_user_question(sm);
        io.pending->yes_no_response(true);
        show("poll -> peripheral's DHKey check Eb", poll(sm));
        std::printf("  find_key(0,0).first = %d\n", int(sm.connection_data_.find_key(0, 0).first));
    }
    std::puts("C32 (c): pairing failed while the user is asked; the late 'yes' revives it");
    {
        nc_combined sm; io.pending = nullptr;
        until_user_question(sm);
        show("DHKey check one byte short -> Pairing Failed", in(sm, std::vector<std::uint8_t>(16, 0x0d)));
        std::printf("  state idle: %d\n", int(sm.connection_data_.state() == bluetoe::details::sm_pairing_state::idle));
        io.pending->yes_no_response(true);
        show("poll -> peripheral's DHKey check Eb", poll(sm));
        std::printf("  find_key(0,0).first = %d\n", int(sm.connection_data_.find_key(0, 0).first));
    }
    std::puts("C35 (a): LESC-only manager: numeric comparison confirmed by the user is reported as unauthenticated");
    {
        nc_lesc sm; io.pending = nullptr;
        until_user_question(sm);
        io.pending->yes_no_response(true);
        poll(sm);
        std::printf("  status = %s\n", stat(sm.connection_data_.local_device_pairing_status()));
    }
    std::puts("C35 (b): combined manager, remote KeyboardOnly -> passkey entry selected, Just-Works shaped exchange, reported authenticated");
    {
        nc_combined sm; io.pending = nullptr;
        show("Pairing Request (KeyboardOnly, SC|MITM)", in(sm, {1, 2, 0, 0x0c, 16, 0, 0}));
        std::printf("  selected lesc algorithm = %d (2 = passkey_entry_display)\n", int(sm.connection_data_.lesc_pairing_algorithm()));
        in(sm, std::vector<std::uint8_t>(pk, pk + 65)); poll(sm);
        show("Pairing Random", in(sm, std::vector<std::uint8_t>{4, 1, 2, 3, 4, 5, 6, 7, 8, 9, 10, 11, 12, 13, 14, 15, 16}));
        // honest Ea for r = 0 (what a Just Works central sends)
        test::all_security_functions ref; ref.local_address(sm.local_address());
        const auto keys = ref.generate_keys();
        const auto dh = ref.p256(keys.second.data(), pk + 1);
        const bluetoe::details::uint128_t na{{1, 2, 3, 4, 5, 6, 7, 8, 9, 10, 11, 12, 13, 14, 15, 16}}, nb = ref.select_random_nonce(), zero{{0}};
        const auto remote = bluetoe::link_layer::random_device_address({0xa6, 0xa5, 0xa4, 0xa3, 0xa2, 0xa1});
        bluetoe::details::uint128_t mac, ltk; std::tie(mac, ltk) = ref.f5(dh, na, nb, remote, sm.local_address());
        const auto ea = ref.f6(mac, na, nb, zero, bluetoe::details::io_capabilities_t{{2, 0, 0x0c}}, remote, sm.local_address());
        std::vector<std::uint8_t> dhk(1, 0x0d); dhk.insert(dhk.end(), ea.begin(), ea.end());
        show("DHKey check (r = 0) -> Eb", in(sm, dhk));
        std::printf("  status = %s\n", stat(sm.connection_data_.local_device_pairing_status()));
    }
    std::puts("C36 (a): neither side requests MITM protection, remote KeyboardOnly, local DisplayOnly: Core says Just Works");
    {
        test::security_manager_base<bluetoe::legacy_security_manager, test::legacy_security_functions, 23, bluetoe::pairing_numeric_output<io_t, io> > sm;
        show("Pairing Request (KeyboardOnly, AuthReq 0)", in(sm, {1, 2, 0, 0, 16, 0, 0}));
        std::printf("  selected legacy algorithm = %d (0 = just_works, 2 = passkey_entry_display)\n", int(sm.connection_data_.legacy_pairing_algorithm()));
    }
    std::puts("C36 (b): combined manager with OOB data, legacy request with OOB flag: response says 'no OOB data' but OOB is selected");
    {
        test::security_manager_base<bluetoe::security_manager, test::all_security_functions, 65, bluetoe::oob_authentication_callback<oob_t, oob> > sm;
        show("Pairing Request (OOB flag 1, AuthReq MITM)", in(sm, {1, 3, 1, 4, 16, 0, 0}));
        std::printf("  selected legacy algorithm = %d (1 = oob_authentication)\n", int(sm.connection_data_.legacy_pairing_algorithm()));
    }
    std::puts("C36 (c): combined manager with OOB data, LESC request without OOB flag: response OOB flag 0 but OOB is selected");
    {
        test::security_manager_base<bluetoe::security_manager, test::all_security_functions, 65, bluetoe::oob_authentication_callback<oob_t, oob> > sm;
        show("Pairing Request (OOB flag 0, AuthReq SC|MITM)", in(sm, {1, 3, 0, 0x0c, 16, 0, 0}));
        std::printf("  selected lesc algorithm = %d (1 = oob_authentication)\n", int(sm.connection_data_.lesc_pairing_algorithm()));
    }
    return 0;
}
