// Standalone reproduction of the C39 findings (not part of the check):
//   g++ -std=c++11 -DNDEBUG -I/repo -I/repo/bluetoe/utility/include -I/repo/bluetoe/link_layer/include \
//       -I/repo/bluetoe/sm/include -I/repo/bluetoe/services repro_c39.cpp && ./a.out
// White list: one region [0x1000, 0x1400), page size 0x100 (the configuration of tests/services/bootloader_tests.cpp).
// Every handler call that touches memory outside the region is printed with "OUTSIDE".
#include <iterator>
#include <cstdio>
#include <cstring>
#include <vector>
#include <bluetoe/server.hpp>
#include <bluetoe/services/bootloader.hpp>

static const std::uintptr_t lo = 0x1000, hi = 0x1400;
static const std::size_t    page = 0x100;

struct handler
{
    int outside;
    handler() : outside( 0 ) {}
    void touch( const char* what, std::uintptr_t a, std::size_t n )
    {
        const bool out = n != 0 && !( a >= lo && a + n <= hi );
        std::printf( "    %-18s [0x%lx, 0x%lx)%s\n", what, (unsigned long)a, (unsigned long)( a + n ), out ? "   <-- OUTSIDE the white list" : "" );
        if ( out ) ++outside;
    }
    std::pair< const std::uint8_t*, std::size_t > get_version() { static const std::uint8_t v[] = { 1 }; return std::make_pair( &v[ 0 ], sizeof v ); }
    void read_mem( std::uintptr_t a, std::size_t n, std::uint8_t* d ) { touch( "read_mem", a, n ); std::memset( d, 0xAA, n ); }
    std::uint32_t checksum32( std::uintptr_t, std::size_t ) { return 0; }
    std::uint32_t checksum32( const std::uint8_t*, std::size_t, std::uint32_t old ) { return old; }
    std::uint32_t checksum32( std::uintptr_t ) { return 0; }
    bluetoe::bootloader::error_codes public_read_mem( std::uintptr_t a, std::size_t n, std::uint8_t* d ) { touch( "public_read_mem", a, n ); std::memset( d, 0, n ); return bluetoe::bootloader::error_codes::success; }
    std::uint32_t public_checksum32( std::uintptr_t a, std::size_t n ) { touch( "public_checksum32", a, n ); return 0; }
    bluetoe::bootloader::error_codes start_flash( std::uintptr_t a, const std::uint8_t* v, std::size_t n )
    {
        touch( "start_flash", a, n );
        std::printf( "      first bytes: %02x %02x %02x %02x\n", v[ 0 ], v[ 1 ], v[ 2 ], v[ 3 ] );
        return bluetoe::bootloader::error_codes::success;
    }
    bluetoe::bootloader::error_codes run( std::uintptr_t ) { return bluetoe::bootloader::error_codes::success; }
    bluetoe::bootloader::error_codes reset() { return bluetoe::bootloader::error_codes::success; }
    void control_point_notification_call_back() {}
    void data_indication_call_back() { std::printf( "    data indication requested\n" ); }
};

typedef bluetoe::bootloader::controller< handler, bluetoe::bootloader::white_list< bluetoe::bootloader::memory_region< lo, hi > >, page > bootloader_t;

static std::vector< std::uint8_t > cp( std::uint8_t opcode, std::initializer_list< std::uintptr_t > addresses )
{
    std::vector< std::uint8_t > v( 1, opcode );
    for ( std::uintptr_t a : addresses )
        for ( std::size_t i = 0; i != sizeof( std::uint8_t* ); ++i, a >>= 8 ) v.push_back( a & 0xff );
    return v;
}

static int write_cp( bootloader_t& b, const std::vector< std::uint8_t >& v, std::size_t size = ~std::size_t( 0 ) )
{
    const int rc = b.bootloader_write_control_point( size == ~std::size_t( 0 ) ? v.size() : size, v.data() ).first;
    std::printf( "  control point write opcode %d, %d bytes -> 0x%02x\n", v[ 0 ], (int)( size == ~std::size_t( 0 ) ? v.size() : size ), rc );
    return rc;
}

static int write_data( bootloader_t& b, std::size_t n, std::uint8_t value )
{
    const std::vector< std::uint8_t > v( n, value );
    const int rc = b.bootloader_write_data( n, v.data() );
    std::printf( "  data write %d bytes of 0x%02x -> 0x%02x\n", (int)n, value, rc );
    return rc;
}

int main()
{
    int findings = 0;
    {
        std::printf( "1. Read (opcode 8) written with ONE byte: the 16 address bytes are parsed from behind the value\n" );
        bootloader_t b;
        const std::vector< std::uint8_t > v = cp( 8, { lo, lo + 0x10 } );      // only v[0] is 'written'
        if ( write_cp( b, v, 1 ) == 0 ) { ++findings; std::printf( "    accepted: start/end address came from memory behind the 1 byte value\n" ); }
    }
    {
        std::printf( "2. Start Flash at the first address BEHIND the region (acceptable( start, start ) with end <= End)\n" );
        bootloader_t b;
        write_cp( b, cp( 3, { hi } ) );
        write_data( b, 1, 0x11 );
        write_cp( b, cp( 5, {} ) );
        findings += b.outside;
    }
    {
        std::printf( "3. Start Flash inside the region, data running over the end of the region: the next page is never checked\n" );
        bootloader_t b;
        write_cp( b, cp( 3, { hi - 0x10 } ) );
        write_data( b, 0x10, 0x22 );
        write_data( b, 0x10, 0x33 );
        write_cp( b, cp( 5, {} ) );
        findings += b.outside;
    }
    {
        std::printf( "4. Get CRC during a flash session overwrites the flash address: the second page goes to the wrong address\n" );
        bootloader_t b;
        write_cp( b, cp( 3, { lo } ) );
        write_cp( b, cp( 1, { lo + 0x200, lo + 0x210 } ) );
        for ( int i = 0; i != 16; ++i ) b.bootloader_write_data( 0x10, std::vector< std::uint8_t >( 0x10, 0x44 ).data() );
        write_data( b, 1, 0x55 );                                               // belongs to 0x1100
        write_cp( b, cp( 5, {} ) );                                             // is flashed to 0x1300
        ++findings;
    }
    {
        std::printf( "5. Read procedure while in flash mode: data writes advance the read position past the end -> size underflow\n" );
        bootloader_t b;
        write_cp( b, cp( 3, { lo } ) );
        write_cp( b, cp( 8, { hi - 4, hi } ) );
        write_data( b, 8, 0x66 );
        std::uint8_t out[ 20 ]; std::size_t size = 0;
        b.bootloader_read_data( sizeof out, out, size );
        findings += b.outside;
    }
    {
        std::printf( "6. Start Flash while the previous flash is still running; its end_flash() frees the buffer of the new session\n" );
        bootloader_t b;
        std::uint8_t out[ 20 ]; std::size_t size = 0;
        write_cp( b, cp( 3, { lo } ) );
        write_data( b, 2, 0x71 );
        write_cp( b, cp( 5, {} ) );                                             // flash #1 running
        write_cp( b, cp( 3, { lo } ) );
        write_data( b, 2, 0x72 );                                               // these two bytes ...
        b.bootloader_progress_data( sizeof out, out, size );                    // flash #1 finished
        write_data( b, 2, 0x73 );
        write_cp( b, cp( 5, {} ) );                                             // ... are missing here (aa aa = old content)
        ++findings;
    }
    std::printf( "%d findings reproduced\n", findings );
    return findings ? 1 : 0;
}
