// C39: drives the real bootloader controller (bluetoe::bootloader::controller< recording_handler,
// white_list< memory_region<..>... >, PageSize >, the class bootloader_service mixes into a server) through its
// public write / read functions - the functions the GATT characteristics are bound to - and records every call
// together with every call the controller made into the user handler (the "effects") as NDJSON.
//   usage: bootloader_harness <script> <trace>
// script lines (ints):
//   reset                        new controller, new simulated device memory
//   cp <len> <b0> <b1> ...       bootloader_write_control_point( len, value )     value: exact-size heap buffer
//   data <len> <b0> ...          bootloader_write_data( len, value )              value: exact-size heap buffer
//   rdata <size>                 the data indication is sent: bootloader_read_data( size, out ) - only if the
//                                controller asked for it (data_indication_call_back), otherwise logged as skipped
//   rcp                          the control point notification is sent: bootloader_read_control_point( 20, out )
//                                - only if one is due (write returned notify / control_point_notification_call_back)
//   progress                     a started flash finished, end_flash() -> the progress notification is sent:
//                                bootloader_progress_data( 20, out ) - only if a flash is outstanding
// Configuration at compile time: BL_PAGE (page size), BL_REGIONS (memory_region list), BL_REGION_JSON (the same
// list as JSON [[start,end-exclusive],..] for the Reset event).
// Executions run in a forked child; when an execution crashes (ASan / UBSan / signal: recorded as {"e":"Crash"}
// by the tracer) the parent continues with the next execution in a new child.
#include <iterator>
#include <vector>
#include <map>
#include <memory>
#include <algorithm>
#include <sys/mman.h>
#include <sys/wait.h>
#include <bluetoe/server.hpp>
#include <bluetoe/services/bootloader.hpp>
#include "trace.hpp"

#ifndef BL_PAGE
#define BL_PAGE 4
#endif
#ifndef BL_REGIONS
#define BL_REGIONS bluetoe::bootloader::memory_region< 8, 16 >
#define BL_REGION_JSON "[[8,16]]"
#endif

// trace.hpp defines the sanitizer hooks inline: take their addresses so that they are emitted and the
// sanitizer runtime finds them (a report then becomes a {"e":"Crash"} event instead of a silent exit)
void (* const volatile verif_keep_hooks[])() = { &__asan_on_error, &__ubsan_on_report };

static const long long SAT = 1ll << 29;      // addresses / sizes are logged saturated (TLC integers are 32 bit)
static long long sat( std::uintptr_t v ) { return v > (std::uintptr_t)SAT ? SAT : (long long)v; }

struct effect { const char* k; std::uintptr_t a; std::size_t n; std::vector< std::uint8_t > d; };

// the user handler: simulated device memory (pattern + flashed pages), every call is recorded
struct recording_handler
{
    std::vector< effect >                     fx;
    std::map< std::uintptr_t, std::uint8_t >  flashed;
    bool                                      cp_notification_due, data_indication_due;
    int                                       flashes_outstanding;

    recording_handler() : cp_notification_due( false ), data_indication_due( false ), flashes_outstanding( 0 ) {}

    static std::uint8_t pattern( std::uintptr_t a ) { return static_cast< std::uint8_t >( a * 7 + 3 ); }
    std::uint8_t mem( std::uintptr_t a ) const
    {
        const auto p = flashed.find( a );
        return p == flashed.end() ? pattern( a ) : p->second;
    }
    void note( const char* k, std::uintptr_t a, std::size_t n ) { effect e = { k, a, n, {} }; fx.push_back( e ); }
    static std::size_t bounded( std::size_t n ) { return std::min< std::size_t >( n, 1u << 16 ); }

    std::pair< const std::uint8_t*, std::size_t > get_version()
    {
        static const std::uint8_t version[] = { 0x47, 0x11 };
        note( "version", 0, 0 );
        return std::pair< const std::uint8_t*, std::size_t >( version, sizeof( version ) );
    }
    void read_mem( std::uintptr_t address, std::size_t size, std::uint8_t* destination )
    {
        note( "readmem", address, size );
        for ( std::size_t i = 0; i != size; ++i ) destination[ i ] = mem( address + i );
    }
    std::uint32_t checksum32( std::uintptr_t start_addr, std::size_t size )
    {
        note( "crcmem", start_addr, size );
        std::uint32_t r = 0;
        for ( std::size_t i = 0; i != bounded( size ); ++i ) r += mem( start_addr + i );
        return r;
    }
    std::uint32_t checksum32( const std::uint8_t* start_addr, std::size_t size, std::uint32_t old_crc )
    {
        note( "crcbuf", 0, size );
        for ( ; size; ++start_addr, --size ) old_crc += *start_addr;
        return old_crc;
    }
    static std::uint32_t address_crc( std::uintptr_t a ) { return static_cast< std::uint32_t >( ( a % 100000 ) * 31 + 7 ); }
    std::uint32_t checksum32( std::uintptr_t start_addr )
    {
        note( "crcaddr", start_addr, 0 );
        return address_crc( start_addr );
    }
    bluetoe::bootloader::error_codes public_read_mem( std::uintptr_t address, std::size_t size, std::uint8_t* destination )
    {
        note( "pubread", address, size );
        for ( std::size_t i = 0; i != size; ++i ) destination[ i ] = mem( address + i );
        return bluetoe::bootloader::error_codes::success;
    }
    std::uint32_t public_checksum32( std::uintptr_t start_addr, std::size_t size )
    {
        note( "pubcrc", start_addr, size );
        std::uint32_t r = 0;
        for ( std::size_t i = 0; i != bounded( size ); ++i ) r += mem( start_addr + i );
        return r;
    }
    bluetoe::bootloader::error_codes start_flash( std::uintptr_t address, const std::uint8_t* values, std::size_t size )
    {
        effect e = { "flash", address, size, std::vector< std::uint8_t >( values, values + size ) };
        fx.push_back( e );
        for ( std::size_t i = 0; i != size; ++i ) flashed[ address + i ] = values[ i ];
        ++flashes_outstanding;
        return bluetoe::bootloader::error_codes::success;
    }
    bluetoe::bootloader::error_codes run( std::uintptr_t start_addr ) { note( "run", start_addr, 0 ); return bluetoe::bootloader::error_codes::success; }
    bluetoe::bootloader::error_codes reset() { note( "reset", 0, 0 ); return bluetoe::bootloader::error_codes::success; }
    void control_point_notification_call_back() { note( "cpnotify", 0, 0 ); cp_notification_due = true; }
    void data_indication_call_back() { note( "dataind", 0, 0 ); data_indication_due = true; }
};

typedef bluetoe::bootloader::controller< recording_handler, bluetoe::bootloader::white_list< BL_REGIONS >, BL_PAGE > controller_t;

static void log_effects( verif::tracer& t, std::vector< effect >& fx )
{
    std::string s = "[";
    for ( std::size_t i = 0; i != fx.size(); ++i )
    {
        char buf[ 128 ];
        std::snprintf( buf, sizeof buf, "%s{\"k\":\"%s\",\"a\":%lld,\"n\":%lld,\"d\":[", i ? "," : "", fx[ i ].k, sat( fx[ i ].a ), sat( fx[ i ].n ) );
        s += buf;
        for ( std::size_t j = 0; j != fx[ i ].d.size(); ++j ) { std::snprintf( buf, sizeof buf, "%s%d", j ? "," : "", (int)fx[ i ].d[ j ] ); s += buf; }
        s += "]}";
    }
    s += "]";
    t.raw( "fx", s );
    fx.clear();
}

static std::unique_ptr< std::uint8_t[] > exact( const verif::command& c, std::size_t len )
{
    std::unique_ptr< std::uint8_t[] > p( new std::uint8_t[ len ] );
    for ( std::size_t i = 0; i != len; ++i ) p[ i ] = static_cast< std::uint8_t >( c.arg( 1 + i ) );
    return p;
}

static void run_execution( verif::tracer& t, const std::vector< verif::command >& cmds )
{
    std::unique_ptr< controller_t > b( new controller_t );
    t.ev( "Reset" ).f( "page", BL_PAGE ).raw( "regions", BL_REGION_JSON ).f( "asize", (int)sizeof( std::uint8_t* ) ).end();
    t.flush();

    for ( const verif::command& c : cmds )
    {
        if ( c.op == "cp" )
        {
            const std::size_t len = c.arg( 0 );
            std::unique_ptr< std::uint8_t[] > v = exact( c, len );
            const std::pair< std::uint8_t, bool > r = b->bootloader_write_control_point( len, v.get() );
            if ( r.second ) b->cp_notification_due = true;
            t.ev( "cp" ).f( "len", (int)len ).fl( "bytes", v.get(), len ).f( "r", (int)r.first ).f( "notify", r.second );
            log_effects( t, b->fx );
        }
        else if ( c.op == "data" )
        {
            const std::size_t len = c.arg( 0 );
            std::unique_ptr< std::uint8_t[] > v = exact( c, len );
            const std::uint8_t r = b->bootloader_write_data( len, v.get() );
            t.ev( "data" ).f( "len", (int)len ).fl( "bytes", v.get(), len ).f( "r", (int)r );
            log_effects( t, b->fx );
        }
        else if ( c.op == "rdata" )
        {
            const std::size_t size = c.arg( 0 );
            if ( !b->data_indication_due ) { t.ev( "rdata" ).f( "skipped", true ).f( "size", (int)size ).raw( "out", "[]" ).raw( "fx", "[]" ).end(); continue; }
            b->data_indication_due = false;
            std::unique_ptr< std::uint8_t[] > out( new std::uint8_t[ size ] );
            std::size_t out_size = 0;
            b->bootloader_read_data( size, out.get(), out_size );
            t.ev( "rdata" ).f( "skipped", false ).f( "size", (int)size ).fl( "out", out.get(), std::min( out_size, size ) );
            log_effects( t, b->fx );
        }
        else if ( c.op == "rcp" )
        {
            if ( !b->cp_notification_due ) { t.ev( "rcp" ).f( "skipped", true ).raw( "out", "[]" ).raw( "fx", "[]" ).end(); continue; }
            b->cp_notification_due = false;
            const std::size_t size = 20;
            std::unique_ptr< std::uint8_t[] > out( new std::uint8_t[ size ] );
            std::size_t out_size = 0;
            b->bootloader_read_control_point( size, out.get(), out_size );
            t.ev( "rcp" ).f( "skipped", false ).fl( "out", out.get(), std::min( out_size, size ) );
            log_effects( t, b->fx );
        }
        else if ( c.op == "progress" )
        {
            if ( b->flashes_outstanding == 0 ) { t.ev( "progress" ).f( "skipped", true ).f( "crc", 0 ).f( "cons", 0 ).raw( "fx", "[]" ).end(); continue; }
            --b->flashes_outstanding;
            const std::size_t size = 20;
            std::unique_ptr< std::uint8_t[] > out( new std::uint8_t[ size ] );
            std::size_t out_size = 0;
            b->bootloader_progress_data( size, out.get(), out_size );
            const long long crc  = out[ 0 ] | ( out[ 1 ] << 8 ) | ( out[ 2 ] << 16 ) | ( (long long)out[ 3 ] << 24 );
            t.ev( "progress" ).f( "skipped", false ).f( "crc", crc > SAT ? SAT : crc ).f( "cons", out[ 4 ] | ( out[ 5 ] << 8 ) );
            log_effects( t, b->fx );
        }
        else { std::fprintf( stderr, "bad op %s\n", c.op.c_str() ); std::exit( 3 ); }
        t.end();
        t.flush();
    }
}

int main( int argc, char** argv )
{
    if ( argc < 3 ) return 3;
    std::ifstream in( argv[ 1 ] );
    std::vector< std::vector< verif::command > > executions;
    verif::command c;
    while ( verif::read_command( in, c ) )
    {
        if ( c.op == "reset" ) executions.push_back( std::vector< verif::command >() );
        else if ( executions.empty() ) return 3;
        else executions.back().push_back( c );
    }

    verif::tracer t( argv[ 2 ] );
    t.flush();
    // progress[0]: index of the execution the child is working on, progress[1]: child finished all
    volatile long* progress = static_cast< volatile long* >( mmap( nullptr, 4096, PROT_READ | PROT_WRITE, MAP_SHARED | MAP_ANONYMOUS, -1, 0 ) );
    if ( progress == MAP_FAILED ) return 3;
    std::size_t next = 0;
    while ( next < executions.size() )
    {
        progress[ 0 ] = next; progress[ 1 ] = 0;
        const pid_t pid = fork();
        if ( pid < 0 ) return 3;
        if ( pid == 0 )
        {
            for ( std::size_t i = next; i != executions.size(); ++i )
            {
                progress[ 0 ] = i;
                run_execution( t, executions[ i ] );
            }
            t.flush();
            progress[ 1 ] = 1;
            _exit( 0 );
        }
        int status = 0;
        waitpid( pid, &status, 0 );
        if ( progress[ 1 ] ) break;
        next = progress[ 0 ] + 1;       // the execution that crashed is over
    }
    return 0;
}
