// Standalone reproductions of the defects found by the C06 / C08 checks (checks/att_values.py) on the unchanged tree.
//
//   g++ -std=c++11 -DNDEBUG -I/repo -I/repo/bluetoe/utility/include -I/repo/bluetoe/link_layer/include \
//       -I/repo/bluetoe/sm/include harness/att/repro_att_findings.cpp -o /tmp/repro_att && /tmp/repro_att
//
// Every case prints what the server answered and "DEFECT" when the defect is present, exit code = number of defects.
#include <iterator>
#include <cstdint>
#include <cstdio>
#include <cstring>
#include <algorithm>
#include <bluetoe/server.hpp>
#include <bluetoe/link_state.hpp>

// ------------------------------------------------------------------------------------------------ C06 (a)
// fixed_uint16_value + no_read_access: a Write Request is answered with *Read* Not Permitted (0x02)
typedef bluetoe::server<
    bluetoe::no_gap_service_for_gatt_servers,
    bluetoe::service<
        bluetoe::service_uuid16< 0xE201 >,
        bluetoe::characteristic<
            bluetoe::characteristic_uuid16< 0xE2A6 >,
            bluetoe::fixed_uint16_value< 0x4321 >,
            bluetoe::no_read_access,
            bluetoe::notify > >
> fixed_server;

// ------------------------------------------------------------------------------------------------ C06 (b)
// read handler + no_read_access (+ notify): the properties octet says "not readable", every read path returns the value
static std::uint8_t secret[ 4 ] = { 0xde, 0xad, 0xbe, 0xef };

static std::uint8_t read_secret( std::size_t offset, std::size_t read_size, std::uint8_t* out, std::size_t& out_size )
{
    if ( offset > sizeof( secret ) ) return bluetoe::error_codes::invalid_offset;
    out_size = std::min( read_size, sizeof( secret ) - offset );
    std::copy( secret + offset, secret + offset + out_size, out );
    return bluetoe::error_codes::success;
}

typedef bluetoe::server<
    bluetoe::no_gap_service_for_gatt_servers,
    bluetoe::service<
        bluetoe::service_uuid16< 0xE202 >,
        bluetoe::characteristic<
            bluetoe::characteristic_uuid16< 0xE2B4 >,
            bluetoe::free_read_blob_handler< &read_secret >,
            bluetoe::no_read_access,
            bluetoe::notify > >
> handler_server;

// ------------------------------------------------------------------------------------------------ C08
// max_mtu_size< 65 >, the client never exchanges the MTU (ATT_MTU = 23): a notification of a 40 octet value polled the way
// bluetoe::details::l2cap does it (capacity = maximum MTU) is 43 octets long
static std::uint8_t long_value[ 40 ] = { 1, 2, 3, 4, 5, 6, 7, 8, 9, 10, 11, 12, 13, 14, 15, 16, 17, 18, 19, 20,
                                         21, 22, 23, 24, 25, 26, 27, 28, 29, 30, 31, 32, 33, 34, 35, 36, 37, 38, 39, 40 };

typedef bluetoe::server<
    bluetoe::no_gap_service_for_gatt_servers,
    bluetoe::max_mtu_size< 65 >,
    bluetoe::service<
        bluetoe::service_uuid16< 0xE301 >,
        bluetoe::characteristic<
            bluetoe::characteristic_uuid16< 0xE3A1 >,
            bluetoe::bind_characteristic_value< decltype( long_value ), &long_value >,
            bluetoe::notify > >
> mtu_server;

template < class Server >
struct fixture
{
    typedef typename Server::template channel_data_t< bluetoe::details::link_state > connection_t;
    Server       server;
    connection_t con;
    std::uint8_t out[ 256 ];
    std::size_t  out_size;

    fixture() { server.notification_callback( &cb, this ); }

    static bool cb( const bluetoe::details::notification_data& item, void* that, bluetoe::details::notification_type type )
    {
        fixture& f = *static_cast< fixture* >( that );
        if ( type == bluetoe::details::notification_type::notification )
            return f.con.queue_notification( item.client_characteristic_configuration_index() );
        return false;
    }

    void request( std::initializer_list< std::uint8_t > pdu )
    {
        out_size = Server::maximum_channel_mtu_size;
        server.l2cap_input( pdu.begin(), pdu.size(), out, out_size, con );
        print( "  response    " );
    }

    void print( const char* what ) const
    {
        std::printf( "%s(%2u):", what, (unsigned)out_size );
        for ( std::size_t i = 0; i != out_size; ++i ) std::printf( " %02x", out[ i ] );
        std::printf( "\n" );
    }
};

int main()
{
    int defects = 0;

    std::printf( "C06 (a) fixed_uint16_value + no_read_access: Write Request to the value (handle 3)\n" );
    {
        fixture< fixed_server > f;
        f.request( { 0x12, 0x03, 0x00, 0x01 } );
        const bool bad = f.out_size == 5 && f.out[ 0 ] == 0x01 && f.out[ 4 ] == 0x02;
        std::printf( "  expected    error 0x03 (Write Not Permitted)  %s\n", bad ? "-> DEFECT: Read Not Permitted (0x02)" : "ok" );
        defects += bad;
    }

    std::printf( "C06 (b) free_read_blob_handler + no_read_access + notify: properties, then Read / Read Blob / Read By Type\n" );
    {
        fixture< handler_server > f;
        f.request( { 0x0a, 0x02, 0x00 } );                                  // characteristic declaration
        const bool readable_bit = f.out_size > 1 && ( f.out[ 1 ] & 0x02 );
        std::printf( "  properties  0x%02x (read bit %s)\n", f.out[ 1 ], readable_bit ? "set" : "clear" );
        f.request( { 0x0a, 0x03, 0x00 } );                                  // Read Request of the value
        const bool leak1 = f.out_size == 5 && f.out[ 0 ] == 0x0b && std::memcmp( f.out + 1, secret, 4 ) == 0;
        f.request( { 0x0c, 0x03, 0x00, 0x01, 0x00 } );                      // Read Blob
        const bool leak2 = f.out_size == 4 && f.out[ 0 ] == 0x0d;
        f.request( { 0x08, 0x01, 0x00, 0xff, 0xff, 0xb4, 0xe2 } );          // Read By Type
        const bool leak3 = f.out_size == 8 && f.out[ 0 ] == 0x09;
        const bool bad = !readable_bit && ( leak1 || leak2 || leak3 );
        std::printf( "  expected    error 0x02 (Read Not Permitted) on every path  %s\n", bad ? "-> DEFECT: the value is returned" : "ok" );
        defects += bad;
    }

    std::printf( "C08 max_mtu_size<65>, no Exchange MTU (ATT_MTU 23): notification of a 40 octet value\n" );
    {
        fixture< mtu_server > f;
        f.request( { 0x12, 0x04, 0x00, 0x01, 0x00 } );                      // subscribe
        f.request( { 0x0a, 0x03, 0x00 } );                                  // a read is cut to 23 octets
        const std::size_t read_size = f.out_size;
        f.server.notify( long_value );
        // bluetoe/l2cap.hpp transmit_single_pending_l2cap_output(): capacity = maximum_mtu_size of the channels
        f.out_size = mtu_server::maximum_channel_mtu_size;
        f.server.l2cap_output( f.out, f.out_size, f.con );
        f.print( "  notification" );
        const bool bad = f.out_size > f.con.negotiated_mtu();
        std::printf( "  negotiated MTU %u, Read Response %u octets, notification %u octets  %s\n", (unsigned)f.con.negotiated_mtu(),
            (unsigned)read_size, (unsigned)f.out_size, bad ? "-> DEFECT: longer than ATT_MTU" : "ok" );
        defects += bad;
    }

    std::printf( "%d defect(s) reproduced\n", defects );
    return defects;
}
