// ATT security / write queue / notification / framing harness for a generated Bluetoe GATT server (C05, C07, C10, C01).
//
//   build:  g++ ... -DVERIF_SERVER_HEADER='"<name>.hpp"' -DVERIF_EXT_HEADER='"<name>_ext.hpp"' -I<dir of the generated headers>
//   usage:  attsec_harness <name.norm.json> <script> <trace.ndjson>
//
// Same conventions as harness/gatt/gatt_harness.cpp (server type from tools/gen_server.py, ONE server object,
// VERIF_CONNECTIONS connection objects `server_t::channel_data_t<details::link_state>` wired to the notification callback
// like tests/test_tools/test_servers.hpp). <name>_ext.hpp is written by checks/_attsec.py and adds notify / indicate by
// characteristic UUID (verif_ext::notify_uuid).
//
// Memory safety binding (C01): every PDU is copied into a heap buffer of exactly the PDU size (the PDU ends at the end of
// the allocation), the response buffer is a heap buffer of exactly the negotiated MTU (= the size announced to the server); ASan / UBSan reports
// and signals become {"e":"Crash"} events (harness/common/trace.hpp; run with UBSAN_OPTIONS=abort_on_error=1).
//
// script (one command per line, integers decimal or 0x..), every command produces exactly ONE event:
//   reset                    new server + connections, values restored -> {"e":"Reset","decl":<norm.json>,"n":..,"smtu":..,"nconn":..}
//   cccds <h1> <h2> ..       handles of the CCCDs to observe            -> {"e":"Cccds","hs":[..]}
//   obs <0|1>                log the observation (vals, cccd) with every event (default 1) -> {"e":"Obs","on":bool}
//   setval <serial> <b0> ..  overwrite the memory of a bound value      -> {"e":"SetVal","serial":s,"val":[..]}
//   mtu <c> <m>              Exchange MTU Request                       -> {"e":"Mtu","c":c,"cm":m,"out":[..],"mtu":negotiated}
//   req <c> <b0> <b1> ..     any ATT PDU on connection c                -> {"e":"Req","c":c,"in":[..],"out":[..],"mtu":negotiated}
//   sec <c> <enc> <pair>     link_state::is_encrypted / pairing_status  -> {"e":"Sec","c":c,"enc":bool,"pair":0..3}
//   notify <serial> <ind> <how>  how 0: server.notify/indicate(bound value), 1: notify/indicate< UUID >()
//                                                                       -> {"e":"Notify","serial":s,"ind":bool,"how":h,"r":-1|0|1}
//   out <c>                  poll server.l2cap_output once               -> {"e":"Out","c":c,"out":[..]}
//   drain <c>                poll l2cap_output until it stays empty; every indication is confirmed (0x1E) by the client
//                                                                       -> {"e":"Drain","c":c,"outs":[[..],..],"polls":n}
//   disc <c>                 server.client_disconnected + fresh connection object -> {"e":"Disc","c":c}
// Observation appended to every event while obs = 1:
//   "vals":[[serial,[bytes]],..]   memory of every bound / const / handler value
//   "cccd":[[c,h,v],..]            every observed CCCD on every connection, v = first octet that a Read Request of h on an
//                                  encrypted link returns (the link state is switched for the read and restored), -1 = error
#include <iterator>
#include <memory>
#include <string>
#include <vector>
#include VERIF_SERVER_HEADER
#include <bluetoe/link_state.hpp>
#ifdef VERIF_EXT_HEADER
#include VERIF_EXT_HEADER
#endif
#include "trace.hpp"

#ifndef VERIF_CONNECTIONS
#define VERIF_CONNECTIONS 3
#endif

using server_t = verif::server_t;
using connection_t = typename server_t::template channel_data_t< bluetoe::details::link_state >;

static constexpr std::size_t number_of_attributes =
    bluetoe::details::sum_by< typename server_t::services, bluetoe::details::sum_by_attributes >::value;

struct fixture {
    server_t      server;
    connection_t  con[ VERIF_CONNECTIONS ];

    fixture() { server.notification_callback( &notify_cb, this ); }

    // as tests/test_tools/test_servers.hpp: queue on every connection
    static bool notify_cb( const bluetoe::details::notification_data& item, void* that, bluetoe::details::notification_type type )
    {
        fixture& f = *static_cast< fixture* >( that );
        bool result = false;
        for ( auto& c : f.con )
        {
            switch ( type )
            {
                case bluetoe::details::notification_type::notification:
                    result = c.queue_notification( item.client_characteristic_configuration_index() ) || result;
                    break;
                case bluetoe::details::notification_type::indication:
                    result = c.queue_indication( item.client_characteristic_configuration_index() ) || result;
                    break;
                case bluetoe::details::notification_type::confirmation:
                    // the link layer does this for the connection that received the confirmation; the harness tells
                    // which one that is
                    if ( f.confirming ) f.confirming->indication_confirmed();
                    result = true;
                    break;
            }
        }
        return result;
    }

    connection_t* confirming = nullptr;
};

static std::unique_ptr< fixture > fx;
static std::vector< unsigned >    cccd_handles;
static bool                       observe = true;

// one request on exact-size heap buffers
static std::vector< std::uint8_t > request( int c, const std::vector< std::uint8_t >& in )
{
    std::unique_ptr< std::uint8_t[] > ibuf( new std::uint8_t[ in.size() ? in.size() : 1 ] );
    std::copy( in.begin(), in.end(), ibuf.get() );
    // the l2cap layer offers no more than the negotiated MTU: the output buffer has exactly that size, whatever the
    // length of the input is (input length and output capacity vary independently)
    const std::size_t smax = server_t::maximum_channel_mtu_size;
    const std::size_t cap  = std::min< std::size_t >( smax, fx->con[ c ].negotiated_mtu() );
    std::unique_ptr< std::uint8_t[] > obuf( new std::uint8_t[ cap ] );
    std::size_t out_size = cap;
    fx->confirming = &fx->con[ c ];
    fx->server.l2cap_input( ibuf.get(), in.size(), obuf.get(), out_size, fx->con[ c ] );
    fx->confirming = nullptr;
    if ( out_size > cap ) out_size = cap + 1;       // reported, never read
    return std::vector< std::uint8_t >( obuf.get(), obuf.get() + std::min( out_size, cap ) );
}

static std::vector< std::uint8_t > output( int c )
{
    const std::size_t smax = server_t::maximum_channel_mtu_size;       // copy: no ODR-use of the constexpr member
    const std::size_t cap  = std::min< std::size_t >( smax, fx->con[ c ].negotiated_mtu() );
    std::unique_ptr< std::uint8_t[] > obuf( new std::uint8_t[ cap ] );
    std::size_t out_size = cap;
    fx->server.l2cap_output( obuf.get(), out_size, fx->con[ c ] );
    if ( out_size > cap ) out_size = cap;
    return std::vector< std::uint8_t >( obuf.get(), obuf.get() + out_size );
}

static std::string bytes_json( const std::uint8_t* p, std::size_t n )
{
    std::string s = "[";
    for ( std::size_t i = 0; i != n; ++i ) s += ( i ? "," : "" ) + std::to_string( p[ i ] );
    return s + "]";
}

static void log_observation( verif::tracer& t )
{
    if ( !observe ) return;
    std::string s = "[";
    for ( const verif::value_ref* v = verif::values; v->serial; ++v )
        s += ( v == verif::values ? "[" : ",[" ) + std::to_string( v->serial ) + "," + bytes_json( v->mem, v->size ) + "]";
    t.raw( "vals", s + "]" );

    std::string cc = "[";
    bool first = true;
    for ( int c = 0; c != VERIF_CONNECTIONS; ++c )
    {
        const bool enc = fx->con[ c ].is_encrypted();
        fx->con[ c ].is_encrypted( true );
        for ( unsigned h : cccd_handles )
        {
            std::vector< std::uint8_t > in;
            in.push_back( 0x0a ); in.push_back( h & 0xff ); in.push_back( h >> 8 );
            const auto out = request( c, in );
            const int v = ( out.size() == 3 && out[ 0 ] == 0x0b ) ? out[ 1 ] + 256 * out[ 2 ] : -1;
            cc += std::string( first ? "[" : ",[" ) + std::to_string( c ) + "," + std::to_string( h ) + "," + std::to_string( v ) + "]";
            first = false;
        }
        fx->con[ c ].is_encrypted( enc );
    }
    t.raw( "cccd", cc + "]" );
}

int main( int argc, char** argv )
{
    if ( argc < 4 ) { std::fprintf( stderr, "usage: %s <norm.json> <script> <trace>\n", argv[ 0 ] ); return 3; }
    std::string decl;
    { std::ifstream d( argv[ 1 ] ); std::getline( d, decl ); }
    if ( decl.empty() || decl[ 0 ] != '{' ) { std::fprintf( stderr, "bad declaration file %s\n", argv[ 1 ] ); return 3; }
    std::ifstream in( argv[ 2 ] );
    verif::tracer t( argv[ 3 ] );
    verif::command c;
    while ( verif::read_command( in, c ) )
    {
        const int ci = static_cast< int >( c.arg( 0 ) );
        if ( c.op == "reset" )
        {
            verif::reset_values();
            fx.reset( new fixture );
            observe = true;
            t.ev( "Reset" ).raw( "decl", decl ).f( "n", (long long)number_of_attributes )
             .f( "smtu", (long long)server_t::maximum_channel_mtu_size ).f( "nconn", (long long)VERIF_CONNECTIONS );
            t.flush();
            continue;
        }
        if ( !fx ) { std::fprintf( stderr, "script must start with reset\n" ); return 3; }
        const bool needs_connection = c.op == "mtu" || c.op == "req" || c.op == "sec" || c.op == "out" || c.op == "drain" || c.op == "disc";
        if ( needs_connection && ( ci < 0 || ci >= VERIF_CONNECTIONS ) ) { std::fprintf( stderr, "bad connection\n" ); return 3; }

        if ( c.op == "cccds" )
        {
            cccd_handles.clear();
            for ( long long h : c.a ) cccd_handles.push_back( static_cast< unsigned >( h ) );
            t.ev( "Cccds" ).fl( "hs", cccd_handles );
        }
        else if ( c.op == "obs" )
        {
            observe = c.arg( 0 ) != 0;
            t.ev( "Obs" ).f( "on", observe );
        }
        else if ( c.op == "setval" )
        {
            std::vector< std::uint8_t > val;
            bool found = false;
            for ( const verif::value_ref* v = verif::values; v->serial; ++v )
            {
                if ( v->serial != c.arg( 0 ) ) continue;
                found = true;
                for ( std::size_t i = 0; i != v->size && i + 1 < c.a.size(); ++i )
                    v->mem[ i ] = static_cast< std::uint8_t >( c.a[ i + 1 ] );
                val.assign( v->mem, v->mem + v->size );
            }
            if ( !found ) { std::fprintf( stderr, "setval: no such value\n" ); return 3; }
            t.ev( "SetVal" ).f( "serial", c.arg( 0 ) ).fl( "val", val );
        }
        else if ( c.op == "mtu" )
        {
            const unsigned m = static_cast< unsigned >( c.arg( 1 ) );
            std::vector< std::uint8_t > inp;
            inp.push_back( 0x02 ); inp.push_back( m & 0xff ); inp.push_back( m >> 8 );
            const auto out = request( ci, inp );
            t.ev( "Mtu" ).f( "c", ci ).f( "cm", (long long)m ).fl( "out", out ).f( "mtu", (long long)fx->con[ ci ].negotiated_mtu() );
        }
        else if ( c.op == "req" )
        {
            std::vector< std::uint8_t > inp;
            for ( std::size_t i = 1; i < c.a.size(); ++i ) inp.push_back( static_cast< std::uint8_t >( c.a[ i ] ) );
            if ( inp.empty() ) { std::fprintf( stderr, "empty request\n" ); return 3; }
            const auto out = request( ci, inp );
            t.ev( "Req" ).f( "c", ci ).fl( "in", inp ).fl( "out", out ).f( "mtu", (long long)fx->con[ ci ].negotiated_mtu() );
        }
        else if ( c.op == "sec" )
        {
            fx->con[ ci ].is_encrypted( c.arg( 1 ) != 0 );
            fx->con[ ci ].pairing_status( static_cast< bluetoe::device_pairing_status >( c.arg( 2 ) ) );
            t.ev( "Sec" ).f( "c", ci ).f( "enc", c.arg( 1 ) != 0 ).f( "pair", c.arg( 2 ) );
        }
        else if ( c.op == "notify" )
        {
            const int  serial = static_cast< int >( c.arg( 0 ) );
            const bool ind    = c.arg( 1 ) != 0;
            const int  how    = static_cast< int >( c.arg( 2 ) );
            int r = -1;
            if ( how == 0 ) r = verif::notify( fx->server, serial, ind );
#ifdef VERIF_EXT_HEADER
            else            r = verif_ext::notify_uuid( fx->server, serial, ind );
#endif
            t.ev( "Notify" ).f( "serial", serial ).f( "ind", ind ).f( "how", how ).f( "r", r );
        }
        else if ( c.op == "out" )
        {
            t.ev( "Out" ).f( "c", ci ).fl( "out", output( ci ) );
        }
        else if ( c.op == "drain" )
        {
            std::string outs = "[";
            int polls = 0, empties = 0, n = 0;
            const std::size_t ncfg = server_t::number_of_client_configs;
            const int limit = 2 * static_cast< int >( ncfg ) + 2;
            while ( empties < limit && polls < 200 )
            {
                const auto out = output( ci );
                ++polls;
                if ( out.empty() ) { ++empties; continue; }
                empties = 0;
                outs += ( n++ ? "," : "" ) + bytes_json( out.data(), out.size() );
                if ( out[ 0 ] == 0x1d )
                {
                    std::vector< std::uint8_t > conf( 1, 0x1e );
                    request( ci, conf );
                }
            }
            t.ev( "Drain" ).f( "c", ci ).raw( "outs", outs + "]" ).f( "polls", polls );
        }
        else if ( c.op == "disc" )
        {
            fx->server.client_disconnected( fx->con[ ci ] );
            fx->con[ ci ] = connection_t();
            t.ev( "Disc" ).f( "c", ci );
        }
        else { std::fprintf( stderr, "bad op %s\n", c.op.c_str() ); return 3; }
        log_observation( t );
        t.end();
    }
    t.flush();
    return 0;
}
