// Standalone reproduction of the defects behind the known findings of C05, C07, C10, C01 (no framework needed):
//   g++ -std=c++11 -DNDEBUG -I/repo -I/repo/bluetoe/utility/include -I/repo/bluetoe/link_layer/include \
//       -I/repo/bluetoe/sm/include harness/attsec/repro_attsec_defects.cpp -o repro && ./repro
// Every line printed with "DEFECT" shows behaviour that contradicts the property; the last case dereferences a null
// pointer (segmentation fault with -DNDEBUG, assertion without) and is therefore run last.
#include <iterator>
#include <cstdio>
#include <initializer_list>
#include <vector>
#include <bluetoe/server.hpp>

static std::uint8_t open_value[ 4 ] = { 1, 2, 3, 4 }, secret[ 4 ] = { 0xA0, 0xA1, 0xA2, 0xA3 };
static std::uint8_t n1[ 1 ] = { 0x11 }, n2[ 1 ] = { 0x22 }, n3[ 1 ] = { 0x33 };

// handles: 1 service | 2 decl 3 value (open) | 4 decl 5 value (requires_encryption) | 6 decl 7 value 8 CCCD (notify)
using queue_server = bluetoe::server<
    bluetoe::no_gap_service_for_gatt_servers,
    bluetoe::shared_write_queue< 30 >,
    bluetoe::service< bluetoe::service_uuid16< 0x1701 >,
        bluetoe::characteristic< bluetoe::characteristic_uuid16< 0x1711 >, bluetoe::bind_characteristic_value< decltype( open_value ), &open_value > >,
        bluetoe::characteristic< bluetoe::characteristic_uuid16< 0x1712 >, bluetoe::bind_characteristic_value< decltype( secret ), &secret >, bluetoe::requires_encryption >,
        bluetoe::characteristic< bluetoe::characteristic_uuid16< 0x1713 >, bluetoe::bind_characteristic_value< decltype( n1 ), &n1 >, bluetoe::notify > > >;

// handles: 1 service | 2 decl 3 value 4 CCCD (n1) | 5 decl 6 value 7 CCCD (n2) | 8 decl 9 value 10 CCCD (n3); n3 has priority
using prio_server = bluetoe::server<
    bluetoe::no_gap_service_for_gatt_servers,
    bluetoe::service< bluetoe::service_uuid16< 0x1A01 >,
        bluetoe::higher_outgoing_priority< bluetoe::characteristic_uuid16< 0x1A13 > >,
        bluetoe::characteristic< bluetoe::characteristic_uuid16< 0x1A11 >, bluetoe::bind_characteristic_value< decltype( n1 ), &n1 >, bluetoe::notify >,
        bluetoe::characteristic< bluetoe::characteristic_uuid16< 0x1A12 >, bluetoe::bind_characteristic_value< decltype( n2 ), &n2 >, bluetoe::notify >,
        bluetoe::characteristic< bluetoe::characteristic_uuid16< 0x1A13 >, bluetoe::bind_characteristic_value< decltype( n3 ), &n3 >, bluetoe::notify > > >;

template < class Server >
struct fixture
{
    using connection = typename Server::template channel_data_t< bluetoe::details::link_state >;
    Server     srv;
    connection con;

    fixture() { srv.notification_callback( &cb, this ); }

    static bool cb( const bluetoe::details::notification_data& item, void* that, bluetoe::details::notification_type type )
    {
        fixture& f = *static_cast< fixture* >( that );
        if ( type == bluetoe::details::notification_type::notification )
            return f.con.queue_notification( item.client_characteristic_configuration_index() );
        if ( type == bluetoe::details::notification_type::indication )
            return f.con.queue_indication( item.client_characteristic_configuration_index() );
        f.con.indication_confirmed();
        return true;
    }

    void request( const char* what, std::initializer_list< std::uint8_t > in )
    {
        std::vector< std::uint8_t > i( in );
        std::uint8_t out[ 23 ];
        std::size_t  size = sizeof( out );
        srv.l2cap_input( i.data(), i.size(), out, size, con );
        print( what, out, size );
    }

    void output( const char* what )
    {
        std::uint8_t out[ 23 ];
        std::size_t  size = sizeof( out );
        srv.l2cap_output( out, size, con );
        print( what, out, size );
    }

    static void print( const char* what, const std::uint8_t* out, std::size_t size )
    {
        std::printf( "%s\n   ->", what );
        for ( std::size_t k = 0; k != size; ++k ) std::printf( " %02x", out[ k ] );
        std::printf( size ? "\n" : " (nothing)\n" );
    }
};

int main()
{
    {
        fixture< queue_server > f;
        f.con.is_encrypted( true );
        f.con.pairing_status( bluetoe::device_pairing_status::unauthenticated_key );
        f.request( "       Write Request to the requires_encryption value 5 on an ENCRYPTED link: accepted", { 0x12, 5, 0, 9, 9, 9, 9 } );
        f.request( "DEFECT C07 Prepare Write to the same value on the same encrypted link: rejected with Insufficient Authentication (check_write probes with default security attributes)",
            { 0x16, 5, 0, 0, 0, 9, 9, 9, 9 } );
        f.con.is_encrypted( false );
        f.request( "       Write Request to value 5, link unencrypted but PAIRED: Insufficient Encryption (0x0f)", { 0x12, 5, 0, 9, 9, 9, 9 } );
        f.request( "DEFECT C05 Prepare Write to value 5, link unencrypted but paired: Insufficient Authentication (0x05) instead of Insufficient Encryption (0x0f)",
            { 0x16, 5, 0, 0, 0, 9, 9, 9, 9 } );
        f.request( "DEFECT C01 Handle Value Notification (0x1b) sent by the client is answered with an Error Response", { 0x1b, 3, 0, 1 } );
        f.request( "DEFECT C01 Signed Write Command (0xd2) is answered with an Error Response (commands get no response)", { 0xd2, 3, 0, 1, 0, 0, 0, 0, 0, 0, 0, 0, 0, 0, 0, 0 } );
        f.request( "DEFECT C01 unknown command (opcode 0x40, command flag set) is answered with an Error Response", { 0x40, 0 } );
        f.request( "DEFECT C01 Handle Value Confirmation with a trailing octet is answered with an Error Response", { 0x1e, 0 } );
    }
    {
        fixture< prio_server > f;
        f.request( "       subscribe n1 (CCCD 4)", { 0x12, 4, 0, 1, 0 } );
        f.request( "       subscribe n2 (CCCD 7)", { 0x12, 7, 0, 1, 0 } );
        f.request( "       subscribe n3 (CCCD 10)", { 0x12, 10, 0, 1, 0 } );
        f.srv.notify( n1 );
        f.output( "DEFECT C10 notify( n1 ) (value handle 3, value 11) with higher_outgoing_priority< n3 >: the PDU carries another characteristic" );
        f.srv.notify( n3 );
        f.output( "DEFECT C10 notify( n3 ) (value handle 9, value 33): the PDU carries another characteristic" );
        f.srv.notify< bluetoe::characteristic_uuid16< 0x1A11 > >();
        f.output( "       notify< 0x1A11 >() by UUID: handle 3, value 11 as requested" );
    }
    {
        fixture< queue_server > f;
        std::fflush( stdout );
        f.request( "DEFECT C01 Prepare Write to the CCCD 8: check_write passes a default constructed client_characteristic_configuration, flags() dereferences nullptr",
            { 0x16, 8, 0, 0, 0, 1, 0 } );
    }
    return 0;
}
