// C14: calls advertising_data(buffer, n) / scan_response_data(buffer, n) of generated server types on exact-size
// heap buffers and records a trace.
//   usage: advdata_harness <script> <trace>
// script lines:  <declaration id> <0 = advertising_data | 1 = scan_response_data> <n>
// The server types come from a generated header (-DADVDATA_DECLS="<path>"), written by checks/advdata.py from the
// abstract declarations; every declaration registers
//   { id, AdvData declaration record as JSON, &adv, &sr }   with VERIF_ADVDATA_DECL( id, namespace, json ).
// A Reset event (carrying the declaration) is written whenever the declaration id changes and at the start, so a
// script may be continued by a fresh process after a crash.
// The buffer is malloc( n ): ASan's red zone starts right behind the n-th octet (and right before the first), so
// any access outside the offered buffer is a Crash event (n = 0: the one-past-the-end pointer of a 1 octet block).
#include <iterator>
#include <cstring>
#include <cstdlib>
#include <bluetoe/server.hpp>
#include <bluetoe/service.hpp>
#include <bluetoe/characteristic.hpp>
#include <bluetoe/adv_service_list.hpp>
#include <bluetoe/appearance.hpp>
#include <bluetoe/peripheral_connection_interval_range.hpp>
#include <bluetoe/custom_advertising.hpp>
#include <bluetoe/server_name.hpp>
#include <bluetoe/gap_service.hpp>
#include "trace.hpp"

namespace verif {
    typedef std::size_t (*fill_fn)( std::uint8_t*, std::size_t );
    struct decl_entry { int id; const char* json; fill_fn adv; fill_fn sr; };

    inline std::vector< decl_entry >& registry() { static std::vector< decl_entry > r; return r; }

    // one server object per declaration, constructed (and configured, for the run-time options) on first use
    template < class Decl >
    struct bound {
        typedef typename Decl::server_t server_t;
        static server_t& inst() { static server_t* s = make(); return *s; }
        static server_t* make() { server_t* s = new server_t(); Decl::setup( *s ); return s; }
        static std::size_t adv( std::uint8_t* b, std::size_t n ) { return inst().advertising_data( b, n ); }
        static std::size_t sr( std::uint8_t* b, std::size_t n ) { return inst().scan_response_data( b, n ); }
    };

    struct registrar { registrar( int id, const char* json, fill_fn a, fill_fn s ) { decl_entry e = { id, json, a, s }; registry().push_back( e ); } };
}

#define VERIF_ADVDATA_DECL( ID, DECL, JSON ) \
    static verif::registrar verif_reg_##ID( ID, JSON, &verif::bound< DECL >::adv, &verif::bound< DECL >::sr );

#include ADVDATA_DECLS

// trace.hpp defines the sanitizer hooks inline: take their addresses so that they are emitted and the sanitizer
// runtime finds them (a report then becomes a {"e":"Crash"} event and the buffered events are flushed)
void (* const volatile verif_keep_hooks[])() = { &__asan_on_error, &__ubsan_on_report };

int main( int argc, char** argv )
{
    if ( argc < 3 ) return 3;
    std::ifstream in( argv[ 1 ] );
    verif::tracer t( argv[ 2 ] );
    verif::command c;
    long long current = -1;
    const verif::decl_entry* e = nullptr;

    while ( verif::read_command( in, c ) )
    {
        const long long id = std::strtoll( c.op.c_str(), nullptr, 10 );
        const bool      sr = c.arg( 0 ) != 0;
        const std::size_t n = static_cast< std::size_t >( c.arg( 1 ) );

        if ( id != current )
        {
            e = nullptr;
            for ( const auto& d : verif::registry() ) if ( d.id == id ) e = &d;
            if ( !e ) { std::fprintf( stderr, "unknown declaration %lld\n", id ); return 3; }
            current = id;
            t.ev( "Reset" ).f( "id", id ).raw( "decl", e->json ).end();
            t.flush();
        }

        // n == 0: malloc( 0 ) is a 1 octet region for ASan, so offer the end of a 1 octet block instead
        std::uint8_t* const block  = static_cast< std::uint8_t* >( std::malloc( n ? n : 1 ) );
        std::uint8_t* const buffer = n ? block : block + 1;
        std::memset( block, 0xA5, n ? n : 1 );

        const std::size_t r = sr ? e->sr( buffer, n ) : e->adv( buffer, n );

        t.ev( sr ? "sr" : "adv" ).f( "n", (long long)n ).f( "r", (long long)r ).fl( "out", buffer, r < n ? r : n ).end();
        std::free( block );
    }
    t.flush();
    return 0;
}
