// C24 / C25: drives the real bluetoe::link_layer::link_layer<> in its advertising state through a small
// harness-owned scheduled radio and records every public call / radio callback and every scheduling request.
//
//   usage: adv_harness <script> <trace>              (the link-layer configuration is compiled in: -DADV_CFG=n)
//
// script (one op per line):
//   reset [pub]            new link layer + radio (pub: local_address() is set to a public address before run)
//   run                    link_layer::run()         (first call enters the advertising state)
//   start | startn N | stop                          (no_auto_start_advertising configurations only)
//   add C | rem C          add_channel_to_advertising_channel_map / remove_channel_from_advertsing_channel_map
//   iv MS                  advertising_interval_ms( MS )
//   to                     radio reports adv_timeout() for the scheduled advertisement
//   rx SIZE B0 B1 ...      radio reports adv_received(): bytes B.. (over the air: 2 byte header, payload) are copied to
//                          the receive buffer given with schedule_advertisment, read_buffer::size = SIZE
//   disc                   the radio reports timeout() for every scheduled connection event until the link layer gives up
//   disc?                  the same, but only if a connection event is scheduled (no event otherwise)
//   drain K | sync37       up to K adv_timeout() while an advertisement is scheduled | until the scheduled one is on channel 37
//   wait US                idle time passes
//   wladd ID | wlclear | wlconn B | wlscan B         white list (configurations with white_list<N>)
//   peer ID                directed_advertising_address( addr(ID) )
//   type K                 change_advertising< K-th configured type >()
//   qf ID                  is_scan_request_in_filter( addr(ID) ), is_connection_request_in_filter( addr(ID) )
// address id k -> bytes {k/2+1, 0x10, 0x20, 0x30, 0x40, 0xC0}, random iff k odd   (as harness/whitelist)
//
// trace: {"e":"Reset",...configuration...}, then per op one event (logged after the call returned) with
//   "ntx": number of schedule_advertisment calls it caused, "ncn": number of schedule_connection_event calls,
//   "pend": an advertisement is scheduled at the radio after the call
// followed by one {"e":"AdvTx","ch":c,"t_us":t,"when_us":w,"busy":b,"pdu":[..],"rsp":[..]} per schedule_advertisment
// call (t = T0 + when, T0 := t, as documented in scheduled_radio.hpp; busy = the radio was not idle; pdu = header and
// first 12 payload bytes of the advertising PDU, rsp = header + AdvA of the scan response data, [] if none was given).
// The radio uses the default PDU layout (2 byte header, payload).
#include <iterator>
#include <vector>
#include <algorithm>
#include <bluetoe/ll_data_pdu_buffer.hpp>
#include <bluetoe/link_layer.hpp>
#include <bluetoe/server.hpp>
#include <bluetoe/service.hpp>
#include <bluetoe/characteristic.hpp>
#include <bluetoe/gatt_options.hpp>
#include <bluetoe/white_list.hpp>
#include "trace.hpp"

#ifndef ADV_CFG
#define ADV_CFG 1
#endif

namespace ll = bluetoe::link_layer;

namespace adv {

struct tx_rec {
    unsigned ch; long long t, when; bool busy;
    std::vector< std::uint8_t > pdu, rsp;
};

struct radio_state {
    long long T0 = 0, clock = 0;
    bool adv_pending = false, conn_pending = false;
    ll::read_buffer receive{ nullptr, 0 };
    std::vector< tx_rec > txq;
    unsigned nconn = 0, last_ch = 0;
    std::uint32_t aa = 0, crc = 0;
};

static radio_state* g_radio = nullptr;

// over-the-air bytes of a PDU in the default layout: 2 byte header, header length field bytes of payload
static std::vector< std::uint8_t > pdu_bytes( const ll::write_buffer& b )
{
    std::vector< std::uint8_t > r;
    if ( !b.buffer || b.size < 2 )
        return r;
    const std::size_t n = std::min< std::size_t >( b.size, 2u + ( b.buffer[ 1 ] & 0xff ) );
    r.assign( b.buffer, b.buffer + n );
    return r;
}

template < std::size_t TransmitSize, std::size_t ReceiveSize, typename CallBack >
class radio : public ll::ll_data_pdu_buffer< TransmitSize, ReceiveSize, radio< TransmitSize, ReceiveSize, CallBack > >
{
public:
    radio() { st_ = radio_state(); g_radio = &st_; }

    void schedule_advertisment( unsigned channel, const ll::write_buffer& advertising_data, const ll::write_buffer& response_data,
        ll::delta_time when, const ll::read_buffer& receive )
    {
        tx_rec r;
        r.ch   = channel;
        r.when = when.usec();
        r.t    = std::max( st_.T0 + r.when, st_.clock );
        r.busy = st_.adv_pending || st_.conn_pending;
        r.pdu  = pdu_bytes( advertising_data );
        r.rsp  = pdu_bytes( response_data );
        st_.T0 = r.t;
        st_.last_ch = channel;
        st_.adv_pending  = true;
        st_.receive      = receive;
        st_.txq.push_back( r );
    }

    ll::delta_time schedule_connection_event( unsigned, ll::delta_time, ll::delta_time, ll::delta_time )
    {
        st_.conn_pending = true;
        st_.adv_pending  = false;
        ++st_.nconn;
        return ll::delta_time();
    }

    std::pair< bool, ll::delta_time > disarm_connection_event() { return { false, ll::delta_time() }; }
    bool schedule_synchronized_user_timer( ll::delta_time, ll::delta_time ) { return false; }
    bool cancel_synchronized_user_timer() { return false; }
    void wake_up() {}
    void request_event_cancelation() {}
    void run() {}
    void set_access_address_and_crc_init( std::uint32_t a, std::uint32_t c ) { st_.aa = a; st_.crc = c; }
    std::uint32_t static_random_address_seed() const { return 0x47110815; }
    void increment_receive_packet_counter() {}
    void increment_transmit_packet_counter() {}
    void radio_set_phy( ll::phy_ll_encoding::phy_ll_encoding_t, ll::phy_ll_encoding::phy_ll_encoding_t ) {}

    struct lock_guard { lock_guard() {} ~lock_guard() {} };

    static constexpr std::size_t radio_maximum_white_list_entries = 0;
    static constexpr bool hardware_supports_encryption = false;
    static constexpr bool hardware_supports_2mbit = false;
    static constexpr bool hardware_supports_synchronized_user_timer = false;
    static constexpr unsigned connection_event_setup_time_us = 100u;

    radio_state st_;
};

std::uint16_t temperature_value = 0x0104;

typedef bluetoe::server<
    bluetoe::service<
        bluetoe::service_uuid< 0x8C8B4094, 0x0DE2, 0x499F, 0xA28A, 0x4EED5BC73CA9 >,
        bluetoe::characteristic<
            bluetoe::characteristic_uuid< 0x8C8B4094, 0x0DE2, 0x499F, 0xA28A, 0x4EED5BC73CAA >,
            bluetoe::bind_characteristic_value< decltype( temperature_value ), &temperature_value >,
            bluetoe::no_write_access
        >
    >,
    bluetoe::no_gap_service_for_gatt_servers
> server_t;

using sizes = ll::buffer_sizes< 100u, 100u >;

// ---- configurations ---------------------------------------------------------------------------
#if ADV_CFG == 1        // manual start, run-time channel map, run-time interval, white list
  #define HAS_START 1
  #define HAS_MAP 1
  #define HAS_IV 1
  #define HAS_WL 3
  #define IV0_MS 100
  static const int type_codes[] = { 0 };
  using link_layer_t = ll::link_layer< server_t, radio, sizes, ll::no_auto_start_advertising,
        ll::variable_advertising_channel_map, ll::variable_advertising_interval, ll::white_list< 3 > >;
#elif ADV_CFG == 2      // automatic start, run-time channel map, run-time interval
  #define HAS_MAP 1
  #define HAS_IV 1
  #define IV0_MS 100
  static const int type_codes[] = { 0 };
  using link_layer_t = ll::link_layer< server_t, radio, sizes, ll::variable_advertising_channel_map, ll::variable_advertising_interval >;
#elif ADV_CFG == 3      // all defaults but a 20 ms interval
  #define IV0_MS 20
  static const int type_codes[] = { 0 };
  using link_layer_t = ll::link_layer< server_t, radio, sizes, ll::advertising_interval< 20 > >;
#elif ADV_CFG == 4      // manual start, fixed map, 10.24 s
  #define HAS_START 1
  #define IV0_MS 10240
  static const int type_codes[] = { 0 };
  using link_layer_t = ll::link_layer< server_t, radio, sizes, ll::no_auto_start_advertising, ll::advertising_interval< 10240 > >;
#elif ADV_CFG == 5      // all four advertising types, white list
  #define HAS_WL 3
  #define HAS_TYPES 4
  #define HAS_PEER 1
  #define IV0_MS 100
  static const int type_codes[] = { 0, 1, 6, 2 };
  using link_layer_t = ll::link_layer< server_t, radio, sizes, ll::white_list< 3 >,
        ll::connectable_undirected_advertising, ll::connectable_directed_advertising,
        ll::scannable_undirected_advertising, ll::non_connectable_undirected_advertising >;
#elif ADV_CFG == 6      // directed only, white list
  #define HAS_WL 3
  #define HAS_PEER 1
  #define IV0_MS 100
  static const int type_codes[] = { 1 };
  using link_layer_t = ll::link_layer< server_t, radio, sizes, ll::white_list< 3 >, ll::connectable_directed_advertising >;
#elif ADV_CFG == 7      // scannable only, white list
  #define HAS_WL 3
  #define IV0_MS 100
  static const int type_codes[] = { 6 };
  using link_layer_t = ll::link_layer< server_t, radio, sizes, ll::white_list< 3 >, ll::scannable_undirected_advertising >;
#elif ADV_CFG == 8      // non connectable only, no white list
  #define IV0_MS 100
  static const int type_codes[] = { 2 };
  using link_layer_t = ll::link_layer< server_t, radio, sizes, ll::non_connectable_undirected_advertising >;
#elif ADV_CFG == 9      // connectable undirected (default type), no white list option, manual start
  #define HAS_START 1
  #define IV0_MS 100
  static const int type_codes[] = { 0 };
  using link_layer_t = ll::link_layer< server_t, radio, sizes, ll::no_auto_start_advertising >;
#elif ADV_CFG >= 10 && ADV_CFG <= 14   // all defaults but a compile time interval that is no multiple of 0.625 ms (nor of 5 ms)
  #if ADV_CFG == 10
    #define IV0_MS 33
  #elif ADV_CFG == 11
    #define IV0_MS 21
  #elif ADV_CFG == 12
    #define IV0_MS 152
  #elif ADV_CFG == 13
    #define IV0_MS 1022
  #else
    #define IV0_MS 10239
  #endif
  static const int type_codes[] = { 0 };
  using link_layer_t = ll::link_layer< server_t, radio, sizes, ll::advertising_interval< IV0_MS > >;
#else
  #error unknown ADV_CFG
#endif

#ifndef HAS_START
#define HAS_START 0
#endif
#ifndef HAS_MAP
#define HAS_MAP 0
#endif
#ifndef HAS_IV
#define HAS_IV 0
#endif
#ifndef HAS_WL
#define HAS_WL 0
#endif
#ifndef HAS_TYPES
#define HAS_TYPES 0
#endif
#ifndef HAS_PEER
#define HAS_PEER 0
#endif

static ll::device_address addr( int k )
{
    const std::uint8_t b[ 6 ] = { std::uint8_t( k / 2 + 1 ), 0x10, 0x20, 0x30, 0x40, 0xC0 };
    return ( k & 1 ) ? ll::device_address( ll::random_device_address( b ) ) : ll::device_address( ll::public_device_address( b ) );
}

static void log_addr( verif::tracer& t, const char* key, const char* rkey, const ll::device_address& a )
{
    t.fl( key, a.begin(), a.end() ).f( rkey, a.is_random() );
}

struct driver {
    link_layer_t* l = nullptr;
    verif::tracer& t;
    unsigned ncn_seen = 0;

    explicit driver( verif::tracer& tr ) : t( tr ) {}

    radio_state& rs() { return *g_radio; }

    void reset( bool pub )
    {
        delete l;
        l = new link_layer_t();
        ncn_seen = 0;
        if ( pub )
        {
            static const std::uint8_t b[ 6 ] = { 0x21, 0x43, 0x65, 0x87, 0xa9, 0x4b };
            l->local_address( ll::device_address( ll::public_device_address( b ) ) );
        }
        t.ev( "Reset" ).f( "cfg", ADV_CFG ).f( "auto", !HAS_START ).f( "varmap", bool( HAS_MAP ) ).f( "variv", bool( HAS_IV ) )
         .f( "iv_us", IV0_MS * 1000 ).f( "wln", HAS_WL );
        t.fl( "types", std::begin( type_codes ), std::end( type_codes ) );
        log_addr( t, "own", "ownr", l->local_address() );
        t.end();
    }

    // finishes the event of a call and appends the scheduling requests the call caused
    void done()
    {
        radio_state& r = rs();
        t.f( "ntx", (long long)r.txq.size() ).f( "ncn", (long long)( r.nconn - ncn_seen ) ).f( "pend", r.adv_pending );
        t.end();
        ncn_seen = r.nconn;
        for ( const tx_rec& x : r.txq )
        {
            t.ev( "AdvTx" ).f( "ch", x.ch ).f( "t_us", x.t ).f( "when_us", x.when ).f( "busy", x.busy );
            t.fl( "pdu", x.pdu.begin(), x.pdu.begin() + std::min< std::size_t >( x.pdu.size(), 14 ) ).fl( "rsp", x.rsp.begin(), x.rsp.begin() + std::min< std::size_t >( x.rsp.size(), 8 ) );
            t.end();
        }
        r.txq.clear();
    }
};

template < int K > struct type_at;
#if HAS_TYPES
template <> struct type_at< 0 > { using type = ll::connectable_undirected_advertising; };
template <> struct type_at< 1 > { using type = ll::connectable_directed_advertising; };
template <> struct type_at< 2 > { using type = ll::scannable_undirected_advertising; };
template <> struct type_at< 3 > { using type = ll::non_connectable_undirected_advertising; };
#endif

static int run( const char* script, const char* trace )
{
    std::ifstream in( script );
    verif::tracer t( trace );
    verif::command c;
    driver d( t );

    while ( verif::read_command( in, c ) )
    {
        if ( c.op == "reset" ) { d.reset( !c.w.empty() && c.w[ 0 ] == "pub" ); continue; }
        if ( !d.l ) { std::fprintf( stderr, "op before reset\n" ); return 3; }
        link_layer_t& l = *d.l;
        radio_state& r  = d.rs();

        if ( c.op == "run" ) { l.run(); t.ev( "Run" ); }
        else if ( c.op == "to" )
        {
            const bool p = r.adv_pending;
            if ( p ) { r.adv_pending = false; r.clock = std::max( r.clock, r.T0 ); l.adv_timeout(); }
            t.ev( "Timeout" ).f( "was_pend", p );
        }
        else if ( c.op == "drain" || c.op == "sync37" )
        {
            // drain K: up to K adv_timeout() while an advertisement is scheduled; sync37: until the scheduled one is on channel 37
            const bool sync = c.op == "sync37";
            for ( int k = 0; k < ( sync ? 3 : int( c.arg( 0 ) ) ) && r.adv_pending && !( sync && r.last_ch == 37 ); ++k )
            {
                r.adv_pending = false; r.clock = std::max( r.clock, r.T0 ); l.adv_timeout();
                t.ev( "Timeout" ).f( "was_pend", true );
                d.done();
            }
            continue;
        }
        else if ( c.op == "rx" )
        {
            const bool p = r.adv_pending;
            const std::size_t size = std::size_t( c.arg( 0 ) );
            std::vector< std::uint8_t > bytes;
            for ( std::size_t i = 1; i < c.a.size(); ++i ) bytes.push_back( std::uint8_t( c.a[ i ] ) );
            if ( p )
            {
                ll::read_buffer rb = r.receive;
                // a radio never reports more than the buffer it was given
                const std::size_t n = std::min( bytes.size(), rb.size );
                std::fill( rb.buffer, rb.buffer + rb.size, 0xEE );
                std::copy( bytes.begin(), bytes.begin() + n, rb.buffer );
                rb.size = std::min( size, rb.size );
                r.adv_pending = false; r.clock = std::max( r.clock, r.T0 );
                l.adv_received( rb );
            }
            t.ev( "AdvRx" ).f( "was_pend", p ).f( "size", (long long)size ).fl( "pdu", bytes );
        }
        else if ( c.op == "disc" || c.op == "disc?" )
        {
            if ( c.op == "disc?" && !r.conn_pending ) continue;
            int k = 0;
            while ( r.conn_pending && k < 20 ) { r.conn_pending = false; r.clock += 30000; l.timeout(); ++k; }
            t.ev( "Disc" ).f( "k", k ).f( "still_conn", r.conn_pending );
        }
        else if ( c.op == "wait" ) { if ( !r.adv_pending ) r.clock += c.arg( 0 ); continue; }
#if HAS_START
        else if ( c.op == "start" )  { l.start_advertising(); t.ev( "Start" ); }
        else if ( c.op == "startn" ) { l.start_advertising( unsigned( c.arg( 0 ) ) ); t.ev( "StartN" ).f( "n", c.arg( 0 ) ); }
        else if ( c.op == "stop" )   { l.stop_advertising(); t.ev( "Stop" ); }
#endif
#if HAS_MAP
        else if ( c.op == "add" ) { l.add_channel_to_advertising_channel_map( unsigned( c.arg( 0 ) ) ); t.ev( "AddCh" ).f( "c", c.arg( 0 ) ); }
        else if ( c.op == "rem" ) { l.remove_channel_from_advertsing_channel_map( unsigned( c.arg( 0 ) ) ); t.ev( "RemCh" ).f( "c", c.arg( 0 ) ); }
#endif
#if HAS_IV
        else if ( c.op == "iv" ) { l.advertising_interval_ms( unsigned( c.arg( 0 ) ) ); t.ev( "SetIv" ).f( "ms", c.arg( 0 ) ); }
#endif
#if HAS_WL
        else if ( c.op == "wladd" )   { const bool res = l.add_to_white_list( addr( c.arg( 0 ) ) ); t.ev( "WlAdd" ); log_addr( t, "a", "ar", addr( c.arg( 0 ) ) ); t.f( "r", res ); }
        else if ( c.op == "wlclear" ) { l.clear_white_list(); t.ev( "WlClear" ); }
        else if ( c.op == "wlconn" )  { l.connection_request_filter( c.arg( 0 ) != 0 ); t.ev( "ConnF" ).f( "b", c.arg( 0 ) != 0 ); }
        else if ( c.op == "wlscan" )  { l.scan_request_filter( c.arg( 0 ) != 0 ); t.ev( "ScanF" ).f( "b", c.arg( 0 ) != 0 ); }
#endif
        else if ( c.op == "qf" )
        {
            const bool s = l.is_scan_request_in_filter( addr( c.arg( 0 ) ) );
            const bool q = l.is_connection_request_in_filter( addr( c.arg( 0 ) ) );
            t.ev( "FilterQ" ); log_addr( t, "a", "ar", addr( c.arg( 0 ) ) ); t.f( "scan", s ).f( "conn", q );
        }
#if HAS_PEER
        else if ( c.op == "peer" ) { l.directed_advertising_address( addr( c.arg( 0 ) ) ); t.ev( "Peer" ); log_addr( t, "a", "ar", addr( c.arg( 0 ) ) ); }
#endif
#if HAS_TYPES
        else if ( c.op == "type" )
        {
            switch ( c.arg( 0 ) ) {
                case 0: l.change_advertising< type_at< 0 >::type >(); break;
                case 1: l.change_advertising< type_at< 1 >::type >(); break;
                case 2: l.change_advertising< type_at< 2 >::type >(); break;
                default: l.change_advertising< type_at< 3 >::type >(); break;
            }
            t.ev( "Type" ).f( "k", c.arg( 0 ) ).f( "code", type_codes[ c.arg( 0 ) & 3 ] );
        }
#endif
        else { std::fprintf( stderr, "bad op '%s' for ADV_CFG %d\n", c.op.c_str(), ADV_CFG ); return 3; }
        d.done();
    }
    delete d.l;
    t.flush();
    return 0;
}

} // namespace adv

int main( int argc, char** argv )
{
    if ( argc < 3 ) return 3;
    return adv::run( argv[ 1 ], argv[ 2 ] );
}
