#!/bin/bash
# builds and runs the standalone reproductions against ${VERIF_REPO:-/repo}
R=${VERIF_REPO:-/repo}; O=${1:-/tmp/adv}; mkdir -p $O
g++ -std=c++11 -O1 -g -DNDEBUG -w -I$R -I$R/bluetoe/utility/include -I$R/bluetoe/link_layer/include -I$R/bluetoe/sm/include \
  -I$R/tests/test_tools $(dirname $0)/c24_repro.cpp $R/tests/test_tools/test_radio.cpp $R/tests/test_tools/test_servers.cpp $R/tests/test_tools/hexdump.cpp \
  $R/bluetoe/link_layer/channel_map.cpp $R/bluetoe/link_layer/delta_time.cpp $R/bluetoe/link_layer/connection_details.cpp \
  $R/bluetoe/utility/address.cpp -o $O/c24_repro && $O/c24_repro
