// Standalone reproduction of the three C24 findings with the repository's own simulated radio (tests/test_tools).
// build (from /verif):  see harness/adv/repro/build.sh          run: ./c24_repro
//   1  map {37,39}: variable_advertising_channel_map::next_channel() does not skip the disabled channel 38
//   2  the first advertising event after a restart (stop/start, count exhausted, disconnect) starts on the channel
//      that happened to be current when advertising stopped, not on the first enabled channel
//   3  stop_advertising(); start_advertising() while an advertisement is scheduled calls schedule_advertisment() again
//      although the radio is not idle (asserts in test::radio / nrf52 radio; NDEBUG: the same channel is scheduled twice)
#define BOOST_TEST_MODULE c24_repro
#include <boost/test/included/unit_test.hpp>
#include <iterator>
#include <bluetoe/link_layer.hpp>
#include "test_radio.hpp"
#include "test_servers.hpp"
#include <cstdio>

namespace bl = bluetoe::link_layer;

struct ll_t : bl::link_layer< test::small_temperature_service, test::radio, test::buffer_sizes,
    bl::variable_advertising_channel_map, bl::no_auto_start_advertising > {};

static void print( const char* what, const ll_t& l, std::size_t from = 0 )
{
    std::printf( "%s:", what );
    for ( std::size_t i = from; i < l.advertisings().size() && i < from + 8; ++i )
        std::printf( " %u@%ums", l.advertisings()[ i ].channel, unsigned( l.advertisings()[ i ].on_air_time.usec() / 1000 ) );
    std::printf( "\n" );
}

BOOST_AUTO_TEST_CASE( map_37_39_transmits_on_38 )
{
    ll_t l;
    l.remove_channel_from_advertsing_channel_map( 38 );
    l.start_advertising();
    l.run();
    print( "map {37,39}", l );
    unsigned on38 = 0;
    for ( const auto& a : l.advertisings() ) on38 += a.channel == 38;
    BOOST_CHECK_EQUAL( on38, 0u );          // fails: every event is 37, 38, 39
}

BOOST_AUTO_TEST_CASE( restart_begins_on_stale_channel )
{
    ll_t l;
    l.start_advertising( 2 );               // 37, 38
    l.run();
    const std::size_t n = l.advertisings().size();
    l.start_advertising();
    l.end_of_simulation( bl::delta_time::seconds( 11 ) );
    l.run();
    print( "after restart", l, n );
    BOOST_REQUIRE_GT( l.advertisings().size(), n );
    BOOST_CHECK_EQUAL( l.advertisings()[ n ].channel, 37u );   // fails: 38
}

BOOST_AUTO_TEST_CASE( stop_start_schedules_while_radio_busy )
{
    ll_t l;
    l.start_advertising();
    l.wake_up();                            // run() returns after one advertisement: channel 38 is scheduled now
    l.run();
    const std::size_t n = l.advertisings().size();
    l.stop_advertising();
    l.start_advertising();                  // schedules although the advertisement on 38 is still pending
    print( "stop/start", l );
    BOOST_CHECK_EQUAL( l.advertisings().size(), n );           // fails: n + 1, channel 38 twice
}
