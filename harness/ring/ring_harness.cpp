// C30: replays schedules (lists of context ids) on the real bluetoe::details::ring<CAP,int> with every
// shared access of try_push / try_pop being one scheduler step (hook H1), and records the call/return
// history in the global order fixed by the schedule.
//   usage: ring_harness <script> <trace>
// script lines:  reset <npush> <npop>   |   s <0|1>      (0 = producer context, 1 = consumer context)
#define VERIF_SCHEDULED 1
#include <iterator>
#include <bluetoe/ring.hpp>
#include "trace.hpp"

#ifndef CAP
#define CAP 2
#endif

typedef bluetoe::details::ring<CAP, int> ring_t;
static verif::scheduler& S = verif::scheduler::get();

struct run_state {
    ring_t* ring = nullptr;
    int npush = 0, npop = 0, pushes = 0, pops = 0;
    bool push_res = false, pop_res = false; int pop_val = 0;
    bool active[2] = {false, false};
};

static const char* name_of(const run_state& st, int ctx) {
    static std::string s;
    const char* base = reinterpret_cast<const char*>(st.ring);
    const std::ptrdiff_t off = static_cast<const char*>(S.pending_addr(ctx)) - base;
    const char* var = off < (std::ptrdiff_t)sizeof(verif::sched_atomic_int) ? "r"
                    : off < 2 * (std::ptrdiff_t)sizeof(verif::sched_atomic_int) ? "w" : "d";
    s = S.pending_kind(ctx) + "_" + var;
    return s.c_str();
}

static void finish_call(verif::tracer& t, run_state& st, int ctx) {
    S.join(ctx);
    st.active[ctx] = false;
    if (ctx == 0) { ++st.pushes; t.ev("PushEnd").f("r", st.push_res).end(); }
    else          { ++st.pops;   t.ev("PopEnd").f("r", st.pop_res).f("v", st.pop_res ? st.pop_val : 0).end(); }
}

// one schedule step of context ctx; returns false if the context has nothing left to do
static bool step(verif::tracer& t, run_state& st, int ctx) {
    if (!st.active[ctx]) {
        if (ctx == 0) {
            if (st.pushes >= st.npush) return false;
            const int v = st.pushes + 1;
            t.ev("PushBegin").f("v", v).end();
            S.begin(0, [&st, v] { st.push_res = st.ring->try_push(v); });
        } else {
            if (st.pops >= st.npop) return false;
            t.ev("PopBegin").end();
            S.begin(1, [&st] { int out = -1; st.pop_res = st.ring->try_pop(out); st.pop_val = out; });
        }
        st.active[ctx] = true;
        if (S.done(ctx)) { finish_call(t, st, ctx); return true; }   // call without any shared access
    }
    t.ev("Acc").f("p", ctx == 0 ? "P" : "C").f("k", name_of(st, ctx)).end();
    S.step(ctx);
    if (S.done(ctx)) finish_call(t, st, ctx);
    return true;
}

static void drain(verif::tracer& t, run_state& st) {
    // complete calls that the schedule left unfinished (round robin)
    for (bool any = true; any;) {
        any = false;
        for (int ctx = 0; ctx < 2; ++ctx) if (st.active[ctx]) { step(t, st, ctx); any = true; }
    }
}

int main(int argc, char** argv) {
    if (argc < 3) return 3;
    std::ifstream in(argv[1]);
    verif::tracer t(argv[2]);
    verif::command c;
    run_state st;
    while (verif::read_command(in, c)) {
        if (c.op == "reset") {
            if (st.ring) { drain(t, st); delete st.ring; }
            st = run_state();
            st.ring = new ring_t();
            st.npush = (int)c.arg(0); st.npop = (int)c.arg(1);
            t.ev("Reset").f("cap", CAP).end();
        } else if (c.op == "s") {
            step(t, st, (int)c.arg(0));
        } else return 3;
    }
    if (st.ring) { drain(t, st); delete st.ring; }
    t.flush();
    return 0;
}
