// Deterministic two-context scheduler for the interleaving checks (C30, C13).
//
// Each context (producer / consumer, ISR / main loop) runs its current library call on its own OS
// thread, but exactly one thread is runnable at any time: a context thread stops *inside* every
// instrumented shared access (before performing it) and continues only when the controller grants
// it a step. One step = perform the pending shared access and run up to the next one (or to the
// end of the call). A schedule is therefore a list of context ids - the same granularity as the
// labels of the TLA+ implementation models.
#ifndef VERIF_SCHED_HPP
#define VERIF_SCHED_HPP
#include <condition_variable>
#include <cstdint>
#include <cstddef>
#include <functional>
#include <mutex>
#include <string>
#include <thread>

namespace verif {

class scheduler {
public:
    static constexpr int max_ctx = 4;
    enum status_t { idle, running, at_access, finished };

    static scheduler& get() { static scheduler s; return s; }

    // ---- controller side ---------------------------------------------------------------
    // start a call in context ctx; returns when it reached its first shared access or finished
    void begin(int ctx, std::function<void()> fn) {
        ctx_t& c = ctx_[ctx];
        {
            std::unique_lock<std::mutex> l(m_);
            c.status = running; c.granted = false; c.job = fn; c.has_job = true;
            if (!c.thread.joinable())
                c.thread = std::thread([this, ctx] { worker(ctx); });
            cv_.notify_all();
        }
        wait_not_running(ctx);
    }
    bool active(int ctx) { std::unique_lock<std::mutex> l(m_); return ctx_[ctx].status == at_access; }
    bool done(int ctx)   { std::unique_lock<std::mutex> l(m_); return ctx_[ctx].status == finished || ctx_[ctx].status == idle; }
    // kind ("ld"/"st"/...) and address of the pending access
    std::string pending_kind(int ctx) { std::unique_lock<std::mutex> l(m_); return ctx_[ctx].kind; }
    const void* pending_addr(int ctx) { std::unique_lock<std::mutex> l(m_); return ctx_[ctx].addr; }
    // perform the pending access of ctx and run to the next one / the end of the call
    void step(int ctx) {
        {
            std::unique_lock<std::mutex> l(m_);
            ctx_t& c = ctx_[ctx];
            if (c.status != at_access) return;
            c.granted = true; c.status = running;
            cv_.notify_all();
        }
        wait_not_running(ctx);
    }
    // run the current call of ctx to its end
    void finish(int ctx) { while (active(ctx)) step(ctx); join(ctx); }
    void join(int ctx) { std::unique_lock<std::mutex> l(m_); ctx_[ctx].status = idle; }
    long steps() const { return steps_; }

    // ---- instrumented side ---------------------------------------------------------------
    // called inside a shared access, before it is performed. No-op on the controller thread.
    void access(const char* kind, const void* addr) {
        const int ctx = current();
        if (ctx < 0) return;
        std::unique_lock<std::mutex> l(m_);
        ctx_t& c = ctx_[ctx];
        c.kind = kind; c.addr = addr; c.status = at_access;
        cv_.notify_all();
        cv_.wait(l, [&c] { return c.granted; });
        c.granted = false;
        ++steps_;
    }
    ~scheduler() {
        { std::unique_lock<std::mutex> l(m_); quit_ = true; cv_.notify_all(); }
        for (auto& c : ctx_) if (c.thread.joinable()) c.thread.join();
    }
private:
    struct ctx_t {
        std::thread thread; status_t status = idle; bool granted = false; std::string kind; const void* addr = nullptr;
        std::function<void()> job; bool has_job = false;
    };
    // persistent worker thread of one context: executes the posted calls one after the other
    void worker(int ctx) {
        current() = ctx;
        ctx_t& c = ctx_[ctx];
        for (;;) {
            std::function<void()> job;
            {
                std::unique_lock<std::mutex> l(m_);
                cv_.wait(l, [this, &c] { return c.has_job || quit_; });
                if (quit_ && !c.has_job) return;
                job = c.job; c.has_job = false;
            }
            job();
            std::unique_lock<std::mutex> l(m_);
            c.status = finished;
            cv_.notify_all();
        }
    }
    bool quit_ = false;
    static int& current() { static thread_local int c = -1; return c; }
    void wait_not_running(int ctx) {
        std::unique_lock<std::mutex> l(m_);
        cv_.wait(l, [this, ctx] { return ctx_[ctx].status != running; });
    }
    std::mutex m_;
    std::condition_variable cv_;
    ctx_t ctx_[max_ctx];
    long steps_ = 0;
};

// std::atomic_int stand-in: load()/store() are single scheduled accesses (sequentially consistent)
class sched_atomic_int {
public:
    sched_atomic_int(int v = 0) : v_(v) {}
    int load() const { scheduler::get().access("ld", this); return v_; }
    void store(int v) { scheduler::get().access("st", this); v_ = v; }
    operator int() const { return load(); }
    sched_atomic_int& operator=(int v) { store(v); return *this; }
    // atomic read-modify-write operations are ONE access
    int fetch_add(int d) { scheduler::get().access("rmw", this); int o = v_; v_ += d; return o; }
    int exchange(int n) { scheduler::get().access("rmw", this); int o = v_; v_ = n; return o; }
    bool compare_exchange_strong(int& e, int d) { scheduler::get().access("rmw", this); if (v_ == e) { v_ = d; return true; } e = v_; return false; }
    bool compare_exchange_weak(int& e, int d) { return compare_exchange_strong(e, d); }
private:
    int v_;
};

// a plain (non-atomic) shared memory cell: every read is a load access, every write a store
// access, and a compound assignment is load - store (two accesses, as on a load/store machine)
template <class T>
class sched_cell {
public:
    sched_cell() : v_() {}
    sched_cell(T v) : v_(v) {}
    operator T() const { scheduler::get().access("ld", this); return v_; }
    sched_cell& operator=(T v) { scheduler::get().access("st", this); v_ = v; return *this; }
    sched_cell& operator=(const sched_cell& o) { T t = o; return *this = t; }
    template <class U> sched_cell& operator|=(U x) { T t = *this; return *this = static_cast<T>(t | x); }
    template <class U> sched_cell& operator&=(U x) { T t = *this; return *this = static_cast<T>(t & x); }
    template <class U> sched_cell& operator^=(U x) { T t = *this; return *this = static_cast<T>(t ^ x); }
    template <class U> sched_cell& operator+=(U x) { T t = *this; return *this = static_cast<T>(t + x); }
    template <class U> sched_cell& operator-=(U x) { T t = *this; return *this = static_cast<T>(t - x); }
    T raw() const { return v_; }      // harness-only peek, not an access
private:
    T v_;
};

// T data_[N] stand-in: element reads / writes are scheduled accesses
template <class T, std::size_t N>
class sched_array {
public:
    class ref {
    public:
        ref(T* p) : p_(p) {}
        operator T() const { scheduler::get().access("ld", p_); return *p_; }
        ref& operator=(const T& v) { scheduler::get().access("st", p_); *p_ = v; return *this; }
        ref& operator=(const ref& o) { T t = o; return *this = t; }
    private:
        T* p_;
    };
    ref operator[](std::size_t i) { return ref(&d_[i]); }
    T operator[](std::size_t i) const { scheduler::get().access("ld", &d_[i]); return d_[i]; }
    const T* base() const { return d_; }
private:
    T d_[N];
};

} // namespace verif
#endif
