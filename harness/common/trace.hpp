// NDJSON trace writer + script reader shared by all harnesses.
//   tracer t(path);  t.ev("add").f("a", 3).f("r", true).fl("out", ptr, n).end();
// A crash (signal / std::terminate / sanitizer abort) is recorded as {"e":"Crash",...} so that a
// trace is never silently truncated.
#ifndef VERIF_TRACE_HPP
#define VERIF_TRACE_HPP
#include <cstdio>
#include <cstdlib>
#include <cstring>
#include <csignal>
#include <cstdint>
#include <string>
#include <vector>
#include <sstream>
#include <fstream>
#include <iostream>
#include <exception>
#include <unistd.h>

namespace verif {

class tracer {
public:
    explicit tracer(const char* path) : f_(std::fopen(path, "w")), first_(true), open_(false) {
        if (!f_) { std::perror(path); std::exit(3); }
        static char buf[1 << 20];
        std::setvbuf(f_, buf, _IOFBF, sizeof buf);
        instance() = this;
        install_handlers();
    }
    ~tracer() { if (f_) std::fclose(f_); instance() = nullptr; }

    tracer& ev(const char* name) {
        if (open_) end();
        std::fputs("{\"e\":\"", f_); std::fputs(name, f_); std::fputc('"', f_); open_ = true; return *this;
    }
    tracer& f(const char* k, long long v) { key(k); std::fprintf(f_, "%lld", v); return *this; }
    tracer& f(const char* k, int v) { return f(k, (long long)v); }
    tracer& f(const char* k, unsigned v) { return f(k, (long long)v); }
    tracer& f(const char* k, long v) { return f(k, (long long)v); }
    tracer& f(const char* k, unsigned long v) { return f(k, (long long)v); }
    tracer& f(const char* k, bool v) { key(k); std::fputs(v ? "true" : "false", f_); return *this; }
    tracer& f(const char* k, const char* v) { key(k); str(v); return *this; }
    tracer& f(const char* k, const std::string& v) { return f(k, v.c_str()); }
    // list of ints
    template <class It> tracer& fl(const char* k, It b, It e) {
        key(k); std::fputc('[', f_);
        bool fst = true;
        for (; b != e; ++b) { if (!fst) std::fputc(',', f_); fst = false; std::fprintf(f_, "%lld", (long long)*b); }
        std::fputc(']', f_); return *this;
    }
    tracer& fl(const char* k, const std::uint8_t* p, std::size_t n) { return fl(k, p, p + n); }
    template <class C> tracer& fl(const char* k, const C& c) { return fl(k, c.begin(), c.end()); }
    // raw pre-formatted JSON value
    tracer& raw(const char* k, const std::string& json) { key(k); std::fputs(json.c_str(), f_); return *this; }
    void end() { if (open_) { std::fputs("}\n", f_); open_ = false; } }
    void flush() { end(); std::fflush(f_); }

    static tracer*& instance() { static tracer* t = nullptr; return t; }

    static void crash(const char* what, int sig) {
        tracer* t = instance();
        if (t && t->f_) {
            if (t->open_) std::fputs(",\"truncated\":true}\n", t->f_);
            std::fprintf(t->f_, "{\"e\":\"Crash\",\"what\":\"%s\",\"sig\":%d}\n", what, sig);
            std::fflush(t->f_);
        }
        _exit(0);
    }
private:
    void key(const char* k) { std::fputs(",\"", f_); std::fputs(k, f_); std::fputs("\":", f_); }
    void str(const char* v) {
        std::fputc('"', f_);
        for (; *v; ++v) { if (*v == '"' || *v == '\\') std::fputc('\\', f_); if ((unsigned char)*v >= 0x20) std::fputc(*v, f_); }
        std::fputc('"', f_);
    }
    static void on_signal(int sig) { crash("signal", sig); }
    static void on_terminate() { crash("terminate", 0); }
    static void install_handlers() {
        std::set_terminate(on_terminate);
        std::signal(SIGSEGV, on_signal); std::signal(SIGBUS, on_signal); std::signal(SIGFPE, on_signal);
        std::signal(SIGILL, on_signal); std::signal(SIGABRT, on_signal);
    }
    std::FILE* f_;
    bool first_, open_;
};

// whitespace separated script: one command per line, first token = op, rest = integers (or words)
struct command {
    std::string op;
    std::vector<long long> a;      // numeric arguments
    std::vector<std::string> w;    // all argument tokens as words
    long long arg(std::size_t i, long long def = 0) const { return i < a.size() ? a[i] : def; }
};

inline bool read_command(std::istream& in, command& c) {
    std::string line;
    while (std::getline(in, line)) {
        if (line.empty() || line[0] == '#') continue;
        std::istringstream ls(line);
        c = command();
        ls >> c.op;
        std::string tok;
        while (ls >> tok) { c.w.push_back(tok); c.a.push_back(std::strtoll(tok.c_str(), nullptr, 0)); }
        return true;
    }
    return false;
}

} // namespace verif

// called by ASan/UBSan right before they abort: record the crash in the trace
// (weak + used: emitted in every TU that includes this header, even when nothing references them)
extern "C" __attribute__((weak, used)) void __asan_on_error() { verif::tracer::crash("asan", 0); }
extern "C" __attribute__((weak, used)) void __ubsan_on_report() { verif::tracer::crash("ubsan", 0); }

#endif
