// Included by /repo headers when BLUETOE_VERIF is defined (hook H1 ring.hpp, hook H2 notification_queue.hpp).
// Without VERIF_SCHEDULED the hook types are exactly the original types, so every harness that merely
// includes these headers behaves like the unhooked code. With VERIF_SCHEDULED (C30, C13 harnesses) every
// access to a shared member goes through the deterministic scheduler *inside* the access.
#ifndef BLUETOE_VERIF_HOOKS_HPP
#define BLUETOE_VERIF_HOOKS_HPP
#include <atomic>
#include <cstdint>
#include <cstddef>

#ifndef VERIF_SCHEDULED

#define BLUETOE_VERIF_ATOMIC_INT            std::atomic_int
#define BLUETOE_VERIF_SHARED_ARRAY( T, N )  ::verif_hooks::plain_array< T, N >
#define BLUETOE_VERIF_SHARED_BYTE           std::uint8_t
#define BLUETOE_VERIF_SHARED( T )           T

namespace verif_hooks {
    template < class T, std::size_t N >
    struct plain_array {
        T d[ N ];
        T& operator[]( std::size_t i ) { return d[ i ]; }
        const T& operator[]( std::size_t i ) const { return d[ i ]; }
        T* begin() { return d; }
        T* end() { return d + N; }
    };
}

#else  // VERIF_SCHEDULED

#include "sched.hpp"

#define BLUETOE_VERIF_ATOMIC_INT            ::verif::sched_atomic_int
#define BLUETOE_VERIF_SHARED_ARRAY( T, N )  ::verif::sched_array< T, N >
#define BLUETOE_VERIF_SHARED_BYTE           ::verif::sched_cell< std::uint8_t >
#define BLUETOE_VERIF_SHARED( T )           ::verif::sched_cell< T >

#endif
#endif
