// standalone reproduction: a Connection Parameter Update Response with a wrong identifier / wrong length
// completes the outstanding request of bluetoe::l2cap::signaling_channel<>
#include <cassert>
#include <bluetoe/l2cap_signaling_channel.hpp>
#include <cstdio>
int main() {
    bluetoe::l2cap::signaling_channel<> ch; int cd = 0;
    std::uint8_t out[23]; std::size_t n = sizeof out;
    ch.connection_parameter_update_request(6, 12, 0, 100);
    ch.l2cap_output(out, n, cd);
    std::printf("request sent with identifier %u\n", out[1]);
    const std::uint8_t wrong[] = { 0x13, 0x09, 0x02, 0x00, 0x00, 0x00 };     // identifier 9
    n = sizeof out; ch.l2cap_input(wrong, sizeof wrong, out, n, cd);
    std::printf("response with identifier 9: new request accepted = %d (expected 0)\n", ch.connection_parameter_update_request(6, 12, 0, 100));
    n = sizeof out; ch.l2cap_output(out, n, cd);
    const std::uint8_t trunc[] = { 0x13 };                                     // one octet
    n = sizeof out; ch.l2cap_input(trunc, sizeof trunc, out, n, cd);
    std::printf("1 octet response:            new request accepted = %d (expected 0)\n", ch.connection_parameter_update_request(6, 12, 0, 100));
    return 0;
}
