// C31: drives the real bluetoe::details::l2cap<> multiplexer (with recording stub channels, the real
// l2cap::signaling_channel<> and a stub link layer that hands out output buffers) and the real signaling
// channel directly; records a trace for spec/L2cap/L2capTrace.tla.
//
//   usage: l2cap_harness sig|mux <script> <trace>
//
// script (both modes):  reset | req imin imax latency timeout
// sig mode:             sigin cap b0 b1 ...      signaling_channel::l2cap_input(command bytes), capacity cap
//                       sigout cap               signaling_channel::l2cap_output
// mux mode:             input alloc rmode b0 b1 ...   handle_l2cap_input(frame); the link layer has one free buffer of
//                                                     alloc octets (0 = none); stub channels reply nothing (rmode 0),
//                                                     one octet (1) or as much as they are offered (2)
//                       pump nbuf alloc               transmit_pending_l2cap_output with nbuf buffers of alloc octets
//                       queue cid len                 stub channel cid has len octets to send
// After every call the state of the signaling channel is observed through its public interface on a *copy*:
//   "queued" (the copy emits a request now), "idle" (the copy accepts a new request), else "transmitted";
//   "id" = identifier of the request the copy emits (-1 if transmitted).
#include <iterator>
#include <vector>
#include <deque>
#include <string>
#include <memory>
#include <bluetoe/l2cap.hpp>
#include <bluetoe/l2cap_signaling_channel.hpp>
#include "trace.hpp"

// the sanitizer hooks of trace.hpp are inline: take their address so that they are emitted and override the weak
// defaults of the sanitizer runtime (a sanitizer report becomes a {"e":"Crash"} event instead of a lost trace)
static void (*volatile keep_asan_hook)() = &__asan_on_error;
static void (*volatile keep_ubsan_hook)() = &__ubsan_on_report;

typedef std::vector<std::uint8_t> bytes;
typedef bluetoe::l2cap::signaling_channel<> sigch_t;

static std::string jlist(const bytes& b) {
    std::string s = "[";
    for (std::size_t i = 0; i != b.size(); ++i) { if (i) s += ","; s += std::to_string(unsigned(b[i])); }
    return s + "]";
}

struct rec_call { unsigned cid; bytes in; std::size_t cap; bytes reply; };
static std::vector<rec_call>    g_calls;     // l2cap_input invocations of the current step
static std::vector<std::size_t> g_outcaps;   // capacities offered to l2cap_output during the current step
static int                      g_rmode = 0;

static std::string jcalls() {
    std::string s = "[";
    for (std::size_t i = 0; i != g_calls.size(); ++i) {
        if (i) s += ",";
        s += "{\"cid\":" + std::to_string(g_calls[i].cid) + ",\"in\":" + jlist(g_calls[i].in) + ",\"cap\":" +
             std::to_string(g_calls[i].cap) + ",\"reply\":" + jlist(g_calls[i].reply) + "}";
    }
    return s + "]";
}

static void observe(verif::tracer& t, const sigch_t& real) {
    sigch_t c = real;
    std::uint8_t buf[64]; std::size_t n = sizeof buf; int dummy = 0;
    c.l2cap_output(buf, n, dummy);
    if (n) { t.f("st", "queued").f("id", int(buf[1])); return; }
    if (c.connection_parameter_update_request(1, 2, 3, 4)) {
        n = sizeof buf; c.l2cap_output(buf, n, dummy);
        t.f("st", "idle").f("id", n ? int(buf[1]) : -2);
        return;
    }
    t.f("st", "transmitted").f("id", -1);
}

// ---------------------------------------------------------------------------------------------
// multiplexer
// ---------------------------------------------------------------------------------------------
template <std::uint16_t Cid, std::size_t MaxMtu>
struct stub_channel {
    static constexpr std::uint16_t channel_id = Cid;
    static constexpr std::size_t   minimum_channel_mtu_size = 23;
    static constexpr std::size_t   maximum_channel_mtu_size = MaxMtu;
    template <class P> using channel_data_t = P;

    std::deque<bytes> pending;

    template <class CD>
    void l2cap_input(const std::uint8_t* in, std::size_t n, std::uint8_t* out, std::size_t& out_size, CD&) {
        rec_call r; r.cid = Cid; r.in.assign(in, in + n); r.cap = out_size;
        const std::size_t rl = g_rmode == 0 ? 0 : g_rmode == 1 ? 1 : out_size;
        for (std::size_t i = 0; i != rl; ++i) out[i] = std::uint8_t(Cid + i * 7);
        out_size = rl;
        r.reply.assign(out, out + rl);
        g_calls.push_back(r);
    }
    template <class CD>
    void l2cap_output(std::uint8_t* out, std::size_t& out_size, CD&) {
        g_outcaps.push_back(out_size);
        if (!pending.empty() && pending.front().size() <= out_size) {
            std::copy(pending.front().begin(), pending.front().end(), out);
            out_size = pending.front().size();
            pending.pop_front();
        } else out_size = 0;
    }
};

// the real signaling channel; the wrapper only records what goes in and out
struct rec_sig : sigch_t {
    template <class CD>
    void l2cap_input(const std::uint8_t* in, std::size_t n, std::uint8_t* out, std::size_t& out_size, CD& cd) {
        rec_call r; r.cid = sigch_t::channel_id; r.in.assign(in, in + n); r.cap = out_size;
        sigch_t::l2cap_input(in, n, out, out_size, cd);
        r.reply.assign(out, out + out_size);
        g_calls.push_back(r);
    }
    template <class CD>
    void l2cap_output(std::uint8_t* out, std::size_t& out_size, CD& cd) {
        g_outcaps.push_back(out_size);
        sigch_t::l2cap_output(out, out_size, cd);
    }
};

struct base_data {};
typedef stub_channel<4, 23> stub_a;
typedef stub_channel<6, 65> stub_b;

struct stub_ll : bluetoe::details::l2cap<stub_ll, base_data, stub_a, rec_sig, stub_b> {
    std::size_t alloc_size; int nbuf;
    bytes backing;                        // slack behind the advertised size: an overrun is judged by the spec, not by a crash
    std::vector<bytes> outs;
    connection_data_t cd;

    stub_ll() : alloc_size(0), nbuf(0), backing(1024) {}
    // same contract as link_layer::allocate_l2cap_output_buffer: no reservation, {0, nullptr} if `size` cannot be provided
    std::pair<std::size_t, std::uint8_t*> allocate_l2cap_output_buffer(std::size_t size) {
        if (nbuf <= 0 || alloc_size < size) return std::pair<std::size_t, std::uint8_t*>(0, nullptr);
        std::fill(backing.begin(), backing.end(), 0xEE);
        return std::pair<std::size_t, std::uint8_t*>(alloc_size, backing.data());
    }
    void commit_l2cap_output_buffer(std::pair<std::size_t, std::uint8_t*> b) {
        outs.push_back(bytes(b.second, b.second + std::min<std::size_t>(b.first, 900)));
        --nbuf;
    }
};

static std::string jouts(const std::vector<bytes>& o) {
    std::string s = "[";
    for (std::size_t i = 0; i != o.size(); ++i) { if (i) s += ","; s += jlist(o[i]); }
    return s + "]";
}

static int run_mux(const char* script, const char* trace) {
    std::ifstream in(script);
    verif::tracer t(trace);
    verif::command c;
    std::unique_ptr<stub_ll> ll(new stub_ll());
    while (verif::read_command(in, c)) {
        g_calls.clear(); g_outcaps.clear(); ll->outs.clear();
        if (c.op == "reset") {
            ll.reset(new stub_ll());
            t.ev("Reset").f("maxmtu", (long long)stub_ll::maximum_mtu_size).f("minmtu", (long long)stub_ll::minimum_mtu_size).end();
            continue;
        }
        if (c.op == "req") {
            const bool r = static_cast<sigch_t&>(*ll).connection_parameter_update_request(c.arg(0), c.arg(1), c.arg(2), c.arg(3));
            t.ev("Req").fl("p", c.a).f("r", r);
        } else if (c.op == "input") {
            ll->alloc_size = std::size_t(c.arg(0)); ll->nbuf = c.arg(0) > 0 ? 1 : 0; g_rmode = int(c.arg(1));
            bytes frame; for (std::size_t i = 2; i < c.a.size(); ++i) frame.push_back(std::uint8_t(c.a[i]));
            bytes copy = frame;                              // exact-size heap copy: reads past the frame are caught by ASan
            const bool r = ll->handle_l2cap_input(copy.data(), copy.size(), ll->cd);
            t.ev("Input").fl("frame", frame).f("alloc", c.arg(0)).f("rmode", c.arg(1)).f("r", r)
             .raw("calls", jcalls()).raw("outs", jouts(ll->outs));
        } else if (c.op == "pump") {
            ll->nbuf = int(c.arg(0)); ll->alloc_size = std::size_t(c.arg(1));
            ll->transmit_pending_l2cap_output(ll->cd);
            t.ev("Pump").f("nbuf", c.arg(0)).f("alloc", c.arg(1)).fl("caps", g_outcaps).raw("outs", jouts(ll->outs));
        } else if (c.op == "queue") {
            bytes d; for (long long i = 0; i < c.arg(1); ++i) d.push_back(std::uint8_t(0x80 + c.arg(0) * 8 + i));
            if (c.arg(0) == 4) static_cast<stub_a&>(*ll).pending.push_back(d); else static_cast<stub_b&>(*ll).pending.push_back(d);
            t.ev("Queue").f("cid", c.arg(0)).fl("data", d);
        } else { std::fprintf(stderr, "bad op %s\n", c.op.c_str()); return 3; }
        observe(t, static_cast<const sigch_t&>(*ll));
        t.end();
    }
    t.flush();
    return 0;
}

// ---------------------------------------------------------------------------------------------
// signaling channel alone
// ---------------------------------------------------------------------------------------------
static int run_sig(const char* script, const char* trace) {
    std::ifstream in(script);
    verif::tracer t(trace);
    verif::command c;
    std::unique_ptr<sigch_t> ch(new sigch_t());
    int dummy = 0;
    while (verif::read_command(in, c)) {
        if (c.op == "reset") { ch.reset(new sigch_t()); t.ev("Reset").f("maxmtu", 0).end(); continue; }
        if (c.op == "req") {
            const bool r = ch->connection_parameter_update_request(c.arg(0), c.arg(1), c.arg(2), c.arg(3));
            t.ev("Req").fl("p", c.a).f("r", r);
        } else if (c.op == "sigin") {
            bytes cmd; for (std::size_t i = 1; i < c.a.size(); ++i) cmd.push_back(std::uint8_t(c.a[i]));
            bytes copy = cmd;
            bytes out(std::size_t(c.arg(0)), 0xEE);          // exact-size heap buffer: ASan guards both ends
            std::size_t n = out.size();
            ch->l2cap_input(copy.data(), copy.size(), out.data(), n, dummy);
            out.resize(std::min(n, out.size()));
            t.ev("SigIn").fl("cmd", cmd).f("cap", c.arg(0)).fl("reply", out).f("n", (long long)n);
        } else if (c.op == "sigout") {
            bytes out(std::size_t(c.arg(0)), 0xEE);
            std::size_t n = out.size();
            ch->l2cap_output(out.data(), n, dummy);
            out.resize(std::min(n, out.size()));
            t.ev("SigOut").f("cap", c.arg(0)).fl("out", out).f("n", (long long)n);
        } else { std::fprintf(stderr, "bad op %s\n", c.op.c_str()); return 3; }
        observe(t, *ch);
        t.end();
    }
    t.flush();
    return 0;
}

int main(int argc, char** argv) {
    if (argc < 4) return 3;
    return std::string(argv[1]) == "sig" ? run_sig(argv[2], argv[3]) : run_mux(argv[2], argv[3]);
}
