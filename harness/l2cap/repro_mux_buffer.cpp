// standalone reproduction: l2cap<>::handle_l2cap_input offers a channel maximum_mtu_size octets at offset 4 of the
// output buffer without looking at the size the link layer returned. A link layer that follows the documented
// interface ("allocate_l2cap_output_buffer( size )": provide the requested size or { 0, nullptr }) and returns
// exactly `size` octets (as tests/l2cap_tests.cpp does) gets its buffer overrun by 4 octets.
#include <cassert>
#include <cstdio>
#include <cstdlib>
#include <utility>
#include <bluetoe/l2cap.hpp>
struct data {};
struct chan {
    static constexpr std::uint16_t channel_id = 4;
    static constexpr std::size_t minimum_channel_mtu_size = 23, maximum_channel_mtu_size = 23;
    template <class P> using channel_data_t = P;
    template <class CD> void l2cap_input(const std::uint8_t*, std::size_t, std::uint8_t* out, std::size_t& out_size, CD&) {
        std::printf("channel is offered %zu octets\n", out_size);
        for (std::size_t i = 0; i != out_size; ++i) out[i] = 0x55;        // a full size response
    }
    template <class CD> void l2cap_output(std::uint8_t*, std::size_t& out_size, CD&) { out_size = 0; }
};
struct ll : bluetoe::details::l2cap<ll, data, chan> {
    std::pair<std::size_t, std::uint8_t*> allocate_l2cap_output_buffer(std::size_t size) {
        std::printf("l2cap asks for %zu octets\n", size);
        return { size, static_cast<std::uint8_t*>(std::malloc(size)) };    // exactly what was asked for
    }
    void commit_l2cap_output_buffer(std::pair<std::size_t, std::uint8_t*> b) { std::printf("commit %zu octets\n", b.first); }
    connection_data_t cd;
};
int main() {
    ll l; const std::uint8_t frame[] = { 1, 0, 4, 0, 0x42 };
    l.handle_l2cap_input(frame, sizeof frame, l.cd);
}
