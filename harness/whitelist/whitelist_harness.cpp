// C26: replays operation scripts on the real white list implementations and records a trace.
//   usage: whitelist_harness <variant: sw|radio> <script> <trace>
// script lines:  reset | add <id> | remove <id> | clear | connf <0|1> | scanf <0|1>
// address id k  ->  bytes {k/2+1, 0x10, 0x20, 0x30, 0x40, 0xC0}, random iff k odd
#include <iterator>
#include <vector>
#include <algorithm>
#include <bluetoe/white_list.hpp>
#include <bluetoe/address.hpp>
#include "trace.hpp"

#ifndef WL_SIZE
#define WL_SIZE 3
#endif
#ifndef WL_UNIVERSE
#define WL_UNIVERSE 5
#endif

using bluetoe::link_layer::device_address;
using bluetoe::link_layer::public_device_address;
using bluetoe::link_layer::random_device_address;

static device_address addr(int k) {
    const std::uint8_t b[6] = { std::uint8_t(k / 2 + 1), 0x10, 0x20, 0x30, 0x40, 0xC0 };
    return (k & 1) ? device_address(random_device_address(b)) : device_address(public_device_address(b));
}

// --- software variant: radio has no hardware list -------------------------------------------
struct sw_radio { static constexpr std::size_t radio_maximum_white_list_entries = 0; };
struct sw_ll : sw_radio, bluetoe::link_layer::white_list<WL_SIZE>::impl<sw_radio, sw_ll> {};

// --- radio backed variant: the stub radio *is* the set model; this checks the forwarding ----
struct hw_radio {
    static constexpr std::size_t radio_maximum_white_list_entries = WL_SIZE;
    std::vector<device_address> s; bool cf = false, sf = false;
    std::vector<device_address>::const_iterator find(const device_address& a) const { return std::find(s.begin(), s.end(), a); }
    bool has(const device_address& a) const { return find(a) != s.end(); }
    std::size_t radio_white_list_free_size() const { return WL_SIZE - s.size(); }
    void radio_clear_white_list() { s.clear(); }
    bool radio_add_to_white_list(const device_address& a) { if (has(a)) return true; if (s.size() == WL_SIZE) return false; s.push_back(a); return true; }
    bool radio_remove_from_white_list(const device_address& a) { if (!has(a)) return false; s.erase(s.begin() + (find(a) - s.begin())); return true; }
    bool radio_is_in_white_list(const device_address& a) const { return has(a); }
    void radio_connection_request_filter(bool b) { cf = b; }
    bool radio_connection_request_filter() const { return cf; }
    void radio_scan_request_filter(bool b) { sf = b; }
    bool radio_scan_request_filter() const { return sf; }
    bool radio_is_connection_request_in_filter(const device_address& a) const { return !cf || has(a); }
    bool radio_is_scan_request_in_filter(const device_address& a) const { return !sf || has(a); }
};
struct hw_ll : hw_radio, bluetoe::link_layer::white_list<WL_SIZE>::impl<hw_radio, hw_ll> {};

template <class LL>
static void obs(verif::tracer& t, const LL& w) {
    int in[WL_UNIVERSE], cn[WL_UNIVERSE], sc[WL_UNIVERSE];
    for (int k = 0; k < WL_UNIVERSE; ++k) {
        in[k] = w.is_in_white_list(addr(k));
        cn[k] = w.is_connection_request_in_filter(addr(k));
        sc[k] = w.is_scan_request_in_filter(addr(k));
    }
    auto bools = [](const int* p) { std::string s = "["; for (int k = 0; k < WL_UNIVERSE; ++k) { s += k ? "," : ""; s += p[k] ? "true" : "false"; } return s + "]"; };
    t.raw("in", bools(in)).raw("conn", bools(cn)).raw("scan", bools(sc))
     .f("free", (long long)w.white_list_free_size())
     .f("gc", w.connection_request_filter()).f("gs", w.scan_request_filter());
}

template <class LL>
static int run(const char* script, const char* trace) {
    std::ifstream in(script);
    verif::tracer t(trace);
    verif::command c;
    LL* w = new LL();
    while (verif::read_command(in, c)) {
        if (c.op == "reset") { delete w; w = new LL(); t.ev("Reset").f("n", WL_SIZE).end(); continue; }
        if (c.op == "add")         { bool r = w->add_to_white_list(addr(c.arg(0)));      t.ev("add").f("a", c.arg(0)).f("r", r); }
        else if (c.op == "remove") { bool r = w->remove_from_white_list(addr(c.arg(0))); t.ev("remove").f("a", c.arg(0)).f("r", r); }
        else if (c.op == "clear")  { w->clear_white_list(); t.ev("clear"); }
        else if (c.op == "connf")  { w->connection_request_filter(c.arg(0) != 0); t.ev("connf").f("b", c.arg(0) != 0); }
        else if (c.op == "scanf")  { w->scan_request_filter(c.arg(0) != 0); t.ev("scanf").f("b", c.arg(0) != 0); }
        else { std::fprintf(stderr, "bad op %s\n", c.op.c_str()); return 3; }
        obs(t, *w);
        t.end();
    }
    delete w;
    t.flush();
    return 0;
}

int main(int argc, char** argv) {
    if (argc < 4) return 3;
    return std::string(argv[1]) == "sw" ? run<sw_ll>(argv[2], argv[3]) : run<hw_ll>(argv[2], argv[3]);
}
