// Standalone reproduction of the GATT defects behind the known findings of C02, C03, C04 (no framework needed):
//   g++ -std=c++11 -DNDEBUG -I/repo -I/repo/bluetoe/utility/include -I/repo/bluetoe/link_layer/include \
//       -I/repo/bluetoe/sm/include harness/gatt/repro_gatt_defects.cpp -o repro && ./repro
// Every line printed with "DEFECT" shows a response that contradicts the declared attribute table.
#include <iterator>
#include <cstdio>
#include <initializer_list>
#include <vector>
#include <bluetoe/server.hpp>

static std::uint8_t a[ 2 ], b[ 2 ], c[ 2 ], d[ 2 ], e[ 1 ];
static constexpr char name[] = "abc";
using char128 = bluetoe::characteristic_uuid< 0x8C8B4094, 0x0DE2, 0x499F, 0xA28A, 0x4EED5BC73CAA >;

// declared table: 1 primary 0x1801 | 4 decl 6 value(0xAA01) | 13 decl 14 value(128 bit) | 15 decl 16 value(0xAA03)
//                 17 secondary 0x1802 | 18 decl 19 value(0xAA04) | 20 primary 0x1803 | 21 decl 22 value(0xAA05)
using gaps = bluetoe::server<
    bluetoe::no_gap_service_for_gatt_servers,
    bluetoe::service< bluetoe::service_uuid16< 0x1801 >,
        bluetoe::characteristic< bluetoe::characteristic_uuid16< 0xAA01 >, bluetoe::bind_characteristic_value< decltype( a ), &a >, bluetoe::attribute_handles< 4, 6 > >,
        bluetoe::characteristic< char128, bluetoe::bind_characteristic_value< decltype( b ), &b >, bluetoe::attribute_handle< 13 > >,
        bluetoe::characteristic< bluetoe::characteristic_uuid16< 0xAA03 >, bluetoe::bind_characteristic_value< decltype( c ), &c > > >,
    bluetoe::service< bluetoe::service_uuid16< 0x1802 >, bluetoe::is_secondary_service,
        bluetoe::characteristic< bluetoe::characteristic_uuid16< 0xAA04 >, bluetoe::bind_characteristic_value< decltype( d ), &d > > >,
    bluetoe::service< bluetoe::service_uuid16< 0x1803 >,
        bluetoe::characteristic< bluetoe::characteristic_uuid16< 0xAA05 >, bluetoe::bind_characteristic_value< decltype( e ), &e > > > >;

// declared table: 1 primary 0x1234 | 2 include | 3 decl 4 value 5 cccd 6 user description | 7 secondary 0x5678 | 8 decl 9 value
using incl = bluetoe::server<
    bluetoe::no_gap_service_for_gatt_servers,
    bluetoe::service< bluetoe::service_uuid16< 0x1234 >, bluetoe::include_service< bluetoe::service_uuid16< 0x5678 > >,
        bluetoe::characteristic< bluetoe::characteristic_uuid16< 0xAA01 >, bluetoe::bind_characteristic_value< decltype( a ), &a >, bluetoe::notify, bluetoe::characteristic_name< name > > >,
    bluetoe::service< bluetoe::service_uuid16< 0x5678 >, bluetoe::is_secondary_service,
        bluetoe::characteristic< bluetoe::characteristic_uuid16< 0xAA02 >, bluetoe::bind_characteristic_value< decltype( b ), &b > > > >;

template < class Server >
static void request( const char* what, std::initializer_list< std::uint8_t > in )
{
    Server srv;
    typename Server::template channel_data_t< bluetoe::details::link_state > con;
    std::vector< std::uint8_t > i( in );
    std::uint8_t out[ 23 ];
    std::size_t  size = sizeof( out );
    srv.l2cap_input( i.data(), i.size(), out, size, con );
    std::printf( "%s\n   ->", what );
    for ( std::size_t k = 0; k != size; ++k ) std::printf( " %02x", out[ k ] );
    std::printf( "\n" );
}

int main()
{
    request< gaps >( "DEFECT C02 Read By Type 1..2 <<Characteristic>>: end handle in a gap, answers with handle 4 (outside 1..2)", { 0x08, 1, 0, 2, 0, 0x03, 0x28 } );
    request< gaps >( "DEFECT C02 Find Information 2..3: no attribute in range, answers 05 01 without any entry instead of Attribute Not Found", { 0x04, 2, 0, 3, 0 } );
    request< gaps >( "DEFECT C02 Find Information 13..16: 128 bit value attribute 14 left out between 13 and 15 (client continues at 17)", { 0x04, 13, 0, 16, 0 } );
    request< gaps >( "DEFECT C02 Read By Type 1..22 <<Characteristic>>: 128 bit declaration 13 left out (4, 15, 18 returned; client continues at 19)", { 0x08, 1, 0, 22, 0, 0x03, 0x28 } );
    request< gaps >( "DEFECT C02 Read By Type 1..0xffff with the 128 bit UUID of characteristic 13/14: Attribute Not Found (compare_128bit_uuid is implemented nowhere)",
        { 0x08, 1, 0, 0xff, 0xff, 0xaa, 0x3c, 0xc7, 0x5b, 0xed, 0x4e, 0x8a, 0xa2, 0x9f, 0x49, 0xe2, 0x0d, 0x94, 0x40, 0x8b, 0x8c } );
    request< gaps >( "DEFECT C02 Read By Group Type 1..16 <<Primary Service>>: reports service 20..22 which starts after the range (index 9..16 compared with handle)", { 0x10, 1, 0, 16, 0, 0x00, 0x28 } );
    request< gaps >( "DEFECT C03 Read By Group Type 1..0xffff <<Primary Service>>: reports the secondary service 17..19", { 0x10, 1, 0, 0xff, 0xff, 0x00, 0x28 } );
    request< gaps >( "DEFECT C03 Find By Type Value <<Primary Service>> 0x1802: reports the secondary service 17..19", { 0x06, 1, 0, 0xff, 0xff, 0x00, 0x28, 0x02, 0x18 } );
    std::printf( "DEFECT C04 include + characteristics: handle_by_index of the 6 attributes of service 1 and of the next service:" );
    for ( std::size_t i = 0; i != 9; ++i ) std::printf( " %u", incl::handle_mapping::handle_by_index( i ) );
    std::printf( "   (declared: 1 2 3 4 5 6 7 8 9)\n" );
    request< incl >( "DEFECT C04 Read 6 (user description of the characteristic): answers with the next service's declaration", { 0x0a, 6, 0 } );
    return 0;
}
