// C40: drives a real Cycling Speed and Cadence server (bluetoe::cycling_speed_and_cadence<...> with a recording
// handler) through l2cap_input / l2cap_output, connection data wired like tests/test_tools/test_servers.hpp,
// and records every client / application visible step as an NDJSON event.
//   usage: csc_harness <script> <trace>
// script lines (ints):
//   reset                       new server + new connection (CCCD off)
//   cccd <v>                    ATT Write Request to the control point CCCD with the 16 bit value v
//   write <len> <b0> <b1> ...   ATT Write Request to the SC control point with exactly len value bytes
//   appconfirm                  application calls confirm_cumulative_wheel_revolutions( server )
//   output                      link layer polls l2cap_output once
//   confirm                     client sends ATT Handle Value Confirmation
//   drain                       finite shadow of the liveness property: up to 4 rounds of
//                               { app confirms an unconfirmed set-callback; client confirms an unconfirmed
//                                 indication; poll l2cap_output }, recording every response seen
// All PDUs handed to the server live in exact-size heap buffers (an over-read trips ASan).
#include <iterator>
#include <vector>
#include <memory>
#include <algorithm>
#include <bluetoe/server.hpp>
#include <bluetoe/services/csc.hpp>
#include "trace.hpp"

#ifndef CSC_VARIANT
#define CSC_VARIANT 0
#endif

struct recording_handler {
    recording_handler() : set_calls(0), last_value(0), unconfirmed(0) {}
    std::pair< std::uint32_t, std::uint16_t > cumulative_wheel_revolutions_and_time() { return std::pair< std::uint32_t, std::uint16_t >( last_value, 0 ); }
    std::pair< std::uint16_t, std::uint16_t > cumulative_crank_revolutions_and_time() { return std::pair< std::uint16_t, std::uint16_t >( 0, 0 ); }
    void set_cumulative_wheel_revolutions( std::uint32_t v ) { ++set_calls; ++unconfirmed; last_value = v; }
    int           set_calls;
    std::uint32_t last_value;
    int           unconfirmed;   // set-callbacks the application has not yet confirmed
};

#if CSC_VARIANT == 0
typedef bluetoe::server<
    bluetoe::cycling_speed_and_cadence<
        bluetoe::sensor_location::top_of_shoe,
        bluetoe::sensor_location::in_shoe,
        bluetoe::sensor_location::hip,
        bluetoe::csc::wheel_revolution_data_supported,
        bluetoe::csc::crank_revolution_data_supported,
        bluetoe::csc::handler< recording_handler > >,
    bluetoe::max_mtu_size< 65 >
> csc_server;
#else
typedef bluetoe::server<
    bluetoe::cycling_speed_and_cadence<
        bluetoe::sensor_location::top_of_shoe,
        bluetoe::csc::wheel_revolution_data_supported,
        bluetoe::csc::handler< recording_handler > >,
    bluetoe::max_mtu_size< 65 >
> csc_server;
#endif

typedef csc_server::channel_data_t< bluetoe::details::link_state > connection_t;

static const std::size_t mtu = 65;

struct fixture {
    csc_server   srv;
    connection_t con;
    bool         unconfirmed_indication;
    std::uint16_t cp_handle, cccd_handle;

    fixture() : unconfirmed_indication( false ), cp_handle( 0 ), cccd_handle( 0 )
    {
        con.client_mtu( mtu );
        srv.notification_callback( &cb, this );
    }

    static bool cb( const bluetoe::details::notification_data& item, void* that, bluetoe::details::notification_type type )
    {
        connection_t& c = static_cast< fixture* >( that )->con;
        switch ( type )
        {
        case bluetoe::details::notification_type::notification: return c.queue_notification( item.client_characteristic_configuration_index() );
        case bluetoe::details::notification_type::indication:   return c.queue_indication( item.client_characteristic_configuration_index() );
        case bluetoe::details::notification_type::confirmation: c.indication_confirmed(); return true;
        }
        return true;
    }

    // exact-size heap copies of the request; response buffer of mtu bytes
    std::vector< std::uint8_t > request( const std::vector< std::uint8_t >& pdu )
    {
        std::unique_ptr< std::uint8_t[] > in( new std::uint8_t[ pdu.size() ] );
        std::copy( pdu.begin(), pdu.end(), in.get() );
        std::unique_ptr< std::uint8_t[] > out( new std::uint8_t[ mtu ] );
        std::size_t out_size = mtu;
        srv.l2cap_input( in.get(), pdu.size(), out.get(), out_size, con );
        if ( out_size > mtu ) out_size = mtu;
        return std::vector< std::uint8_t >( out.get(), out.get() + out_size );
    }

    std::vector< std::uint8_t > poll()
    {
        std::unique_ptr< std::uint8_t[] > out( new std::uint8_t[ mtu ] );
        std::size_t out_size = mtu;
        srv.l2cap_output( out.get(), out_size, con );
        if ( out_size > mtu ) out_size = mtu;
        return std::vector< std::uint8_t >( out.get(), out.get() + out_size );
    }

    bool discover()
    {
        // Find Information over all handles: 16 bit uuids only are reported in format 1
        for ( std::uint16_t start = 1; start != 0 && start < 100; )
        {
            const std::vector< std::uint8_t > rsp = request( { 0x04, std::uint8_t( start & 0xff ), std::uint8_t( start >> 8 ), 0xff, 0xff } );
            if ( rsp.size() < 6 || rsp[ 0 ] != 0x05 ) break;
            const std::size_t step = rsp[ 1 ] == 1 ? 4 : 18;
            std::uint16_t last = start;
            for ( std::size_t p = 2; p + step <= rsp.size(); p += step )
            {
                last = rsp[ p ] | ( rsp[ p + 1 ] << 8 );
                if ( step == 4 )
                {
                    const std::uint16_t uuid = rsp[ p + 2 ] | ( rsp[ p + 3 ] << 8 );
                    if ( uuid == 0x2A55 ) cp_handle = last;
                    if ( uuid == 0x2902 && cp_handle && last > cp_handle && !cccd_handle ) cccd_handle = last;
                }
            }
            start = last + 1;
        }
        return cp_handle && cccd_handle;
    }
};

// result of a write: 0 = Write Response, otherwise the ATT error code; -1 = something else
static int write_result( const std::vector< std::uint8_t >& rsp, std::uint16_t handle )
{
    if ( rsp.size() == 1 && rsp[ 0 ] == 0x13 ) return 0;
    if ( rsp.size() == 5 && rsp[ 0 ] == 0x01 && rsp[ 1 ] == 0x12 && ( rsp[ 2 ] | ( rsp[ 3 ] << 8 ) ) == handle ) return rsp[ 4 ];
    return -1;
}

struct response { int kind; int op; int rc; std::size_t size; };   // kind 0 none, 1 control point indication, 2 other pdu

static response classify( const std::vector< std::uint8_t >& pdu, std::uint16_t cp_handle )
{
    response r = { 0, -1, -1, pdu.size() };
    if ( pdu.empty() ) return r;
    r.kind = 2;
    if ( pdu.size() >= 6 && pdu[ 0 ] == 0x1d && ( pdu[ 1 ] | ( pdu[ 2 ] << 8 ) ) == cp_handle && pdu[ 3 ] == 0x10 )
    {
        r.kind = 1; r.op = pdu[ 4 ]; r.rc = pdu[ 5 ];
    }
    return r;
}

static const char* kind_name( int k ) { return k == 0 ? "none" : k == 1 ? "ind" : "other"; }

int main( int argc, char** argv )
{
    if ( argc < 3 ) return 3;
    std::ifstream in( argv[ 1 ] );
    verif::tracer t( argv[ 2 ] );
    verif::command c;
    std::unique_ptr< fixture > f;

    while ( verif::read_command( in, c ) )
    {
        if ( c.op == "reset" )
        {
            f.reset( new fixture );
            if ( !f->discover() ) { std::fprintf( stderr, "control point not found\n" ); return 4; }
            t.ev( "Reset" ).f( "variant", CSC_VARIANT ).f( "cp", (int)f->cp_handle ).f( "cccd", (int)f->cccd_handle ).end();
            continue;
        }
        if ( !f ) return 3;

        if ( c.op == "cccd" )
        {
            const std::uint16_t v = c.arg( 0 );
            const int r = write_result( f->request( { 0x12, std::uint8_t( f->cccd_handle & 0xff ), std::uint8_t( f->cccd_handle >> 8 ), std::uint8_t( v & 0xff ), std::uint8_t( v >> 8 ) } ), f->cccd_handle );
            t.ev( "cccd" ).f( "v", (int)v ).f( "r", r ).end();
        }
        else if ( c.op == "write" )
        {
            const std::size_t len = c.arg( 0 );
            std::vector< std::uint8_t > pdu = { 0x12, std::uint8_t( f->cp_handle & 0xff ), std::uint8_t( f->cp_handle >> 8 ) };
            for ( std::size_t i = 0; i != len; ++i ) pdu.push_back( std::uint8_t( c.arg( 1 + i ) ) );
            const int calls_before = f->srv.set_calls;
            const int r = write_result( f->request( pdu ), f->cp_handle );
            t.ev( "write" ).f( "len", (int)len ).f( "op", len ? (int)pdu[ 3 ] : -1 ).fl( "bytes", pdu.begin() + 3, pdu.end() )
             .f( "r", r ).f( "set", f->srv.set_calls - calls_before ).end();
        }
        else if ( c.op == "appconfirm" )
        {
            f->srv.confirm_cumulative_wheel_revolutions( f->srv );
            if ( f->srv.unconfirmed ) --f->srv.unconfirmed;
            t.ev( "appconfirm" ).end();
        }
        else if ( c.op == "output" )
        {
            const response r = classify( f->poll(), f->cp_handle );
            if ( r.kind == 1 ) f->unconfirmed_indication = true;
            t.ev( "output" ).f( "kind", kind_name( r.kind ) ).f( "op", r.op ).f( "rc", r.rc ).f( "size", (int)r.size ).end();
        }
        else if ( c.op == "confirm" )
        {
            const std::vector< std::uint8_t > rsp = f->request( { 0x1e } );
            f->unconfirmed_indication = false;
            t.ev( "confirm" ).f( "size", (int)rsp.size() ).end();
        }
        else if ( c.op == "drain" )
        {
            std::vector< int > ops;
            int others = 0, apps = 0;
            for ( int round = 0; round != 4; ++round )
            {
                if ( f->srv.unconfirmed ) { f->srv.confirm_cumulative_wheel_revolutions( f->srv ); --f->srv.unconfirmed; ++apps; }
                if ( f->unconfirmed_indication ) { f->request( { 0x1e } ); f->unconfirmed_indication = false; }
                const response r = classify( f->poll(), f->cp_handle );
                if ( r.kind == 1 ) { ops.push_back( r.op ); f->unconfirmed_indication = true; }
                if ( r.kind == 2 ) ++others;
            }
            t.ev( "drain" ).fl( "ops", ops ).f( "others", others ).f( "apps", apps ).end();
        }
        else { std::fprintf( stderr, "bad op %s\n", c.op.c_str() ); return 3; }
    }
    t.flush();
    return 0;
}
