// Standalone reproduction of the C40 finding (not part of the check):
//   g++ -std=c++11 -DNDEBUG -I/repo -I/repo/bluetoe/utility/include -I/repo/bluetoe/link_layer/include -I/repo/bluetoe/sm/include repro_c40.cpp && ./a.out
// A malformed Set Cumulative Value (3 bytes instead of 5) is rejected with Invalid PDU, but
// procedure_in_progress_ was already set: every later procedure is rejected with 0xFE forever,
// because no indication (the only thing that clears the flag) is ever generated for the rejected write.
#include <iterator>
#include <cstdio>
#include <bluetoe/services/csc.hpp>

struct handler { void set_cumulative_wheel_revolutions( std::uint32_t ) {} };

int main()
{
    bluetoe::csc::details::control_point_handler< bluetoe::csc::details::no_sensor_position_handler > cp;
    handler h;
    const std::uint8_t malformed[] = { 0x01, 0x00, 0x00 };
    const std::uint8_t proper[]    = { 0x04 };
    const auto r1 = cp.csc_write_control_point( sizeof malformed, malformed, h );
    const auto r2 = cp.csc_write_control_point( sizeof proper, proper, h );
    const auto r3 = cp.csc_write_control_point( sizeof proper, proper, h );
    std::printf( "malformed write -> 0x%02x indicate=%d\nproper write    -> 0x%02x indicate=%d\nproper write    -> 0x%02x indicate=%d\n",
        r1.first, r1.second, r2.first, r2.second, r3.first, r3.second );
    return r2.first == 0xfe ? 1 : 0;
}
