#!/bin/sh
# builds the standalone reproductions against ${VERIF_REPO:-/repo} (no sanitizers, asserts off like the baseline)
R=${VERIF_REPO:-/repo}
exec g++ -std=c++11 -O1 -g -DNDEBUG -w -I$R -I$R/bluetoe/utility/include -I$R/bluetoe/link_layer/include -I$R/bluetoe/sm/include \
    -I$R/tests/test_tools "$(dirname "$0")/repro_findings.cpp" $R/tests/test_tools/test_radio.cpp $R/tests/test_tools/hexdump.cpp \
    $R/bluetoe/link_layer/channel_map.cpp $R/bluetoe/link_layer/delta_time.cpp $R/bluetoe/link_layer/connection_details.cpp \
    $R/bluetoe/utility/address.cpp -o /tmp/llctrl/repro_findings -lboost_unit_test_framework
