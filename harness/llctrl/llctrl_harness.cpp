// C27 / C28 / C29: drives the real bluetoe::link_layer::link_layer on top of the repository's simulated radio
// (tests/test_tools/test_radio.{hpp,cpp}: test::radio / radio_with_2mbit / radio_with_encryption) from a text
// script and records a chronological NDJSON trace.
//
//   usage: llctrl_harness <script> <trace>
//
// compile time variant:  -DLLCTRL_CFG=0  GATT server without encryption, test::radio                 (features 0x016)
//                        -DLLCTRL_CFG=1  GATT server without encryption, test::radio_with_2mbit      (features 0x116)
//                        -DLLCTRL_CFG=2  server with a requires_encryption service, test::radio_with_encryption and a
//                                        mocked security manager / bond data base (key table)        (features 0x017)
//                        -DLLCTRL_CFG=3  like 0 plus l2cap::signaling_channel<> (parameter request fall back)
//
// A thin class derived from the simulated radio (`sradio`) feeds the script into the simulation *when the link
// layer schedules something*: every call of schedule_advertisment() / schedule_connection_event() consumes the next
// script step and installs it as the central's behaviour for exactly that advertising / connection event.
// radio::wake_up() is a no-op in this harness: the link layer drains its callback queue at the end of every radio
// callback itself, wake_up() only makes test::radio::run() return (and run() resets the central's SN/NESN).
//
// script (one op per line):
//   reset                          new link layer object, starts an execution            -> {"e":"Reset",...}
//   key <hex: rand(8) ediv(2)>     the bond data base holds a key for this Rand/EDIV     -> {"e":"Key","id":[..]}
//   conn [interval [timeout [latency]]]   the central answers the next advertisement on channel 37 with CONNECT_IND
//                                  (interval in 1.25 ms, timeout in 10 ms units)         -> {"e":"ConnReq",...}
//   adv                            the next advertisement is not answered
//   app <call> [args]              executed by "the application" right before the next `ev` step
//                                  calls: disconnect [reason] | version_req | param_req min max lat to |
//                                         param_update min max lat to | phy_req tx rx    -> {"e":"App","c":..,"r":..}
//   ev <pdu>*                      the central sends these PDUs in the next connection event; nothing = empty PDU
//                                  pdu:  c:<hex payload>[+i<pos>,<off>]   LL control PDU; optional 16 bit instant
//                                                                          (event counter + off) written at pos
//                                        d:<hex payload>                   L2CAP start fragment (LLID 2)
//                                        e                                 empty PDU
//   to                             the central is not heard in the next connection event (timeout)
//   rep <n> ev|to                  n times the empty event / timeout
//   quiesce                        marker                                                -> {"e":"Quiesce"}
// After the last step the simulation stops.
//
// trace events (chronological):
//   Reset {cfg, feat, ver, comp}    ConnReq {itv,to,lat}   Adv {}  (link layer (re)starts advertising)
//   Ev {k, cnt, t, to, rx:[[llid,payload..]..], tx:[[llid,payload..]..], txenc:[..], enc, renc, tenc}
//        logged when the link layer has completely processed connection event k (t = start in us, cnt = the link
//        layer's event counter); enc = connection data is_encrypted(), renc/tenc = radio rx/tx encryption switched on.
//        Idle events (only empty PDUs exchanged, no state change, not the first of a connection) are not logged;
//        Cb / Quiesce / Fin carry `now`, the start time of the last simulated connection event.
//   Cb {n, a:[..], enc}             application callback   App {c, a, r}   Key {id}   FindKey {id, r}   Quiesce {}
#include <iterator>
#include <cstdint>
#include <vector>
#include <string>
#include <memory>
#include <functional>
#include <map>

#include <boost/test/unit_test.hpp>      // test_radio.cpp uses BOOST_ macros in its check_* helpers (never executed here)

#include <bluetoe/server.hpp>
#include <bluetoe/service.hpp>
#include <bluetoe/characteristic.hpp>
#include <bluetoe/link_layer.hpp>
#include <bluetoe/l2cap_signaling_channel.hpp>
#include "test_radio.hpp"
#include "trace.hpp"

#ifndef LLCTRL_CFG
#define LLCTRL_CFG 0
#endif

namespace bll = bluetoe::link_layer;

// ------------------------------------------------------------------------------------------------
// driver: script interpreter shared by the radio hooks, the callbacks and the mocked security manager
// ------------------------------------------------------------------------------------------------
struct step {
    enum kind_t { conn, adv, ev, to } kind;
    std::vector<std::string> pdus;                       // ev: pdu tokens
    std::vector<verif::command> apps;                    // app calls executed right before this ev
    bool quiesce_before = false;
    long long a0 = 0, a1 = 0, a2 = 0;                    // conn parameters
};

struct driver_t {
    verif::tracer*              t = nullptr;
    std::vector<step>           steps;                   // steps of the current execution
    std::size_t                 pos = 0;
    bool                        ev_pending = false;      // a connection event was handed to the simulation and not logged yet
    bool                        ev_is_timeout = false;
    unsigned                    ev_counter = 0;          // link layer's event counter of the pending event
    long                        ev_index = 0;
    bool                        advertising = false;
    std::vector<std::vector<std::uint8_t>> keys;         // bond data base: rand(8) + ediv(2)
    std::function<bool()>       enc_probe;               // connection data is_encrypted()
    bool                        trailing_quiesce = false;
    bool                        first_event = false;     // no connection event with a received PDU was logged for this connection yet
    long long                   now = 0;                 // start time (us) of the last simulated connection event
    int                         last_flags = 0;          // enc / renc / tenc of the last logged event

    bool enc() const { return enc_probe ? enc_probe() : false; }
} g;

static int hexval(char c) { return c >= '0' && c <= '9' ? c - '0' : c >= 'a' && c <= 'f' ? c - 'a' + 10 : c >= 'A' && c <= 'F' ? c - 'A' + 10 : -1; }

static std::vector<std::uint8_t> parse_hex(const std::string& s) {
    std::vector<std::uint8_t> r;
    for (std::size_t i = 0; i + 1 < s.size() && hexval(s[i]) >= 0 && hexval(s[i + 1]) >= 0; i += 2)
        r.push_back(std::uint8_t(hexval(s[i]) * 16 + hexval(s[i + 1])));
    return r;
}

// ------------------------------------------------------------------------------------------------
// servers
// ------------------------------------------------------------------------------------------------
static std::uint16_t plain_value  = 0x1234;
static std::uint16_t secret_value = 0x4711;

using plain_server = bluetoe::server<
    bluetoe::service<
        bluetoe::service_uuid< 0x8C8B4094, 0x0DE2, 0x499F, 0xA28A, 0x4EED5BC73CA9 >,
        bluetoe::characteristic<
            bluetoe::characteristic_uuid< 0x8C8B4094, 0x0DE2, 0x499F, 0xA28A, 0x4EED5BC73CAA >,
            bluetoe::bind_characteristic_value< decltype( plain_value ), &plain_value >,
            bluetoe::no_write_access > >,
    bluetoe::no_gap_service_for_gatt_servers >;

// handle 1: service, 2: characteristic declaration, 3: value (requires encryption)
using secret_server = bluetoe::server<
    bluetoe::service<
        bluetoe::service_uuid< 0x8C8B4094, 0x0DE2, 0x499F, 0xA28A, 0x4EED5BC73CA9 >,
        bluetoe::characteristic<
            bluetoe::characteristic_uuid< 0x8C8B4094, 0x0DE2, 0x499F, 0xA28A, 0x4EED5BC73CAA >,
            bluetoe::bind_characteristic_value< decltype( secret_value ), &secret_value >,
            bluetoe::no_write_access >,
        bluetoe::requires_encryption >,
    bluetoe::no_gap_service_for_gatt_servers >;

// ------------------------------------------------------------------------------------------------
// mocked security manager / bond data base (as in tests/link_layer/ll_encryption_tests.cpp, with a key table)
// ------------------------------------------------------------------------------------------------
struct mock_security_manager {
    template < typename ... >
    class impl {
    public:
        template < class OtherConnectionData >
        class channel_data_t : public OtherConnectionData {
        public:
            std::pair< bool, bluetoe::details::uint128_t > find_key( std::uint16_t ediv, std::uint64_t rand ) const {
                std::vector<std::uint8_t> id;
                for (int i = 0; i < 8; ++i) id.push_back(std::uint8_t(rand >> (8 * i)));
                id.push_back(std::uint8_t(ediv)); id.push_back(std::uint8_t(ediv >> 8));
                bool found = false;
                for (const auto& k : g.keys) found = found || k == id;
                bluetoe::details::uint128_t key = {{ 0 }};
                if (found) for (int i = 0; i < 16; ++i) key[i] = std::uint8_t(id[i % 10] ^ (0x10 + i));
                g.t->ev("FindKey").fl("id", id).f("r", found).end();
                return { found, key };
            }
            void remote_connection_created( const bll::device_address& ) {}
            bluetoe::device_pairing_status local_device_pairing_status() const { return bluetoe::device_pairing_status::unauthenticated_key; }
            template < typename Connection > void restore_bonded_cccds( Connection& ) {}
        };
        template < class Connection > void l2cap_input( const std::uint8_t*, std::size_t, std::uint8_t*, std::size_t& out_size, Connection& ) { out_size = 0; }
        template < class Connection > bool security_manager_output_available( Connection& ) const { return false; }
        template < class Connection > void l2cap_output( std::uint8_t*, std::size_t& out_size, Connection& ) { out_size = 0; }   // nothing to send
        static constexpr std::uint16_t channel_id               = bluetoe::l2cap_channel_ids::sm;
        static constexpr std::size_t   minimum_channel_mtu_size = bluetoe::details::default_att_mtu_size;
        static constexpr std::size_t   maximum_channel_mtu_size = bluetoe::details::default_att_mtu_size;
    };
    struct meta_type : bluetoe::details::security_manager_meta_type, bll::details::valid_link_layer_option_meta_type {};
};

// ------------------------------------------------------------------------------------------------
// application callbacks
// ------------------------------------------------------------------------------------------------
struct app_callbacks {
    template <class C> void probe(C& c) { C* p = &c; g.enc_probe = [p]() { return p->is_encrypted(); }; }
    template <class C> void probe(const C& c) { const C* p = &c; g.enc_probe = [p]() { return p->is_encrypted(); }; }
    void cb(const char* n, std::initializer_list<long long> a) {
        g.t->ev("Cb").f("n", n).fl("a", a.begin(), a.end()).f("enc", g.enc()).f("now", g.now).end();
    }
    template <class C> void ll_connection_requested(const bll::connection_details& d, const bll::connection_addresses&, C& c) {
        probe(c); cb("requested", { d.interval(), d.latency(), d.timeout() });
    }
    template <class C> void ll_connection_attempt_timeout(C& c) { probe(c); cb("attempt_timeout", {}); }
    template <class C> void ll_connection_established(const bll::connection_details& d, const bll::connection_addresses&, C& c) {
        probe(c); cb("established", { d.interval(), d.latency(), d.timeout() });
    }
    template <class C> void ll_connection_changed(const bll::connection_details& d, C& c) {
        probe(c); cb("changed", { d.interval(), d.latency(), d.timeout() });
    }
    template <class C> void ll_connection_closed(std::uint8_t reason, C& c) { probe(c); cb("closed", { reason }); }
    template <class C> void ll_version(std::uint8_t v, std::uint16_t comp, std::uint16_t sub, const C& c) { probe(c); cb("version", { v, comp, sub }); }
    template <class C> void ll_rejected(std::uint8_t err, const C& c) { probe(c); cb("rejected", { err }); }
    template <class C> void ll_unknown(std::uint8_t type, const C& c) { probe(c); cb("unknown", { type }); }
    template <class C> void ll_remote_features(std::uint8_t f[8], const C& c) {
        probe(c); cb("features", { f[0], f[1], f[2], f[3], f[4], f[5], f[6], f[7] });
    }
    template <class C> void ll_phy_updated(bll::phy_ll_encoding::phy_ll_encoding_t tx, bll::phy_ll_encoding::phy_ll_encoding_t rx, const C& c) {
        probe(c); cb("phy", { (long long)tx, (long long)rx });
    }
} g_app;

// ------------------------------------------------------------------------------------------------
// the simulated radio of the repository, fed from the script when the link layer schedules something
// ------------------------------------------------------------------------------------------------
#if LLCTRL_CFG == 1
#   define BASE_RADIO test::radio_with_2mbit
#elif LLCTRL_CFG == 2
#   define BASE_RADIO test::radio_with_encryption
#else
#   define BASE_RADIO test::radio
#endif

template < std::size_t T, std::size_t R, class CB >
class sradio : public BASE_RADIO< T, R, CB > {
    using base = BASE_RADIO< T, R, CB >;
public:
    void schedule_advertisment(unsigned channel, const bll::write_buffer& adv, const bll::write_buffer& rsp,
                               bll::delta_time when, const bll::read_buffer& receive) {
        log_pending_event();
        base::schedule_advertisment(channel, adv, rsp, when, receive);
        if (!g.advertising) { g.advertising = true; g.t->ev("Adv").end(); }
        if (channel != 37) return;
        if (g.pos == g.steps.size()) { stop(); return; }
        const step& s = g.steps[g.pos];
        if (s.kind == step::conn) {
            ++g.pos;
            const unsigned itv = unsigned(s.a0), to = unsigned(s.a1), lat = unsigned(s.a2);
            const std::vector<std::uint8_t> pdu = {
                0xc5, 0x22,
                0x3c, 0x1c, 0x62, 0x92, 0xf0, 0x48,             // InitA
                0x47, 0x11, 0x08, 0x15, 0x0f, 0xc0,             // AdvA (static random address derived from the radio's seed)
                0x5a, 0xb3, 0x9a, 0xaf,                         // access address
                0x08, 0x81, 0xf6,                               // CRC init
                0x03,                                           // transmit window size
                0x0b, 0x00,                                     // transmit window offset
                std::uint8_t(itv), std::uint8_t(itv >> 8),
                std::uint8_t(lat), std::uint8_t(lat >> 8),
                std::uint8_t(to), std::uint8_t(to >> 8),
                0xff, 0xff, 0xff, 0xff, 0x1f,
                0xaa };
            // the CONNECT_IND is logged when the central really sends it (the link layer delivers the callbacks of
            // the previous connection before that); a new connection starts with SN = NESN = 0 on the central's side
            this->add_responder([pdu, itv, to, lat, this](const test::advertising_data& d) -> std::pair< bool, test::advertising_response > {
                if (d.channel != 37) return std::pair< bool, test::advertising_response >(false, test::advertising_response());
                g.t->ev("ConnReq").f("itv", itv).f("to", to).f("lat", lat).end();
                g.first_event = true;
                this->central_sequence_number_    = 0;
                this->central_ne_sequence_number_ = 0;
                return std::pair< bool, test::advertising_response >(true, test::advertising_response(37, pdu, test::radio_base::T_IFS));
            });
        } else if (s.kind == step::adv) {
            ++g.pos;
        } else {
            // a connection event step while the link layer advertises: the connection is gone; skip the remaining
            // connection steps up to the next `conn` so that a later connection finds its own steps
            while (g.pos != g.steps.size() && g.steps[g.pos].kind != step::conn) ++g.pos;
            if (g.pos == g.steps.size()) stop();
        }
    }

    bll::delta_time schedule_connection_event(unsigned channel, bll::delta_time start, bll::delta_time end, bll::delta_time interval) {
        log_pending_event();
        g.advertising = false;
        const bll::delta_time r = base::schedule_connection_event(channel, start, end, interval);
        if (g.pos == g.steps.size() || g.steps[g.pos].kind == step::conn || g.steps[g.pos].kind == step::adv) { stop(); return r; }
        const step s = g.steps[g.pos++];
        g.ev_pending    = true;
        g.ev_is_timeout = s.kind == step::to;
        g.ev_counter    = static_cast< CB* >( this )->connection_event_counter();
        if (s.kind == step::to) {
            if (s.quiesce_before) g.t->ev("Quiesce").f("now", g.now).end();
            this->add_connection_event_respond_timeout();
        } else {
            CB* const ll = static_cast< CB* >( this );
            std::function< test::pdu_list_t () > f = [s, ll]() -> test::pdu_list_t {
                if (s.quiesce_before) g.t->ev("Quiesce").f("now", g.now).end();
                for (const auto& a : s.apps) app_call(*ll, a);
                test::pdu_list_t pdus;
                for (const auto& tok : s.pdus) pdus.push_back(make_pdu(*ll, tok));
                if (pdus.empty()) pdus.push_back(test::pdu_t{ 0x01, 0x00 });
                return pdus;
            };
            this->add_connection_event_respond(test::connection_event_response(f));
        }
        return r;
    }

    void wake_up() {}

    void log_pending_event() {
        if (!g.ev_pending) return;
        g.ev_pending = false;
        const test::connection_event& e = this->connection_events().back();
        verif::tracer& t = *g.t;
        g.now = (long long)(e.schedule_time.usec() + e.start_receive.usec());
        // idle events (central heard, nothing but empty PDUs, no change of the encryption state) are not logged,
        // except the first event of a connection in which the central is heard; the next logged event carries the time (`now`)
        const std::string rx = pdus_json(e.received_data, nullptr);
        const int flags = (g.enc() ? 1 : 0) | (this->reception_encrypted_ ? 2 : 0) | (this->transmition_encrypted_ ? 4 : 0);
        bool tx_empty = true;
        for (const auto& p : e.transmitted_data) tx_empty = tx_empty && (p.size() < 2 || ((p[0] & 3) == 1 && p[1] == 0));
        const bool idle = !g.ev_is_timeout && rx == "[]" && tx_empty && flags == g.last_flags && !g.first_event;
        if (!g.ev_is_timeout) g.first_event = false;
        g.last_flags  = flags;
        ++g.ev_index;
        if (idle) return;
        --g.ev_index;
        t.ev("Ev").f("k", g.ev_index++).f("cnt", g.ev_counter)
         .f("t", (long long)(e.schedule_time.usec() + e.start_receive.usec())).f("to", g.ev_is_timeout);
        t.raw("rx", pdus_json(e.received_data, nullptr));
        std::string encs;
        t.raw("tx", pdus_json(e.transmitted_data, &encs));
        t.raw("txenc", encs);
        t.f("enc", g.enc()).f("renc", this->reception_encrypted_).f("tenc", this->transmition_encrypted_);
        t.end();
    }

private:
    void stop() { this->end_of_simulation(bll::delta_time()); }

    // non empty PDUs as [llid, payload...]
    static std::string pdus_json(const test::pdu_list_t& l, std::string* encs) {
        std::string s = "[", e = "[";
        bool first = true;
        for (const auto& p : l) {
            if (p.size() < 2 || ((p[0] & 3) == 1 && p[1] == 0) || (p[0] & 3) == 0) continue;
            if (!first) { s += ","; e += ","; }
            first = false;
            s += "[" + std::to_string(p[0] & 3);
            for (std::size_t i = 2; i < p.size() && i < 2u + p[1]; ++i) s += "," + std::to_string(p[i]);
            s += "]";
            e += p.encrypted ? "true" : "false";
        }
        if (encs) *encs = e + "]";
        return s + "]";
    }

    static test::pdu_t make_pdu(CB& ll, const std::string& tok) {
        if (tok == "e") return test::pdu_t{ 0x01, 0x00 };
        const std::uint8_t llid = tok[0] == 'c' ? 3 : 2;
        std::string body = tok.substr(2);
        std::string ins;
        const std::size_t plus = body.find('+');
        if (plus != std::string::npos) { ins = body.substr(plus + 1); body = body.substr(0, plus); }
        std::vector<std::uint8_t> payload = parse_hex(body);
        if (!ins.empty() && ins[0] == 'i') {
            const unsigned pos = unsigned(std::strtoul(ins.c_str() + 1, nullptr, 10));
            const std::size_t comma = ins.find(',');
            const long off = comma == std::string::npos ? 0 : std::strtol(ins.c_str() + comma + 1, nullptr, 10);
            const unsigned inst = unsigned(ll.connection_event_counter() + off) & 0xffff;
            if (pos + 1 < payload.size()) { payload[pos] = std::uint8_t(inst); payload[pos + 1] = std::uint8_t(inst >> 8); }
        }
        std::vector<std::uint8_t> pdu = { llid, std::uint8_t(payload.size()) };
        pdu.insert(pdu.end(), payload.begin(), payload.end());
        return test::pdu_t(pdu);
    }

    static void app_call(CB& ll, const verif::command& a) {
        const std::string& c = a.w[0];
        verif::tracer& t = *g.t;
        std::vector<long long> args(a.a.begin() + 1, a.a.end());
        bool r = true;
        if (c == "disconnect")       { if (args.empty()) ll.disconnect(); else ll.disconnect(std::uint8_t(args[0])); }
        else if (c == "version_req") r = ll.remote_versions_request();
        else if (c == "param_req")   r = ll.initiating_connection_parameter_request(a.arg(1), a.arg(2), a.arg(3), a.arg(4));
        else if (c == "param_update") r = ll.connection_parameter_update_request(a.arg(1), a.arg(2), a.arg(3), a.arg(4));
        else if (c == "phy_req")     r = ll.phy_update_request(std::uint8_t(a.arg(1)), std::uint8_t(a.arg(2)));
        else { std::fprintf(stderr, "bad app call %s\n", c.c_str()); std::exit(3); }
        const test::connection_event& e = ll.connection_events().back();      // the event that is about to start
        t.ev("App").f("c", c).fl("a", args).f("r", r).f("t", (long long)(e.schedule_time.usec() + e.start_receive.usec()))
         .f("enc", g.enc()).end();
    }
};

#if LLCTRL_CFG != 1
// test_radio.hpp selects its inverted-header layout for test::radio and test::radio_with_encryption only; the
// 2 MBit variant runs with the default layout (as in tests/link_layer/ll_phy_update_tests.cpp)
namespace bluetoe { namespace link_layer {
    template < std::size_t T, std::size_t R, class CB >
    struct pdu_layout_by_radio< sradio< T, R, CB > > { using pdu_layout = test::pdu_layout; };
}}
#endif

#ifndef LLCTRL_TX
#define LLCTRL_TX 400
#endif
#ifndef LLCTRL_RX
#define LLCTRL_RX 400
#endif

using callbacks_opt = bll::connection_callbacks< app_callbacks, g_app >;
using sizes_opt     = bll::buffer_sizes< LLCTRL_TX, LLCTRL_RX >;

#if LLCTRL_CFG == 2
using ll_t = bll::link_layer< secret_server, sradio, sizes_opt, callbacks_opt, mock_security_manager >;
#elif LLCTRL_CFG == 3
using ll_t = bll::link_layer< plain_server, sradio, sizes_opt, callbacks_opt, bluetoe::l2cap::signaling_channel<> >;
#else
using ll_t = bll::link_layer< plain_server, sradio, sizes_opt, callbacks_opt >;
#endif

static void run_execution(std::unique_ptr<ll_t>& ll) {
    if (!ll) return;
    g.pos = 0; g.ev_pending = false; g.ev_index = 0; g.advertising = false; g.now = 0; g.last_flags = 0; g.first_event = false;
    ll->end_of_simulation(bll::delta_time(4000000000u));
    ll->run();
    ll->log_pending_event();
    if (g.trailing_quiesce) g.t->ev("Quiesce").f("now", g.now).end();
    g.t->ev("Fin").f("enc", g.enc()).f("now", g.now).end();
    g.enc_probe = nullptr;
    ll.reset();
    g.steps.clear(); g.keys.clear(); g.trailing_quiesce = false;
}

int main(int argc, char** argv) {
    if (argc < 3) return 3;
    std::ifstream in(argv[1]);
    verif::tracer t(argv[2]);
    g.t = &t;
    verif::command c;
    std::unique_ptr<ll_t> ll;
    std::vector<verif::command> apps;
    bool quiesce = false;
    auto push = [&](step s) { s.apps = apps; apps.clear(); s.quiesce_before = quiesce; quiesce = false; g.steps.push_back(s); };
    while (verif::read_command(in, c)) {
        if (c.op == "reset") {
            g.trailing_quiesce = quiesce; quiesce = false;
            run_execution(ll);
            ll.reset(new ll_t());
            t.ev("Reset").f("cfg", LLCTRL_CFG).f("feat", (long long)ll->supported_link_layer_features())
             .f("ver", ll->supported_link_layer_version()).f("comp", ll->link_layer_company_identifier()).end();
        } else if (c.op == "key") {
            g.keys.push_back(parse_hex(c.w.at(0)));
            t.ev("Key").fl("id", g.keys.back()).end();
        } else if (c.op == "conn") {
            step s; s.kind = step::conn; s.a0 = c.arg(0, 24); s.a1 = c.arg(1, 72); s.a2 = c.arg(2, 0); push(s);
        } else if (c.op == "adv") {
            step s; s.kind = step::adv; push(s);
        } else if (c.op == "app") {
            apps.push_back(c);
        } else if (c.op == "ev") {
            step s; s.kind = step::ev; s.pdus = c.w; push(s);
        } else if (c.op == "to") {
            step s; s.kind = step::to; push(s);
        } else if (c.op == "rep") {
            for (long long i = 0; i < c.arg(0); ++i) { step s; s.kind = c.w.at(1) == "to" ? step::to : step::ev; push(s); }
        } else if (c.op == "quiesce") {
            quiesce = true;
        } else { std::fprintf(stderr, "bad op %s\n", c.op.c_str()); return 3; }
    }
    g.trailing_quiesce = quiesce;
    run_execution(ll);
    t.flush();
    return 0;
}
