// Standalone reproductions of the C27 / C28 / C29 findings on the unchanged tree - no verification framework, only
// the repository's own simulated radio (tests/test_tools/test_radio.*), used like tests/link_layer/connected.hpp does.
//
//   cd /verif/harness/llctrl && ./repro_build.sh && /tmp/llctrl/repro_findings          (all)   or   /tmp/llctrl/repro_findings c28
//
// Every case prints what it did and "DEFECT ..." / "ok ..."; exit code = number of reproduced defects.
#include <iterator>
#include <cstdio>
#include <cstring>
#include <string>
#include <vector>
#include <boost/test/unit_test.hpp>
#include <bluetoe/server.hpp>
#include <bluetoe/link_layer.hpp>
#include "test_radio.hpp"

namespace bll = bluetoe::link_layer;

static std::uint16_t value = 0x4711;
using plain_server = bluetoe::server<
    bluetoe::service< bluetoe::service_uuid16< 0x1234 >,
        bluetoe::characteristic< bluetoe::characteristic_uuid16< 0x5678 >, bluetoe::bind_characteristic_value< std::uint16_t, &value >,
                                 bluetoe::no_write_access > >,
    bluetoe::no_gap_service_for_gatt_servers >;
using secret_server = bluetoe::server<
    bluetoe::service< bluetoe::service_uuid16< 0x1234 >,
        bluetoe::characteristic< bluetoe::characteristic_uuid16< 0x5678 >, bluetoe::bind_characteristic_value< std::uint16_t, &value >,
                                 bluetoe::no_write_access >,
        bluetoe::requires_encryption >,
    bluetoe::no_gap_service_for_gatt_servers >;

// security manager without any key (like the mock in tests/link_layer/ll_encryption_tests.cpp, key_vault = { false, .. })
struct no_keys {
    template < typename ... > class impl {
    public:
        template < class Other > class channel_data_t : public Other {
        public:
            std::pair< bool, bluetoe::details::uint128_t > find_key( std::uint16_t, std::uint64_t ) const { return { false, {{ 0 }} }; }
            void remote_connection_created( const bll::device_address& ) {}
            bluetoe::device_pairing_status local_device_pairing_status() const { return bluetoe::device_pairing_status::no_key; }
            template < typename C > void restore_bonded_cccds( C& ) {}
        };
        template < class C > void l2cap_input( const std::uint8_t*, std::size_t, std::uint8_t*, std::size_t& out, C& ) { out = 0; }
        template < class C > bool security_manager_output_available( C& ) const { return false; }
        template < class C > void l2cap_output( std::uint8_t*, std::size_t& out, C& ) { out = 0; }
        static constexpr std::uint16_t channel_id               = bluetoe::l2cap_channel_ids::sm;
        static constexpr std::size_t   minimum_channel_mtu_size = bluetoe::details::default_att_mtu_size;
        static constexpr std::size_t   maximum_channel_mtu_size = bluetoe::details::default_att_mtu_size;
    };
    struct meta_type : bluetoe::details::security_manager_meta_type, bll::details::valid_link_layer_option_meta_type {};
};

// application callbacks: remember their names
static std::vector< std::string > cbs;
static const void* connection = nullptr;
static bool (*is_encrypted)() = nullptr;
struct app {
    template <class C> void ll_connection_requested(const bll::connection_details&, const bll::connection_addresses&, C& c) {
        static C* con; con = &c; is_encrypted = []() { return con->is_encrypted(); };
        cbs.push_back("requested");
    }
    template <class C> void ll_connection_established(const bll::connection_details&, const bll::connection_addresses&, C&) { cbs.push_back("established"); }
    template <class C> void ll_connection_attempt_timeout(C&) { cbs.push_back("attempt_timeout"); }
    template <class C> void ll_connection_changed(const bll::connection_details&, C&) { cbs.push_back("changed"); }
    template <class C> void ll_connection_closed(std::uint8_t r, C&) { cbs.push_back("closed(" + std::to_string(r) + ")"); }
    template <class C> void ll_rejected(std::uint8_t, const C&) { cbs.push_back("rejected"); }
    template <class C> void ll_version(std::uint8_t, std::uint16_t, std::uint16_t, const C&) { cbs.push_back("version"); }
} the_app;

// test::radio returns from run() on every wake_up() and then restarts the central's sequence numbers; keep it running
template < std::size_t T, std::size_t R, class CB > struct radio : test::radio< T, R, CB > { void wake_up() {} };
template < std::size_t T, std::size_t R, class CB > struct enc_radio : test::radio_with_encryption< T, R, CB > { void wake_up() {} };
namespace bluetoe { namespace link_layer {
    template < std::size_t T, std::size_t R, class CB > struct pdu_layout_by_radio< ::radio< T, R, CB > > { using pdu_layout = test::pdu_layout; };
    template < std::size_t T, std::size_t R, class CB > struct pdu_layout_by_radio< ::enc_radio< T, R, CB > > { using pdu_layout = test::pdu_layout; };
}}

static const std::vector< std::uint8_t > connect_ind( unsigned interval = 24, unsigned timeout = 72 ) {
    return { 0xc5, 0x22, 0x3c, 0x1c, 0x62, 0x92, 0xf0, 0x48, 0x47, 0x11, 0x08, 0x15, 0x0f, 0xc0, 0x5a, 0xb3, 0x9a, 0xaf, 0x08, 0x81, 0xf6,
             0x03, 0x0b, 0x00, std::uint8_t(interval), std::uint8_t(interval >> 8), 0x00, 0x00, std::uint8_t(timeout), std::uint8_t(timeout >> 8),
             0xff, 0xff, 0xff, 0xff, 0x1f, 0xaa };
}

template < class LL > static void event( LL& ll, std::vector< std::vector< std::uint8_t > > control_pdus ) {
    test::pdu_list_t l;
    for ( const auto& p : control_pdus ) {
        std::vector< std::uint8_t > pdu = { 0x03, std::uint8_t( p.size() ) };
        pdu.insert( pdu.end(), p.begin(), p.end() );
        l.push_back( test::pdu_t( pdu ) );
    }
    if ( l.empty() ) l.push_back( test::pdu_t{ 0x01, 0x00 } );
    ll.add_connection_event_respond( test::connection_event_response( l ) );
}
template < class LL > static void call( LL& ll, std::function< void() > f ) {
    ll.add_connection_event_respond( test::connection_event_response( std::function< test::pdu_list_t() >( [f]() { f(); return test::pdu_list_t( 1, test::pdu_t{ 0x01, 0x00 } ); } ) ) );
}
static std::string all_callbacks() { std::string s; for ( const auto& c : cbs ) s += c + " "; return s; }
template < class LL > static int count_tx( const LL& ll, std::uint8_t opcode ) {
    int n = 0;
    for ( const auto& e : ll.connection_events() ) for ( const auto& p : e.transmitted_data )
        if ( p.size() > 2 && ( p[ 0 ] & 3 ) == 3 && p[ 2 ] == opcode ) ++n;
    return n;
}

using plain_ll  = bll::link_layer< plain_server, radio, bll::buffer_sizes< 400, 400 >, bll::connection_callbacks< app, the_app > >;
using secret_ll = bll::link_layer< secret_server, enc_radio, bll::buffer_sizes< 400, 400 >, bll::connection_callbacks< app, the_app >, no_keys >;

// C28: LL_START_ENC_RSP without any LL_ENC_REQ / key -> link reported as encrypted, protected characteristic readable
static int c28() {
    cbs.clear();
    secret_ll ll;
    ll.respond_to( 37, connect_ind() );
    event( ll, {} );
    event( ll, { { 0x06 } } );                                                      // LL_START_ENC_RSP out of the blue
    ll.add_connection_event_respond( { 0x02, 0x07, 0x03, 0x00, 0x04, 0x00, 0x0a, 0x03, 0x00 } );   // ATT Read Request, handle 3
    static bool enc; enc = false;
    call( ll, []() { enc = is_encrypted && is_encrypted(); } );
    event( ll, {} );
    ll.run();
    bool value_read = false;
    for ( const auto& e : ll.connection_events() ) for ( const auto& p : e.transmitted_data )
        value_read = value_read || ( p.size() >= 9 && ( p[ 0 ] & 3 ) == 2 && p[ 6 ] == 0x0b && p[ 7 ] == 0x11 && p[ 8 ] == 0x47 );
    std::printf( "c28: LL_START_ENC_RSP without LL_ENC_REQ (the bond data base has no key): is_encrypted()=%d, ATT Read Response with the protected value: %d\n", enc, value_read );
    std::printf( "%s\n", enc || value_read ? "DEFECT: link reported encrypted without a key" : "ok: link stays unencrypted" );
    return enc || value_read;
}

// C29: five callback producing control PDUs + LL_TERMINATE_IND in one connection event -> `closed` never reported
static int c29_ring() {
    cbs.clear();
    plain_ll ll;
    ll.respond_to( 37, connect_ind() );
    event( ll, {} );
    event( ll, { { 0x0d, 0x11 }, { 0x0d, 0x12 }, { 0x0d, 0x13 }, { 0x0d, 0x14 }, { 0x02, 0x13 } } );   // 4 x LL_REJECT_IND, LL_TERMINATE_IND
    ll.respond_to( 37, connect_ind() );                                                             // the central connects again
    event( ll, {} ); event( ll, {} );
    ll.run();
    const std::string s = all_callbacks();
    std::printf( "c29_ring: callbacks: %s\n", s.c_str() );
    const std::size_t second = s.find( "requested", 1 );
    const bool lost = second != std::string::npos && s.find( "closed" ) > second;
    std::printf( "%s\n", lost ? "DEFECT: second `requested` without `closed` of the first connection (event queue of 4 overflowed)" : "ok: closed reported" );
    return lost;
}

// C29: disconnect() between the CONNECT_IND and the first connection event -> `closed` without `established`
static int c29_disconnect() {
    cbs.clear();
    plain_ll ll;
    ll.respond_to( 37, connect_ind() );
    call( ll, [&ll]() { ll.disconnect(); } );
    for ( int i = 0; i < 4; ++i ) event( ll, {} );
    ll.run();
    const std::string s = all_callbacks();
    std::printf( "c29_disconnect: callbacks: %s\n", s.c_str() );
    const bool bad = s.find( "closed" ) != std::string::npos && s.find( "established" ) == std::string::npos;
    std::printf( "%s\n", bad ? "DEFECT: closed reported for a connection that was never reported as established" : "ok" );
    return bad;
}

// C27: remote_versions_request(): the central's answer is answered with a second LL_VERSION_IND
static int c27_version() {
    cbs.clear();
    plain_ll ll;
    ll.respond_to( 37, connect_ind() );
    event( ll, {} );
    call( ll, [&ll]() { ll.remote_versions_request(); } );
    event( ll, {} );
    event( ll, { { 0x0c, 0x09, 0x01, 0x02, 0x03, 0x04 } } );                         // the central's LL_VERSION_IND
    event( ll, {} ); event( ll, {} );
    ll.run();
    const int n = count_tx( ll, 0x0c );
    std::printf( "c27_version: LL_VERSION_IND PDUs transmitted in one connection: %d\n", n );
    std::printf( "%s\n", n > 1 ? "DEFECT: more than one LL_VERSION_IND per connection (Core Vol 6 Part B 5.1.5)" : "ok" );
    return n > 1;
}

// C27: an unanswered LL_PHY_REQ never runs into the 40 s procedure response timeout
static int c27_phy_timeout() {
    cbs.clear();
    plain_ll ll;
    ll.respond_to( 37, connect_ind( 3200, 3200 ) );                                  // 4 s interval, 32 s supervision timeout
    event( ll, {} );
    call( ll, [&ll]() { ll.phy_update_request( 2, 2 ); } );
    for ( int i = 0; i < 16; ++i ) event( ll, {} );                                  // 64 s, the central never answers
    ll.end_of_simulation( bll::delta_time( 80u * 1000u * 1000u ) );
    ll.run();
    const std::string s = all_callbacks();
    const bool sent = count_tx( ll, 0x16 ) == 1;
    std::printf( "c27_phy_timeout: LL_PHY_REQ sent: %d, connection events: %u, callbacks: %s\n", sent, unsigned( ll.connection_events().size() ), s.c_str() );
    const bool bad = sent && s.find( "closed" ) == std::string::npos;
    std::printf( "%s\n", bad ? "DEFECT: LL_PHY_REQ unanswered for more than 60 s, connection not closed (no response timeout, Core 5.2)" : "ok" );
    return bad;
}

// C27: LL_CONNECTION_PARAM_REQ with out of range fields is accepted
static int c27_param_range() {
    int bad = 0;
    const unsigned cases[][ 4 ] = { { 5, 20, 0, 100 }, { 10, 20, 0, 9 }, { 10, 20, 0, 3201 }, { 10, 20, 0, 0 } };
    for ( const auto& c : cases ) {
        cbs.clear();
        plain_ll ll;
        ll.respond_to( 37, connect_ind() );
        event( ll, {} );
        std::vector< std::uint8_t > req = { 0x0f, std::uint8_t( c[ 0 ] ), std::uint8_t( c[ 0 ] >> 8 ), std::uint8_t( c[ 1 ] ), std::uint8_t( c[ 1 ] >> 8 ),
            std::uint8_t( c[ 2 ] ), std::uint8_t( c[ 2 ] >> 8 ), std::uint8_t( c[ 3 ] ), std::uint8_t( c[ 3 ] >> 8 ), 0, 0, 0 };
        req.resize( 24, 0xff );
        event( ll, { req } );
        event( ll, {} ); event( ll, {} );
        ll.run();
        const bool rsp = count_tx( ll, 0x10 ) == 1, rej = count_tx( ll, 0x11 ) == 1;
        std::printf( "c27_param_range: Interval_Min %u Interval_Max %u Latency %u Timeout %u -> LL_CONNECTION_PARAM_RSP: %d LL_REJECT_EXT_IND: %d\n", c[ 0 ], c[ 1 ], c[ 2 ], c[ 3 ], rsp, rej );
        bad += rsp && !rej;
    }
    std::printf( "%s\n", bad ? "DEFECT: out of range LL_CONNECTION_PARAM_REQ accepted (Core 5.1.7: shall be rejected with Invalid LL Parameters)" : "ok" );
    return bad != 0;
}

// C27: one shared procedure_timeout_: a PDU that is about ANOTHER procedure stops the 40 s response timer of an unanswered one
//      (a) remote_versions_request() unanswered, LL_UNKNOWN_RSP(LL_CONNECTION_PARAM_REQ) received
//      (b) initiating_connection_parameter_request() unanswered, the central starts its own version exchange (LL_VERSION_IND)
//      (c) remote_versions_request() answered with LL_UNKNOWN_RSP(LL_VERSION_IND): timer NOT stopped, closed with 0x22
static int c27_shared_timer() {
    int bad = 0;
    for ( int variant = 0; variant < 3; ++variant ) {
        cbs.clear();
        plain_ll ll;
        ll.respond_to( 37, connect_ind( 3200, 3200 ) );                              // 4 s interval, 32 s supervision timeout
        event( ll, {} );
        if ( variant == 1 ) call( ll, [&ll]() { ll.initiating_connection_parameter_request( 10, 20, 0, 100 ); } );
        else                call( ll, [&ll]() { ll.remote_versions_request(); } );
        event( ll, {} ); event( ll, {} );
        if ( variant == 0 ) event( ll, { { 0x07, 0x0f } } );
        if ( variant == 1 ) event( ll, { { 0x0c, 0x09, 0x01, 0x02, 0x03, 0x04 } } );
        if ( variant == 2 ) event( ll, { { 0x07, 0x0c } } );
        for ( int i = 0; i < 16; ++i ) event( ll, {} );                              // 64 s
        ll.end_of_simulation( bll::delta_time( 90u * 1000u * 1000u ) );
        ll.run();
        const std::string s = all_callbacks();
        const bool closed = s.find( "closed" ) != std::string::npos;
        std::printf( "c27_shared_timer %c: connection events: %u, callbacks: %s\n", "abc"[ variant ], unsigned( ll.connection_events().size() ), s.c_str() );
        if ( variant < 2 && !closed ) { ++bad; std::printf( "DEFECT: own request unanswered for more than 60 s, the response timer was stopped by a PDU about another procedure\n" ); }
        if ( variant == 2 && closed ) { ++bad; std::printf( "DEFECT: connection closed although the version exchange was ended by LL_UNKNOWN_RSP(LL_VERSION_IND)\n" ); }
    }
    if ( !bad ) std::printf( "ok\n" );
    return bad != 0;
}

int main( int argc, char** argv ) {
    const std::string which = argc > 1 ? argv[ 1 ] : "all";
    int n = 0;
    if ( which == "all" || which == "c28" )             n += c28();
    if ( which == "all" || which == "c29_ring" )        n += c29_ring();
    if ( which == "all" || which == "c29_disconnect" )  n += c29_disconnect();
    if ( which == "all" || which == "c27_version" )     n += c27_version();
    if ( which == "all" || which == "c27_phy_timeout" ) n += c27_phy_timeout();
    if ( which == "all" || which == "c27_param_range" ) n += c27_param_range();
    if ( which == "all" || which == "c27_shared_timer" ) n += c27_shared_timer();
    return n;
}
