// Strong definitions of the sanitizer callbacks for the C19 harness (separate translation unit: trace.hpp carries inline
// ones that _exit(0), which clang does not emit).  A report bumps this counter; with the default halting sanitizers the
// child process then ends with ASan's exit code and the parent records {"e":"Crash"}; in a recoverable build the harness
// sees the counter change, records the crash itself and abandons the execution.
extern "C" {
volatile int verif_sanitizer_reports = 0;
void __asan_on_error() { ++verif_sanitizer_reports; }
void __ubsan_on_report() { ++verif_sanitizer_reports; }
}
