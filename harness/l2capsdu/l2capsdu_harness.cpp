// C19: replays scripts on the real bluetoe::link_layer::ll_l2cap_sdu_buffer< stub_radio, stub_radio, MTU > and records an
// NDJSON trace that TLC validates against spec/L2capSdu/L2capSduTrace.tla.
//
//   usage: l2capsdu_harness <script> <trace>
//
// The radio below the buffer is a stub: a plain queue of received PDUs (each in its own exact-size heap block), a counter
// of free transmit buffers, every transmit buffer an exact-size heap block, a settable max_tx_size().  The object under
// test lives in an exact-size heap allocation and the harness is built with clang -fsanitize=address
// -fsanitize-address-field-padding=1, so that a write past receive_buffer_ / transmit_buffer_ *inside* the object is
// reported by AddressSanitizer; in addition the harness compares the bytes of the intra-object redzones after every call
// (ASan samples short memmoves only at begin / middle / end).  The executions (from one `reset` to the next) run in a forked child; when a sanitizer
// report (or a signal) ends it, the parent appends {"e":"Crash"} to the trace and continues with the next execution in a
// new child.  (Should a report be survived - recoverable build - the call that produced it is followed by {"e":"Crash"}
// and the execution is abandoned; recoverable ASan suppresses repeated reports, so the check does not use that mode.)
//
// script lines (ints):
//   reset <mtu> <oh> <maxp>     new object: MTU template argument, layout overhead (bytes between LL header and body: 0 = default
//                               layout, 1 = nRF encrypted geometry), maximum LL transmit payload
//   rx <llid> <n> <L> <cid> <fill>   the radio received a PDU with n body bytes; start fragments (llid 2) begin with L and cid
//                               (little endian, cut to n bytes), all other bytes are fill, fill+1, ...
//   next                        next_ll_l2cap_received()
//   free                        free_ll_l2cap_received() (only called if the last next offered something)
//   bufs <k>                    the radio gets k more free transmit buffers
//   maxtx <p>                   max_tx_size() changes to header + p + oh
//   txsdu <n> <cid> <fill>      allocate_l2cap_transmit_buffer( n ) ["txalloc" event]; if granted: write the L2CAP frame
//                               (n, cid, n payload bytes fill, fill+1, ..) and commit_l2cap_transmit_buffer ["txcommit" event]
//   llsend <n> <fill>           allocate_ll_transmit_buffer( n ); if granted: LL control PDU with n bytes, commit_ll_transmit_buffer
//   drain                       give the radio 4 buffers and call allocate_ll_transmit_buffer( 1 ) until nothing more is sent
// every event: "tx":[{llid,len,msize,body}..] PDUs committed to the radio during the call, "qlen" PDUs in the radio's receive
// queue, "avail" free transmit buffers, "amax" largest transmit buffer size requested during the call
#include <iterator>
#include <cassert>
#include <cstring>
#include <deque>
#include <memory>
#include <vector>
#include <string>
#include <algorithm>
#include <sys/mman.h>
#include <sys/wait.h>
#include <sanitizer/asan_interface.h>
#include <bluetoe/ll_l2cap_sdu_buffer.hpp>
#include <bluetoe/default_pdu_layout.hpp>
#include "test_layout.hpp"
#include "trace.hpp"

using bluetoe::link_layer::read_buffer;
using bluetoe::link_layer::write_buffer;

typedef std::vector<std::uint8_t> bytes;

extern "C" volatile int verif_sanitizer_reports;     // sanitizer_hooks.cpp: number of ASan / UBSan reports so far

struct tx_record { int llid, len, msize; bytes body; };

template <std::size_t OH>
struct stub_radio {
    static constexpr std::size_t header_size = 2;
    static constexpr std::size_t layout_overhead = OH;
    typedef test::layout_with_overhead<OH> layout;       // OH = 0: same geometry as default_pdu_layout; 1: nRF encrypted

    std::deque<std::unique_ptr<bytes>> rxq;       // exact-size heap block per received PDU
    std::unique_ptr<bytes> txbuf;                 // the transmit buffer currently handed out (exact size)
    std::size_t avail, maxp, amax;
    std::vector<tx_record> sent;
    int rx_callbacks, bad_free;

    stub_radio() : avail(0), maxp(27), amax(0), rx_callbacks(0), bad_free(0) {}

    read_buffer allocate_transmit_buffer(std::size_t size) {
        amax = std::max(amax, size);
        if (avail == 0) return read_buffer{ nullptr, 0 };
        if (!txbuf || txbuf->size() != size) txbuf.reset(new bytes(size, 0x5a));     // idempotent for equal sizes
        return read_buffer{ txbuf->data(), size };
    }
    void commit_transmit_buffer(read_buffer b) {
        const std::uint16_t h = layout::header(b);
        tx_record r; r.llid = h & 3; r.len = h >> 8; r.msize = int(b.size);
        const std::size_t first = header_size + OH;
        const std::size_t last = std::min<std::size_t>(first + r.len, b.size);
        if (last > first) r.body.assign(b.buffer + first, b.buffer + last);
        sent.push_back(r);
        if (avail) --avail;
        txbuf.reset();
    }
    write_buffer next_received() const {
        if (rxq.empty()) return write_buffer{ nullptr, 0 };
        return write_buffer{ rxq.front()->data(), rxq.front()->size() };
    }
    void free_received() { if (rxq.empty()) ++bad_free; else rxq.pop_front(); }
    std::size_t max_tx_size() const { return header_size + maxp + OH; }
    void pdu_receive_data_callback(const write_buffer&) { ++rx_callbacks; }
};

// ASan checks a memmove of up to 64 bytes only at a few sample points (begin, end, middle): a short overflow whose end lands in
// the next *valid* member of the object jumps over the poisoned redzone between the members unnoticed.  Therefore the
// harness itself watches the intra-object redzones: their bytes (never written legitimately) are compared after every call.
__attribute__((no_sanitize("address"))) static void raw_read(const std::uint8_t* src, std::uint8_t* dst, std::size_t n) {
    for (std::size_t i = 0; i < n; ++i) dst[i] = src[i];
}

struct machine {
    virtual ~machine() {}
    virtual void run(const verif::command& c, verif::tracer& t) = 0;
    virtual bool is_dead() const = 0;          // memory of the object under test is damaged: the execution ends
};

template <std::size_t MTU, std::size_t OH>
struct sdu_machine : machine {
    typedef stub_radio<OH> radio_t;
    struct sut_t : bluetoe::link_layer::ll_l2cap_sdu_buffer<radio_t, radio_t, MTU> {};
    static const std::size_t ll_overhead = 2 + OH;

    std::unique_ptr<sut_t> s;
    bool offered;
    std::vector<std::size_t> redzone;        // offsets of the poisoned (padding) bytes inside the object
    bytes redzone_bytes, now;

    // -1 or the offset of the first redzone byte that changed
    long redzone_damage() {
        now.resize(sizeof(sut_t));
        raw_read(reinterpret_cast<const std::uint8_t*>(s.get()), now.data(), sizeof(sut_t));
        for (std::size_t k = 0; k < redzone.size(); ++k)
            if (now[redzone[k]] != redzone_bytes[k]) return long(redzone[k]);
        return -1;
    }

    sdu_machine(verif::tracer& t, std::size_t maxp) : s(new sut_t), offered(false) {
        const std::uint8_t* raw = reinterpret_cast<const std::uint8_t*>(s.get());
        for (std::size_t i = 0; i < sizeof(sut_t); ++i)
            if (__asan_address_is_poisoned(raw + i)) redzone.push_back(i);
        now.resize(sizeof(sut_t));
        raw_read(raw, now.data(), sizeof(sut_t));
        for (std::size_t k = 0; k < redzone.size(); ++k) redzone_bytes.push_back(now[redzone[k]]);
        s->maxp = maxp;
        t.ev("Reset").f("mtu", (long long)MTU).f("oh", (long long)OH).f("maxp", (long long)maxp);
        t.f("objsize", (long long)sizeof(sut_t)).f("redzone_bytes", (long long)redzone.size());
        common(t);
    }

    void common(verif::tracer& t) {
        std::string tx = "[";
        for (std::size_t i = 0; i < s->sent.size(); ++i) {
            const tx_record& r = s->sent[i];
            char tmp[96];
            std::snprintf(tmp, sizeof tmp, "%s{\"llid\":%d,\"len\":%d,\"msize\":%d,\"body\":[", i ? "," : "", r.llid, r.len, r.msize);
            tx += tmp;
            for (std::size_t k = 0; k < r.body.size(); ++k) { std::snprintf(tmp, sizeof tmp, "%s%d", k ? "," : "", int(r.body[k])); tx += tmp; }
            tx += "]}";
        }
        tx += "]";
        t.raw("tx", tx).f("qlen", (long long)s->rxq.size()).f("avail", (long long)s->avail).f("amax", (long long)s->amax)
         .f("badfree", s->bad_free);
        t.end();
        s->sent.clear();
        s->amax = 0;
        t.flush();         // a sanitizer abort must not lose the events before it
    }

    static bytes pattern(std::size_t n, int fill) { bytes b(n); for (std::size_t i = 0; i < n; ++i) b[i] = std::uint8_t(fill + i); return b; }

    void run(const verif::command& c, verif::tracer& t) {
        if (c.op == "rx") {
            const int llid = int(c.arg(0)); const std::size_t n = c.arg(1); const unsigned L = unsigned(c.arg(2)), cid = unsigned(c.arg(3));
            bytes body = pattern(n, int(c.arg(4)));
            if (llid == 2) {
                const std::uint8_t hdr[4] = { std::uint8_t(L & 0xff), std::uint8_t(L >> 8), std::uint8_t(cid & 0xff), std::uint8_t(cid >> 8) };
                for (std::size_t i = 0; i < 4 && i < n; ++i) body[i] = hdr[i];
            }
            std::unique_ptr<bytes> pdu(new bytes(ll_overhead + n, 0xaa));
            (*pdu)[0] = std::uint8_t(llid); (*pdu)[1] = std::uint8_t(n);
            std::copy(body.begin(), body.end(), pdu->begin() + ll_overhead);
            s->rxq.push_back(std::move(pdu));
            t.ev("rx").f("llid", llid).fl("body", body);
        } else if (c.op == "next") {
            const write_buffer b = s->next_ll_l2cap_received();
            offered = b.size != 0;
            t.ev("next").f("r", offered);
            if (offered) {
                const std::uint16_t h = radio_t::layout::header(b);
                t.f("llid", int(h & 3)).f("size", (long long)b.size);
                if (b.size >= ll_overhead) t.fl("body", b.buffer + ll_overhead, b.buffer + b.size);    // read through the returned buffer
                else t.raw("body", "[]");
            } else {
                t.f("llid", 0).f("size", 0).raw("body", "[]");
            }
        } else if (c.op == "free") {
            const bool did = offered;
            if (did) s->free_ll_l2cap_received();
            offered = false;
            t.ev("free").f("did", did);
        } else if (c.op == "bufs") {
            s->avail += c.arg(0);
            t.ev("bufs").f("k", c.arg(0));
        } else if (c.op == "maxtx") {
            s->maxp = c.arg(0);
            t.ev("maxtx").f("p", c.arg(0));
        } else if (c.op == "txsdu") {
            const std::size_t n = c.arg(0); const unsigned cid = unsigned(c.arg(1));
            const read_buffer b = s->allocate_l2cap_transmit_buffer(n);
            t.ev("txalloc").f("n", (long long)n).f("r", b.size != 0).f("room", b.size >= ll_overhead ? (long long)(b.size - ll_overhead) : 0LL);
            common(t);
            if (b.size == 0) return;
            bytes frame = pattern(n + 4, int(c.arg(2)));
            frame[0] = std::uint8_t(n & 0xff); frame[1] = std::uint8_t(n >> 8); frame[2] = std::uint8_t(cid & 0xff); frame[3] = std::uint8_t(cid >> 8);
            // what link_layer::commit_l2cap_output_buffer does: LL header with llid 2 and the size, then the frame
            radio_t::layout::header(b, std::uint16_t(2 | (((n + 4) & 0xff) << 8)));
            std::copy(frame.begin(), frame.end(), b.buffer + ll_overhead);                   // ASan checks the room
            s->commit_l2cap_transmit_buffer(b);
            t.ev("txcommit").fl("frame", frame);
        } else if (c.op == "llsend") {
            const std::size_t n = c.arg(0);
            const read_buffer b = s->allocate_ll_transmit_buffer(n);
            bytes body = pattern(n, int(c.arg(1)));
            if (b.size) {
                radio_t::layout::header(b, std::uint16_t(3 | (n << 8)));
                std::copy(body.begin(), body.end(), b.buffer + ll_overhead);
                s->commit_ll_transmit_buffer(b);
            }
            t.ev("llsend").f("r", b.size != 0).fl("body", body);
        } else if (c.op == "drain") {
            std::vector<tx_record> all;
            for (int round = 0; round < 400; ++round) {
                s->avail += 4;
                s->allocate_ll_transmit_buffer(1);
                if (s->sent.empty()) break;
                all.insert(all.end(), s->sent.begin(), s->sent.end());
                s->sent.clear();
            }
            s->sent = all;
            t.ev("drain");
        } else { std::fprintf(stderr, "bad op %s\n", c.op.c_str()); std::exit(3); }
        common(t);
        const long damaged = redzone_damage();
        if (damaged >= 0) {
            // a write into an intra-object redzone that ASan did not see: same verdict as an ASan report
            t.ev("Crash").f("what", "redzone").f("sig", damaged).f("after", c.op).end();
            t.flush();
            dead = true;
        }
    }
    bool dead = false;
    bool is_dead() const { return dead; }
};

static machine* make(verif::tracer& t, std::size_t mtu, std::size_t oh, std::size_t maxp) {
#define M(N) if (mtu == N) return oh ? static_cast<machine*>(new sdu_machine<N, 1>(t, maxp)) : static_cast<machine*>(new sdu_machine<N, 0>(t, maxp));
    M(8) M(23) M(24) M(40) M(65) M(100) M(247)
#undef M
    std::fprintf(stderr, "MTU %zu not instantiated\n", mtu); std::exit(3);
}

int main(int argc, char** argv) {
    if (argc < 3) return 3;
    // executions = maximal runs of lines starting with "reset"
    std::vector<std::vector<verif::command>> execs;
    {
        std::ifstream in(argv[1]);
        verif::command c;
        while (verif::read_command(in, c)) {
            if (c.op == "reset") execs.push_back(std::vector<verif::command>());
            if (execs.empty()) { std::fprintf(stderr, "script must start with reset\n"); return 3; }
            execs.back().push_back(c);
        }
    }
    // progress counter shared with the children
    volatile long* done = static_cast<volatile long*>(mmap(nullptr, sizeof(long), PROT_READ | PROT_WRITE, MAP_SHARED | MAP_ANONYMOUS, -1, 0));
    *done = 0;
    std::vector<std::string> parts;
    while (std::size_t(*done) < execs.size()) {
        const std::string part = std::string(argv[2]) + ".part" + std::to_string(parts.size());
        parts.push_back(part);
        const long start = *done;
        const pid_t pid = fork();
        if (pid < 0) { std::perror("fork"); return 3; }
        if (pid == 0) {
            verif::tracer t(part.c_str());
            for (std::size_t i = start; i < execs.size(); ++i) {
                std::unique_ptr<machine> m;
                const int reports_before = verif_sanitizer_reports;
                for (const verif::command& c : execs[i]) {
                    if (c.op == "reset") m.reset(make(t, c.arg(0), c.arg(1), c.arg(2)));
                    else m->run(c, t);
                    if (m->is_dead()) break;
                    if (verif_sanitizer_reports != reports_before) {
                        // a memory error was reported during this call (and survived): the execution ends here
                        t.ev("Crash").f("what", "asan").f("sig", 0).f("after", c.op).end();
                        break;
                    }
                }
                t.flush();
                *done = long(i) + 1;      // counts as done before the (possibly damaged) object is destroyed
                m.reset();
            }
            t.flush();
            _exit(0);
        }
        int status = 0;
        waitpid(pid, &status, 0);
        if (std::size_t(*done) < execs.size()) {
            // the child died inside execution *done (a Crash event is in its trace unless it was killed hard)
            // (the sanitizer hooks of trace.hpp do that for gcc builds; with clang the process just exits with ASan's exit code)
            if (!(WIFEXITED(status) && WEXITSTATUS(status) == 0)) {
                std::FILE* f = std::fopen(part.c_str(), "a");
                if (f) {
                    if (WIFSIGNALED(status)) std::fprintf(f, "{\"e\":\"Crash\",\"what\":\"signal\",\"sig\":%d}\n", WTERMSIG(status));
                    else std::fprintf(f, "{\"e\":\"Crash\",\"what\":\"%s\",\"sig\":%d}\n", WEXITSTATUS(status) == 99 ? "asan" : "exit", WEXITSTATUS(status));
                    std::fclose(f);
                }
            }
            *done = *done + 1;
        }
    }
    std::FILE* out = std::fopen(argv[2], "w");
    if (!out) { std::perror(argv[2]); return 3; }
    for (const std::string& p : parts) {
        std::FILE* f = std::fopen(p.c_str(), "r");
        if (!f) continue;
        char buf[1 << 16]; std::size_t n;
        while ((n = std::fread(buf, 1, sizeof buf, f)) > 0) std::fwrite(buf, 1, n, out);
        std::fclose(f);
        std::remove(p.c_str());
    }
    std::fclose(out);
    return 0;
}
