// Standalone reproductions of the C19 known findings on the unchanged tree (plain g++, no sanitizer needed):
//   g++ -std=c++11 -DNDEBUG -I/repo -I/repo/bluetoe/utility/include -I/repo/bluetoe/link_layer/include \
//       -I/repo/tests/test_tools repro_sdu_reassembly.cpp && ./a.out
// 1. an LL control PDU between two fragments of an SDU is delivered twice and the SDU is lost
//    (free_ll_l2cap_received() resets the half filled receive buffer instead of releasing the control PDU)
// 2. a continuation fragment that is longer than what is missing is copied completely: add_to_receive_buffer()
//    writes past receive_buffer_ into receive_size_ / receive_buffer_used_ (here: the object's bookkeeping turns
//    into the PDU's bytes, the next fragment is copied to a wild address -> segmentation fault)
#include <iterator>
#include <cassert>
#include <cstdio>
#include <vector>
#include <algorithm>
#include <bluetoe/ll_l2cap_sdu_buffer.hpp>
#include "test_layout.hpp"

using namespace bluetoe::link_layer;

struct radio {
    static constexpr std::size_t header_size = 2, layout_overhead = 0;
    using layout = test::layout_with_overhead< 0 >;
    std::vector< std::vector< std::uint8_t > > rx;
    read_buffer allocate_transmit_buffer( std::size_t ) { return { nullptr, 0 }; }
    void commit_transmit_buffer( read_buffer ) {}
    write_buffer next_received() const { return rx.empty() ? write_buffer{ nullptr, 0 } : write_buffer{ &rx.front()[ 0 ], rx.front().size() }; }
    void free_received() { if ( !rx.empty() ) rx.erase( rx.begin() ); }
    std::size_t max_tx_size() const { return 29; }
    void pdu_receive_data_callback( const write_buffer& ) {}

    void receive( int llid, std::size_t n, unsigned l2cap_len, std::uint8_t fill ) {
        std::vector< std::uint8_t > pdu( 2 + n, fill );
        pdu[ 0 ] = llid; pdu[ 1 ] = n;
        if ( llid == 2 ) { pdu[ 2 ] = l2cap_len & 0xff; pdu[ 3 ] = l2cap_len >> 8; pdu[ 4 ] = 4; pdu[ 5 ] = 0; }
        rx.push_back( pdu );
    }
};

struct buffer : ll_l2cap_sdu_buffer< radio, radio, 40 > {};

static void show( const char* what, write_buffer b ) {
    std::printf( "  %-46s -> ", what );
    if ( b.size == 0 ) std::printf( "nothing\n" );
    else std::printf( "%s, %zu bytes\n", ( b.buffer[ 0 ] & 3 ) == 3 ? "LL control PDU" : "L2CAP SDU", b.size );
}

int main() {
    {
        std::printf( "1. LL control PDU between the two fragments of a 40 byte SDU (MTU 40):\n" );
        buffer b;
        b.receive( 2, 27, 40, 0x11 );                 // first fragment: 27 of 44 bytes
        show( "next_ll_l2cap_received() after 1st fragment", b.next_ll_l2cap_received() );
        b.receive( 3, 2, 0, 0x12 );                   // e.g. LL_PING_REQ from the central
        show( "next_ll_l2cap_received() after control PDU", b.next_ll_l2cap_received() );
        b.free_ll_l2cap_received();
        show( "next_ll_l2cap_received() after free", b.next_ll_l2cap_received() );      // the same control PDU again
        if ( b.next_ll_l2cap_received().size ) b.free_ll_l2cap_received();
        b.receive( 1, 17, 0, 0x33 );                  // last fragment: the missing 17 bytes
        show( "next_ll_l2cap_received() after last fragment", b.next_ll_l2cap_received() );  // nothing: SDU lost
    }
    {
        std::printf( "2. continuation fragment of 27 bytes although only 17 bytes are missing (MTU 40):\n" );
        buffer b;
        b.receive( 2, 27, 40, 0x11 );
        show( "next_ll_l2cap_received() after 1st fragment", b.next_ll_l2cap_received() );
        b.receive( 1, 27, 0, 0x41 );                  // 10 bytes too many: written behind receive_buffer_
        show( "next_ll_l2cap_received() after long fragment", b.next_ll_l2cap_received() );
        b.receive( 1, 1, 0, 0x55 );
        std::printf( "  one more fragment: copied to receive_buffer_[ 0x4141... ]\n" ); std::fflush( stdout );
        show( "next_ll_l2cap_received()", b.next_ll_l2cap_received() );                   // segmentation fault
    }
    return 0;
}
