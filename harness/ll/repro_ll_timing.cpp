// Standalone reproductions of the C21 / C22 / C23 findings of checks/ll_timing.py, written like the repository's own
// link layer tests (tests/link_layer/connected.hpp + test::radio) - independent of the scripted radio of this directory.
//
// build + run (uses the libraries of the baseline build in /repo/_build; 9 test cases, "No errors detected"):
//   g++ -std=c++11 -O0 -DNDEBUG -w -I/repo -I/repo/bluetoe/utility/include -I/repo/bluetoe/link_layer/include \
//       -I/repo/bluetoe/sm/include -I/repo/tests/test_tools -I/repo/tests/link_layer harness/ll/repro_ll_timing.cpp \
//       /repo/_build/tests/test_tools/libtest_tools.a /repo/_build/bluetoe/link_layer/libbluetoe_linklayer.a \
//       /repo/_build/bluetoe/utility/*.a -o /tmp/repro && /tmp/repro
//
// Every test case PASSES on the unchanged tree, i.e. it asserts the defective behaviour and says what would be right.
#define BOOST_TEST_MODULE
#include <boost/test/included/unit_test.hpp>

#include "connected.hpp"

static std::vector< std::uint8_t > connect_request( std::uint8_t ws, std::uint16_t wo, std::uint16_t interval, std::uint16_t latency, std::uint16_t timeout )
{
    return {
        0xc5, 0x22,
        0x3c, 0x1c, 0x62, 0x92, 0xf0, 0x48, 0x47, 0x11, 0x08, 0x15, 0x0f, 0xc0,
        0x5a, 0xb3, 0x9a, 0xaf, 0x08, 0x81, 0xf6,
        ws, std::uint8_t( wo ), std::uint8_t( wo >> 8 ), std::uint8_t( interval ), std::uint8_t( interval >> 8 ),
        std::uint8_t( latency ), std::uint8_t( latency >> 8 ), std::uint8_t( timeout ), std::uint8_t( timeout >> 8 ),
        0xff, 0xff, 0xff, 0xff, 0x1f, 0xaa };
}

// ---- C22 ValidParametersOnly -------------------------------------------------------------------------------
// Core Vol 6 Part B 4.5.1: connInterval 7.5 ms .. 4.0 s. check_timing_paremeters() never looks at the interval.
BOOST_FIXTURE_TEST_CASE( c22_connect_request_with_interval_2_5ms_is_accepted, unconnected )
{
    respond_to( 37, connect_request( 1, 0, 2, 0, 3200 ) );
    run();
    BOOST_CHECK( !connection_events().empty() );        // right: no connection
}

BOOST_FIXTURE_TEST_CASE( c22_connect_request_with_interval_above_4s_is_accepted, unconnected )
{
    respond_to( 37, connect_request( 1, 0, 3201, 0, 3200 ) );
    run();
    BOOST_CHECK( !connection_events().empty() );        // right: no connection
}

// 4.5.2: the supervision timeout shall be LARGER than (1 + latency) * interval * 2. The code accepts equality.
BOOST_FIXTURE_TEST_CASE( c22_connect_request_with_timeout_equal_to_limit_is_accepted, unconnected )
{
    respond_to( 37, connect_request( 2, 3, 40, 3, 40 ) );       // 400 ms == (1+3) * 50 ms * 2
    run();
    BOOST_CHECK( !connection_events().empty() );        // right: no connection
}

// 2.3.3.1: transmitWindowSize 1.25 ms .. min(10 ms, connInterval - 1.25 ms). The code accepts size == interval ...
BOOST_FIXTURE_TEST_CASE( c22_connect_request_with_window_size_equal_to_interval_is_accepted, unconnected )
{
    respond_to( 37, connect_request( 6, 0, 6, 0, 10 ) );
    run();
    BOOST_CHECK( !connection_events().empty() );        // right: no connection
}

// ... and size 0, and then ignores the transmit window offset: the first receive window is [0, 0]
BOOST_FIXTURE_TEST_CASE( c22_connect_request_with_window_size_0_is_accepted_and_offset_ignored, unconnected )
{
    respond_to( 37, connect_request( 0, 3, 24, 0, 72 ) );
    run();
    BOOST_REQUIRE( !connection_events().empty() );      // right: no connection
    BOOST_CHECK_EQUAL( connection_events()[ 0 ].start_receive.usec(), 0u );
    BOOST_CHECK_EQUAL( connection_events()[ 0 ].end_receive.usec(), 0u );
}

// ---- C21 InstantExact --------------------------------------------------------------------------------------
// LL_CONNECTION_UPDATE_IND whose instant is the event in which it is received (or the one before): must end the link with
// 0x28; `instant - counter + 1` lets both pass, the PDU stays deferred (for 65536 events) and blocks all received data.
BOOST_FIXTURE_TEST_CASE( c21_connection_update_with_instant_equal_to_current_event_is_deferred, unconnected )
{
    respond_to( 37, valid_connection_request_pdu );
    add_empty_pdus( 3 );
    add_connection_update_request( 5, 6, 40, 0, 200, 3 );       // received in event 3, instant 3
    ll_control_pdu( { 0x12 } );                                 // LL_PING_REQ: would be answered with LL_PING_RSP
    add_empty_pdus( 20 );
    run();
    BOOST_CHECK_GT( connection_events().size(), 20u );          // right: 4 events, then advertising again (instant passed)
    bool ping_answered = false;
    for ( const auto& ev : connection_events() )
        for ( const auto& pdu : ev.transmitted_data )
            ping_answered = ping_answered || ( pdu.data.size() > 2 && ( pdu.data[ 0 ] & 3 ) == 3 && pdu.data[ 2 ] == 0x13 );
    BOOST_CHECK( !ping_answered );                              // all received data is blocked
    for ( std::size_t i = 4; i < 20; ++i )
        BOOST_CHECK_EQUAL( connection_events()[ i ].connection_interval.usec(), 30000u );  // never applied either
}

BOOST_FIXTURE_TEST_CASE( c21_connection_update_with_instant_one_event_in_the_past_is_deferred, unconnected )
{
    respond_to( 37, valid_connection_request_pdu );
    add_empty_pdus( 3 );
    add_connection_update_request( 5, 6, 40, 0, 200, 2 );       // received in event 3, instant 2
    add_empty_pdus( 20 );
    run();
    BOOST_CHECK_GT( connection_events().size(), 20u );          // right: link ends with 0x28
}

BOOST_FIXTURE_TEST_CASE( c21_channel_map_with_instant_equal_to_current_event_is_deferred, unconnected )
{
    respond_to( 37, valid_connection_request_pdu );
    add_empty_pdus( 3 );
    ll_control_pdu( { 0x01, 0xaa, 0xaa, 0xaa, 0xaa, 0x0a, 0x03, 0x00 } );  // received in event 3, instant 3, odd channels only
    add_empty_pdus( 40 );
    run();
    BOOST_CHECK_GT( connection_events().size(), 40u );          // right: link ends with 0x28
    bool even_channel_used = false;
    for ( std::size_t i = 5; i < 40; ++i )
        even_channel_used = even_channel_used || connection_events()[ i ].channel % 2 == 0;
    BOOST_CHECK( even_channel_used );                           // the map is not applied
}

// LL_PHY_UPDATE_IND: no instant check at all
using phy_ll = unconnected_base_t< test::small_temperature_service, test::radio_with_2mbit >;
BOOST_FIXTURE_TEST_CASE( c21_phy_update_with_instant_in_the_past_is_deferred, phy_ll )
{
    respond_to( 37, valid_connection_request_pdu );
    add_empty_pdus( 5 );
    ll_control_pdu( { 0x18, 0x02, 0x02, 0x02, 0x00 } );         // received in event 5, instant 2
    add_empty_pdus( 20 );
    run();
    BOOST_CHECK_GT( connection_events().size(), 20u );          // right: link ends with 0x28
    for ( std::size_t i = 6; i < 20; ++i )
        BOOST_CHECK_EQUAL( int( connection_events()[ i ].receiving_encoding ), int( bluetoe::link_layer::phy_ll_encoding::le_1m_phy ) );
}

// ---- C21 / C23: an event that is pulled back (new data pending) already uses the parameters of a later instant ----
// test::radio never calls try_event_cancelation(), so this one is reproduced with the scripted radio:
//   ll_harness harness/ll/repro_pullback.txt /tmp/t.ndjson     (variant LL_LATENCY=0, see the comments in the script)
