// Link layer connection state machine harness (C21, C22, C23; reusable for C27-C29).
//
//   usage: ll_harness <script> <trace>
//
// Drives the real bluetoe::link_layer::link_layer< server, scripted_radio, options... > from a text script and
// records one NDJSON event per harness operation (after the call returned) with everything the link layer
// asked the radio to do during that call and every application callback it delivered.
// Script language and trace format: see harness/ll/README.md.
//
// compile time variant (all have defaults):
//   -DLL_LATENCY=0..6   0 default configuration, 1 ignored, 2 strict, 3 strict_plus,
//                       4 configuration_set< ignored, strict, strict_plus, default > (switch with `latcfg <i>`),
//                       5 empty configuration<>, 6 configuration< listen_if_unacknowledged_data, listen_if_last_transmitted_not_empty >
//   -DLL_OWN_SCA=500    sleep_clock_accuracy_ppm< N >
//   -DLL_TX=100 -DLL_RX=200   buffer_sizes< TX, RX >
//   -DLL_2M=0|1         radio supports the 2 MBit PHY (PHY update procedure compiled in)
#include <iterator>
#include <cstdint>
#include <vector>
#include <deque>
#include <string>
#include <sstream>

#include <bluetoe/server.hpp>
#include <bluetoe/service.hpp>
#include <bluetoe/characteristic.hpp>
#include <bluetoe/link_layer.hpp>

#include "scripted_radio.hpp"
#include "trace.hpp"

#ifndef LL_LATENCY
#define LL_LATENCY 0
#endif
#ifndef LL_OWN_SCA
#define LL_OWN_SCA 500
#endif
#ifndef LL_TX
#define LL_TX 100
#endif
#ifndef LL_RX
#define LL_RX 200
#endif
#ifndef LL_2M
#define LL_2M 1
#endif

namespace bll = bluetoe::link_layer;
using verif::ll::us_t;
using verif::ll::radio_call;
using verif::ll::central_pdu;
using verif::ll::exchange;
using verif::ll::event_flags;

// ------------------------------------------------------------------------------------------------
// GATT server: handle 1 service, 2/3 notify characteristic (+4 CCCD), 5/6 characteristic with a read handler
// ------------------------------------------------------------------------------------------------
static std::uint8_t notify_value = 0;

struct cb_record { std::string c; long long a, b, c3, d; };
static std::vector< cb_record > g_cb;
static void push_cb( const char* c, long long a = 0, long long b = 0, long long c3 = 0, long long d = 0 )
{
    cb_record r; r.c = c; r.a = a; r.b = b; r.c3 = c3; r.d = d; g_cb.push_back( r );
}

static std::uint8_t att_read_handler( std::size_t read_size, std::uint8_t* out_buffer, std::size_t& out_size )
{
    push_cb( "att_read" );
    if ( read_size > 0 ) { out_buffer[ 0 ] = 0x42; out_size = 1; } else out_size = 0;
    return bluetoe::error_codes::success;
}

using server_t = bluetoe::server<
    bluetoe::service<
        bluetoe::service_uuid16< 0x1815 >,
        bluetoe::characteristic<
            bluetoe::characteristic_uuid16< 0x2A56 >,
            bluetoe::bind_characteristic_value< std::uint8_t, &notify_value >,
            bluetoe::no_write_access,
            bluetoe::notify
        >,
        bluetoe::characteristic<
            bluetoe::characteristic_uuid16< 0x2A57 >,
            bluetoe::free_read_handler< &att_read_handler >
        >
    >,
    bluetoe::no_gap_service_for_gatt_servers
>;

// ------------------------------------------------------------------------------------------------
// application callbacks
// ------------------------------------------------------------------------------------------------
struct app_callbacks
{
    template < typename ConnectionData >
    void ll_connection_requested( const bll::connection_details& d, const bll::connection_addresses&, const ConnectionData& )
    { push_cb( "requested", d.interval(), d.latency(), d.timeout(), d.cumulated_sleep_clock_accuracy_ppm() ); }

    template < typename ConnectionData >
    void ll_connection_attempt_timeout( const ConnectionData& ) { push_cb( "attempt_timeout" ); }

    template < typename ConnectionData >
    void ll_connection_established( const bll::connection_details& d, const bll::connection_addresses&, const ConnectionData& )
    { push_cb( "established", d.interval(), d.latency(), d.timeout(), d.cumulated_sleep_clock_accuracy_ppm() ); }

    template < typename ConnectionData >
    void ll_connection_changed( const bll::connection_details& d, const ConnectionData& )
    { push_cb( "changed", d.interval(), d.latency(), d.timeout(), d.cumulated_sleep_clock_accuracy_ppm() ); }

    template < typename ConnectionData >
    void ll_connection_closed( std::uint8_t reason, const ConnectionData& ) { push_cb( "closed", reason ); }

    template < typename ConnectionData >
    void ll_version( std::uint8_t version, std::uint16_t company, std::uint16_t subversion, const ConnectionData& )
    { push_cb( "version", version, company, subversion ); }

    template < typename ConnectionData >
    void ll_rejected( std::uint8_t error_code, const ConnectionData& ) { push_cb( "rejected", error_code ); }

    template < typename ConnectionData >
    void ll_unknown( std::uint8_t unknown_type, const ConnectionData& ) { push_cb( "unknown", unknown_type ); }

    template < typename ConnectionData >
    void ll_remote_features( std::uint8_t remote_features[ 8 ], const ConnectionData& ) { push_cb( "features", remote_features[ 0 ], remote_features[ 1 ] ); }

    template < typename ConnectionData >
    void ll_phy_updated( bll::phy_ll_encoding::phy_ll_encoding_t transmit_encoding, bll::phy_ll_encoding::phy_ll_encoding_t receive_encoding, const ConnectionData& )
    { push_cb( "phy", transmit_encoding, receive_encoding ); }
};
static app_callbacks g_app;

// ------------------------------------------------------------------------------------------------
// latency configuration variants
// ------------------------------------------------------------------------------------------------
using pl = bll::peripheral_latency;
#if LL_LATENCY == 0
using latency_option = bll::periperal_latency_default_configuration;
static const char* const latency_cfgs = "[[\"pend\",\"unack\",\"rxne\",\"txne\",\"md\"]]";
#elif LL_LATENCY == 1
using latency_option = bll::peripheral_latency_ignored;
static const char* const latency_cfgs = "[[\"always\"]]";
#elif LL_LATENCY == 2
using latency_option = bll::peripheral_latency_strict;
static const char* const latency_cfgs = "[[\"pend\",\"md\"]]";
#elif LL_LATENCY == 3
using latency_option = bll::peripheral_latency_strict_plus;
static const char* const latency_cfgs = "[[\"rxne\",\"md\"]]";
#elif LL_LATENCY == 4
using latency_option = bll::peripheral_latency_configuration_set<
    bll::peripheral_latency_ignored, bll::peripheral_latency_strict, bll::peripheral_latency_strict_plus, bll::periperal_latency_default_configuration >;
static const char* const latency_cfgs = "[[\"always\"],[\"pend\",\"md\"],[\"rxne\",\"md\"],[\"pend\",\"unack\",\"rxne\",\"txne\",\"md\"]]";
#define LL_LATENCY_SET 1
#elif LL_LATENCY == 5
using latency_option = bll::peripheral_latency_configuration<>;
static const char* const latency_cfgs = "[[]]";
#else
using latency_option = bll::peripheral_latency_configuration< pl::listen_if_unacknowledged_data, pl::listen_if_last_transmitted_not_empty >;
static const char* const latency_cfgs = "[[\"unack\",\"txne\"]]";
#endif

#if LL_2M
#define LL_RADIO verif::ll::scripted_radio_2mbit
#else
#define LL_RADIO verif::ll::scripted_radio
#endif

using link_layer_t = bll::link_layer<
    server_t, LL_RADIO,
    bll::buffer_sizes< LL_TX, LL_RX >,
    bll::sleep_clock_accuracy_ppm< LL_OWN_SCA >,
    bll::static_address< 0xc0, 0x0f, 0x15, 0x08, 0x11, 0x47 >,
    bll::connection_callbacks< app_callbacks, g_app >,
    latency_option >;

// ------------------------------------------------------------------------------------------------
// the simulated central: exact clock, anchors derived from the connection parameters it sent
// ------------------------------------------------------------------------------------------------
struct central_sim
{
    bool        active;
    us_t        next_anchor;        // absolute time of the central's next connection event
    long long   next_event;         // its index (0, 1, 2, ...; counter = index mod 65536)
    us_t        interval;           // us
    // a connection update the central will apply at event index upd_at
    bool        upd_pending;
    long long   upd_at;
    us_t        upd_interval, upd_offset;    // us; offset includes the position inside the transmit window
    std::deque< central_pdu >   queue;      // PDUs waiting to be sent (head is sent until acknowledged)
    // PDUs whose instant is relative to the event of their first transmission
    struct rel_instant { std::size_t id; int offset_in_payload; long long d; int kind; us_t new_interval, new_offset; };
    std::deque< rel_instant >   rel;        // parallel to queue entries that need patching (matched by id)
    std::deque< std::size_t >   ids;        // ids of queue entries
    std::size_t                 next_id;

    central_sim() : active( false ), next_anchor( 0 ), next_event( 0 ), interval( 0 ), upd_pending( false ), upd_at( 0 ),
        upd_interval( 0 ), upd_offset( 0 ), next_id( 1 ) {}

    void advance()      // the central goes to its next event
    {
        ++next_event;
        if ( upd_pending && next_event == upd_at )
        {
            next_anchor += interval + upd_offset;
            interval     = upd_interval;
            upd_pending  = false;
        }
        else
        {
            next_anchor += interval;
        }
    }
};

// ------------------------------------------------------------------------------------------------
// harness
// ------------------------------------------------------------------------------------------------
class harness
{
public:
    harness( const char* trace ) : t_( trace ), ll_( nullptr ), latcfg_( 0 ) {}
    ~harness() { delete ll_; }

    int run( std::istream& in )
    {
        verif::command c;
        while ( verif::read_command( in, c ) )
        {
            if ( !ll_ && c.op != "reset" ) { std::fprintf( stderr, "script must start with reset\n" ); return 3; }
            if      ( c.op == "reset" )       op_reset();
            else if ( c.op == "adv_timeout" ) op_adv_timeout();
            else if ( c.op == "connect" )     op_connect( c, false );
            else if ( c.op == "cconnect" )    op_connect( c, true );
            else if ( c.op == "adv_pdu" )     op_adv_pdu( c );
            else if ( c.op == "timeout" )     op_timeout( "script" );
            else if ( c.op == "event" )       op_event( c );
            else if ( c.op == "step" )        op_step( c );
            else if ( c.op == "ff" )          op_ff( c );
            else if ( c.op == "seek" )        op_seek( c );
            else if ( c.op == "q" )           op_queue( c );
            else if ( c.op == "notify" )      op_notify( c );
            else if ( c.op == "cancel" )      op_cancel( c );
            else if ( c.op == "latcfg" )      op_latcfg( c );
            else if ( c.op == "disconnect" )  op_disconnect( c );
            else if ( c.op == "phyreq" )      op_phyreq( c );
            else if ( c.op == "wait" )        { ll_->advance_to( ll_->t0() + c.arg( 0 ) ); }
            else { std::fprintf( stderr, "bad op %s\n", c.op.c_str() ); return 3; }
        }
        t_.flush();
        return 0;
    }

private:
    // ---- trace helpers ------------------------------------------------------------------------
    static std::string jlist( const std::vector< std::uint8_t >& v )
    {
        std::ostringstream o; o << "[";
        for ( std::size_t i = 0; i != v.size(); ++i ) { if ( i ) o << ","; o << int( v[ i ] ); }
        o << "]"; return o.str();
    }

    // radio calls + callbacks of the operation that just returned
    void log_effects()
    {
        const std::vector< radio_call > calls = ll_->take_calls();
        std::ostringstream all, phy, enc;
        int nsched = 0, nadv = 0, phy_after = 0, ndisarm = 0, nreq = 0, nwake = 0;
        long long ch = -1, s = 0, e = 0, ci = 0, advch = -1, advwhen = 0, aa = 0, crc = 0, dis_ok = 0, dis_el = 0;
        bool first_all = true, first_phy = true, first_enc = true;
        all << "["; phy << "["; enc << "[";
        for ( const radio_call& rc : calls )
        {
            if ( rc.kind != radio_call::wake_up )
            {
                all << ( first_all ? "" : "," ) << "\"" << verif::ll::name_of( rc.kind ) << "\""; first_all = false;
            }
            switch ( rc.kind )
            {
            case radio_call::sched_evt: ++nsched; ch = rc.a; s = rc.b; e = rc.c; ci = rc.d; break;
            case radio_call::sched_adv: ++nadv; advch = rc.a; advwhen = rc.b; break;
            case radio_call::set_aa:    aa = rc.a; crc = rc.b; break;
            case radio_call::set_phy:
                phy << ( first_phy ? "" : "," ) << "[" << rc.a << "," << rc.b << "]"; first_phy = false;
                if ( nsched ) ++phy_after;
                break;
            case radio_call::enc_start_rx: case radio_call::enc_start_tx: case radio_call::enc_stop_rx: case radio_call::enc_stop_tx:
                enc << ( first_enc ? "" : "," ) << "\"" << verif::ll::name_of( rc.kind ) << "\""; first_enc = false;
                break;
            case radio_call::disarm: ++ndisarm; dis_ok = rc.a; dis_el = rc.b; break;
            case radio_call::req_cancel: ++nreq; break;
            case radio_call::wake_up: ++nwake; break;
            default: break;
            }
        }
        all << "]"; phy << "]"; enc << "]";
        t_.raw( "calls", all.str() ).f( "nsched", nsched ).f( "ch", ch ).f( "s", s ).f( "en", e ).f( "ci", ci )
          .f( "nadv", nadv ).f( "advch", advch ).f( "advwhen", advwhen )
          .raw( "phy", phy.str() ).f( "phyafter", phy_after ).raw( "enc", enc.str() )
          .f( "ndisarm", ndisarm ).f( "disok", dis_ok != 0 ).f( "disel", dis_el ).f( "nreq", nreq ).f( "nwake", nwake )
          .f( "aa", aa & 0x7fffffff ).f( "crc", crc );

        std::ostringstream cb; cb << "[";
        for ( std::size_t i = 0; i != g_cb.size(); ++i )
            cb << ( i ? "," : "" ) << "{\"c\":\"" << g_cb[ i ].c << "\",\"a\":" << g_cb[ i ].a << ",\"b\":" << g_cb[ i ].b
               << ",\"c3\":" << g_cb[ i ].c3 << ",\"d\":" << g_cb[ i ].d << "}";
        cb << "]";
        g_cb.clear();
        t_.raw( "cb", cb.str() );
        t_.f( "armed", ll_->connection_event_armed() ? "evt" : ( ll_->advertisment_armed() ? "adv" : "none" ) );
        t_.f( "pend", ll_->pending_outgoing_data_available() );
        t_.f( "ctr", (long long)ll_->connection_event_counter() );      // diagnostics only, not used by the oracle
        t_.end();
    }

    // ---- operations ---------------------------------------------------------------------------
    void op_reset()
    {
        delete ll_;
        g_cb.clear();
        notify_value = 0;
        ll_ = new link_layer_t();
        sim_ = central_sim();
        latcfg_ = 0;
        ll_->run();         // initial state -> starts advertising
        t_.ev( "Reset" ).f( "latency_variant", LL_LATENCY ).raw( "cfgs", latency_cfgs ).f( "own_sca", LL_OWN_SCA )
          .f( "tx", LL_TX ).f( "rx", LL_RX ).f( "phy2m", LL_2M != 0 );
        log_effects();
    }

    void op_adv_timeout()
    {
        const bool ok = ll_->inject_adv_timeout();
        t_.ev( "AdvTimeout" ).f( "ok", ok );
        log_effects();
    }

    // connect ws wo int lat to m0 m1 m2 m3 m4 hop sca [x0] [aa] [crcinit]      (x0: only cconnect)
    void op_connect( const verif::command& c, bool with_sim )
    {
        const unsigned ws = c.arg( 0 ), wo = c.arg( 1 ), interval = c.arg( 2 ), lat = c.arg( 3 ), to = c.arg( 4 );
        const unsigned hop = c.arg( 10 ), sca = c.arg( 11 );
        const us_t     x0 = c.arg( 12, 0 );
        const std::uint32_t aa = static_cast< std::uint32_t >( c.arg( 13, 0x5ab39aaf ) ), crc = static_cast< std::uint32_t >( c.arg( 14, 0x088100 ) );
        std::vector< std::uint8_t > pdu = {
            0xc5, 0x22,
            0x3c, 0x1c, 0x62, 0x92, 0xf0, 0x48,     // InitA (random)
            0x47, 0x11, 0x08, 0x15, 0x0f, 0xc0,     // AdvA = static_address above (random)
            std::uint8_t( aa ), std::uint8_t( aa >> 8 ), std::uint8_t( aa >> 16 ), std::uint8_t( aa >> 24 ),
            std::uint8_t( crc ), std::uint8_t( crc >> 8 ), std::uint8_t( crc >> 16 ),
            std::uint8_t( ws ),
            std::uint8_t( wo ), std::uint8_t( wo >> 8 ),
            std::uint8_t( interval ), std::uint8_t( interval >> 8 ),
            std::uint8_t( lat ), std::uint8_t( lat >> 8 ),
            std::uint8_t( to ), std::uint8_t( to >> 8 ),
            std::uint8_t( c.arg( 5 ) ), std::uint8_t( c.arg( 6 ) ), std::uint8_t( c.arg( 7 ) ), std::uint8_t( c.arg( 8 ) ), std::uint8_t( c.arg( 9 ) ),
            std::uint8_t( ( hop & 0x1f ) | ( ( sca & 7 ) << 5 ) ) };
        ll_->central_reset();
        const bool ok = ll_->inject_adv_received( pdu, 0 );
        sim_ = central_sim();
        if ( with_sim )
        {
            sim_.active      = true;
            sim_.interval    = us_t( interval ) * 1250;
            sim_.next_event  = 0;
            sim_.next_anchor = ll_->t0() + 1250 + us_t( wo ) * 1250 + x0;
        }
        t_.ev( "ConnReq" ).f( "ok", ok ).f( "ws", ws ).f( "wo", wo ).f( "int", interval ).f( "lat", lat ).f( "to", to )
          .fl( "map", pdu.begin() + 30, pdu.begin() + 35 ).f( "hop", hop ).f( "scac", sca ).f( "x0", x0 ).f( "sim", with_sim );
        log_effects();
    }

    void op_adv_pdu( const verif::command& c )
    {
        std::vector< std::uint8_t > pdu;
        for ( std::size_t i = 0; i != c.a.size(); ++i ) pdu.push_back( std::uint8_t( c.a[ i ] ) );
        const bool ok = ll_->inject_adv_received( pdu, 0 );
        t_.ev( "AdvPdu" ).f( "ok", ok ).raw( "pdu", jlist( pdu ) );
        log_effects();
    }

    void op_timeout( const char* why )
    {
        const us_t end = ll_->evt_end();
        const bool ok = ll_->inject_timeout();
        t_.ev( "Timeout" ).f( "ok", ok ).f( "now", end ).f( "why", why );
        log_effects();
    }

    void log_event( us_t dt, bool inwin, const event_flags& flags, const std::vector< exchange >& x, bool pend_before )
    {
        std::ostringstream rx, tx, acc;
        rx << "["; tx << "["; acc << "[";
        for ( std::size_t i = 0; i != x.size(); ++i )
        {
            rx << ( i ? "," : "" ) << jlist( x[ i ].rx ); tx << ( i ? "," : "" ) << jlist( x[ i ].tx );
            acc << ( i ? "," : "" ) << ( x[ i ].central_acked ? "true" : "false" );
        }
        rx << "]"; tx << "]"; acc << "]";
        t_.ev( "EndEvent" ).f( "dt", dt ).f( "inwin", inwin ).f( "flags", flags.bits() )
          .f( "f_unack", flags.unacknowledged_data ).f( "f_rxne", flags.last_received_not_empty ).f( "f_txne", flags.last_transmitted_not_empty )
          .f( "f_md", flags.last_received_had_more_data ).f( "f_pend", flags.pending_outgoing_data ).f( "f_err", flags.error_occured )
          .raw( "rx", rx.str() ).raw( "tx", tx.str() ).raw( "acc", acc.str() ).f( "pend0", pend_before ).f( "latcfg", latcfg_ );
        log_effects();
    }

    // event <dt> <flags|-1 auto> <npdu> { <fault 0|1|2> <llid> <len> bytes... }
    void op_event( const verif::command& c )
    {
        const us_t dt = c.arg( 0 );
        const long long fl = c.arg( 1 );
        std::vector< central_pdu > pdus;
        std::size_t p = 3;
        for ( long long i = 0; i < c.arg( 2 ); ++i )
        {
            central_pdu pdu;
            pdu.fault = static_cast< central_pdu::fault_t >( c.arg( p ) );
            std::vector< std::uint8_t > payload;
            const std::uint8_t llid = c.arg( p + 1 ); const std::size_t len = c.arg( p + 2 );
            for ( std::size_t j = 0; j != len; ++j ) payload.push_back( std::uint8_t( c.arg( p + 3 + j ) ) );
            const central_pdu::fault_t f = pdu.fault;
            pdu = central_pdu::make( llid, payload ); pdu.fault = f;
            pdus.push_back( pdu );
            p += 3 + len;
        }
        const bool inwin = dt >= ll_->evt_start() && dt <= ll_->evt_end();
        std::vector< exchange > x;
        if ( !ll_->begin_event( dt ) ) { t_.ev( "Nop" ).f( "why", "no connection event armed" ); log_effects(); return; }
        if ( pdus.empty() ) pdus.push_back( central_pdu::empty() );
        for ( std::size_t i = 0; i != pdus.size(); ++i )
            x.push_back( ll_->exchange_pdu( pdus[ i ], i + 1 != pdus.size() ) );
        // flags: given, or (-1) what the nRF52 binding would report for these exchanges
        const event_flags flags = fl < 0 ? link_layer_t::flags_of( x ) : event_flags::from_bits( unsigned( fl ) );
        const bool pend0 = ll_->pending_outgoing_data_available();     // when the event ends (after the exchanges)
        ll_->finish_event( flags );
        log_event( dt, inwin, flags, x, pend0 );
    }

    // step <lost 0|1> <flags> <nexch>      simulated central: the next scheduled connection event takes place
    void op_step( const verif::command& c )
    {
        do_step( c.arg( 0 ) != 0, event_flags::from_bits( unsigned( c.arg( 1 ) ) ), std::max< long long >( 1, c.arg( 2, 1 ) ), true );
    }

    // returns false if the step could not be executed (no event armed)
    bool do_step( bool lost, const event_flags& flags, long long nexch, bool log )
    {
        if ( !ll_->connection_event_armed() || !sim_.active )
        {
            if ( log ) { t_.ev( "Nop" ).f( "why", "no connection event armed" ); log_effects(); }
            return false;
        }
        const us_t ws = ll_->t0() + ll_->evt_start(), we = ll_->t0() + ll_->evt_end();
        while ( sim_.next_anchor < ws )
            sim_.advance();         // events the peripheral did not listen to
        if ( sim_.next_anchor > we || lost )
        {
            // the central's PDU is not in the window, or it is lost on air: all central events up to the end of
            // the window have passed when timeout() is called
            const bool miss = sim_.next_anchor > we;
            while ( sim_.next_anchor <= we )
                sim_.advance();
            if ( log ) op_timeout( miss ? "miss" : "lost" ); else ll_->inject_timeout();
            return true;
        }
        const us_t dt = sim_.next_anchor - ll_->t0();
        const long long ev = sim_.next_event;
        std::vector< exchange > x;
        ll_->begin_event( dt );
        for ( long long i = 0; i < nexch; ++i )
        {
            // ARQ: the head of the queue is sent until it is acknowledged
            const bool from_queue = !sim_.queue.empty();
            if ( from_queue )
                patch_instant( 0, ev );
            const bool more = i + 1 < nexch;
            x.push_back( ll_->exchange_pdu( from_queue ? sim_.queue.front() : central_pdu::empty(), more ) );
            if ( from_queue && x.back().central_acked ) { sim_.queue.pop_front(); sim_.ids.pop_front(); }
        }
        const bool pend0 = ll_->pending_outgoing_data_available();     // when the event ends (after the exchanges)
        ll_->finish_event( flags );
        sim_.advance();
        if ( log ) log_event( dt, true, flags, x, pend0 );
        return true;
    }

    // resolve a relative instant when the PDU is transmitted for the first time in central event `ev`
    void patch_instant( std::size_t qi, long long ev )
    {
        for ( std::size_t r = 0; r != sim_.rel.size(); ++r )
        {
            if ( sim_.rel[ r ].id != sim_.ids[ qi ] ) continue;
            const central_sim::rel_instant ri = sim_.rel[ r ];
            const std::uint16_t instant = static_cast< std::uint16_t >( ev + ri.d );
            central_pdu& p = sim_.queue[ qi ];
            p.bytes[ 2 + ri.offset_in_payload ]     = instant & 0xff;
            p.bytes[ 2 + ri.offset_in_payload + 1 ] = instant >> 8;
            if ( ri.kind == 0 )     // connection update: the central changes its own timing at the instant
            {
                long long dist = ( ( ri.d % 65536 ) + 65536 ) % 65536;
                if ( dist == 0 ) dist = 65536;
                sim_.upd_pending  = true;
                sim_.upd_at       = ev + dist;
                sim_.upd_interval = ri.new_interval;
                sim_.upd_offset   = ri.new_offset;
            }
            sim_.rel.erase( sim_.rel.begin() + r );
            return;
        }
    }

    // ff <n>: uneventful steps (empty PDUs, no flags) until the anchor has advanced by at least n connection intervals
    // (with peripheral latency one step advances several intervals); logged as one event
    void op_ff( const verif::command& c )
    {
        const us_t start = ll_->t0();
        const long long ev0 = sim_.next_event;
        long long done = 0;
        while ( sim_.active && sim_.interval && ( ll_->t0() - start ) / sim_.interval < c.arg( 0 ) )
        {
            if ( !do_step( false, event_flags(), 1, false ) ) break;
            ++done;
            g_cb.clear();
            if ( ( ll_->t0() - start ) / sim_.interval < c.arg( 0 ) ) ll_->take_calls();
        }
        t_.ev( "FF" ).f( "n", done ).f( "ivals", sim_.interval ? ( ll_->t0() - start ) / sim_.interval : 0 ).f( "rem", sim_.interval ? ( ll_->t0() - start ) % sim_.interval : 0 )
          .f( "cev", sim_.next_event - ev0 );
        log_effects();
    }

    // seek <min> <mod> <rem> <flags>: steps (empty PDUs, the given radio flags; at least one) until the CENTRAL's own event
    // index (its next event) is >= min and congruent rem modulo mod. With the error flag (32) every step is the next
    // connection event, so the event armed afterwards is exactly the central's next event: positions the connection at a
    // chosen event index / channel index (index mod 37) / just before the wrap of the 16 bit event counter without
    // reading anything from the implementation. Logged as one FF event.
    void op_seek( const verif::command& c )
    {
        const us_t start = ll_->t0();
        const long long ev0 = sim_.next_event;
        const long long min = c.arg( 0, 0 ), mod = std::max< long long >( 1, c.arg( 1, 1 ) ), rem = c.arg( 2, 0 );
        const event_flags flags = event_flags::from_bits( unsigned( c.arg( 3, 32 ) ) );
        long long done = 0;
        bool more = sim_.active && sim_.interval;
        while ( more && done < 400000 )
        {
            if ( !do_step( false, flags, 1, false ) ) break;
            ++done;
            g_cb.clear();
            more = !( sim_.next_event >= min && sim_.next_event % mod == rem );
            if ( more ) ll_->take_calls();
        }
        t_.ev( "FF" ).f( "n", done ).f( "ivals", sim_.interval ? ( ll_->t0() - start ) / sim_.interval : 0 ).f( "rem", sim_.interval ? ( ll_->t0() - start ) % sim_.interval : 0 )
          .f( "cev", sim_.next_event - ev0 ).f( "nextev", sim_.next_event );
        log_effects();
    }

    // q <kind> ...   enqueue a PDU at the central
    //   q upd <d> <ws> <wo> <int> <lat> <to> <x1>   LL_CONNECTION_UPDATE_IND, instant = event of first transmission + d
    //   q chm <d> <m0> <m1> <m2> <m3> <m4>          LL_CHANNEL_MAP_IND
    //   q phy <d> <c_to_p> <p_to_c>                 LL_PHY_UPDATE_IND
    //   q feat | q ping | q ver | q att | q cccd <0|1> | q term <reason>
    //   q ctl <bytes...> | q dat <bytes...>          raw control / data payload
    void op_queue( const verif::command& c )
    {
        if ( c.w.empty() ) return;
        const std::string k = c.w[ 0 ];
        central_pdu p;
        central_sim::rel_instant ri; ri.id = sim_.next_id; ri.kind = -1; ri.d = 0; ri.offset_in_payload = 0; ri.new_interval = 0; ri.new_offset = 0;
        bool has_rel = false;
        if ( k == "upd" )
        {
            const unsigned ws = c.arg( 2 ), wo = c.arg( 3 ), in = c.arg( 4 ), lat = c.arg( 5 ), to = c.arg( 6 );
            p = central_pdu::control( { 0x00, std::uint8_t( ws ), std::uint8_t( wo ), std::uint8_t( wo >> 8 ), std::uint8_t( in ), std::uint8_t( in >> 8 ),
                std::uint8_t( lat ), std::uint8_t( lat >> 8 ), std::uint8_t( to ), std::uint8_t( to >> 8 ), 0, 0 } );
            ri.kind = 0; ri.d = c.arg( 1 ); ri.offset_in_payload = 10; ri.new_interval = us_t( in ) * 1250; ri.new_offset = us_t( wo ) * 1250 + c.arg( 7, 0 );
            has_rel = true;
        }
        else if ( k == "chm" )
        {
            p = central_pdu::control( { 0x01, std::uint8_t( c.arg( 2 ) ), std::uint8_t( c.arg( 3 ) ), std::uint8_t( c.arg( 4 ) ), std::uint8_t( c.arg( 5 ) ), std::uint8_t( c.arg( 6 ) ), 0, 0 } );
            ri.kind = 1; ri.d = c.arg( 1 ); ri.offset_in_payload = 6; has_rel = true;
        }
        else if ( k == "phy" )
        {
            p = central_pdu::control( { 0x18, std::uint8_t( c.arg( 2 ) ), std::uint8_t( c.arg( 3 ) ), 0, 0 } );
            ri.kind = 2; ri.d = c.arg( 1 ); ri.offset_in_payload = 3; has_rel = true;
        }
        else if ( k == "feat" ) p = central_pdu::control( { 0x08, 0xff, 0xff, 0, 0, 0, 0, 0, 0 } );
        else if ( k == "ping" ) p = central_pdu::control( { 0x12 } );
        else if ( k == "ver" )  p = central_pdu::control( { 0x0c, 0x09, 0x69, 0x02, 0x00, 0x00 } );
        else if ( k == "term" ) p = central_pdu::control( { 0x02, std::uint8_t( c.arg( 1, 0x13 ) ) } );
        else if ( k == "att" )  p = central_pdu::data( { 0x03, 0x00, 0x04, 0x00, 0x0a, 0x06, 0x00 } );                   // Read Request handle 6
        else if ( k == "cccd" ) p = central_pdu::data( { 0x05, 0x00, 0x04, 0x00, 0x12, 0x04, 0x00, std::uint8_t( c.arg( 1, 1 ) ), 0x00 } ); // Write Request CCCD
        else if ( k == "ctl" || k == "dat" )
        {
            std::vector< std::uint8_t > b;
            for ( std::size_t i = 1; i < c.a.size(); ++i ) b.push_back( std::uint8_t( c.a[ i ] ) );
            p = k == "ctl" ? central_pdu::control( b ) : central_pdu::data( b );
        }
        else { std::fprintf( stderr, "bad q kind %s\n", k.c_str() ); std::exit( 3 ); }
        sim_.queue.push_back( p );
        sim_.ids.push_back( sim_.next_id );
        if ( has_rel ) sim_.rel.push_back( ri );
        ++sim_.next_id;
    }

    // notify <num> <den>: the application notifies at T0 + start_of_scheduled_window * num / den
    void op_notify( const verif::command& c )
    {
        const us_t den = std::max< long long >( 1, c.arg( 1, 1 ) );
        if ( ll_->connection_event_armed() )
            ll_->advance_to( ll_->t0() + ll_->evt_start() * c.arg( 0, 0 ) / den );
        ++notify_value;
        const bool r = ll_->notify( notify_value );
        t_.ev( "Notify" ).f( "r", r ).f( "now", ll_->now() - ll_->t0() );
        log_effects();
    }

    // cancel            what run() does when a cancelation was requested: try_event_cancelation(), automatic disarm result
    // cancel <ok> <el>  scripted disarm result
    // cancel force      call try_event_cancelation() even if no request is pending
    void op_cancel( const verif::command& c )
    {
        const bool requested = ll_->event_cancelation_requested();
        bool force = !c.w.empty() && c.w[ 0 ] == "force";
        if ( c.a.size() >= 2 && !force ) ll_->script_disarm( c.arg( 0 ) != 0, c.arg( 1 ) ); else ll_->auto_disarm( 300 );
        const us_t old_s = ll_->evt_start();
        if ( requested || force || c.a.size() >= 2 )
            ll_->inject_try_event_cancelation();
        t_.ev( "Cancel" ).f( "requested", requested ).f( "now", ll_->now() - ll_->t0() ).f( "olds", old_s );
        log_effects();
    }

    void op_latcfg( const verif::command& c )
    {
#ifdef LL_LATENCY_SET
        switch ( c.arg( 0 ) )
        {
        case 0: ll_->template change_peripheral_latency< bll::peripheral_latency_ignored >(); break;
        case 1: ll_->template change_peripheral_latency< bll::peripheral_latency_strict >(); break;
        case 2: ll_->template change_peripheral_latency< bll::peripheral_latency_strict_plus >(); break;
        default: ll_->template change_peripheral_latency< bll::periperal_latency_default_configuration >(); break;
        }
        latcfg_ = int( std::min< long long >( 3, std::max< long long >( 0, c.arg( 0 ) ) ) );
#else
        (void)c;
#endif
        t_.ev( "LatCfg" ).f( "i", latcfg_ );
        log_effects();
    }

    void op_disconnect( const verif::command& c )
    {
        if ( c.a.empty() ) ll_->disconnect(); else ll_->disconnect( std::uint8_t( c.arg( 0 ) ) );
        t_.ev( "Disconnect" ).f( "reason", c.arg( 0, 0x16 ) );
        log_effects();
    }

    void op_phyreq( const verif::command& )
    {
        const bool r = ll_->phy_update_request_to_2mbit();
        t_.ev( "PhyReq" ).f( "r", r );
        log_effects();
    }

    verif::tracer   t_;
    link_layer_t*   ll_;
    central_sim     sim_;
    int             latcfg_;
};

int main( int argc, char** argv )
{
    if ( argc < 3 ) { std::fprintf( stderr, "usage: ll_harness <script> <trace>\n" ); return 3; }
    std::ifstream in( argv[ 1 ] );
    if ( !in ) { std::perror( argv[ 1 ] ); return 3; }
    harness h( argv[ 2 ] );
    return h.run( in );
}
