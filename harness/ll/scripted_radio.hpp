// scripted_radio.hpp - a radio written against Bluetoe's `scheduled_radio` concept
// (bluetoe/link_layer/scheduled_radio.hpp) that is *owned by the test harness*:
//
//   * it derives from bluetoe::link_layer::ll_data_pdu_buffer exactly like the real radios
//     (bindings/nordic/nrf5x) and tests/test_tools/test_radio.hpp do,
//   * it records every call the link layer makes into the radio (schedule_advertisment,
//     schedule_connection_event, set_access_address_and_crc_init, radio_set_phy, encryption
//     start/stop, disarm_connection_event, wake_up, request_event_cancelation, ...),
//   * it never does anything on its own: a script decides which callback of the link layer is
//     invoked next (adv_received, adv_timeout, timeout, end_event(flags), try_event_cancelation),
//     at which time, with which PDUs from the central and with which connection_event_events.
//
// Time base: exact integer microseconds (long long).  The scheduled_radio concept expresses all
// times relative to an anchor T0 that the *radio* moves:
//      after adv_timeout()/adv_received():  T0 := T0 + when   (+ air delay up to the end of CONNECT_IND)
//      after timeout():                      T0 unchanged
//      after end_event():                    T0 := reception time of the first PDU of the event
// t0() is the absolute time of T0, now() the absolute time at which the current callback runs.
//
// See harness/ll/README.md for the scripting interface and examples.
#ifndef VERIF_LL_SCRIPTED_RADIO_HPP
#define VERIF_LL_SCRIPTED_RADIO_HPP

#include <iterator>
#include <cstdint>
#include <cstring>
#include <vector>
#include <deque>
#include <string>
#include <utility>
#include <algorithm>

#include <bluetoe/buffer.hpp>
#include <bluetoe/delta_time.hpp>
#include <bluetoe/ll_data_pdu_buffer.hpp>
#include <bluetoe/connection_events.hpp>
#include <bluetoe/phy_encodings.hpp>
#include <bluetoe/bits.hpp>
#include <bluetoe/address.hpp>

namespace verif {
namespace ll {

typedef long long us_t;

// one recorded call link layer -> radio
struct radio_call {
    enum kind_t {
        sched_adv,      // a=channel b=when(us) c=size of adv pdu d=size of receive buffer; data=adv pdu (air format)
        sched_evt,      // a=channel b=start_receive c=end_receive d=connection_interval (all us, relative to T0)
        set_aa,         // a=access address b=crc init
        set_phy,        // a=receiving encoding b=transmitting encoding
        enc_start_rx, enc_start_tx, enc_stop_rx, enc_stop_tx,
        setup_enc,      // a=low 32 bit of skdm b=ivm
        disarm,         // a=result.first b=result.second(us)
        wake_up,
        req_cancel,     // request_event_cancelation()
        user_timer,     // a=timeout b=max runtime
        cancel_user_timer
    };
    kind_t                      kind;
    long long                   a, b, c, d;
    std::vector< std::uint8_t > data;
    us_t                        at;     // absolute time of the call
    us_t                        t0;     // absolute T0 at the time of the call
};

inline const char* name_of( radio_call::kind_t k )
{
    static const char* const n[] = { "sched_adv", "sched_evt", "set_aa", "set_phy", "enc_start_rx", "enc_start_tx",
        "enc_stop_rx", "enc_stop_tx", "setup_enc", "disarm", "wake_up", "req_cancel", "user_timer", "cancel_user_timer" };
    return n[ k ];
}

// what the central puts on air in one exchange of a connection event
struct central_pdu {
    enum fault_t {
        ok,             // received with good CRC (and MIC)           -> ll_data_pdu_buffer::received()
        crc_error,      // CRC error: radio answers with next_transmit() without looking at the PDU
        mic_error       // CRC ok, MIC wrong                         -> ll_data_pdu_buffer::acknowledge()
    };
    // over-the-air format: 2 byte header (LLID in bits 0-1, length in byte 1) + payload.
    // SN / NESN / MD bits are filled in by the radio's ARQ unless raw_header is set.
    std::vector< std::uint8_t > bytes;
    fault_t                     fault;
    bool                        raw_header;     // take SN/NESN/MD exactly as given in bytes[0]
    bool                        response_lost;  // the central does not hear the peripheral's answer

    central_pdu() : fault( ok ), raw_header( false ), response_lost( false ) {}
    explicit central_pdu( const std::vector< std::uint8_t >& b ) : bytes( b ), fault( ok ), raw_header( false ), response_lost( false ) {}

    static central_pdu empty() { central_pdu p; p.bytes.push_back( 0x01 ); p.bytes.push_back( 0x00 ); return p; }
    static central_pdu control( const std::vector< std::uint8_t >& payload ) { return make( 0x03, payload ); }
    static central_pdu data( const std::vector< std::uint8_t >& payload ) { return make( 0x02, payload ); }
    static central_pdu make( std::uint8_t llid, const std::vector< std::uint8_t >& payload )
    {
        central_pdu p;
        p.bytes.push_back( llid );
        p.bytes.push_back( static_cast< std::uint8_t >( payload.size() ) );
        p.bytes.insert( p.bytes.end(), payload.begin(), payload.end() );
        return p;
    }
    bool is_empty_pdu() const { return bytes.size() >= 2 && bytes[ 1 ] == 0; }
};

// what happened in one exchange (central PDU -> peripheral PDU)
struct exchange {
    std::vector< std::uint8_t > rx;         // as put into the receive buffer (air format, SN/NESN/MD as sent)
    std::vector< std::uint8_t > tx;         // the answer of the peripheral (air format)
    central_pdu::fault_t        fault;
    bool                        buffered;   // a receive buffer was available and received()/acknowledge() was called
    bool                        central_acked;  // the peripheral acknowledged the central's PDU (new SN accepted)
    bool                        new_from_peripheral; // tx carried a new sequence number for the central
};

struct event_flags {
    bool unacknowledged_data, last_received_not_empty, last_transmitted_not_empty, last_received_had_more_data,
         pending_outgoing_data, error_occured;
    event_flags() : unacknowledged_data( false ), last_received_not_empty( false ), last_transmitted_not_empty( false ),
        last_received_had_more_data( false ), pending_outgoing_data( false ), error_occured( false ) {}
    // bit 0 unack, 1 rx not empty, 2 tx not empty, 3 rx MD, 4 pending, 5 error
    static event_flags from_bits( unsigned b )
    {
        event_flags f;
        f.unacknowledged_data = b & 1; f.last_received_not_empty = b & 2; f.last_transmitted_not_empty = b & 4;
        f.last_received_had_more_data = b & 8; f.pending_outgoing_data = b & 16; f.error_occured = b & 32;
        return f;
    }
    unsigned bits() const
    {
        return ( unacknowledged_data ? 1 : 0 ) | ( last_received_not_empty ? 2 : 0 ) | ( last_transmitted_not_empty ? 4 : 0 )
             | ( last_received_had_more_data ? 8 : 0 ) | ( pending_outgoing_data ? 16 : 0 ) | ( error_occured ? 32 : 0 );
    }
    bluetoe::link_layer::connection_event_events to_bluetoe() const
    {
        return bluetoe::link_layer::connection_event_events( unacknowledged_data, last_received_not_empty,
            last_transmitted_not_empty, last_received_had_more_data, pending_outgoing_data, error_occured );
    }
};

/*
 * Non template part: recording, time, scheduled state
 */
class scripted_radio_base
{
public:
    scripted_radio_base()
        : t0_( 0 ), now_( 0 ), adv_armed_( false ), evt_armed_( false )
        , adv_channel_( 0 ), adv_when_( 0 ), evt_channel_( 0 ), evt_start_( 0 ), evt_end_( 0 ), evt_interval_( 0 )
        , disarm_ok_( false ), disarm_elapsed_( 0 ), disarm_auto_( true ), disarm_margin_( 300 )
        , cancelation_requested_( false ), wake_ups_( 0 )
        , access_address_( 0 ), crc_init_( 0 ), phy_rx_( 1 ), phy_tx_( 1 )
        , rx_encrypted_( false ), tx_encrypted_( false ), rx_counter_( 0 ), tx_counter_( 0 )
        , c_sn_( false ), c_nesn_( false )
    {
        adv_receive_.buffer = nullptr; adv_receive_.size = 0;
    }

    // ---- recording --------------------------------------------------------------------------
    std::vector< radio_call > take_calls() { std::vector< radio_call > r; r.swap( calls_ ); return r; }
    const std::vector< radio_call >& calls() const { return calls_; }

    // ---- time -------------------------------------------------------------------------------
    us_t t0() const  { return t0_; }
    us_t now() const { return now_; }
    // let time pass without any radio activity (application context between two radio callbacks)
    void advance_to( us_t abs_time ) { if ( abs_time > now_ ) now_ = abs_time; }

    // ---- scheduled state ----------------------------------------------------------------------
    bool advertisment_armed() const      { return adv_armed_; }
    bool connection_event_armed() const  { return evt_armed_; }
    unsigned adv_channel() const { return adv_channel_; }
    us_t adv_when() const        { return adv_when_; }
    unsigned evt_channel() const { return evt_channel_; }
    us_t evt_start() const       { return evt_start_; }      // relative to T0
    us_t evt_end() const         { return evt_end_; }
    us_t evt_interval() const    { return evt_interval_; }

    // ---- result of the next disarm_connection_event() ---------------------------------------
    // scripted: exactly this result;  automatic (default): ok iff now + margin < T0 + start_receive,
    // second = now - T0 + margin  (what nrf52's can_stop_connection_event_timer() computes)
    void script_disarm( bool ok, us_t elapsed_since_anchor ) { disarm_auto_ = false; disarm_ok_ = ok; disarm_elapsed_ = elapsed_since_anchor; }
    void auto_disarm( us_t margin ) { disarm_auto_ = true; disarm_margin_ = margin; }

    bool event_cancelation_requested() const { return cancelation_requested_; }
    int  wake_ups() const { return wake_ups_; }

    // ---- observable radio configuration -----------------------------------------------------
    std::uint32_t access_address() const { return access_address_; }
    std::uint32_t crc_init() const       { return crc_init_; }
    int  phy_receiving() const    { return phy_rx_; }
    int  phy_transmitting() const { return phy_tx_; }
    bool receive_encrypted() const  { return rx_encrypted_; }
    bool transmit_encrypted() const { return tx_encrypted_; }
    unsigned long receive_packet_counter() const  { return rx_counter_; }
    unsigned long transmit_packet_counter() const { return tx_counter_; }

    // sequence numbers of the simulated central (reset them when a new connection starts)
    void central_reset() { c_sn_ = false; c_nesn_ = false; }
    bool central_sn() const   { return c_sn_; }
    bool central_nesn() const { return c_nesn_; }

    // ---- parts of the scheduled_radio concept that need no template arguments ------------------
    void set_access_address_and_crc_init( std::uint32_t access_address, std::uint32_t crc_init )
    {
        access_address_ = access_address; crc_init_ = crc_init;
        record( radio_call::set_aa, access_address, crc_init );
    }

    void radio_set_phy( bluetoe::link_layer::phy_ll_encoding::phy_ll_encoding_t receiving_encoding,
                        bluetoe::link_layer::phy_ll_encoding::phy_ll_encoding_t transmiting_encoding )
    {
        phy_rx_ = receiving_encoding; phy_tx_ = transmiting_encoding;
        record( radio_call::set_phy, receiving_encoding, transmiting_encoding );
    }

    void wake_up() { ++wake_ups_; record( radio_call::wake_up ); }
    void request_event_cancelation() { cancelation_requested_ = true; record( radio_call::req_cancel ); }

    std::uint32_t static_random_address_seed() const { return 0x47110815; }

    void increment_receive_packet_counter()  { ++rx_counter_; }
    void increment_transmit_packet_counter() { ++tx_counter_; }

    bool schedule_synchronized_user_timer( bluetoe::link_layer::delta_time timeout, bluetoe::link_layer::delta_time runtime )
    {
        record( radio_call::user_timer, timeout.usec(), runtime.usec() );
        return true;
    }
    bool cancel_synchronized_user_timer() { record( radio_call::cancel_user_timer ); return false; }

    class lock_guard
    {
    public:
        lock_guard() {}
        lock_guard( const lock_guard& ) = delete;
        lock_guard& operator=( const lock_guard& ) = delete;
    };

    static constexpr std::size_t radio_maximum_white_list_entries = 0;
    static constexpr unsigned    connection_event_setup_time_us   = 100u;

    // encryption start / stop (part of scheduled_radio_with_encryption; recorded in every variant)
    void start_receive_encrypted()  { rx_encrypted_ = true;  record( radio_call::enc_start_rx ); }
    void start_transmit_encrypted() { tx_encrypted_ = true;  record( radio_call::enc_start_tx ); }
    void stop_receive_encrypted()   { rx_encrypted_ = false; record( radio_call::enc_stop_rx ); }
    void stop_transmit_encrypted()  { tx_encrypted_ = false; record( radio_call::enc_stop_tx ); }

protected:
    void record( radio_call::kind_t k, long long a = 0, long long b = 0, long long c = 0, long long d = 0,
                 const std::vector< std::uint8_t >& data = std::vector< std::uint8_t >() )
    {
        radio_call rc; rc.kind = k; rc.a = a; rc.b = b; rc.c = c; rc.d = d; rc.data = data; rc.at = now_; rc.t0 = t0_;
        calls_.push_back( rc );
    }

    std::vector< radio_call >           calls_;
    us_t                                t0_, now_;
    bool                                adv_armed_, evt_armed_;
    unsigned                            adv_channel_;
    us_t                                adv_when_;
    bluetoe::link_layer::read_buffer    adv_receive_;
    unsigned                            evt_channel_;
    us_t                                evt_start_, evt_end_, evt_interval_;
    bool                                disarm_ok_;
    us_t                                disarm_elapsed_;
    bool                                disarm_auto_;
    us_t                                disarm_margin_;
    bool                                cancelation_requested_;
    int                                 wake_ups_;
    std::uint32_t                       access_address_, crc_init_;
    int                                 phy_rx_, phy_tx_;
    bool                                rx_encrypted_, tx_encrypted_;
    unsigned long                       rx_counter_, tx_counter_;
    bool                                c_sn_, c_nesn_;
};

/*
 * The radio.  CallBack is the link layer (CRTP, as in every Bluetoe radio).
 */
template < std::size_t TransmitSize, std::size_t ReceiveSize, typename CallBack,
           bool Encryption, bool Phy2MBit, bool UserTimer >
class scripted_radio_impl :
    public scripted_radio_base,
    public bluetoe::link_layer::ll_data_pdu_buffer< TransmitSize, ReceiveSize,
        scripted_radio_impl< TransmitSize, ReceiveSize, CallBack, Encryption, Phy2MBit, UserTimer > >
{
public:
    typedef scripted_radio_impl< TransmitSize, ReceiveSize, CallBack, Encryption, Phy2MBit, UserTimer > this_type;
    typedef bluetoe::link_layer::ll_data_pdu_buffer< TransmitSize, ReceiveSize, this_type > buffer_type;
    typedef typename bluetoe::link_layer::pdu_layout_by_radio< this_type >::pdu_layout layout;

    static constexpr bool hardware_supports_encryption              = Encryption;
    static constexpr bool hardware_supports_legacy_pairing          = Encryption;
    static constexpr bool hardware_supports_lesc_pairing            = false;
    static constexpr bool hardware_supports_2mbit                   = Phy2MBit;
    static constexpr bool hardware_supports_synchronized_user_timer = UserTimer;

    // ======================= scheduled_radio concept (called by the link layer) =============
    void schedule_advertisment(
        unsigned                                    channel,
        const bluetoe::link_layer::write_buffer&    advertising_data,
        const bluetoe::link_layer::write_buffer&    /* response_data */,
        bluetoe::link_layer::delta_time             when,
        const bluetoe::link_layer::read_buffer&     receive )
    {
        adv_armed_   = true;
        evt_armed_   = false;
        adv_channel_ = channel;
        adv_when_    = when.usec();
        adv_receive_ = receive;
        record( radio_call::sched_adv, channel, when.usec(), advertising_data.size, receive.size, memory_to_air( advertising_data ) );
    }

    bluetoe::link_layer::delta_time schedule_connection_event(
        unsigned                                    channel,
        bluetoe::link_layer::delta_time             start_receive,
        bluetoe::link_layer::delta_time             end_receive,
        bluetoe::link_layer::delta_time             connection_interval )
    {
        adv_armed_    = false;
        evt_armed_    = true;
        evt_channel_  = channel;
        evt_start_    = start_receive.usec();
        evt_end_      = end_receive.usec();
        evt_interval_ = connection_interval.usec();
        record( radio_call::sched_evt, channel, evt_start_, evt_end_, evt_interval_ );

        const us_t distance = t0_ + evt_start_ - now_;
        return distance > 0 ? bluetoe::link_layer::delta_time( static_cast< std::uint32_t >( distance ) ) : bluetoe::link_layer::delta_time();
    }

    std::pair< bool, bluetoe::link_layer::delta_time > disarm_connection_event()
    {
        bool ok       = disarm_ok_;
        us_t elapsed  = disarm_elapsed_;
        if ( disarm_auto_ )
        {
            elapsed = now_ - t0_ + disarm_margin_;
            ok      = evt_armed_ && elapsed < evt_start_;
        }
        if ( ok )
            evt_armed_ = false;
        record( radio_call::disarm, ok, elapsed );
        return std::pair< bool, bluetoe::link_layer::delta_time >( ok, bluetoe::link_layer::delta_time( static_cast< std::uint32_t >( std::max< us_t >( 0, elapsed ) ) ) );
    }

    void run()
    {
        if ( wake_ups_ )
            --wake_ups_;
    }

    // security tool box of test::radio_with_encryption (legacy pairing only); enough for LL encryption tests
    bluetoe::details::uint128_t create_srand()
    {
        const bluetoe::details::uint128_t r{{ 0xE0, 0x2E, 0x70, 0xC6, 0x4E, 0x27, 0x88, 0x63, 0x0E, 0x6F, 0xAD, 0x56, 0x21, 0xD5, 0x83, 0x57 }};
        return r;
    }
    bluetoe::details::uint128_t c1( const bluetoe::details::uint128_t& temp_key, const bluetoe::details::uint128_t&,
                                    const bluetoe::details::uint128_t&, const bluetoe::details::uint128_t& ) const { return temp_key; }
    bluetoe::details::uint128_t s1( const bluetoe::details::uint128_t& stk, const bluetoe::details::uint128_t&, const bluetoe::details::uint128_t& ) { return stk; }
    std::pair< std::uint64_t, std::uint32_t > setup_encryption( bluetoe::details::uint128_t k, std::uint64_t skdm, std::uint32_t ivm )
    {
        key_ = k;
        record( radio_call::setup_enc, static_cast< long long >( skdm & 0xffffffffu ), ivm, 0, 0, std::vector< std::uint8_t >( k.begin(), k.end() ) );
        return std::pair< std::uint64_t, std::uint32_t >( 0x3fac22107855aa56ull, 0x78563412u );
    }
    bluetoe::details::uint128_t encryption_key() const { return key_; }

    // ======================= scripting interface (called by the harness) =====================

    // --- advertising -------------------------------------------------------------------------
    // No answer to the advertising PDU: T0 := T0 + when; CallBack::adv_timeout()
    bool inject_adv_timeout()
    {
        if ( !adv_armed_ ) return false;
        adv_armed_ = false;
        t0_ += adv_when_; now_ = std::max( now_, t0_ );
        static_cast< CallBack* >( this )->adv_timeout();
        return true;
    }

    // A PDU (air format: 2 byte header + payload; CONNECT_IND, SCAN_REQ, garbage) was received as answer to
    // the advertising PDU. T0 := T0 + when + air_delay (the end of the received PDU); CallBack::adv_received()
    bool inject_adv_received( const std::vector< std::uint8_t >& air_pdu, us_t air_delay = 0 )
    {
        if ( !adv_armed_ ) return false;
        adv_armed_ = false;
        t0_ += adv_when_ + air_delay; now_ = std::max( now_, t0_ );
        bluetoe::link_layer::read_buffer buf = adv_receive_;
        air_to_memory( air_pdu, buf );
        static_cast< CallBack* >( this )->adv_received( buf );
        return true;
    }

    // --- connection events -----------------------------------------------------------------------
    // Nothing (valid) received in the window: now := T0 + end_receive; T0 unchanged; CallBack::timeout()
    bool inject_timeout()
    {
        if ( !evt_armed_ ) return false;
        evt_armed_ = false;
        now_ = std::max( now_, t0_ + evt_end_ );
        static_cast< CallBack* >( this )->timeout();
        return true;
    }

    // The central's first PDU is received `anchor` us after the old T0 (the script decides whether that is inside
    // the scheduled window); T0 := T0 + anchor. Every element of `pdus` is one exchange (central PDU, answer of the
    // peripheral); an empty list means one exchange with an empty PDU. Then CallBack::end_event( flags ).
    // Returns the exchanges (what the central sent with sequence numbers, what the peripheral answered).
    std::vector< exchange > inject_event( us_t anchor, const std::vector< central_pdu >& pdus, const event_flags& flags, us_t duration = 0 )
    {
        std::vector< exchange > result;
        if ( !begin_event( anchor ) ) return result;

        if ( pdus.empty() )
            result.push_back( exchange_pdu( central_pdu::empty(), false ) );
        for ( std::size_t i = 0; i != pdus.size(); ++i )
            result.push_back( exchange_pdu( pdus[ i ], i + 1 != pdus.size() ) );

        finish_event( flags, duration );
        return result;
    }

    // The same in three steps, for scripts that decide the next PDU after seeing the peripheral's answer
    // (a central with retransmissions):  begin_event(); exchange_pdu()...; finish_event()
    bool begin_event( us_t anchor )
    {
        if ( !evt_armed_ ) return false;
        evt_armed_ = false;
        t0_ += anchor; now_ = std::max( now_, t0_ );
        return true;
    }

    exchange exchange_pdu( const central_pdu& pdu, bool more_data ) { return do_exchange( pdu, more_data ); }

    void finish_event( const event_flags& flags, us_t duration = 0 )
    {
        now_ += duration;
        static_cast< CallBack* >( this )->end_event( flags.to_bluetoe() );
    }

    // flags as the nRF52 binding would compute them from the exchanges of one event
    static event_flags flags_of( const std::vector< exchange >& x )
    {
        event_flags f;
        for ( std::size_t i = 0; i != x.size(); ++i )
        {
            if ( x[ i ].fault == central_pdu::crc_error ) f.error_occured = true;
            f.last_received_not_empty     = x[ i ].rx.size() > 1 && x[ i ].rx[ 1 ] != 0;
            f.last_received_had_more_data = !x[ i ].rx.empty() && ( x[ i ].rx[ 0 ] & 0x10 );
            f.last_transmitted_not_empty  = f.last_transmitted_not_empty || ( x[ i ].tx.size() > 1 && x[ i ].tx[ 1 ] != 0 );
        }
        return f;
    }

    // --- cancelation of a planned event -----------------------------------------------------------
    // What run() of a real radio does when request_event_cancelation() was called: CallBack::try_event_cancelation().
    // The result of the disarm_connection_event() call the link layer may make is set with script_disarm()/auto_disarm().
    void inject_try_event_cancelation()
    {
        cancelation_requested_ = false;
        static_cast< CallBack* >( this )->try_event_cancelation();
    }

    // --- helpers --------------------------------------------------------------------------------
    std::vector< std::uint8_t > memory_to_air( const bluetoe::link_layer::write_buffer& memory ) const
    {
        std::vector< std::uint8_t > air;
        if ( memory.size < layout::data_channel_pdu_memory_size( 0 ) || memory.buffer == nullptr )
            return air;
        const std::uint16_t header    = layout::header( memory );
        const auto          body      = layout::body( memory );
        const std::size_t   body_size = std::min< std::size_t >( header >> 8, body.second - body.first );
        air.resize( 2 + body_size );
        air[ 0 ] = header & 0xff; air[ 1 ] = header >> 8;
        std::copy( body.first, body.first + body_size, air.begin() + 2 );
        return air;
    }

    // copies an air PDU into a memory buffer (clipped to its capacity) and sets buf.size to the memory size of the PDU
    void air_to_memory( const std::vector< std::uint8_t >& air, bluetoe::link_layer::read_buffer& buf ) const
    {
        if ( air.size() < 2 || buf.size < layout::data_channel_pdu_memory_size( 0 ) ) { buf.size = std::min< std::size_t >( buf.size, air.size() ); return; }
        const std::uint16_t header = air[ 0 ] | ( air[ 1 ] << 8 );
        const auto          body   = layout::body( buf );
        const std::size_t   room   = body.second - body.first;
        const std::size_t   size   = std::min< std::size_t >( air.size() - 2, room );
        layout::header( buf, header );
        std::copy( air.begin() + 2, air.begin() + 2 + size, body.first );
        buf.size = layout::data_channel_pdu_memory_size( size );
    }

private:
    static constexpr std::uint8_t more_data_flag = 0x10, sn_flag = 0x08, nesn_flag = 0x04;

    exchange do_exchange( const central_pdu& pdu, bool more_data )
    {
        exchange x;
        x.fault = pdu.fault; x.buffered = false; x.central_acked = false; x.new_from_peripheral = false;
        x.rx = pdu.bytes;
        if ( x.rx.size() < 2 ) { x.rx.resize( 2 ); x.rx[ 0 ] = 0x01; x.rx[ 1 ] = 0; }
        if ( !pdu.raw_header )
        {
            x.rx[ 0 ] = ( x.rx[ 0 ] & ~( sn_flag | nesn_flag | more_data_flag ) )
                      | ( c_sn_ ? sn_flag : 0 ) | ( c_nesn_ ? nesn_flag : 0 ) | ( more_data ? more_data_flag : 0 );
        }

        bluetoe::link_layer::write_buffer answer;
        bluetoe::link_layer::read_buffer  receive = this->allocate_receive_buffer();

        if ( receive.size == 0 || pdu.fault == central_pdu::crc_error )
        {
            // like nrf52: no buffer or CRC error: just send what is to be sent
            answer = this->next_transmit();
        }
        else
        {
            x.buffered = true;
            air_to_memory( x.rx, receive );
            answer = pdu.fault == central_pdu::mic_error ? this->acknowledge( receive ) : this->received( receive );
        }
        x.tx = memory_to_air( answer );

        if ( !pdu.response_lost && x.tx.size() >= 2 )
        {
            const bool p_sn = x.tx[ 0 ] & sn_flag, p_nesn = x.tx[ 0 ] & nesn_flag;
            if ( !pdu.raw_header )
            {
                if ( p_nesn != c_sn_ ) { x.central_acked = true; c_sn_ = !c_sn_; }
                if ( p_sn == c_nesn_ ) { x.new_from_peripheral = true; c_nesn_ = !c_nesn_; }
            }
        }
        return x;
    }

    bluetoe::details::uint128_t key_;
};

template < std::size_t TransmitSize, std::size_t ReceiveSize, typename CallBack >
using scripted_radio = scripted_radio_impl< TransmitSize, ReceiveSize, CallBack, false, false, false >;

template < std::size_t TransmitSize, std::size_t ReceiveSize, typename CallBack >
using scripted_radio_2mbit = scripted_radio_impl< TransmitSize, ReceiveSize, CallBack, false, true, false >;

template < std::size_t TransmitSize, std::size_t ReceiveSize, typename CallBack >
using scripted_radio_encryption = scripted_radio_impl< TransmitSize, ReceiveSize, CallBack, true, false, false >;

template < std::size_t TransmitSize, std::size_t ReceiveSize, typename CallBack >
using scripted_radio_encryption_2mbit = scripted_radio_impl< TransmitSize, ReceiveSize, CallBack, true, true, false >;

} // namespace ll
} // namespace verif

#endif
