// C11 at ATT level: a real bluetoe::server with notify / indicate characteristics and a connection object wired the
// way tests/test_tools/test_servers.hpp (and link_layer::queue_lcap_notification) wire it:
//   notification callback -> connection.queue_notification / queue_indication / indication_confirmed
//   outgoing PDUs         -> server.l2cap_output( buffer, size, connection )      (polled)
//   incoming PDUs         -> server.l2cap_input( pdu, size, out, out_size, connection )
//   usage: notifq_att_harness <script> <trace>
// script lines:
//   reset <3|1>          server with 3 characteristics (0: notify+indicate, 1: indicate, 2: notify) / 1 (0: notify+indicate)
//   sub <c> <flags>      Write Request to the CCCD of characteristic c (bit 0 notifications, bit 1 indications)
//   notify <c> | indicate <c>     server.notify< uuid_c >() / server.indicate< uuid_c >()
//   poll                 l2cap_output() is called until it yields a PDU, at most POLLS times (a call may silently drop
//                        one request of a characteristic the client is not subscribed to)
//   confirm <len>        l2cap_input( { 0x1E, 0, 0, .. } ) of the given length (1 = well formed Handle Value Confirmation)
//   read <c>             Read Request of the value of c (unrelated ATT traffic in between)
//   drain                { confirm 1; poll } until a poll yields nothing; then event "Drained"
//   mark                 only writes the event "Drained"
// trace events:
//   {"e":"Reset","nc":n}   {"e":"sub","c":c,"f":flags,"rsp":[..]}   {"e":"notify"|"indicate","c":c,"r":bool}
//   {"e":"poll","calls":k,"op":opcode|0,"c":characteristic|-1,"len":n}   {"e":"confirm","len":n,"rsp":[..]}
//   {"e":"read","c":c,"rsp0":opcode}   {"e":"Drained","calls":n}
#include <iterator>
#include <memory>
#include <bluetoe/server.hpp>
#include <bluetoe/service.hpp>
#include <bluetoe/characteristic.hpp>
#include <bluetoe/gatt_options.hpp>
#include <bluetoe/link_state.hpp>
#include "trace.hpp"

namespace {

std::uint8_t v0 = 0x10, v1 = 0x11, v2 = 0x12;

using uuid0 = bluetoe::characteristic_uuid16< 0xAA00 >;
using uuid1 = bluetoe::characteristic_uuid16< 0xAA01 >;
using uuid2 = bluetoe::characteristic_uuid16< 0xAA02 >;

// handles: 1 service, 2 decl, 3 value, 4 CCCD, 5 decl, 6 value, 7 CCCD, 8 decl, 9 value, 10 CCCD
using server3 = bluetoe::server<
    bluetoe::service<
        bluetoe::service_uuid16< 0x1234 >,
        bluetoe::characteristic< uuid0, bluetoe::bind_characteristic_value< std::uint8_t, &v0 >, bluetoe::notify, bluetoe::indicate >,
        bluetoe::characteristic< uuid1, bluetoe::bind_characteristic_value< std::uint8_t, &v1 >, bluetoe::indicate >,
        bluetoe::characteristic< uuid2, bluetoe::bind_characteristic_value< std::uint8_t, &v2 >, bluetoe::notify >
    >,
    bluetoe::no_gap_service_for_gatt_servers
>;

using server1 = bluetoe::server<
    bluetoe::service<
        bluetoe::service_uuid16< 0x1234 >,
        bluetoe::characteristic< uuid0, bluetoe::bind_characteristic_value< std::uint8_t, &v0 >, bluetoe::notify, bluetoe::indicate >
    >,
    bluetoe::no_gap_service_for_gatt_servers
>;

constexpr int POLLS = 10;

struct idriver {
    virtual ~idriver() {}
    virtual int  nc() const = 0;
    virtual bool notify(int c) = 0;
    virtual bool indicate(int c) = 0;
    virtual std::size_t output(std::uint8_t* buf, std::size_t size) = 0;
    virtual std::size_t input(const std::uint8_t* in, std::size_t n, std::uint8_t* out, std::size_t size) = 0;
};

template <class Server>
struct driver_base : idriver {
    using connection_t = typename Server::template channel_data_t< bluetoe::details::link_state >;
    Server       server;
    connection_t connection;

    driver_base() {
        connection.client_mtu(23);
        server.notification_callback(&cb, this);
    }
    static bool cb(const bluetoe::details::notification_data& item, void* that, bluetoe::details::notification_type type) {
        connection_t& con = static_cast<driver_base*>(that)->connection;
        switch (type) {
            case bluetoe::details::notification_type::notification:
                return con.queue_notification(item.client_characteristic_configuration_index());
            case bluetoe::details::notification_type::indication:
                return con.queue_indication(item.client_characteristic_configuration_index());
            case bluetoe::details::notification_type::confirmation:
                con.indication_confirmed();
                return true;
        }
        return true;
    }
    std::size_t output(std::uint8_t* buf, std::size_t size) override {
        std::size_t out = size;
        server.l2cap_output(buf, out, connection);
        return out;
    }
    std::size_t input(const std::uint8_t* in, std::size_t n, std::uint8_t* out, std::size_t size) override {
        std::size_t o = size;
        server.l2cap_input(in, n, out, o, connection);
        return o;
    }
};

struct driver3 : driver_base<server3> {
    int nc() const override { return 3; }
    bool notify(int c) override { return c == 0 ? server.notify<uuid0>() : server.notify<uuid2>(); }
    bool indicate(int c) override { return c == 0 ? server.indicate<uuid0>() : server.indicate<uuid1>(); }
};

struct driver1 : driver_base<server1> {
    int nc() const override { return 1; }
    bool notify(int) override { return server.notify<uuid0>(); }
    bool indicate(int) override { return server.indicate<uuid0>(); }
};

int value_handle(int c) { return 3 + 3 * c; }
int cccd_handle(int c)  { return 4 + 3 * c; }

struct poll_result { int calls; int op; int c; std::size_t len; };

poll_result poll(idriver& d) {
    poll_result r = { 0, 0, -1, 0 };
    for (int i = 0; i < POLLS; ++i) {
        std::unique_ptr<std::uint8_t[]> buf(new std::uint8_t[23]);          // exact-size heap buffer: ASan guards it
        const std::size_t n = d.output(buf.get(), 23);
        ++r.calls;
        if (n) {
            r.op  = buf[0];
            r.len = n;
            if (n >= 3) {
                const int h = buf[1] | (buf[2] << 8);
                r.c = (h >= 3 && (h - 3) % 3 == 0) ? (h - 3) / 3 : 100 + h;
            }
            break;
        }
    }
    return r;
}

void log_poll(verif::tracer& t, const poll_result& r) {
    t.ev("poll").f("calls", r.calls).f("op", r.op).f("c", r.c).f("len", (long long)r.len).end();
}

std::size_t confirm(idriver& d, int len, std::uint8_t* rsp) {
    std::unique_ptr<std::uint8_t[]> in(new std::uint8_t[len]);
    in[0] = 0x1E;
    for (int i = 1; i < len; ++i) in[i] = 0;
    return d.input(in.get(), len, rsp, 23);
}

} // namespace

int main(int argc, char** argv) {
    if (argc < 3) return 3;
    std::ifstream in(argv[1]);
    verif::tracer t(argv[2]);
    verif::command c;
    std::unique_ptr<idriver> d;
    while (verif::read_command(in, c)) {
        if (c.op == "reset") {
            d.reset();
            if (c.arg(0) == 3) d.reset(new driver3()); else d.reset(new driver1());
            t.ev("Reset").f("nc", d->nc()).end();
            continue;
        }
        if (!d) return 3;
        std::unique_ptr<std::uint8_t[]> rsp(new std::uint8_t[23]);
        const int ch = (int)c.arg(0);
        if (c.op == "sub") {
            const int h = cccd_handle(ch);
            const std::uint8_t pdu[5] = { 0x12, std::uint8_t(h & 0xff), std::uint8_t(h >> 8), std::uint8_t(c.arg(1)), 0 };
            const std::size_t n = d->input(pdu, sizeof pdu, rsp.get(), 23);
            t.ev("sub").f("c", ch).f("f", c.arg(1)).fl("rsp", rsp.get(), n).end();
        }
        else if (c.op == "notify")   { const bool r = d->notify(ch);   t.ev("notify").f("c", ch).f("r", r).end(); }
        else if (c.op == "indicate") { const bool r = d->indicate(ch); t.ev("indicate").f("c", ch).f("r", r).end(); }
        else if (c.op == "poll")     { log_poll(t, poll(*d)); }
        else if (c.op == "confirm")  {
            const std::size_t n = confirm(*d, ch, rsp.get());
            t.ev("confirm").f("len", ch).fl("rsp", rsp.get(), n).end();
        }
        else if (c.op == "read") {
            const int h = value_handle(ch);
            const std::uint8_t pdu[3] = { 0x0A, std::uint8_t(h & 0xff), std::uint8_t(h >> 8) };
            const std::size_t n = d->input(pdu, sizeof pdu, rsp.get(), 23);
            t.ev("read").f("c", ch).f("rsp0", n ? rsp[0] : 0).end();
        }
        else if (c.op == "mark") { t.ev("Drained").f("calls", -1).end(); }
        else if (c.op == "drain") {
            int calls = 0;
            for (; calls < 100; ++calls) {
                const std::size_t n = confirm(*d, 1, rsp.get());
                t.ev("confirm").f("len", 1).fl("rsp", rsp.get(), n).end();
                const poll_result r = poll(*d);
                log_poll(t, r);
                if (r.op == 0) break;
            }
            t.ev("Drained").f("calls", calls).end();
        }
        else { std::fprintf(stderr, "bad op %s\n", c.op.c_str()); return 3; }
    }
    t.flush();
    return 0;
}
