// Standalone reproduction (no framework) of the three notification_queue defects recorded in known_findings.jsonl for C11/C12.
//   g++ -std=c++11 -DNDEBUG -I/repo repro_known_findings.cpp && ./a.out
#include <iterator>
#include <tuple>
#include <cstdio>
#include <bluetoe/notification_queue.hpp>
struct M {};
template <int... S> using Q = bluetoe::notification_queue<std::tuple<std::integral_constant<int,S>...>, M>;
static const char* K(bluetoe::details::notification_queue_entry_type t){ return t==bluetoe::details::notification_queue_entry_type::empty?"empty":t==bluetoe::details::notification_queue_entry_type::notification?"notification":"indication"; }
template <class QQ> void dq(QQ& q){ auto r=q.dequeue_indication_or_confirmation(); std::printf("  dequeue -> %s %zu\n",K(r.first),r.second); }
int main(){
  { std::puts("A: single-entry level refuses the second kind (Q<1>)");
    Q<1> q; std::printf("  queue_indication(0)=%d\n", q.queue_indication(0)); std::printf("  queue_notification(0)=%d  (not pending, must be 1)\n", q.queue_notification(0)); dq(q); q.indication_confirmed(); dq(q);
    Q<2> g; std::printf("  general machine Q<2>: queue_indication(0)=%d queue_notification(0)=%d\n", g.queue_indication(0), g.queue_notification(0)); dq(g); dq(g); }
  { std::puts("B: notification of a characteristic starves while the same characteristic is indicated (Q<2>)");
    Q<2> q; q.queue_notification(1); 
    for (int round=0; round<4; ++round){ q.queue_indication(1); dq(q); q.indication_confirmed(); } std::puts("  ... notification 1 still pending:"); dq(q); }
  { std::puts("C: indication 1 starves although every indication is confirmed (Q<2>)");
    Q<2> q; q.queue_indication(1);  q.queue_indication(0);
    for (int round=0; round<4; ++round){ dq(q); /* I0, outstanding */ q.queue_notification(1); dq(q); /* N1 moves next_ past blocked I1 */ q.queue_indication(0); q.indication_confirmed(); }
    std::puts("  ... indication 1 still pending:"); dq(q); q.indication_confirmed(); dq(q);}
}
