// C11 / C12: replays operation scripts on the real bluetoe::notification_queue<Sizes, Mixin> and records a trace.
//   usage: notifq_harness <script> <trace>
// script lines:
//   reset <s1> <s2> <s3>     new queue with priority level sizes s1, s2, s3 (0 = level absent)
//   qn <i> | qi <i>          queue_notification(i) / queue_indication(i)
//   dq                       dequeue_indication_or_confirmation()
//   cf                       indication_confirmed()
//   cl                       clear_indications_and_confirmations()
//   drain                    { indication_confirmed(); dequeue } until dequeue returns empty; then event "Drained"
//   mark                     only writes the event "Drained" (used by --replay, which re-executes recorded events)
// trace events (one per public call, written after the call returned):
//   {"e":"Reset","s":[s1,s2,s3]}  {"e":"qn"|"qi","i":i,"r":bool}  {"e":"dq","k":"n"|"i"|"e","i":idx}
//   {"e":"cf"}  {"e":"cl"}  {"e":"Drained","calls":n}
#include <iterator>
#include <tuple>
#include <map>
#include <memory>
#include <type_traits>
#include <bluetoe/notification_queue.hpp>
#include "trace.hpp"

namespace {

struct mixin {
    explicit mixin(int t) : tag(t) {}
    int tag;
};

struct iqueue {
    virtual ~iqueue() {}
    virtual bool qn(std::size_t) = 0;
    virtual bool qi(std::size_t) = 0;
    virtual std::pair<bluetoe::details::notification_queue_entry_type, std::size_t> dq() = 0;
    virtual void cf() = 0;
    virtual void cl() = 0;
    virtual int tag() const = 0;
};

template <int... S>
struct queue_of : iqueue {
    using queue_t = bluetoe::notification_queue<std::tuple<std::integral_constant<int, S>...>, mixin>;
    queue_t q;
    queue_of() : q(4711) {}
    bool qn(std::size_t i) override { return q.queue_notification(i); }
    bool qi(std::size_t i) override { return q.queue_indication(i); }
    std::pair<bluetoe::details::notification_queue_entry_type, std::size_t> dq() override { return q.dequeue_indication_or_confirmation(); }
    void cf() override { q.indication_confirmed(); }
    void cl() override { q.clear_indications_and_confirmations(); }
    int tag() const override { return q.tag; }
};

typedef iqueue* (*factory_t)();
template <int... S> iqueue* make() { return new queue_of<S...>(); }

long key(long a, long b, long c) { return a * 10000 + b * 100 + c; }

std::map<long, factory_t> factories() {
    std::map<long, factory_t> f;
    // every partition of 1..4 entries into <= 3 priority levels (single entry levels included)
    f[key(1,0,0)] = &make<1>;
    f[key(2,0,0)] = &make<2>;       f[key(1,1,0)] = &make<1,1>;
    f[key(3,0,0)] = &make<3>;       f[key(1,2,0)] = &make<1,2>;     f[key(2,1,0)] = &make<2,1>;     f[key(1,1,1)] = &make<1,1,1>;
    f[key(4,0,0)] = &make<4>;       f[key(1,3,0)] = &make<1,3>;     f[key(2,2,0)] = &make<2,2>;     f[key(3,1,0)] = &make<3,1>;
    f[key(1,1,2)] = &make<1,1,2>;   f[key(1,2,1)] = &make<1,2,1>;   f[key(2,1,1)] = &make<2,1,1>;
    // sizes that cross the 4-entries-per-byte packing boundary
    f[key(5,0,0)] = &make<5>;       f[key(9,0,0)] = &make<9>;       f[key(1,5,0)] = &make<1,5>;     f[key(5,4,0)] = &make<5,4>;
    return f;
}

const char* kind_name(bluetoe::details::notification_queue_entry_type t) {
    switch (t) {
        case bluetoe::details::notification_queue_entry_type::empty:        return "e";
        case bluetoe::details::notification_queue_entry_type::notification: return "n";
        case bluetoe::details::notification_queue_entry_type::indication:   return "i";
    }
    return "?";
}

void log_dq(verif::tracer& t, iqueue& q, bool& empty) {
    const auto r = q.dq();
    empty = r.first == bluetoe::details::notification_queue_entry_type::empty;
    t.ev("dq").f("k", kind_name(r.first)).f("i", (long long)r.second).end();
}

} // namespace

int main(int argc, char** argv) {
    if (argc < 3) return 3;
    std::ifstream in(argv[1]);
    verif::tracer t(argv[2]);
    verif::command c;
    const std::map<long, factory_t> fac = factories();
    std::unique_ptr<iqueue> q;
    while (verif::read_command(in, c)) {
        if (c.op == "reset") {
            const auto it = fac.find(key(c.arg(0), c.arg(1), c.arg(2)));
            if (it == fac.end()) { std::fprintf(stderr, "no such partition\n"); return 3; }
            q.reset(it->second());
            if (q->tag() != 4711) { std::fprintf(stderr, "mixin arguments lost\n"); return 3; }
            const long long s[3] = { c.arg(0), c.arg(1), c.arg(2) };
            t.ev("Reset").fl("s", s, s + 3).end();
            continue;
        }
        if (!q) return 3;
        bool empty = false;
        if (c.op == "qn")       { const bool r = q->qn(c.arg(0)); t.ev("qn").f("i", c.arg(0)).f("r", r).end(); }
        else if (c.op == "qi")  { const bool r = q->qi(c.arg(0)); t.ev("qi").f("i", c.arg(0)).f("r", r).end(); }
        else if (c.op == "dq")  { log_dq(t, *q, empty); }
        else if (c.op == "cf")  { q->cf(); t.ev("cf").end(); }
        else if (c.op == "cl")  { q->cl(); t.ev("cl").end(); }
        else if (c.op == "mark") { t.ev("Drained").f("calls", -1).end(); }
        else if (c.op == "drain") {
            int calls = 0;
            for (; calls < 1000; ++calls) {
                q->cf(); t.ev("cf").end();
                log_dq(t, *q, empty);
                if (empty) break;
            }
            t.ev("Drained").f("calls", calls).end();
        }
        else { std::fprintf(stderr, "bad op %s\n", c.op.c_str()); return 3; }
    }
    t.flush();
    return 0;
}
