// C37 / C38: drives the real nRF52 security tool box (bluetoe/bindings/nordic/nrf52/security_tool_box.cpp,
// compiled for the host against harness/stubs/nrf.h) and records one trace event per tool box call:
// the arguments exactly as passed (octet arrays, index 0 first), the result exactly as returned, and the
// log of the emulated ECB peripheral (every key / clear text / cipher text block the code made the
// "hardware" encrypt during that call, in the byte order the hardware sees).
//
//   usage: toolbox_harness <script> <trace>
// script lines (all numbers are octets unless noted):
//   reset
//   expect b...                                       published result for the next call (logged as "expect")
//   c1  k[16] r[16] p1[16] p2[16]
//   s1  k[16] srand[16] mrand[16]
//   f4  u[32] v[32] k[16] z
//   f5  dh[32] nc[16] np[16] t1 a1[6] t2 a2[6]          t = 1: random address
//   f6  key[16] n1[16] n2[16] r[16] io[3] t1 a1[6] t2 a2[6]
//   g2  u[32] v[32] x[16] y[16]
//   aes key[16] data[16]                                 nrf52_details::aes_le
//   sk  ltk[16] skdm[8] skds[8]                          LL session key, composed as nrf52.cpp setup_encryption does
//   vk  cls x[32] y[32] cert...                          is_valid_public_key; cls / cert are passed through to the trace
//   passkey seed n b1..bn                                create_passkey with the RNG stream b1..bn, then xorshift32(seed)
#include <iterator>
#include <algorithm>
#include <array>
#include <bluetoe/security_tool_box.hpp>
#include <bluetoe/address.hpp>
#include <bluetoe/bits.hpp>
#include <nrf.h>
#include "trace.hpp"

extern "C" {
#include "aes.h"
}

// ------------------------------------------------------------------------------------------------
// peripheral model behind harness/stubs/nrf.h
// ------------------------------------------------------------------------------------------------
namespace verif_nrf {
    NRF_RNG_Type    rng_regs;
    NRF_ECB_Type    ecb_regs;
    NRF_CLOCK_Type  clock_regs;
    NRF_RTC_Type    rtc_regs;

    model_t& model() { static model_t m = model_t(); return m; }

    void poll()
    {
        if ( ++model().polls > 20000000ul )
            verif::tracer::crash( "hang", 0 );
    }

    void rng_latch()
    {
        model_t& m = model();
        std::uint8_t b;
        if ( m.rng_pos < m.rng_script.size() )
            b = m.rng_script[ m.rng_pos ];
        else
        {
            std::uint32_t x = m.rng_tail ? m.rng_tail : 0x9E3779B9u;
            x ^= x << 13; x ^= x >> 17; x ^= x << 5;
            m.rng_tail = x;
            b = static_cast< std::uint8_t >( x >> 11 );
        }
        ++m.rng_pos;
        m.rng_value = b;
        m.rng_consumed.push_back( b );
    }

    void ecb_run()
    {
        model_t& m = model();
        // on the target every address has 32 bits; the host build is linked -no-pie so that static storage has too
        std::uint8_t* block = reinterpret_cast< std::uint8_t* >( static_cast< std::uintptr_t >( m.ecb_dataptr ) );
        ecb_entry e;
        std::copy( block, block + 16, e.key );
        std::copy( block + 16, block + 32, e.clear );
        AES_ctx ctx;
        AES_init_ctx( &ctx, e.key );
        std::copy( e.clear, e.clear + 16, e.cipher );
        AES_ECB_encrypt( &ctx, e.cipher );
        std::copy( e.cipher, e.cipher + 16, block + 32 );
        m.ecb_log.push_back( e );
        m.ecb_end = 1;
    }
}

// nrf.hpp declares them; security_tool_box.cpp does not use them
namespace bluetoe { namespace nrf52_details {
    void gpio_debug_hfxo_stopped() {}
    void init_calibration_timer() {}
    void deassign_hfxo() {}
} }

// ------------------------------------------------------------------------------------------------
using bluetoe::details::uint128_t;
using bluetoe::link_layer::device_address;
using bluetoe::link_layer::public_device_address;
using bluetoe::link_layer::random_device_address;

struct args {
    const verif::command& c;
    std::size_t pos;
    bool short_;
    explicit args( const verif::command& cmd ) : c( cmd ), pos( 0 ), short_( false ) {}
    std::uint8_t byte() { if ( pos >= c.a.size() ) { short_ = true; return 0; } return static_cast< std::uint8_t >( c.a[ pos++ ] ); }
    template < std::size_t N > std::array< std::uint8_t, N > arr() { std::array< std::uint8_t, N > r; for ( auto& b : r ) b = byte(); return r; }
    device_address addr( bool random ) {
        const auto b = arr< 6 >();
        return random ? device_address( random_device_address( b.data() ) ) : device_address( public_device_address( b.data() ) );
    }
};

static std::string ecb_json()
{
    std::string s = "[";
    char buf[ 8 ];
    auto list = [&]( const char* k, const std::uint8_t* p ) {
        s += "\""; s += k; s += "\":[";
        for ( int i = 0; i != 16; ++i ) { std::snprintf( buf, sizeof buf, "%s%d", i ? "," : "", p[ i ] ); s += buf; }
        s += "]";
    };
    bool first = true;
    for ( const auto& e : verif_nrf::model().ecb_log )
    {
        s += first ? "{" : ",{"; first = false;
        list( "k", e.key ); s += ","; list( "p", e.clear ); s += ","; list( "c", e.cipher );
        s += "}";
    }
    return s + "]";
}

static void before_call()
{
    verif_nrf::model_t& m = verif_nrf::model();
    m.ecb_log.clear();
    m.rng_consumed.clear();
    m.polls = 0;
}

int main( int argc, char** argv )
{
    if ( argc < 3 ) return 3;
    std::ifstream in( argv[ 1 ] );
    verif::tracer t( argv[ 2 ] );
    verif::command c;
    bluetoe::nrf52_details::security_tool_box box;
    std::vector< long long > expect;
    bool has_expect = false;

    while ( verif::read_command( in, c ) )
    {
        args a( c );
        before_call();

        if ( c.op == "reset" ) { t.ev( "Reset" ).end(); has_expect = false; continue; }
        if ( c.op == "expect" ) { expect = c.a; has_expect = true; continue; }

        if ( c.op == "c1" )
        {
            const auto k = a.arr< 16 >(), r = a.arr< 16 >(), p1 = a.arr< 16 >(), p2 = a.arr< 16 >();
            const uint128_t res = box.c1( k, r, p1, p2 );
            t.ev( "c1" ).fl( "k", k ).fl( "r", r ).fl( "p1", p1 ).fl( "p2", p2 ).fl( "res", res );
        }
        else if ( c.op == "s1" )
        {
            const auto k = a.arr< 16 >(), sr = a.arr< 16 >(), mr = a.arr< 16 >();
            const uint128_t res = box.s1( k, sr, mr );
            t.ev( "s1" ).fl( "k", k ).fl( "srand", sr ).fl( "mrand", mr ).fl( "res", res );
        }
        else if ( c.op == "f4" )
        {
            const auto u = a.arr< 32 >(), v = a.arr< 32 >(); const auto k = a.arr< 16 >(); const std::uint8_t z = a.byte();
            const uint128_t res = box.f4( u.data(), v.data(), k, z );
            t.ev( "f4" ).fl( "u", u ).fl( "v", v ).fl( "k", k ).f( "z", int( z ) ).fl( "res", res );
        }
        else if ( c.op == "f5" )
        {
            const auto dh = a.arr< 32 >(); const auto nc = a.arr< 16 >(), np = a.arr< 16 >();
            const bool t1 = a.byte() != 0; const device_address a1 = a.addr( t1 );
            const bool t2 = a.byte() != 0; const device_address a2 = a.addr( t2 );
            const auto res = box.f5( dh, nc, np, a1, a2 );
            t.ev( "f5" ).fl( "dh", dh ).fl( "nc", nc ).fl( "np", np )
             .f( "t1", int( t1 ) ).fl( "a1", a1.begin(), a1.end() ).f( "t2", int( t2 ) ).fl( "a2", a2.begin(), a2.end() )
             .fl( "mackey", res.first ).fl( "ltk", res.second );
        }
        else if ( c.op == "f6" )
        {
            const auto key = a.arr< 16 >(), n1 = a.arr< 16 >(), n2 = a.arr< 16 >(), r = a.arr< 16 >();
            const bluetoe::details::io_capabilities_t io = a.arr< 3 >();
            const bool t1 = a.byte() != 0; const device_address a1 = a.addr( t1 );
            const bool t2 = a.byte() != 0; const device_address a2 = a.addr( t2 );
            const uint128_t res = box.f6( key, n1, n2, r, io, a1, a2 );
            t.ev( "f6" ).fl( "key", key ).fl( "n1", n1 ).fl( "n2", n2 ).fl( "r", r ).fl( "io", io )
             .f( "t1", int( t1 ) ).fl( "a1", a1.begin(), a1.end() ).f( "t2", int( t2 ) ).fl( "a2", a2.begin(), a2.end() )
             .fl( "res", res );
        }
        else if ( c.op == "g2" )
        {
            const auto u = a.arr< 32 >(), v = a.arr< 32 >(); const auto x = a.arr< 16 >(), y = a.arr< 16 >();
            const std::uint32_t g = box.g2( u.data(), v.data(), x, y );
            // the 32 bit number as its four octets, least significant first (TLC integers have 32 bits including the sign)
            const std::uint8_t res[ 4 ] = { std::uint8_t( g ), std::uint8_t( g >> 8 ), std::uint8_t( g >> 16 ), std::uint8_t( g >> 24 ) };
            t.ev( "g2" ).fl( "u", u ).fl( "v", v ).fl( "x", x ).fl( "y", y ).fl( "res", res, 4 );
        }
        else if ( c.op == "aes" )
        {
            const auto key = a.arr< 16 >(), data = a.arr< 16 >();
            const uint128_t res = bluetoe::nrf52_details::aes_le( key, data );
            t.ev( "aes" ).fl( "key", key ).fl( "data", data ).fl( "res", res );
        }
        else if ( c.op == "sk" )
        {
            const auto ltk = a.arr< 16 >(); const auto m = a.arr< 8 >(), s = a.arr< 8 >();
            // LL_ENC_REQ / LL_ENC_RSP carry SKDm / SKDs least significant octet first; the link layer reads them as numbers
            const std::uint64_t skdm = bluetoe::details::read_64bit( m.data() );
            const std::uint64_t skds = bluetoe::details::read_64bit( s.data() );
            // the three lines of radio_hardware_with_crypto_support::setup_encryption (nrf52.cpp) in front of aes_le()
            uint128_t session_descriminator;
            bluetoe::details::write_64bit( &session_descriminator[ 0 ], skdm );
            bluetoe::details::write_64bit( &session_descriminator[ 8 ], skds );
            const uint128_t res = bluetoe::nrf52_details::aes_le( ltk, session_descriminator );
            t.ev( "sk" ).fl( "ltk", ltk ).fl( "skdm", m ).fl( "skds", s ).fl( "res", res );
        }
        else if ( c.op == "vk" )
        {
            const int cls = a.byte();
            const auto key = a.arr< 64 >();
            const bool res = box.is_valid_public_key( key.data() );
            t.ev( "vk" ).f( "cls", cls ).fl( "x", key.begin(), key.begin() + 32 ).fl( "y", key.begin() + 32, key.end() ).f( "res", res )
             .fl( "cert", c.a.begin() + std::min( a.pos, c.a.size() ), c.a.end() );
        }
        else if ( c.op == "passkey" )
        {
            verif_nrf::model_t& m = verif_nrf::model();
            m.rng_tail = static_cast< std::uint32_t >( c.arg( 0 ) );
            const std::size_t n = static_cast< std::size_t >( c.arg( 1 ) );
            m.rng_script.clear();
            for ( std::size_t i = 0; i != n; ++i ) m.rng_script.push_back( static_cast< std::uint8_t >( c.arg( 2 + i ) ) );
            m.rng_pos = 0; m.rng_running = false; m.rng_valrdy = false;
            const uint128_t res = box.create_passkey();
            // what pairing_numeric_output hands to the application (io_capabilities.hpp): read_32bit of the key
            const std::uint32_t shown = bluetoe::details::read_32bit( res.data() );
            t.ev( "create_passkey" ).fl( "script", m.rng_script ).fl( "rng", m.rng_consumed ).fl( "res", res )
             .f( "shown_lo", int( shown & 0xffffff ) ).f( "shown_hi", int( shown >> 24 ) );
        }
        else { std::fprintf( stderr, "bad op %s\n", c.op.c_str() ); return 3; }

        if ( a.short_ ) { std::fprintf( stderr, "too few arguments for %s\n", c.op.c_str() ); return 3; }
        if ( has_expect ) { t.fl( "expect", expect ); has_expect = false; }
        if ( c.op != "vk" && c.op != "passkey" ) t.raw( "ecb", ecb_json() );
        t.end();
    }
    t.flush();
    return 0;
}
