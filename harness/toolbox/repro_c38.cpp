// Standalone reproduction of the C38 finding: nrf52 security_tool_box::create_passkey() returns the first three
// RNG octets as a 24 bit number (0..16,777,215) instead of a six digit passkey (0..999,999).
//
//   R=/repo; N=$R/bluetoe/bindings/nordic
//   g++ -std=c++11 -DNDEBUG -w -fpermissive -I$R -I$R/bluetoe/utility/include -I$R/bluetoe/link_layer/include \
//       -I$R/bluetoe/sm/include -I/verif/harness/stubs -I$N/include -I$N/nrf52/include -I$N/uECC \
//       /verif/harness/toolbox/repro_c38.cpp $N/nrf52/security_tool_box.cpp $R/bluetoe/utility/address.cpp \
//       -x c -DuECC_CURVE=uECC_secp256r1 $N/uECC/uECC.c -no-pie -o /tmp/repro_c38 && /tmp/repro_c38
//   expected output:  RNG ff ff ff -> passkey shown to the user: 16777215   (and 1000000 for RNG 40 42 0f)
#include <iterator>
#include <cstdio>
#include <bluetoe/security_tool_box.hpp>
#include <bluetoe/bits.hpp>
#include <nrf.h>

namespace verif_nrf {
    NRF_RNG_Type rng_regs; NRF_ECB_Type ecb_regs; NRF_CLOCK_Type clock_regs; NRF_RTC_Type rtc_regs;
    model_t& model() { static model_t m = model_t(); return m; }
    void poll() {}
    void ecb_run() {}
    void rng_latch() { model_t& m = model(); m.rng_value = m.rng_script[ m.rng_pos++ % m.rng_script.size() ]; }
}
namespace bluetoe { namespace nrf52_details {
    void gpio_debug_hfxo_stopped() {} void init_calibration_timer() {} void deassign_hfxo() {}
} }

static int show( std::uint8_t a, std::uint8_t b, std::uint8_t c )
{
    verif_nrf::model().rng_script = { a, b, c };
    verif_nrf::model().rng_pos = 0;
    bluetoe::nrf52_details::security_tool_box box;
    const bluetoe::details::uint128_t tk = box.create_passkey();
    // io_capabilities.hpp: Obj.sm_pairing_numeric_output( static_cast< int >( details::read_32bit( key.data() ) ) )
    const unsigned shown = bluetoe::details::read_32bit( tk.data() );
    std::printf( "RNG %02x %02x %02x -> passkey shown to the user: %u%s\n", a, b, c, shown, shown > 999999 ? "   (not a six digit passkey)" : "" );
    return shown > 999999;
}

int main()
{
    int bad = show( 0xff, 0xff, 0xff );
    bad += show( 0x40, 0x42, 0x0f );
    bad += show( 0x3f, 0x42, 0x0f );
    return bad ? 1 : 0;
}
