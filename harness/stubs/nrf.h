// Host stand-in for Nordic's <nrf.h>, just large enough for
//   bluetoe/bindings/nordic/include/bluetoe/nrf.hpp  and  bluetoe/bindings/nordic/nrf52/security_tool_box.cpp
// (properties C37, C38).  Registers are C++ objects: reading / writing them drives a small model of the
// peripheral instead of touching memory mapped hardware.
//
//   RNG  TASKS_START = 1 starts the generator; polling EVENTS_VALRDY latches the next byte of the scripted
//        stream into VALUE and reads as 1 (SHORTS VALRDY->STOP as configured by nrf52.cpp: one byte per
//        start); writing EVENTS_VALRDY = 0 clears the event; VALUE reads the latched byte.
//   ECB  TASKS_STARTECB = 1 encrypts the block at ECBDATAPTR (16 byte key, 16 byte clear text, 16 byte
//        cipher text, all in FIPS-197 byte order) with AES-128 and sets EVENTS_ENDECB; every
//        (key, clear text, cipher text) triple is appended to the log of the model.
//   CLOCK / RTC and the other peripheral types only exist so that nrf.hpp compiles.
//
// The model object (verif_nrf::model) and verif_nrf::ecb_run() are defined by the harness.
#ifndef VERIF_STUB_NRF_H
#define VERIF_STUB_NRF_H

#include <cstdint>
#include <cstddef>
#include <vector>

#define __NVIC_PRIO_BITS 3

namespace verif_nrf {

    struct ecb_entry { std::uint8_t key[ 16 ], clear[ 16 ], cipher[ 16 ]; };

    struct model_t {
        // RNG
        std::vector< std::uint8_t > rng_script;     // scripted prefix of the byte stream
        std::uint32_t               rng_tail;       // state of the generator that continues the stream
        std::vector< std::uint8_t > rng_consumed;   // bytes handed out since the last clear
        bool                        rng_running;
        bool                        rng_valrdy;
        std::uint8_t                rng_value;
        std::size_t                 rng_pos;
        // ECB
        std::uint32_t               ecb_dataptr;
        std::uint32_t               ecb_end, ecb_error;
        std::vector< ecb_entry >    ecb_log;
        // watchdog for busy waits that never end
        unsigned long               polls;
    };

    model_t& model();          // defined by the harness
    void ecb_run();            // defined by the harness: AES-128 on the block at model().ecb_dataptr
    void rng_latch();          // defined by the harness: next byte of the stream -> rng_value
    void poll();               // defined by the harness: counts polls, records a hang as a crash

    // a plain 32 bit register
    struct reg {
        std::uint32_t v;
        reg() : v( 0 ) {}
        operator std::uint32_t() const { return v; }
        reg& operator=( std::uint32_t x ) { v = x; return *this; }
    };

    struct rng_start_reg   { void operator=( std::uint32_t x ) { if ( x ) model().rng_running = true; } };
    struct rng_stop_reg    { void operator=( std::uint32_t x ) { if ( x ) model().rng_running = false; } };
    struct rng_valrdy_reg  {
        operator std::uint32_t() const {
            model_t& m = model();
            poll();
            if ( m.rng_running && !m.rng_valrdy ) { rng_latch(); m.rng_valrdy = true; m.rng_running = false; }
            return m.rng_valrdy ? 1 : 0;
        }
        void operator=( std::uint32_t x ) { model().rng_valrdy = x != 0; }
    };
    struct rng_value_reg   { operator std::uint32_t() const { return model().rng_value; } };

    struct ecb_start_reg   { void operator=( std::uint32_t x ) { if ( x ) ecb_run(); } };
    struct ecb_ptr_reg     {
        operator std::uint32_t() const { return model().ecb_dataptr; }
        void operator=( std::uint32_t x ) { model().ecb_dataptr = x; }
    };
    struct ecb_end_reg     {
        operator std::uint32_t() const { poll(); return model().ecb_end; }
        void operator=( std::uint32_t x ) { model().ecb_end = x; }
    };
    struct ecb_error_reg   {
        operator std::uint32_t() const { return model().ecb_error; }
        void operator=( std::uint32_t x ) { model().ecb_error = x; }
    };
}

struct NRF_RNG_Type {
    verif_nrf::rng_start_reg  TASKS_START;
    verif_nrf::rng_stop_reg   TASKS_STOP;
    verif_nrf::rng_valrdy_reg EVENTS_VALRDY;
    verif_nrf::reg            SHORTS, INTENSET, INTENCLR, CONFIG;
    verif_nrf::rng_value_reg  VALUE;
};

struct NRF_ECB_Type {
    verif_nrf::ecb_start_reg  TASKS_STARTECB;
    verif_nrf::reg            TASKS_STOPECB;
    verif_nrf::ecb_end_reg    EVENTS_ENDECB;
    verif_nrf::ecb_error_reg  EVENTS_ERRORECB;
    verif_nrf::reg            INTENSET, INTENCLR;
    verif_nrf::ecb_ptr_reg    ECBDATAPTR;
};

struct NRF_CLOCK_Type {
    verif_nrf::reg TASKS_HFCLKSTART, TASKS_HFCLKSTOP, TASKS_LFCLKSTART, TASKS_LFCLKSTOP, TASKS_CAL, TASKS_CTSTART, TASKS_CTSTOP;
    verif_nrf::reg EVENTS_HFCLKSTARTED, EVENTS_LFCLKSTARTED, EVENTS_DONE, EVENTS_CTTO;
    verif_nrf::reg INTENSET, INTENCLR, LFCLKSRC, CTIV;
};

struct NRF_RTC_Type {
    verif_nrf::reg TASKS_START, TASKS_STOP, TASKS_CLEAR;
    verif_nrf::reg EVENTS_OVRFLW, EVENTS_COMPARE[ 4 ];
    verif_nrf::reg INTENSET, INTENCLR, EVTEN, EVTENSET, EVTENCLR, COUNTER, PRESCALER, CC[ 4 ];
};

struct NRF_RADIO_Type  {};
struct NRF_TIMER_Type  {};
struct NRF_TEMP_Type   {};
struct NRF_CCM_Type    {};
struct NRF_AAR_Type    {};
struct NRF_PPI_Type    {};
struct NRF_GPIOTE_Type {};
struct NVIC_Type       {};

namespace verif_nrf {
    extern NRF_RNG_Type    rng_regs;
    extern NRF_ECB_Type    ecb_regs;
    extern NRF_CLOCK_Type  clock_regs;
    extern NRF_RTC_Type    rtc_regs;
}

#define NRF_RNG     ( &verif_nrf::rng_regs )
#define NRF_ECB     ( &verif_nrf::ecb_regs )
#define NRF_CLOCK   ( &verif_nrf::clock_regs )
#define NRF_RTC0    ( &verif_nrf::rtc_regs )
#define NRF_RADIO   ( static_cast< NRF_RADIO_Type* >( nullptr ) )
#define NRF_TIMER0  ( static_cast< NRF_TIMER_Type* >( nullptr ) )
#define NRF_TIMER1  ( static_cast< NRF_TIMER_Type* >( nullptr ) )
#define NRF_TEMP    ( static_cast< NRF_TEMP_Type* >( nullptr ) )
#define NRF_CCM     ( static_cast< NRF_CCM_Type* >( nullptr ) )
#define NRF_AAR     ( static_cast< NRF_AAR_Type* >( nullptr ) )
#define NRF_PPI     ( static_cast< NRF_PPI_Type* >( nullptr ) )
#define NRF_GPIOTE  ( static_cast< NRF_GPIOTE_Type* >( nullptr ) )
#define NVIC        ( static_cast< NVIC_Type* >( nullptr ) )

#define RTC_EVTEN_COMPARE0_Enabled      1
#define RTC_EVTEN_COMPARE0_Pos          16
#define RTC_EVTEN_COMPARE1_Enabled      1
#define RTC_EVTEN_COMPARE1_Pos          17
#define RTC_EVTEN_OVRFLW_Enabled        1
#define RTC_EVTEN_OVRFLW_Pos            1
#define CLOCK_LFCLKSRCCOPY_SRC_Pos      0
#define CLOCK_LFCLKSRCCOPY_SRC_RC       0
#define CLOCK_LFCLKSRCCOPY_SRC_Xtal     1
#define CLOCK_LFCLKSRCCOPY_SRC_Synth    2

#endif
