// C20: drives the real bluetoe::link_layer::channel_map (mode "class") and the real link_layer on top of
// the repository's simulated radio (mode "ll") and records a trace for spec/ChannelMap/ChannelMapTrace.tla.
//
//   usage: chanmap_harness class|ll <script> <trace>
//
// class mode script:   reset | r2 b0 b1 b2 b3 b4 hop | r1 b0 b1 b2 b3 b4
//   every call is logged with its result and - once a reset succeeded - the whole table data_channel(0..36)
// ll mode script:      conn b0 b1 b2 b3 b4 hop latency      (starts an execution: CONNECT_IND with this ChM / hop)
//                      r | t | m b0 b1 b2 b3 b4 off         (per connection event: empty PDU | nothing | LL_CHANNEL_MAP_IND
//                                                             with instant = event counter of that event + off)
//                      run [max_events]                      (simulate; log every scheduled connection event)
#include <iterator>
#include <vector>
#include <string>
#include <memory>
#include <algorithm>
#include <bluetoe/channel_map.hpp>
#include "trace.hpp"

// the sanitizer hooks of trace.hpp are inline: take their address so that they are emitted and override the weak
// defaults of the sanitizer runtime (a sanitizer report becomes a {"e":"Crash"} event instead of a lost trace)
static void (*volatile keep_asan_hook)() = &__asan_on_error;
static void (*volatile keep_ubsan_hook)() = &__ubsan_on_report;

using bluetoe::link_layer::channel_map;

static void log_table(verif::tracer& t, const channel_map& m, bool valid) {
    std::vector<int> tab;
    if (valid)
        for (unsigned i = 0; i != channel_map::max_number_of_data_channels; ++i) tab.push_back(m.data_channel(i));
    t.fl("tab", tab);
}

static int run_class(const char* script, const char* trace) {
    std::ifstream in(script);
    verif::tracer t(trace);
    verif::command c;
    std::unique_ptr<channel_map> m(new channel_map());
    bool valid = false;                       // a reset succeeded on this object: the table is defined
    while (verif::read_command(in, c)) {
        if (c.op == "reset") { m.reset(new channel_map()); valid = false; t.ev("Reset").end(); continue; }
        std::uint8_t map[5];
        for (int i = 0; i < 5; ++i) map[i] = std::uint8_t(c.arg(i));
        if (c.op == "r2") {
            const bool r = m->reset(map, unsigned(c.arg(5)));
            valid = valid || r;
            t.ev("reset2").fl("map", map, 5).f("hop", c.arg(5)).f("r", r);
        } else if (c.op == "r1") {
            const bool r = m->reset(map);
            t.ev("reset1").fl("map", map, 5).f("r", r);
        } else { std::fprintf(stderr, "bad op %s\n", c.op.c_str()); return 3; }
        log_table(t, *m, valid);
        t.end();
    }
    t.flush();
    return 0;
}

#ifndef CHANMAP_NO_LL
#include <boost/test/unit_test.hpp>      // test_servers.hpp / test_radio.cpp use BOOST_ macros (never executed here)
#include <bluetoe/link_layer.hpp>
#include "test_radio.hpp"
#include "test_servers.hpp"

// the repository's simulated radio; additionally remembers the link layer's event counter of every scheduled event
static std::vector<unsigned> g_counters;

template <std::size_t T, std::size_t R, class CB>
class rec_radio : public test::radio<T, R, CB> {
public:
    bluetoe::link_layer::delta_time schedule_connection_event(unsigned channel, bluetoe::link_layer::delta_time start,
            bluetoe::link_layer::delta_time end, bluetoe::link_layer::delta_time interval) {
        g_counters.push_back(static_cast<CB*>(this)->connection_event_counter());
        return test::radio<T, R, CB>::schedule_connection_event(channel, start, end, interval);
    }
    std::pair<bool, bluetoe::link_layer::delta_time> disarm_connection_event() {
        if (!g_counters.empty()) g_counters.pop_back();
        return test::radio<T, R, CB>::disarm_connection_event();
    }
};
namespace bluetoe { namespace link_layer {
    template <std::size_t T, std::size_t R, class CB>
    struct pdu_layout_by_radio<rec_radio<T, R, CB>> { using pdu_layout = test::pdu_layout; };
}}

using ll_t = bluetoe::link_layer::link_layer<test::small_temperature_service, rec_radio,
                                             bluetoe::link_layer::buffer_sizes<61u, 61u>>;

struct step { char kind; std::uint8_t map[5]; unsigned off; };

static int run_ll(const char* script, const char* trace) {
    std::ifstream in(script);
    verif::tracer t(trace);
    verif::command c;
    std::uint8_t cmap[5] = {0}; unsigned hop = 0, lat = 0;
    std::vector<step> steps;
    while (verif::read_command(in, c)) {
        if (c.op == "conn") {
            for (int i = 0; i < 5; ++i) cmap[i] = std::uint8_t(c.arg(i));
            hop = unsigned(c.arg(5)) & 0x1f; lat = unsigned(c.arg(6));
            steps.clear();
            continue;
        }
        if (c.op == "r" || c.op == "t") { step s; s.kind = c.op[0]; s.off = 0; steps.push_back(s); continue; }
        if (c.op == "m") { step s; s.kind = 'm'; for (int i = 0; i < 5; ++i) s.map[i] = std::uint8_t(c.arg(i)); s.off = unsigned(c.arg(5)); steps.push_back(s); continue; }
        if (c.op != "run") { std::fprintf(stderr, "bad op %s\n", c.op.c_str()); return 3; }

        g_counters.clear();
        std::unique_ptr<ll_t> ll(new ll_t());
        const unsigned sto = std::max(16u, ((lat + 1) * 15 + 9) / 10 + 1);
        const std::vector<std::uint8_t> connect_ind = {
            0xc5, 0x22,
            0x3c, 0x1c, 0x62, 0x92, 0xf0, 0x48,         // InitA
            0x47, 0x11, 0x08, 0x15, 0x0f, 0xc0,         // AdvA (address of the link layer under test)
            0x5a, 0xb3, 0x9a, 0xaf,                     // access address
            0x08, 0x81, 0xf6,                           // CRC init
            0x02,                                       // transmit window size
            0x02, 0x00,                                 // transmit window offset
            0x06, 0x00,                                 // interval 7.5 ms
            std::uint8_t(lat), std::uint8_t(lat >> 8),  // peripheral latency
            std::uint8_t(sto), std::uint8_t(sto >> 8),  // supervision timeout: 160 ms or just above (latency+1)*2*interval
            cmap[0], cmap[1], cmap[2], cmap[3], cmap[4],
            std::uint8_t(0xa0 | hop)                    // hop increment, SCA
        };
        ll->respond_to(37, connect_ind);
        // instants actually sent, indexed by step
        std::vector<long> instants(steps.size(), -1);
        std::uint8_t sn = 0, nesn = 0;
        ll_t* const llp = ll.get();
        for (std::size_t i = 0; i != steps.size(); ++i) {
            const step s = steps[i];
            if (s.kind == 't') { ll->add_connection_event_respond_timeout(); continue; }
            if (s.kind == 'r') {
                ll->add_connection_event_respond({ std::uint8_t(0x01 | sn | nesn), 0 });
            } else {
                long* const slot = &instants[i];
                const std::uint8_t hdr = std::uint8_t(0x03 | sn | nesn);
                std::function<test::pdu_list_t()> f = [llp, s, slot, hdr]() -> test::pdu_list_t {
                    const unsigned inst = (llp->connection_event_counter() + s.off) & 0xffff;
                    *slot = long(inst);
                    const test::pdu_t pdu{ hdr, 8, 0x01, s.map[0], s.map[1], s.map[2], s.map[3], s.map[4],
                                           std::uint8_t(inst), std::uint8_t(inst >> 8) };
                    return test::pdu_list_t(1, pdu);
                };
                ll->add_connection_event_respond(test::connection_event_response(f));
            }
            sn ^= 0x08; nesn ^= 0x04;
        }
        const unsigned long max_events = c.arg(0, 0) ? c.arg(0) : steps.size() + 40;
        ll->end_of_simulation(bluetoe::link_layer::delta_time::usec(7500) * unsigned((max_events + 8) * (lat + 1)));
        ll->run();

        const auto& evs = ll->connection_events();
        t.ev("Reset").end();
        t.ev("Connect").fl("map", cmap, 5).f("hop", hop).f("lat", lat).f("r", !evs.empty()).f("nev", (long long)evs.size()).end();
        const std::size_t n = std::min(evs.size(), g_counters.size());
        for (std::size_t j = 0; j != n; ++j) {
            t.ev("Ev").f("cnt", g_counters[j]).f("ch", evs[j].channel).end();
            if (j < steps.size() && steps[j].kind == 'm' && instants[j] >= 0)
                t.ev("MapInd").fl("map", steps[j].map, 5).f("inst", instants[j]).end();
        }
        if (evs.size() != g_counters.size())
            t.ev("Crash").f("what", "bookkeeping").f("sig", 0).end();
        steps.clear();
    }
    t.flush();
    return 0;
}
#else
static int run_ll(const char*, const char*) { return 3; }
#endif

int main(int argc, char** argv) {
    if (argc < 4) return 3;
    return std::string(argv[1]) == "class" ? run_class(argv[2], argv[3]) : run_ll(argv[2], argv[3]);
}
