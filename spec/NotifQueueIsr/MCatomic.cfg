CONSTANTS N = 2  NProd = 2  NCons = 3  NConf = 1 AtomicRMW = TRUE
SPECIFICATION Spec
INVARIANTS Linearizable QuiescentAgreement
VIEW View
CHECK_DEADLOCK FALSE
