CONSTANTS N = 2  NProd = 2  NCons = 2  NConf = 1 AtomicRMW = FALSE
SPECIFICATION Spec
INVARIANTS Linearizable QuiescentAgreement
VIEW View
CHECK_DEADLOCK FALSE
