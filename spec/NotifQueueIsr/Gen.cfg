CONSTANTS N = 2  NProd = 2  NCons = 2  NConf = 1 AtomicRMW = FALSE
SPECIFICATION GSpec
INVARIANTS Emit
CHECK_DEADLOCK FALSE
