---------------------------- MODULE NotifIsrGen ----------------------------
(* Schedule generator for C13: interleavings of the access-level steps of      *)
(* NotifIsrImpl (all of them by BFS, random ones by -simulate). Each step is    *)
(* <<context, kind, i, k>> (i, k: the request, on the first step of a producer *)
(* call only). Replayed on the real notification_queue through hook H2.        *)
EXTENDS NotifIsrImpl, Json

VARIABLE hist
gvars == <<vars, hist>>
GInit == Init /\ hist = <<>>
GNext == Next /\ hist' = Append(hist, last')
GSpec == GInit /\ [][GNext]_gvars
GIsrSpec == GInit /\ [][IsrNext /\ hist' = Append(hist, last')]_gvars
Finished == ~ENABLED Next
Emit == Finished => PrintT(<<"BEHAVIOUR", ToJson(hist)>>)
=============================================================================
