---------------------------- MODULE NotifIsrImpl ----------------------------
(* Implementation-shaped model of details::notification_queue_impl<Size,C>    *)
(* (the general bit-array machine) at single-memory-access granularity:       *)
(*   producer  add(index,bits):   load byte (result), load byte, store byte   *)
(*   consumer  dequeue:           per inspected entry: load byte (at);        *)
(*                                remove(): load byte, store byte             *)
(* next_ and the outstanding-confirmation index are consumer-private.         *)
(* Ghost `lin` tracks module NotifLin; the design-level question "is the      *)
(* queue linearizable / is no request lost" is the invariant Linearizable.    *)
EXTENDS NotifLin, TLC

CONSTANTS NProd,     \* producer calls
          NCons,     \* consumer dequeue calls
          NConf,     \* confirmations
          AtomicRMW  \* FALSE: |= and &= are load - store (the code as written, on a load/store CPU)
                     \* TRUE : |= and &= are single atomic read-modify-write steps (the repaired design)

ByteOf(i) == i \div 4                  \* 2 bits per entry, 4 entries per byte
Bytes == 0..ByteOf(N - 1)

VARIABLES mem,        \* mem[b] = set of <<entry, kind>> bits set in byte b
          pc,         \* pc.P \in {"idle","a2","a3"}, pc.C \in {"idle","at","rm_ld","rm_st"}
          pl,         \* producer locals [i, k, res, tmp]
          cl,         \* consumer locals [j, bit, tmp]
          nxt, cout,  \* next_, outstanding confirmation (consumer private)
          prods, deqs, confs,
          lin, last

vars == <<mem, pc, pl, cl, nxt, cout, prods, deqs, confs, lin, last>>

Init ==
    /\ mem = [b \in Bytes |-> {}]
    /\ pc = [P |-> "idle", C |-> "idle"]
    /\ pl = [i |-> 0, k |-> "n", res |-> FALSE, tmp |-> {}]
    /\ cl = [j |-> 0, bit |-> "n", tmp |-> {}]
    /\ nxt = 0 /\ cout = FALSE
    /\ prods = 0 /\ deqs = 0 /\ confs = 0
    /\ lin = LinInit
    /\ last = <<"-", "-", 0, "-">>

\* ---- producer: queue_notification / queue_indication -> add( index, bits ) -----------------
A1(i, k) ==                                   \* result = ( queue_[ b ] & mask ) == 0
    /\ pc.P = "idle" /\ prods < NProd
    /\ pl' = [pl EXCEPT !.i = i, !.k = k, !.res = <<i, k>> \notin mem[ByteOf(i)]]
    /\ lin' = Invoke(lin, "P", <<i, k>>)
    /\ pc' = [pc EXCEPT !.P = "a2"]
    /\ last' = <<"P", "ld", i, k>>
    /\ UNCHANGED <<mem, cl, nxt, cout, prods, deqs, confs>>
A2 ==                                         \* queue_[ b ] |= mask   (load half)
    /\ pc.P = "a2" /\ ~AtomicRMW
    /\ pl' = [pl EXCEPT !.tmp = mem[ByteOf(pl.i)]]
    /\ pc' = [pc EXCEPT !.P = "a3"]
    /\ last' = <<"P", "ld", -1, "-">>
    /\ UNCHANGED <<mem, cl, nxt, cout, prods, deqs, confs, lin>>
A3 ==                                         \* queue_[ b ] |= mask   (store half); return result
    /\ pc.P = "a3"
    /\ mem' = [mem EXCEPT ![ByteOf(pl.i)] = pl.tmp \cup {<<pl.i, pl.k>>}]
    /\ lin' = Respond(lin, "P", "ok")
    /\ prods' = prods + 1
    /\ pc' = [pc EXCEPT !.P = "idle"]
    /\ last' = <<"P", "st", -1, "-">>
    /\ UNCHANGED <<pl, cl, nxt, cout, deqs, confs>>

A23 ==                                        \* queue_[ b ] |= mask   as one atomic read-modify-write
    /\ pc.P = "a2" /\ AtomicRMW
    /\ mem' = [mem EXCEPT ![ByteOf(pl.i)] = @ \cup {<<pl.i, pl.k>>}]
    /\ lin' = Respond(lin, "P", "ok")
    /\ prods' = prods + 1
    /\ pc' = [pc EXCEPT !.P = "idle"]
    /\ last' = <<"P", "rmw", -1, "-">>
    /\ UNCHANGED <<pl, cl, nxt, cout, deqs, confs>>

\* ---- consumer: dequeue_indication_or_confirmation ------------------------------------------
At ==                                         \* auto entry = at( i )
    /\ pc.C \in {"idle", "at"} /\ (pc.C = "idle" => deqs < NCons)
    /\ LET j     == IF pc.C = "idle" THEN nxt ELSE cl.j
           linS  == IF pc.C = "idle" THEN Invoke(lin, "C", <<>>) ELSE lin
           entry == {k \in Kinds : <<j, k>> \in mem[ByteOf(j)]}
       IN  /\ last' = <<"C", "ld", -1, "-">>
           /\ IF "i" \in entry /\ ~cout
              THEN /\ cout' = TRUE /\ nxt' = (j + 1) % N
                   /\ cl' = [cl EXCEPT !.j = j, !.bit = "i"]
                   /\ pc' = [pc EXCEPT !.C = "rm_ld"]
                   /\ lin' = linS /\ UNCHANGED deqs
              ELSE IF "n" \in entry
              THEN /\ nxt' = (j + 1) % N
                   /\ cl' = [cl EXCEPT !.j = j, !.bit = "n"]
                   /\ pc' = [pc EXCEPT !.C = "rm_ld"]
                   /\ lin' = linS /\ UNCHANGED <<deqs, cout>>
              ELSE IF (j + 1) % N = nxt              \* loop finished: return { empty, 0 }
              THEN /\ lin' = Respond(linS, "C", <<"e", 0>>)
                   /\ deqs' = deqs + 1
                   /\ pc' = [pc EXCEPT !.C = "idle"]
                   /\ UNCHANGED <<cl, nxt, cout>>
              ELSE /\ cl' = [cl EXCEPT !.j = (j + 1) % N]
                   /\ pc' = [pc EXCEPT !.C = "at"]
                   /\ lin' = linS /\ UNCHANGED <<deqs, nxt, cout>>
    /\ UNCHANGED <<mem, pl, prods, confs>>
RmLd ==                                       \* queue_[ b ] &= ~mask  (load half)
    /\ pc.C = "rm_ld" /\ ~AtomicRMW
    /\ cl' = [cl EXCEPT !.tmp = mem[ByteOf(cl.j)]]
    /\ pc' = [pc EXCEPT !.C = "rm_st"]
    /\ last' = <<"C", "ld", -1, "-">>
    /\ UNCHANGED <<mem, pl, nxt, cout, prods, deqs, confs, lin>>
RmSt ==                                       \* queue_[ b ] &= ~mask  (store half); return entry
    /\ pc.C = "rm_st"
    /\ mem' = [mem EXCEPT ![ByteOf(cl.j)] = cl.tmp \ {<<cl.j, cl.bit>>}]
    /\ lin' = Respond(lin, "C", <<cl.bit, cl.j>>)
    /\ deqs' = deqs + 1
    /\ pc' = [pc EXCEPT !.C = "idle"]
    /\ last' = <<"C", "st", -1, "-">>
    /\ UNCHANGED <<pl, cl, nxt, cout, prods, confs>>
RmRmw ==                                      \* queue_[ b ] &= ~mask  as one atomic read-modify-write
    /\ pc.C = "rm_ld" /\ AtomicRMW
    /\ mem' = [mem EXCEPT ![ByteOf(cl.j)] = @ \ {<<cl.j, cl.bit>>}]
    /\ lin' = Respond(lin, "C", <<cl.bit, cl.j>>)
    /\ deqs' = deqs + 1
    /\ pc' = [pc EXCEPT !.C = "idle"]
    /\ last' = <<"C", "rmw", -1, "-">>
    /\ UNCHANGED <<pl, cl, nxt, cout, prods, confs>>
Conf ==                                       \* indication_confirmed(): consumer private, no shared access
    /\ pc.C = "idle" /\ confs < NConf /\ cout
    /\ cout' = FALSE
    /\ lin' = Confirm(lin)
    /\ confs' = confs + 1
    /\ last' = <<"C", "cf", -1, "-">>
    /\ UNCHANGED <<mem, pc, pl, cl, nxt, prods, deqs>>

Producer == (\E i \in Entries, k \in Kinds : A1(i, k)) \/ A2 \/ A3 \/ A23
Consumer == At \/ RmLd \/ RmSt \/ RmRmw \/ Conf
\* second configuration: the producer is an interrupt that runs to completion once started
IsrNext  == Producer \/ (pc.P = "idle" /\ Consumer)
Next == Producer \/ Consumer
Spec == Init /\ [][Next]_vars
IsrSpec == Init /\ [][IsrNext]_vars

\* ---- properties ---------------------------------------------------------------------------
Linearizable == Consistent(lin)
\* at quiescence the real bits are exactly the pending set of some consistent configuration
RealBits == UNION {mem[b] : b \in Bytes}
QuiescentAgreement == (pc.P = "idle" /\ pc.C = "idle") => \E c \in lin : c.pend = RealBits
View == <<mem, pc, pl, cl, nxt, cout, prods, deqs, confs, lin>>
=============================================================================
