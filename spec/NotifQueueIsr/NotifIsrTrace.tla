--------------------------- MODULE NotifIsrTrace ---------------------------
(* Trace validation for C13: the call/return history of the real               *)
(* notification_queue under a scheduled interleaving must be linearizable      *)
(* w.r.t. the pending-set semantics of NotifLin. Events:                       *)
(*  {"e":"Reset"} {"e":"QBegin","i":n,"k":"n"|"i"} {"e":"QEnd","r":bool}        *)
(*  {"e":"DBegin"} {"e":"DEnd","k":"n"|"i"|"e","i":n} {"e":"Conf"}              *)
EXTENDS NotifLin, Json, IOUtils, TLC

Tr == ndJsonDeserialize(IOEnv.TRACE)
VARIABLES l, lin
vars == <<lin>>
tvars == <<lin, l>>
Ev == Tr[l]

Explain(ev) ==
    \/ ev.e = "Reset"  /\ lin' = LinInit
    \/ ev.e = "QBegin" /\ lin' = Invoke(lin, "P", <<ev.i, ev.k>>) /\ Consistent(lin')
    \/ ev.e = "QEnd"   /\ lin' = Respond(lin, "P", "ok")          /\ Consistent(lin')
    \/ ev.e = "DBegin" /\ lin' = Invoke(lin, "C", <<>>)           /\ Consistent(lin')
    \/ ev.e = "DEnd"   /\ lin' = Respond(lin, "C", <<ev.k, ev.i>>) /\ Consistent(lin')
    \/ ev.e = "Conf"   /\ lin' = Confirm(lin)                     /\ Consistent(lin')

Resets == {i \in 1..Len(Tr) : Tr[i].e = "Reset"}
NextReset(i) == IF \E j \in Resets : j > i
                THEN CHOOSE j \in Resets : j > i /\ \A k \in Resets : k > i => j <= k
                ELSE Len(Tr) + 1
TInit == lin = LinInit /\ l = 1
TNext ==
    \/ /\ l <= Len(Tr)
       /\ IF ENABLED Explain(Ev)
          THEN Explain(Ev) /\ l' = l + 1
          ELSE PrintT(<<"MISMATCH", l>>) /\ l' = NextReset(l) /\ UNCHANGED vars
    \/ /\ l = Len(Tr) + 1
       /\ PrintT(<<"TRACE_DONE", Len(Tr)>>)
       /\ l' = l + 1 /\ UNCHANGED vars
TSpec == TInit /\ [][TNext]_tvars
=============================================================================
