------------------------------ MODULE NotifLin ------------------------------
(* Property-level specification for C13: the outgoing notification queue,     *)
(* used concurrently by one producer context (notify()/indicate() from an     *)
(* interrupt or another thread) and one consumer context (the link layer      *)
(* dequeuing), behaves like an atomic *set of pending requests*:              *)
(*   queue(i, kind)  afterwards <<i,kind>> is pending (its BOOLEAN result -   *)
(*                   "newly queued" - is C12's business and is left open      *)
(*                   here: under concurrency it only steers a wake-up);       *)
(*   dequeue         returns and removes SOME pending request (an indication  *)
(*                   only if none is outstanding) or "empty" if there is no   *)
(*                   such request at that instant.                            *)
(* Every call takes effect atomically between its start and its return        *)
(* (linearizability) - so no accepted request is lost and none is duplicated, *)
(* whatever the interleaving. Priority / fairness are C12's business and are  *)
(* deliberately left open here.                                               *)
(* Deterministic subset construction as in module Ring: `lin` = the set of    *)
(* abstract configurations consistent with the calls and returns seen so far. *)
EXTENDS Integers, FiniteSets, Sequences

CONSTANT N                         \* number of queue entries (characteristics)
Entries == 0..(N - 1)
Kinds   == {"n", "i"}              \* notification / indication

Idle       == [s |-> "idle"]
Invoked(a) == [s |-> "inv", a |-> a]          \* producer: a = <<i, kind>>; consumer: a = <<>>
Done(r)    == [s |-> "done", r |-> r]

InitConf == [pend |-> {}, out |-> FALSE, P |-> Idle, C |-> Idle]
LinInit  == {InitConf}

Dequeuable(c) == {e \in c.pend : e[2] = "n" \/ ~c.out}

\* the set of configurations after the pending call of context p took effect
Effects(c, p) ==
    IF p = "P"
    THEN {[c EXCEPT !.pend = c.pend \cup {c.P.a}, !.P = Done("ok")]}
    ELSE IF Dequeuable(c) = {}
         THEN {[c EXCEPT !.C = Done(<<"e", 0>>)]}
         ELSE {[c EXCEPT !.pend = c.pend \ {e}, !.out = (c.out \/ e[2] = "i"), !.C = Done(<<e[2], e[1]>>)]
                 : e \in Dequeuable(c)}

RECURSIVE Closure(_)
Closure(S) ==
    LET step == UNION {Effects(x[1], x[2]) : x \in {y \in S \X {"P", "C"} : y[1][y[2]].s = "inv"}}
    IN  IF step \subseteq S THEN S ELSE Closure(S \cup step)

Invoke(S, p, a)  == Closure({[c EXCEPT ![p] = Invoked(a)] : c \in {x \in S : x[p].s = "idle"}})
Respond(S, p, r) == Closure({[c EXCEPT ![p] = Idle] : c \in {x \in S : x[p].s = "done" /\ x[p].r = r}})
\* a Handle Value Confirmation arrived (consumer context, between its calls)
Confirm(S)       == Closure({[c EXCEPT !.out = FALSE] : c \in S})

Consistent(S) == S # {}
=============================================================================
