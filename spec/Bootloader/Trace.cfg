CONSTANTS Regions <- TraceRegions  PageSize <- TracePageSize  AddrSize <- TraceAddrSize
SPECIFICATION TSpec
INVARIANTS OnlyWhiteListed ChangesInsideWhiteList
CHECK_DEADLOCK FALSE
