------------------------------ MODULE Bootloader ------------------------------
(* Property-level specification of the bootloader service (C39).                                *)
(*                                                                                              *)
(* The bootloader is observed at two interfaces:                                                *)
(*   client side   Cp(bytes, r, fx)     control point write of Len(bytes) bytes, ATT result r    *)
(*                 Data(bytes, r, fx)   data write                                               *)
(*                 ReadOut(fx)          a data indication / control point notification is built  *)
(*                 Progress(crc, cons)  the progress notification after a finished flash          *)
(*   handler side  fx = the calls the bootloader made into the user handler during that step,    *)
(*                 in order: records [k, a, n, d]                                                *)
(*                   k = "flash"   start_flash( a, d, n )          d = the n bytes to be flashed  *)
(*                       "readmem" read_mem( a, n )      "pubread" public_read_mem( a, n )       *)
(*                       "pubcrc"  public_checksum32( a, n )   "crcmem" checksum32( a, n )       *)
(*                       others ("crcbuf","crcaddr","run","reset","version","cpnotify",          *)
(*                       "dataind") touch no device memory                                       *)
(* The specification does not prescribe *which* calls are made (page buffering, read back, when   *)
(* a page is flashed are the implementation's business); it judges every call:                   *)
(*   OnlyWhiteListed      every memory range touched lies entirely inside one white-listed region *)
(*   FlashesWhatWasSent   a flashed range contains the client's bytes at the client's addresses  *)
(*                        (start address of the accepted Start Flash procedure + number of bytes  *)
(*                        accepted before) and the unchanged device content elsewhere; an         *)
(*                        accepted Flush leaves no received byte unflashed                        *)
(*   ChecksumChain        the progress notification of the k-th flash of a session carries        *)
(*                        consecutive number k-1 and checksum( start address ) extended by all    *)
(*                        bytes received up to the end of the flashed range                       *)
(* (ControlPointInBounds - a write of n bytes is parsed using only those n bytes - is decided by  *)
(* the harness: exact-size heap buffers under ASan; a crash is an event no action explains.)      *)
(* Results r are not prescribed (rejecting is always safe).  A data write that is rejected        *)
(* breaks the session: the client cannot know how much was taken, content is no longer judged     *)
(* until the next accepted Start Flash; the white list still is.                                  *)
EXTENDS Integers, Sequences, FiniteSets

CONSTANTS Regions,    \* set of <<first address, first address behind>> (memory_region< Start, End >)
          PageSize,   \* only used by the bounded model (the judge does not depend on it)
          AddrSize    \* sizeof( std::uint8_t* ) on the target

VARIABLES sess,     \* "none" | "ok" | "broken"
          a0,       \* start address of the session (accepted Start Flash)
          cur,      \* address of the next byte the client will send
          recv,     \* all bytes received in this session; recv[i] belongs to address a0 + i - 1
          done,     \* addresses of a0..cur-1 whose byte has been flashed
          mem,      \* device memory that differs from the initial pattern: function address -> byte
          blocks,   \* flashes started in this session whose progress has not been reported: Seq([crc, cons])
          nfl,      \* number of flashes started in this session
          touched   \* history: every address touched by a judged handler call

vars == <<sess, a0, cur, recv, done, mem, blocks, nfl, touched>>

--------------------------------------------------------------------------------
\* environment: the simulated device (harness/bootloader recording_handler)
Pattern(a)  == (a * 7 + 3) % 256
Mem(m, a)   == IF a \in DOMAIN m THEN m[a] ELSE Pattern(a)
CrcAddr(a)  == (a % 100000) * 31 + 7
\* checksum32( buffer, size, old ) == old + sum of the bytes

TouchesMemory(k) == k \in {"flash", "readmem", "pubread", "pubcrc", "crcmem"}

InWhiteList(a, n) == n = 0 \/ \E r \in Regions : r[1] <= a /\ a + n <= r[2]
WhiteListed == UNION {r[1]..(r[2] - 1) : r \in Regions}

\* little endian address in bytes[from .. from + AddrSize - 1]
RECURSIVE AddrAt(_, _, _)
AddrAt(bytes, from, k) == IF k = 0 THEN 0 ELSE bytes[from] + 256 * AddrAt(bytes, from + 1, k - 1)
Big(bytes, from) == \E i \in (from + 3)..(from + AddrSize - 1) : bytes[i] # 0     \* does not fit TLC's integers

RECURSIVE SumTo(_, _)
SumTo(s, k) == IF k <= 0 THEN 0 ELSE s[k] + SumTo(s, k - 1)

Min(x, y) == IF x < y THEN x ELSE y

--------------------------------------------------------------------------------
\* what a flash has to contain at address x: the client's byte if one is pending there, else the device content
ExpectedByte(m, dn, mode, base, next, bytes, x) ==
    IF mode = "ok" /\ x \in (base..(next - 1)) \ dn THEN bytes[x - base + 1] ELSE Mem(m, x)

\* Judging the handler calls of one step.  j = [ok, mem, done, blocks, nfl, touched] is threaded through
\* the calls; mode/base/next/bytes are the session the calls are judged in.
JudgeCall(j, f, mode, base, next, bytes) ==
    IF ~j.ok THEN j
    ELSE IF ~TouchesMemory(f.k) THEN j
    ELSE IF ~InWhiteList(f.a, f.n) THEN [j EXCEPT !.ok = FALSE]                       \* OnlyWhiteListed
    ELSE LET jt == [j EXCEPT !.touched = @ \cup (f.a..(f.a + f.n - 1))] IN
    IF f.k # "flash" THEN jt
    ELSE LET range   == f.a..(f.a + f.n - 1)
             want(x) == ExpectedByte(j.mem, j.done, mode, base, next, bytes, x)
             content == /\ Len(f.d) = f.n
                        /\ \A x \in range : f.d[x - f.a + 1] = want(x)
             newmem  == [x \in DOMAIN j.mem \cup range |-> IF x \in range THEN f.d[x - f.a + 1] ELSE j.mem[x]]
         IN IF mode = "broken"
            THEN [jt EXCEPT !.mem = IF Len(f.d) = f.n THEN newmem ELSE @]
            ELSE IF ~content THEN [jt EXCEPT !.ok = FALSE]                            \* FlashesWhatWasSent
            ELSE [jt EXCEPT !.mem    = newmem,
                            !.done   = @ \cup (range \cap (base..(next - 1))),
                            !.blocks = IF mode = "ok"
                                       THEN Append(@, [crc  |-> CrcAddr(base) + SumTo(bytes, Min(f.a + f.n, next) - base),
                                                       cons |-> j.nfl % 65536])
                                       ELSE @,
                            !.nfl    = IF mode = "ok" THEN @ + 1 ELSE @]

RECURSIVE JudgeFrom(_, _, _, _, _, _, _)
JudgeFrom(j, fx, i, mode, base, next, bytes) ==
    IF i > Len(fx) THEN j
    ELSE JudgeFrom(JudgeCall(j, fx[i], mode, base, next, bytes), fx, i + 1, mode, base, next, bytes)

Judge(fx, mode, base, next, bytes) ==
    JudgeFrom([ok |-> TRUE, mem |-> mem, done |-> done, blocks |-> blocks, nfl |-> nfl, touched |-> touched],
              fx, 1, mode, base, next, bytes)

Keep(j) == /\ mem' = j.mem /\ done' = j.done /\ blocks' = j.blocks /\ nfl' = j.nfl /\ touched' = j.touched

--------------------------------------------------------------------------------
Init == /\ sess = "none" /\ a0 = 0 /\ cur = 0 /\ recv = <<>> /\ done = {} /\ mem = <<>> /\ blocks = <<>> /\ nfl = 0
        /\ touched = {}

StartFlashOpcode == 3
FlushOpcode      == 5

\* control point write
Cp(bytes, r, fx) ==
    LET j == Judge(fx, sess, a0, cur, recv) IN
    /\ j.ok
    /\ IF Len(bytes) = 1 + AddrSize /\ bytes[1] = StartFlashOpcode /\ r = 0
       THEN \* accepted Start Flash: a new session at the given address (what was pending is abandoned)
            /\ ~Big(bytes, 2)
            /\ sess' = "ok" /\ a0' = AddrAt(bytes, 2, AddrSize) /\ cur' = AddrAt(bytes, 2, AddrSize)
            /\ recv' = <<>> /\ done' = {} /\ blocks' = <<>> /\ nfl' = 0
            /\ mem' = j.mem /\ touched' = j.touched
       ELSE /\ (Len(bytes) >= 1 /\ bytes[1] = FlushOpcode /\ r = 0 /\ sess = "ok")
                  => (a0..(cur - 1)) \subseteq j.done            \* accepted Flush: everything received is flashed
            /\ Keep(j)
            /\ UNCHANGED <<sess, a0, cur, recv>>

\* data write
Data(bytes, r, fx) ==
    IF sess = "ok"
    THEN LET all == recv \o bytes
             j   == Judge(fx, "ok", a0, cur + Len(bytes), all) IN
         /\ j.ok
         /\ Keep(j)
         /\ IF r = 0 THEN sess' = "ok" /\ recv' = all /\ cur' = cur + Len(bytes)
                     ELSE sess' = "broken" /\ UNCHANGED <<recv, cur>>
         /\ UNCHANGED a0
    ELSE LET j == Judge(fx, sess, a0, cur, recv) IN
         /\ j.ok
         /\ Keep(j)
         /\ UNCHANGED <<sess, a0, cur, recv>>

\* a notification / indication is built (bootloader_read_data, bootloader_read_control_point)
ReadOut(fx) ==
    LET j == Judge(fx, sess, a0, cur, recv) IN
    /\ j.ok
    /\ Keep(j)
    /\ UNCHANGED <<sess, a0, cur, recv>>

\* progress notification: announces the oldest unreported flash of the session
Progress(crc, cons) ==
    /\ IF blocks # <<>>
       THEN crc = Head(blocks).crc /\ cons = Head(blocks).cons /\ blocks' = Tail(blocks)    \* ChecksumChain
       ELSE UNCHANGED blocks                                    \* a flash of an abandoned / broken session
    /\ UNCHANGED <<sess, a0, cur, recv, done, mem, nfl, touched>>

--------------------------------------------------------------------------------
\* What the per-call judgement guarantees globally (checked by TLC on the bounded model, see MCBootloader):
OnlyWhiteListed == touched \subseteq WhiteListed
\* device memory only ever changes inside the white list ...
ChangesInsideWhiteList == DOMAIN mem \subseteq WhiteListed
=============================================================================
