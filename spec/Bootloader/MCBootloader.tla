---------------------------- MODULE MCBootloader ----------------------------
(* Bounded model for TLC: the environment (client, flash hardware) together with *any* bootloader   *)
(* whose handler calls pass the judgement of Bootloader.tla.  A step offers the judge every         *)
(* sequence of up to two handler calls over every address range of the small address space (flash   *)
(* with the expected content - any other content is rejected by definition -, read back, checksum);  *)
(* the calls that are not accepted disable the step.  TLC then checks that the per-call judgement    *)
(* implies the global statement of C39:                                                             *)
(*   OnlyWhiteListed / ChangesInsideWhiteList   nothing outside the white list is ever touched      *)
(*   DeviceHoldsClientData    every device byte is the initial content or a byte the client sent    *)
(*                            for exactly that address                                              *)
(*   FlashedIsCurrent         what the judge counts as flashed is what the device holds             *)
(*   AnnouncedChain           every pending progress announcement is checksum(start) + the bytes    *)
(*                            received up to the end of its flashed range, numbered consecutively   *)
(* and that the judge is satisfiable in every state (a flush can always be served): NoDeadlock.      *)
EXTENDS Bootloader, TLC

CONSTANTS RegionCodes,   \* region <<start, end>> as start * 1000 + end (config files cannot hold tuples)
          MaxAddr, Bytes, MaxRecv, MaxFlashes, MaxSessions

MCRegions == {<<c \div 1000, c % 1000>> : c \in RegionCodes}

VARIABLES written,    \* history: <<address, byte>> the client ever sent in a judged session (a rejected write may have been taken partly)
          sessions    \* number of accepted Start Flash procedures
mvars == <<vars, written, sessions>>

Addr == 0..MaxAddr

\* candidate handler calls: any range of 1..PageSize bytes anywhere
ReadCalls  == {[k |-> "readmem", a |-> a, n |-> n, d |-> <<>>] : a \in Addr, n \in {1, PageSize}}
FlashCall(j, a, n, mode, base, next, bytes) ==
    [k |-> "flash", a |-> a, n |-> n, d |-> [i \in 1..n |-> ExpectedByte(j.mem, j.done, mode, base, next, bytes, a + i - 1)]]
J0 == [ok |-> TRUE, mem |-> mem, done |-> done, blocks |-> blocks, nfl |-> nfl, touched |-> touched]

\* all call sequences offered for a step judged in (mode, base, next, bytes)
Offers(mode, base, next, bytes) ==
    LET one == {<<FlashCall(J0, a, n, mode, base, next, bytes)>> : a \in Addr, n \in 1..PageSize}
        two == {<<f[1], FlashCall(JudgeCall(J0, f[1], mode, base, next, bytes), a, PageSize, mode, base, next, bytes)>> :
                    f \in {g \in one : g[1].n = PageSize}, a \in Addr}
    IN {<<>>} \cup {<<r>> : r \in ReadCalls} \cup one \cup two

MInit == Init /\ written = {} /\ sessions = 0

StartFlash(a, r) ==
    /\ sessions < MaxSessions
    /\ \E fx \in Offers(sess, a0, cur, recv) : Cp(<<StartFlashOpcode, a>>, r, fx)
    /\ sessions' = sessions + 1          \* rejected ones count too (bound)
    /\ nfl' <= MaxFlashes
    /\ UNCHANGED written

Flush(r) ==
    /\ \E fx \in Offers(sess, a0, cur, recv) : Cp(<<FlushOpcode>>, r, fx)
    /\ nfl' <= MaxFlashes
    /\ UNCHANGED <<written, sessions>>

Write(bytes, r) ==
    /\ Len(recv) + Len(bytes) <= MaxRecv
    /\ \E fx \in Offers(sess, a0, cur + (IF sess = "ok" THEN Len(bytes) ELSE 0), IF sess = "ok" THEN recv \o bytes ELSE recv) :
           Data(bytes, r, fx)
    /\ nfl' <= MaxFlashes
    /\ written' = IF sess = "ok" THEN written \cup {<<cur + i - 1, bytes[i]>> : i \in 1..Len(bytes)} ELSE written
    /\ UNCHANGED sessions

Report ==
    /\ blocks # <<>>
    /\ Progress(Head(blocks).crc, Head(blocks).cons)
    /\ UNCHANGED <<written, sessions>>

MNext == \/ \E a \in Addr, r \in {0, 1} : StartFlash(a, r)
         \/ \E r \in {0, 1} : Flush(r)
         \/ \E n \in 1..(PageSize + 1), r \in {0, 1} : \E bytes \in [1..n -> Bytes] : Write(bytes, r)
         \/ Report

MSpec == MInit /\ [][MNext]_mvars

DeviceHoldsClientData == \A x \in DOMAIN mem : mem[x] = Pattern(x) \/ <<x, mem[x]>> \in written
FlashedIsCurrent      == sess = "ok" => \A x \in done : Mem(mem, x) = recv[x - a0 + 1]
AnnouncedChain        == sess = "ok" => \A i \in 1..Len(blocks) :
                             /\ blocks[i].cons = nfl - Len(blocks) + i - 1
                             /\ \E k \in 0..Len(recv) : blocks[i].crc = CrcAddr(a0) + SumTo(recv, k)
\* an accepted flush is always possible: the judge never paints the implementation into a corner
FlushAlwaysPossible   == sess = "ok" /\ nfl < MaxFlashes => ENABLED Flush(0)
TypeOK == /\ sess \in {"none", "ok", "broken"} /\ a0 \in Addr /\ cur \in Nat /\ done \subseteq Addr
          /\ touched \subseteq Addr /\ DOMAIN mem \subseteq Addr
=============================================================================
