--------------------------- MODULE BootloaderTrace ---------------------------
(* Trace validation for C39: every recorded call of the real bootloader controller, together   *)
(* with the handler calls it made, must be a step of Bootloader.  Events (one JSON object per   *)
(* line, written by harness/bootloader):                                                        *)
(*   {"e":"Reset","page":P,"regions":[[start,end],..],"asize":8}     (configuration of the run) *)
(*   {"e":"cp","len":n,"bytes":[..],"r":code,"notify":b,"fx":[..]}                             *)
(*   {"e":"data","len":n,"bytes":[..],"r":code,"fx":[..]}                                       *)
(*   {"e":"rdata","skipped":b,"size":n,"out":[..],"fx":[..]}   {"e":"rcp","skipped":b,"out":[..],"fx":[..]} *)
(*   {"e":"progress","skipped":b,"crc":c,"cons":k,"fx":[]}                                      *)
(*   {"e":"Crash",..}   sanitizer report / signal inside the step: never a step of the spec     *)
(*   fx: [{"k":kind,"a":address,"n":size,"d":[bytes]},..]  the handler calls of the step          *)
(* Regions, PageSize and AddrSize are taken from the first event of the file.                   *)
EXTENDS Bootloader, Json, IOUtils, TLC

Tr == ndJsonDeserialize(IOEnv.TRACE)

TraceRegions  == {<<Tr[1].regions[i][1], Tr[1].regions[i][2]>> : i \in 1..Len(Tr[1].regions)}
TracePageSize == Tr[1].page
TraceAddrSize == Tr[1].asize

VARIABLE l
tvars == <<vars, l>>

Ev == Tr[l]

Explain(ev) ==
    \/ /\ ev.e = "Reset"
       /\ sess' = "none" /\ a0' = 0 /\ cur' = 0 /\ recv' = <<>> /\ done' = {} /\ mem' = <<>> /\ blocks' = <<>>
       /\ nfl' = 0 /\ touched' = {}
    \/ ev.e = "cp"       /\ Cp(ev.bytes, ev.r, ev.fx)
    \/ ev.e = "data"     /\ Data(ev.bytes, ev.r, ev.fx)
    \/ ev.e \in {"rdata", "rcp"} /\ (IF ev.skipped THEN UNCHANGED vars ELSE ReadOut(ev.fx))
    \/ ev.e = "progress" /\ (IF ev.skipped THEN UNCHANGED vars ELSE Progress(ev.crc, ev.cons))

\* Diagnosis of a rejected event (only names the violated rule for the signature; the verdict is ENABLED Explain)
\* "straddles": the pages the range lies in reach into a white-listed region (page granularity), else "disjoint"
PageStart(x) == x - (x % PageSize)
Straddles(a, n) == \E r \in Regions : (PageStart(a)..(PageStart(a + n - 1) + PageSize - 1)) \cap (r[1]..(r[2] - 1)) # {}
RECURSIVE FirstBad(_, _, _, _, _, _, _)
FirstBad(j, fx, i, mode, base, next, bytes) ==
    IF i > Len(fx) THEN <<>>
    ELSE LET f  == fx[i]
             j2 == JudgeCall(j, f, mode, base, next, bytes)
         IN IF j2.ok THEN FirstBad(j2, fx, i + 1, mode, base, next, bytes)
            ELSE IF ~InWhiteList(f.a, f.n)
                 THEN <<"outside_white_list", f.k, IF Straddles(f.a, f.n) THEN "straddles" ELSE "disjoint">>
                 ELSE <<"flash_content">>
J0 == [ok |-> TRUE, mem |-> mem, done |-> done, blocks |-> blocks, nfl |-> nfl, touched |-> touched]
Why(ev) ==
    IF ev.e = "Crash" THEN <<"crash", ev.what>>
    ELSE IF ev.e = "progress" THEN <<"checksum_chain">>
    ELSE IF ev.e = "data" /\ sess = "ok"
         THEN FirstBad(J0, ev.fx, 1, "ok", a0, cur + Len(ev.bytes), recv \o ev.bytes)
    ELSE LET d == FirstBad(J0, ev.fx, 1, sess, a0, cur, recv) IN
         IF d # <<>> THEN d
         ELSE IF ev.e = "cp" /\ Len(ev.bytes) >= 1 /\ ev.bytes[1] = FlushOpcode THEN <<"flush_incomplete">>
         ELSE <<"unexplained">>

\* the next Reset event after position i (linear in the length of the skipped execution)
NextReset(i) == CHOOSE j \in (i + 1)..(Len(Tr) + 1) :
                    /\ (j = Len(Tr) + 1 \/ Tr[j].e = "Reset")
                    /\ \A k \in (i + 1)..(j - 1) : Tr[k].e # "Reset"

TInit == Init /\ l = 1

TNext ==
    \/ /\ l <= Len(Tr)
       /\ IF ENABLED Explain(Ev)
          THEN Explain(Ev) /\ l' = l + 1
          ELSE PrintT(<<"MISMATCH", l>>) /\ PrintT(<<"WHY", l, Why(Ev)>>) /\ l' = NextReset(l) /\ UNCHANGED vars
    \/ /\ l = Len(Tr) + 1
       /\ PrintT(<<"TRACE_DONE", Len(Tr)>>)
       /\ l' = l + 1 /\ UNCHANGED vars

TSpec == TInit /\ [][TNext]_tvars
=============================================================================
