---------------------------- MODULE BootloaderGen ----------------------------
(* Behaviour generator for C39: the environment of the bootloader (the client writing to the    *)
(* control point and data characteristics, the link layer building notifications, the flash      *)
(* hardware finishing).  The bootloader's answers are not modelled here (Bootloader.tla judges   *)
(* them); a history is a list of abstract ops                                                    *)
(*   <<"cp", opcode, len, a1, a2>>   control point write of len bytes: opcode, then the addresses *)
(*                                   a1, a2 little endian, truncated / zero padded to len          *)
(*   <<"data", n>>                   data write of n bytes (the check numbers the bytes)           *)
(*   <<"rdata", size>>  <<"rcp">>  <<"progress">>                                                 *)
(* Mode "bfs":   every sequence of length <= D over the alphabet Small                            *)
(* Mode "flash": Start Flash at every boundary class followed by every sequence of length D - 1   *)
(*               over data writes / flush / progress / interfering procedures                     *)
(* Mode "race":  a second Start Flash while flashes of the first session may still be running,    *)
(*               then every sequence of data writes / progress notifications / flush              *)
(* Mode "read":  a Read procedure that needs several data indications; the application serves    *)
(*               the indications / the final notification (rdata, rcp) and at every point between  *)
(*               two chunks up to K further control point writes arrive - every opcode, accepted   *)
(*               and refused variants (wrong length, start > end, outside the white list)          *)
(* Mode "busy":  the same interference (incl. Get CRC) and progress reports while a flash is        *)
(*               running and a page is partly filled                                               *)
(* Mode "wide":  for -simulate: any op of the wide alphabet (all opcodes 0..10, 255, all lengths   *)
(*               0..20, all boundary addresses, data 0..2*PageSize+1)                              *)
EXTENDS Integers, Sequences, FiniteSets, TLC, Json

CONSTANTS RegionCodes,   \* a TLC config file cannot hold tuples: region <<start, end>> is written start * 1000 + end
          PageSize, AddrSize, D, Mode,
          K              \* modes "read"/"busy": number of interfering control point writes per behaviour
Regions == {<<c \div 1000, c % 1000>> : c \in RegionCodes}

VARIABLE hist
Lo  == CHOOSE x \in {r[1] : r \in Regions} : \A y \in {r[1] : r \in Regions} : x <= y     \* first region
Hi  == CHOOSE x \in {r[2] : r \in Regions} : \E r \in Regions : r = <<Lo, x>>
Top == CHOOSE x \in {r[2] : r \in Regions} : \A y \in {r[2] : r \in Regions} : x >= y
Far == Top + 2 * PageSize + 1
P   == PageSize
L1  == 1 + AddrSize
L2  == 1 + 2 * AddrSize

Boundary == UNION {{r[1] - 1, r[1], r[1] + 1, r[2] - 1, r[2], r[2] + 1} : r \in Regions}

Cp(o, len, x, y) == <<"cp", o, len, x, y>>

StartFlashes == {Cp(3, L1, a, 0) : a \in {Lo - 1, Lo, Lo + 1, Hi - 2, Hi, Hi + 1}}
Small ==
    StartFlashes
    \cup {Cp(0, 1, 0, 0), Cp(4, 1, 0, 0), Cp(5, 1, 0, 0), Cp(7, 1, 0, 0), Cp(5, 2, 0, 0)}
    \cup {Cp(1, L2, Lo, Hi), Cp(1, L2, Lo + 1, Lo), Cp(1, L2, Hi - 1, Hi + 1), Cp(1, L1, Lo, 0)}
    \cup {Cp(8, L2, Lo, Lo + 3), Cp(8, L2, Hi - 1, Hi + 2), Cp(8, 1, 0, 0), Cp(8, L2 - 1, Lo, Lo + 3)}
    \cup {Cp(6, L1, Lo, 0), Cp(6, 5, Lo, 0), Cp(9, 1, 0, 0), Cp(255, L2, Lo, Hi), Cp(0, 0, 0, 0)}
    \cup {<<"data", n>> : n \in {0, 1, P - 1, P, P + 1, 2 * P, 2 * P + 1}}
    \cup {<<"rdata", 3>>, <<"rcp">>, <<"progress">>}

FlashOps ==
    {<<"data", n>> : n \in {1, P - 1, P, P + 1, 2 * P + 1}}
    \cup {Cp(5, 1, 0, 0), <<"progress">>, Cp(1, L2, Lo, Hi), Cp(8, L2, Lo, Lo + 3), Cp(4, 1, 0, 0), Cp(3, L1, Lo, 0),
          <<"rdata", 3>>}

Wide ==
    {Cp(o, len, x, y) : o \in (0..10) \cup {255}, len \in {1, L1, L2}, x \in Boundary \cup {Lo + P - 2, Far}, y \in Boundary \cup {Far}}
    \cup {Cp(o, len, Lo, Hi) : o \in (0..10) \cup {255}, len \in 0..20}
    \cup {<<"data", n>> : n \in 0..(2 * P + 1)}
    \cup {<<"rdata", s>> : s \in {1, 3, 20}} \cup {<<"rcp">>, <<"progress">>}

RaceOps ==
    IF Len(hist) = 0 THEN {Cp(3, L1, Lo, 0)}
    ELSE IF Len(hist) = 1 THEN {<<"data", 1>>, <<"data", P>>}
    ELSE IF Len(hist) = 2 THEN {Cp(5, 1, 0, 0), <<"data", P>>}
    ELSE IF Len(hist) = 3 THEN {Cp(3, L1, Lo, 0), Cp(3, L1, Lo + P, 0)}
    ELSE {<<"data", 1>>, <<"data", P>>, <<"progress">>, Cp(5, 1, 0, 0)}

\* every opcode, in a variant the bootloader should accept and in variants it has to refuse
Interfere ==
    {Cp(0, 1, 0, 0), Cp(0, 2, 0, 0), Cp(2, 1, 0, 0), Cp(2, 3, 0, 0), Cp(4, 1, 0, 0), Cp(4, 2, 0, 0), Cp(5, 1, 0, 0),
     Cp(7, 1, 0, 0), Cp(7, 2, 0, 0), Cp(9, 1, 0, 0), Cp(255, L2, Lo, Hi), Cp(0, 0, 0, 0)}
    \cup {Cp(1, L2, Lo, Hi), Cp(1, L2, Lo - 1, Hi), Cp(1, L2, Far, Far + P), Cp(1, L2, Lo + 2, Lo), Cp(1, L1, Lo, 0)}
    \cup {Cp(3, L1, Lo, 0), Cp(3, L1, Far, 0), Cp(3, 2, Lo, 0), Cp(6, L1, Lo, 0), Cp(6, 5, Lo, 0)}
    \cup {Cp(8, L2, Lo + 1, Lo + P), Cp(8, L2, Far, Far + 2 * P), Cp(8, L2, Lo - 1, Lo + P), Cp(8, L2, Lo + 2, Lo),
          Cp(8, L2 - 1, Lo, Hi), Cp(8, L2 + 1, Lo, Hi)}
    \cup {<<"data", 1>>}
Served(x)  == x[1] \in {"rdata", "rcp", "progress"}
NInterfere == Cardinality({i \in 2..Len(hist) : hist[i] \in Interfere})
ReadOps ==
    IF Len(hist) = 0 THEN {Cp(8, L2, Lo, Hi)}
    ELSE {<<"rdata", 3>>, <<"rcp">>} \cup (IF NInterfere < K THEN Interfere ELSE {})
BusyOps ==
    IF Len(hist) = 0 THEN {Cp(3, L1, Lo, 0)}
    ELSE IF Len(hist) = 1 THEN {<<"data", P + 1>>}
    ELSE {<<"progress">>, <<"data", 1>>, <<"data", P>>, Cp(5, 1, 0, 0), <<"rcp">>, <<"rdata", 3>>}
         \cup (IF NInterfere < K THEN Interfere ELSE {})

Alphabet == IF Mode = "bfs" THEN Small
            ELSE IF Mode = "read" THEN ReadOps
            ELSE IF Mode = "busy" THEN BusyOps
            ELSE IF Mode = "race" THEN RaceOps
            ELSE IF Mode = "flash" THEN (IF hist = <<>> THEN StartFlashes ELSE FlashOps)
            ELSE Wide

GInit == hist = <<>>
GNext == Len(hist) < D /\ \E x \in Alphabet : hist' = Append(hist, x)
GSpec == GInit /\ [][GNext]_hist

Emit     == Len(hist) >= 1 => PrintT(<<"BEHAVIOUR", ToJson(hist)>>)
EmitLeaf == Len(hist) = D => PrintT(<<"BEHAVIOUR", ToJson(hist)>>)
=============================================================================
