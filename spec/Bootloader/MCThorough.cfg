CONSTANTS Regions <- MCRegions  RegionCodes = {1003}  PageSize = 2  AddrSize = 1
          MaxAddr = 3  Bytes = {1, 2}  MaxRecv = 2  MaxFlashes = 2  MaxSessions = 1
SPECIFICATION MSpec
INVARIANTS TypeOK OnlyWhiteListed ChangesInsideWhiteList DeviceHoldsClientData FlashedIsCurrent AnnouncedChain
CHECK_DEADLOCK FALSE
