CONSTANTS Opcodes = {0,1,2,3,4,5,255}  MaxLen = 6  PAIP = {128,254}  Errors = {1,4,128,253,254}  MaxAcc = 3
SPECIFICATION BSpec
INVARIANTS TypeOK PaipOnlyWhileAwaiting AcceptedWhenIdle RejectedWhileAwaiting RejectedChangesNothing OneResponseEach
CHECK_DEADLOCK FALSE
