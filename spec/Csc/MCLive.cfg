CONSTANTS Opcodes = {0,1,3,4}  MaxLen = 5  PAIP = {254}  Errors = {4,254}  MaxAcc = 3
SPECIFICATION BSpec
PROPERTIES NoDeadlock EveryProcedureAnswered
CHECK_DEADLOCK FALSE
