------------------------------- MODULE CscGen -------------------------------
(* Behaviour generator for C40: all sequences of client / application / link layer steps up to *)
(* depth D (BFS) or random deep ones (-simulate).  The environment chooses the step; where the *)
(* property level model leaves the result open the generator follows the canonical choice      *)
(* (accept when allowed, send the indication as soon as possible) - only to decide which       *)
(* environment steps (AppConfirm, Confirm, switching the CCCD off) are meaningful next.         *)
(* A history is a list of ops: <<"cccd",v>> <<"write",len,opcode>> <<"appconfirm">>            *)
(* <<"output">> <<"confirm">>; the check adds "reset" in front and "drain" at the end.         *)
EXTENDS Csc, TLC, Json

CONSTANTS D,        \* number of steps
          Alphabet  \* "full": every length 0..MaxLen x every opcode;  "reduced": one representative per class
\* <<len, opcode>> the client may write
Writes == IF Alphabet = "full"
          THEN {<<0, 0>>} \cup {<<len, o>> : len \in 1..MaxLen, o \in Opcodes}
          ELSE { <<0,0>>, <<1,0>>, <<2,0>>, <<1,1>>, <<4,1>>, <<5,1>>, <<6,1>>, <<1,3>>, <<2,3>>, <<3,3>>,
                 <<1,4>>, <<2,4>>, <<1,255>> }
VARIABLES hist, n
gvars == <<vars, hist, n>>

\* every history is generated twice: from the unconfigured server and with the CCCD configured first
GInit == /\ cccd \in BOOLEAN /\ phase = "idle" /\ op = 0 /\ unconf = FALSE /\ acc = 0 /\ rsp = 0
         /\ last = [e |-> "init", pre |-> "idle", r |-> 0, ok |-> TRUE]
         /\ hist = (IF cccd THEN << <<"cccd", 2>> >> ELSE <<>>) /\ n = 0

Do(x) == hist' = Append(hist, x) /\ n' = n + 1

CanonR(len, o) == IF Awaiting THEN CHOOSE e \in PAIP : e \in Errors
                  ELSE IF cccd /\ ~Malformed(len, o) THEN 0
                  ELSE CHOOSE e \in Errors : e \notin PAIP

GNext ==
    /\ n < D
    /\ \/ \E v \in {0, 2} : WriteCccd(v, 0) /\ Do(<<"cccd", v>>)
       \/ \E w \in Writes :
            LET r == CanonR(w[1], w[2]) IN
            /\ Write(w[1], w[2], r, IF r = 0 /\ w[2] = SetCumulative THEN 1 ELSE 0)
            /\ Do(<<"write", w[1], w[2]>>)
       \/ AppConfirm /\ Do(<<"appconfirm">>)
       \/ (IF ENABLED OutputInd THEN OutputInd ELSE Output("none", 0)) /\ Do(<<"output">>)
       \/ Confirm /\ Do(<<"confirm">>)

GSpec == GInit /\ [][GNext]_gvars

\* printed for every non-empty history; always TRUE
Emit == n >= 1 => PrintT(<<"BEHAVIOUR", ToJson(hist)>>)
\* simulation: only the leaves
EmitLeaf == n = D => PrintT(<<"BEHAVIOUR", ToJson(hist)>>)
\* the history variables of Csc do not distinguish behaviours
GView == <<hist>>
=============================================================================
