--------------------------------- MODULE Csc ---------------------------------
(* Property-level specification of the SC Control Point of the Cycling Speed and Cadence      *)
(* service (C40).  One action per step a client / the application / the link layer can        *)
(* observe:                                                                                   *)
(*   WriteCccd   client writes the control point's client characteristic configuration        *)
(*   Write       client writes len bytes (first byte = opcode o) to the control point; r is    *)
(*               the ATT result (0 = Write Response, otherwise the error code), set the       *)
(*               number of set_cumulative_wheel_revolutions() callbacks made by the write     *)
(*   AppConfirm  the application calls confirm_cumulative_wheel_revolutions()                 *)
(*   Output      the link layer polls l2cap_output: nothing, or the response indication       *)
(*   Confirm     the client confirms the indication                                           *)
(* The property (C40):  a write is rejected with "Procedure Already In Progress" only while   *)
(* an accepted procedure still awaits its response indication (and a well-formed write is     *)
(* then always rejected that way); a rejected or malformed write leaves the control point     *)
(* state untouched; every accepted procedure gets exactly one response indication carrying    *)
(* the request opcode.  Where CSCS / the property leave freedom the result is                 *)
(* nondeterministic (error code of a malformed write, unknown opcode with parameters,         *)
(* delaying an indication).                                                                   *)
EXTENDS Integers, Sequences, FiniteSets

CONSTANTS Opcodes,     \* opcodes the environment uses
          MaxLen,      \* lengths 0..MaxLen
          PAIP,        \* set of ATT error codes meaning "Procedure Already In Progress" (0x80 CSCS, 0xFE CSS)
          Errors,      \* ATT error codes (non zero) the model enumerates
          MaxAcc       \* TLC bound: at most MaxAcc accepted procedures

VARIABLES cccd,     \* control point configured for indications
          phase,    \* "idle" | "app" (accepted, waits for the application) | "queued" (response indication due)
          op,       \* opcode of the procedure in progress (meaningful iff phase # "idle")
          unconf,   \* an indication was sent and is not yet confirmed
          acc,      \* number of accepted procedures            (history, for the counting invariant)
          rsp,      \* number of response indications sent      (history)
          last      \* the last step: [e, pre (phase before), r, ok (well formed)]  (history)

vars == <<cccd, phase, op, unconf, acc, rsp, last>>

Awaiting == phase # "idle"

SetCumulative == 1
UpdateLocation == 3
RequestLocations == 4
Known(o) == o \in {SetCumulative, UpdateLocation, RequestLocations}

\* the length CSCS prescribes for the known opcodes
WellFormed(len, o) ==
    /\ len >= 1
    /\ o = SetCumulative    => len = 5
    /\ o = UpdateLocation   => len = 2
    /\ o = RequestLocations => len = 1
Malformed(len, o)  == len = 0 \/ (Known(o) /\ ~WellFormed(len, o))
\* must be accepted when idle and configured: known opcode with its length, unknown opcode alone
MustAccept(len, o) == WellFormed(len, o) /\ (Known(o) \/ len = 1)

Init == /\ cccd = FALSE /\ phase = "idle" /\ op = 0 /\ unconf = FALSE /\ acc = 0 /\ rsp = 0
        /\ last = [e |-> "init", pre |-> "idle", r |-> 0, ok |-> TRUE]

WriteCccd(v, r) ==
    /\ v \in {0, 2}
    /\ v = 0 => phase = "idle"           \* environment: indications are not switched off during a procedure
    /\ r = 0
    /\ cccd' = (v = 2)
    /\ last' = [e |-> "cccd", pre |-> phase, r |-> r, ok |-> TRUE]
    /\ UNCHANGED <<phase, op, unconf, acc, rsp>>

\* len = 0: there is no opcode, o is ignored
Write(len, o, r, set) ==
    /\ last' = [e |-> "write", pre |-> phase, r |-> r, ok |-> (cccd /\ MustAccept(len, o))]
    /\ IF Awaiting
       THEN /\ r # 0                                                  \* one procedure at a time
            /\ (cccd /\ len >= 1 /\ ~Malformed(len, o)) => r \in PAIP   \* the reason is "already in progress"
            /\ set = 0
            /\ UNCHANGED <<cccd, phase, op, unconf, acc, rsp>>
       ELSE /\ r \notin PAIP                                          \* nothing is in progress
            /\ ~cccd => r # 0                                         \* could never be answered
            /\ Malformed(len, o) => r # 0
            /\ (cccd /\ MustAccept(len, o)) => r = 0
            /\ IF r = 0
               THEN /\ phase' = IF o = SetCumulative THEN "app" ELSE "queued"
                    /\ op' = o
                    /\ set = (IF o = SetCumulative THEN 1 ELSE 0)
                    /\ acc' = acc + 1
                    /\ UNCHANGED <<cccd, unconf, rsp>>
               ELSE /\ set = 0                                        \* a rejected write is not executed ...
                    /\ UNCHANGED <<cccd, phase, op, unconf, acc, rsp>>   \* ... and blocks nothing

AppConfirm ==
    /\ phase = "app"
    /\ phase' = "queued"
    /\ last' = [e |-> "appconfirm", pre |-> phase, r |-> 0, ok |-> TRUE]
    /\ UNCHANGED <<cccd, op, unconf, acc, rsp>>

\* kind = "ind": the response indication with request opcode o;  kind = "none": nothing to send (or delayed)
Output(kind, o) ==
    /\ last' = [e |-> "output", pre |-> phase, r |-> 0, ok |-> TRUE]
    /\ \/ /\ kind = "ind"
          /\ phase = "queued" /\ ~unconf /\ cccd
          /\ o = op
          /\ phase' = "idle" /\ unconf' = TRUE /\ rsp' = rsp + 1
          /\ UNCHANGED <<cccd, op, acc>>
       \/ /\ kind = "none"
          /\ UNCHANGED <<cccd, phase, op, unconf, acc, rsp>>

OutputInd == Output("ind", op)

Confirm ==
    /\ unconf
    /\ unconf' = FALSE
    /\ last' = [e |-> "confirm", pre |-> phase, r |-> 0, ok |-> TRUE]
    /\ UNCHANGED <<cccd, phase, op, acc, rsp>>

\* Finite shadow of the liveness property on a recorded execution: the harness lets the application
\* confirm (apps times), confirms every indication and polls l2cap_output a few rounds; ops is the list
\* of request opcodes of the response indications seen.  Exactly the awaited response must appear.
Drain(ops, apps, others) ==
    /\ ops = IF Awaiting THEN <<op>> ELSE <<>>
    /\ apps = IF phase = "app" THEN 1 ELSE 0
    /\ others = 0
    /\ phase' = "idle" /\ unconf' = FALSE /\ rsp' = rsp + Len(ops)
    /\ last' = [e |-> "drain", pre |-> phase, r |-> 0, ok |-> TRUE]
    /\ UNCHANGED <<cccd, op, acc>>

Next == \/ \E v \in {0, 2} : WriteCccd(v, 0)
        \/ \E len \in 0..MaxLen, o \in Opcodes, r \in {0} \cup Errors, set \in {0, 1} : Write(len, o, r, set)
        \/ AppConfirm
        \/ \E o \in Opcodes : Output("ind", o)
        \/ Output("none", 0)
        \/ Confirm

\* the application answers the callback, the link layer polls, the client confirms
Fairness == WF_vars(AppConfirm) /\ WF_vars(OutputInd) /\ WF_vars(Confirm)

Spec == Init /\ [][Next]_vars /\ Fairness

--------------------------------------------------------------------------------
TypeOK == /\ cccd \in BOOLEAN /\ unconf \in BOOLEAN
          /\ phase \in {"idle", "app", "queued"}
          /\ op \in Opcodes \cup {0}
          /\ acc \in Nat /\ rsp \in Nat

\* C40, stated over the last step
\* "rejects a new procedure [as already in progress] only while a previously accepted procedure awaits its response"
PaipOnlyWhileAwaiting == (last.e = "write" /\ last.r \in PAIP) => last.pre # "idle"
\* "... and a proper procedure is accepted whenever none is awaiting"
AcceptedWhenIdle      == (last.e = "write" /\ last.ok /\ last.pre = "idle") => last.r = 0
RejectedWhileAwaiting == (last.e = "write" /\ last.ok /\ last.pre # "idle") => last.r \in PAIP
\* "a rejected or malformed write never blocks later procedures"
RejectedChangesNothing == (last.e = "write" /\ last.r # 0) => phase = last.pre
\* "every accepted procedure produces exactly one response"
OneResponseEach == acc = rsp + (IF Awaiting THEN 1 ELSE 0)
\* liveness on the model: the control point always becomes free again
NoDeadlock == []<>(phase = "idle")
EveryProcedureAnswered == \A n \in 1..MaxAcc : (acc = n) ~> (rsp >= n)

\* bounded instance for TLC: at most MaxAcc accepted procedures (the counters are history variables)
BNext == Next /\ acc' <= MaxAcc
BSpec == Init /\ [][BNext]_vars /\ Fairness
=============================================================================
