------------------------------ MODULE CscTrace ------------------------------
(* Trace validation for C40: every recorded step of the real CSC server (harness/csc) must be  *)
(* a step of Csc.  Events (one JSON object per line):                                          *)
(*   {"e":"Reset","variant":k,"cp":h,"cccd":h}                                                 *)
(*   {"e":"cccd","v":v,"r":r}                  r: 0 = Write Response, else ATT error code      *)
(*   {"e":"write","len":n,"op":o,"bytes":[..],"r":r,"set":k}   op = -1 when len = 0            *)
(*   {"e":"appconfirm"}  {"e":"confirm","size":n}                                              *)
(*   {"e":"output","kind":"none"|"ind"|"other","op":o,"rc":c,"size":n}                         *)
(*   {"e":"drain","ops":[..],"others":k,"apps":k}                                              *)
(* The state after a step is a function of the state before and the event (linear validation). *)
EXTENDS Csc, Json, IOUtils, TLC

Tr == ndJsonDeserialize(IOEnv.TRACE)

VARIABLE l
tvars == <<vars, l>>

Ev == Tr[l]

Explain(ev) ==
    \/ /\ ev.e = "Reset"
       /\ cccd' = FALSE /\ phase' = "idle" /\ op' = 0 /\ unconf' = FALSE /\ acc' = 0 /\ rsp' = 0
       /\ last' = [e |-> "init", pre |-> "idle", r |-> 0, ok |-> TRUE]
    \/ ev.e = "cccd"       /\ WriteCccd(ev.v, ev.r)
    \/ ev.e = "write"      /\ Write(ev.len, IF ev.len = 0 THEN 0 ELSE ev.op, ev.r, ev.set)
    \/ ev.e = "appconfirm" /\ AppConfirm
    \/ ev.e = "output"     /\ Output(ev.kind, IF ev.kind = "ind" THEN ev.op ELSE 0)
    \/ ev.e = "confirm"    /\ Confirm /\ ev.size = 0
    \/ ev.e = "drain"      /\ Drain(ev.ops, ev.apps, ev.others)

\* the next Reset event after position i (linear in the length of the skipped execution)
NextReset(i) == CHOOSE j \in (i + 1)..(Len(Tr) + 1) :
                    /\ (j = Len(Tr) + 1 \/ Tr[j].e = "Reset")
                    /\ \A k \in (i + 1)..(j - 1) : Tr[k].e # "Reset"

TInit == Init /\ l = 1

TNext ==
    \/ /\ l <= Len(Tr)
       /\ IF ENABLED Explain(Ev)
          THEN Explain(Ev) /\ l' = l + 1
          ELSE PrintT(<<"MISMATCH", l>>) /\ l' = NextReset(l) /\ UNCHANGED vars
    \/ /\ l = Len(Tr) + 1
       /\ PrintT(<<"TRACE_DONE", Len(Tr)>>)
       /\ l' = l + 1 /\ UNCHANGED vars

TSpec == TInit /\ [][TNext]_tvars
=============================================================================
