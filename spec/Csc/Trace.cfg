CONSTANTS Opcodes = {0,1,2,3,4,5,255}  MaxLen = 6  PAIP = {128,254}  Errors = {}  MaxAcc = 0
SPECIFICATION TSpec
INVARIANTS PaipOnlyWhileAwaiting AcceptedWhenIdle RejectedWhileAwaiting RejectedChangesNothing OneResponseEach
CHECK_DEADLOCK FALSE
