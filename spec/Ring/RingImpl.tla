------------------------------ MODULE RingImpl ------------------------------
(* Implementation-shaped model of bluetoe::details::ring<S,T>: one step per    *)
(* shared access (atomic load / store of read_ptr_, write_ptr_, access to      *)
(* data_[]), exactly in the order of try_push / try_pop. The two contexts are  *)
(* interleaved arbitrarily. The ghost `lin` (module Ring) tracks the abstract  *)
(* configurations consistent with the observed calls; the design-level claim   *)
(* is the invariant Linearizable.                                              *)
EXTENDS Ring, TLC

CONSTANTS NPush, NPop          \* number of try_push / try_pop calls

L == Cap + 1                   \* length of data_[]

VARIABLES rp, wp, data,        \* read_ptr_, write_ptr_, data_[0..Cap]
          pc,                  \* pc["P"] \in {p1..p4}, pc["C"] \in {c1..c4}
          loc,                 \* locals: loc[p] = [r, w, v]
          pushes, pops,        \* completed calls
          pushedOK, popped,    \* ghost: values successfully pushed / popped (in order)
          lin,                 \* ghost: Ring!configurations
          last                 \* ghost: <<context, kind of shared access>> of the last step

vars == <<rp, wp, data, pc, loc, pushes, pops, pushedOK, popped, lin, last>>

Init ==
    /\ rp = 0 /\ wp = 0
    /\ data = [i \in 0..Cap |-> 0]
    /\ pc = [P |-> "p1", C |-> "c1"]
    /\ loc = [P |-> [r |-> 0, w |-> 0, v |-> 0], C |-> [r |-> 0, w |-> 0, v |-> 0]]
    /\ pushes = 0 /\ pops = 0
    /\ pushedOK = <<>> /\ popped = <<>>
    /\ lin = LinInit
    /\ last = <<"-", "-">>

\* ---- try_push( in ) -------------------------------------------------------------------
P1 == /\ pc.P = "p1" /\ pushes < NPush                         \* const int read = read_ptr_.load();
      /\ loc' = [loc EXCEPT !.P.r = rp, !.P.v = pushes + 1]
      /\ lin' = Invoke(lin, "P", pushes + 1)
      /\ pc' = [pc EXCEPT !.P = "p2"]
      /\ last' = <<"P", "ld_r">>
      /\ UNCHANGED <<rp, wp, data, pushes, pops, pushedOK, popped>>

P2 == /\ pc.P = "p2"                                           \* const int write = write_ptr_.load();
      /\ loc' = [loc EXCEPT !.P.w = wp]
      /\ last' = <<"P", "ld_w">>
      /\ IF (wp + 1) % L = loc.P.r                             \* if ( next == read ) return false;
         THEN /\ lin' = Respond(lin, "P", FALSE, 0)
              /\ pushes' = pushes + 1
              /\ pc' = [pc EXCEPT !.P = "p1"]
         ELSE /\ pc' = [pc EXCEPT !.P = "p3"]
              /\ UNCHANGED <<lin, pushes>>
      /\ UNCHANGED <<rp, wp, data, pops, pushedOK, popped>>

P3 == /\ pc.P = "p3"                                           \* data_[ write ] = in;
      /\ data' = [data EXCEPT ![loc.P.w] = loc.P.v]
      /\ pc' = [pc EXCEPT !.P = "p4"]
      /\ last' = <<"P", "st_d">>
      /\ UNCHANGED <<rp, wp, loc, pushes, pops, pushedOK, popped, lin>>

P4 == /\ pc.P = "p4"                                           \* write_ptr_.store( next ); return true;
      /\ wp' = (loc.P.w + 1) % L
      /\ lin' = Respond(lin, "P", TRUE, 0)
      /\ pushes' = pushes + 1
      /\ pushedOK' = Append(pushedOK, loc.P.v)
      /\ pc' = [pc EXCEPT !.P = "p1"]
      /\ last' = <<"P", "st_w">>
      /\ UNCHANGED <<rp, data, loc, pops, popped>>

\* ---- try_pop( out ) -------------------------------------------------------------------
C1 == /\ pc.C = "c1" /\ pops < NPop                            \* const int read = read_ptr_.load();
      /\ loc' = [loc EXCEPT !.C.r = rp]
      /\ lin' = Invoke(lin, "C", 0)
      /\ pc' = [pc EXCEPT !.C = "c2"]
      /\ last' = <<"C", "ld_r">>
      /\ UNCHANGED <<rp, wp, data, pushes, pops, pushedOK, popped>>

C2 == /\ pc.C = "c2"                                           \* const int write = write_ptr_.load();
      /\ loc' = [loc EXCEPT !.C.w = wp]
      /\ last' = <<"C", "ld_w">>
      /\ IF loc.C.r = wp                                       \* if ( read == write ) return false;
         THEN /\ lin' = Respond(lin, "C", FALSE, 0)
              /\ pops' = pops + 1
              /\ pc' = [pc EXCEPT !.C = "c1"]
         ELSE /\ pc' = [pc EXCEPT !.C = "c3"]
              /\ UNCHANGED <<lin, pops>>
      /\ UNCHANGED <<rp, wp, data, pushes, pushedOK, popped>>

C3 == /\ pc.C = "c3"                                           \* out = data_[ read ];
      /\ loc' = [loc EXCEPT !.C.v = data[loc.C.r]]
      /\ pc' = [pc EXCEPT !.C = "c4"]
      /\ last' = <<"C", "ld_d">>
      /\ UNCHANGED <<rp, wp, data, pushes, pops, pushedOK, popped, lin>>

C4 == /\ pc.C = "c4"                                           \* read_ptr_.store( next ); return true;
      /\ rp' = (loc.C.r + 1) % L
      /\ lin' = Respond(lin, "C", TRUE, loc.C.v)
      /\ pops' = pops + 1
      /\ popped' = Append(popped, loc.C.v)
      /\ pc' = [pc EXCEPT !.C = "c1"]
      /\ last' = <<"C", "st_r">>
      /\ UNCHANGED <<wp, data, loc, pushes, pushedOK>>

Producer == P1 \/ P2 \/ P3 \/ P4
Consumer == C1 \/ C2 \/ C3 \/ C4
Next == Producer \/ Consumer
Spec == Init /\ [][Next]_vars

\* ---- properties -----------------------------------------------------------------------
Linearizable == Consistent(lin)                       \* C30 as a whole
Fifo         == /\ Len(popped) <= Len(pushedOK)       \* popped is a prefix of what was pushed:
                /\ popped = SubSeq(pushedOK, 1, Len(popped))   \* no loss, no duplicate, order
Bounded      == (wp - rp + L) % L <= Cap
\* the view hides the ghosts that do not influence behaviour
View == <<rp, wp, data, pc, loc, pushes, pops, pushedOK, popped, lin>>
=============================================================================
