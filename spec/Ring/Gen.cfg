CONSTANTS Cap = 1  NPush = 2  NPop = 2
SPECIFICATION GSpec
INVARIANTS Emit
CHECK_DEADLOCK FALSE
