------------------------------ MODULE RingGen ------------------------------
(* Schedule generator: every interleaving (BFS) or random interleavings        *)
(* (-simulate) of the shared-access steps of NPush try_push and NPop try_pop   *)
(* calls, printed as the list of <<context, access kind>> and replayed on the  *)
(* real bluetoe::details::ring by harness/ring through the scheduler.          *)
EXTENDS RingImpl, Json

VARIABLE hist
gvars == <<vars, hist>>

GInit == Init /\ hist = <<>>
GNext == Next /\ hist' = Append(hist, last')
GSpec == GInit /\ [][GNext]_gvars

Finished == ~ENABLED Next
Emit == Finished => PrintT(<<"BEHAVIOUR", ToJson(hist)>>)
=============================================================================
