CONSTANTS Cap = 2  NPush = 4  NPop = 4
SPECIFICATION Spec
INVARIANTS Linearizable Fifo Bounded
VIEW View
CHECK_DEADLOCK FALSE
