-------------------------------- MODULE Ring --------------------------------
(* Property-level specification of the interrupt-safe SPSC ring (C30):           *)
(* a bounded FIFO queue of capacity Cap that is *linearizable*: every try_push  *)
(* / try_pop call takes effect atomically at some instant between its start    *)
(* and its return.                                                              *)
(*   - a successful push appends, a push fails only if the queue holds Cap      *)
(*     elements at its linearization instant,                                   *)
(*   - a successful pop removes and returns the oldest element, a pop fails     *)
(*     only if the queue is empty at its linearization instant.                 *)
(* Hence: no loss, no duplication, FIFO order - for every interleaving.         *)
(*                                                                              *)
(* Because the linearization instants are not observable, the specification is *)
(* given as a deterministic *subset construction*: `lin` is the set of abstract *)
(* configurations that are consistent with the calls and returns seen so far;   *)
(* a history is allowed iff `lin` never becomes empty.                          *)
EXTENDS Naturals, Sequences, FiniteSets

CONSTANT Cap            \* capacity of the ring

Procs == {"P", "C"}     \* producer context, consumer context

\* status of a context's current call in a configuration
Idle        == [s |-> "idle"]
Invoked(a)  == [s |-> "inv", a |-> a]          \* called with argument a, not yet taken effect
Done(r, v)  == [s |-> "done", r |-> r, v |-> v] \* took effect: result r (BOOLEAN), value v

InitConf == [q |-> <<>>, P |-> Idle, C |-> Idle]
LinInit  == {InitConf}

\* the atomic effect of the pending call of context p in configuration c
Effect(c, p) ==
    IF p = "P"
    THEN IF Len(c.q) < Cap
         THEN [c EXCEPT !.q = Append(c.q, c.P.a), !.P = Done(TRUE, c.P.a)]
         ELSE [c EXCEPT !.P = Done(FALSE, c.P.a)]
    ELSE IF c.q # <<>>
         THEN [c EXCEPT !.q = Tail(c.q), !.C = Done(TRUE, Head(c.q))]
         ELSE [c EXCEPT !.C = Done(FALSE, 0)]

\* all configurations reachable by letting pending calls take effect (at most one per context)
RECURSIVE Closure(_)
Closure(S) ==
    LET step == {Effect(c, p) : <<c, p>> \in {x \in S \X Procs : x[1][x[2]].s = "inv"}}
    IN  IF step \subseteq S THEN S ELSE Closure(S \cup step)

\* context p starts a call (argument a; 0 for pop)
Invoke(S, p, a) == Closure({[c EXCEPT ![p] = Invoked(a)] : c \in {x \in S : x[p].s = "idle"}})

\* context p's call returns result r (and value v for a successful pop; 0 otherwise)
Respond(S, p, r, v) ==
    Closure({[c EXCEPT ![p] = Idle] : c \in {x \in S : x[p].s = "done" /\ x[p].r = r /\ (p = "C" => x[p].v = v)}})

Consistent(S) == S # {}
=============================================================================
