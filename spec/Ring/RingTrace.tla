----------------------------- MODULE RingTrace -----------------------------
(* Trace validation for C30: the recorded call/return history of the real ring  *)
(* (in the global order fixed by the scheduler) must be linearizable w.r.t. the *)
(* bounded FIFO of module Ring. Events:                                         *)
(*   {"e":"Reset"}  {"e":"PushBegin","v":n}  {"e":"PushEnd","r":bool}            *)
(*   {"e":"PopBegin"}  {"e":"PopEnd","r":bool,"v":n}  {"e":"Acc","p":..,"k":..}  *)
EXTENDS Ring, Json, IOUtils, TLC, Integers

Tr == ndJsonDeserialize(IOEnv.TRACE)

VARIABLES l, lin
vars == <<lin>>
tvars == <<lin, l>>

Ev == Tr[l]

Explain(ev) ==
    \/ ev.e = "Reset"     /\ lin' = LinInit
    \/ ev.e = "Acc"       /\ lin' = lin
    \/ ev.e = "PushBegin" /\ lin' = Invoke(lin, "P", ev.v)      /\ Consistent(lin')
    \/ ev.e = "PushEnd"   /\ lin' = Respond(lin, "P", ev.r, 0)  /\ Consistent(lin')
    \/ ev.e = "PopBegin"  /\ lin' = Invoke(lin, "C", 0)         /\ Consistent(lin')
    \/ ev.e = "PopEnd"    /\ lin' = Respond(lin, "C", ev.r, IF ev.r THEN ev.v ELSE 0) /\ Consistent(lin')

Resets == {i \in 1..Len(Tr) : Tr[i].e = "Reset"}
NextReset(i) == IF \E j \in Resets : j > i
                THEN CHOOSE j \in Resets : j > i /\ \A k \in Resets : k > i => j <= k
                ELSE Len(Tr) + 1

TInit == lin = LinInit /\ l = 1

TNext ==
    \/ /\ l <= Len(Tr)
       /\ IF ENABLED Explain(Ev)
          THEN Explain(Ev) /\ l' = l + 1
          ELSE PrintT(<<"MISMATCH", l>>) /\ l' = NextReset(l) /\ UNCHANGED vars
    \/ /\ l = Len(Tr) + 1
       /\ PrintT(<<"TRACE_DONE", Len(Tr)>>)
       /\ l' = l + 1 /\ UNCHANGED vars

TSpec == TInit /\ [][TNext]_tvars
=============================================================================
