--------------------------- MODULE NotifQueueImplGen ---------------------------
(* Behaviour generator on the implementation-shaped machine (deterministic, so a behaviour *)
(* is just a sequence of calls; the results come from the real code when it is replayed).  *)
(*  Mode "edges":  exhaustive BFS over the machine states (VIEW hides the history); every  *)
(*                 transition is printed as <<"E", state, op, state'>>, the initial state  *)
(*                 as <<"I", state>>.  The check computes walks that cover EVERY edge.      *)
(*  Mode "walks":  -simulate; every walk of length D is printed as <<"BEHAVIOUR", json>>.   *)
(*  NoMix = TRUE   never queues the second kind on a single-entry level while the other     *)
(*                 kind is pending there (keeps walks clear of the known refusal of the     *)
(*                 Size = 1 specialisation so that the rest of them is still validated).    *)
EXTENDS NotifQueueImpl, TLC, Json

CONSTANTS Mode, D, NoMix
VARIABLE hist
gvars == <<mvars, hist>>

Key == ToJson(<<[i \in 1 .. N |-> bits[i - 1]], nxt, outstanding>>)
KeyP == ToJson(<<[i \in 1 .. N |-> bits'[i - 1]], nxt', outstanding'>>)

GInit == MInit /\ hist = <<>> /\ (Mode = "edges" => PrintT(<<"I", Key>>))

Allowed(op) == (NoMix /\ op[1] \in {"qn", "qi"} /\ Sz[LevelTab[op[2]]] = 1) => bits[op[2]] = {}

GNext == \E op \in Ops :
            /\ Allowed(op)
            /\ MStep(op)
            /\ IF Mode = "edges"
               THEN hist' = hist /\ PrintT(<<"E", Key, ToJson(op), KeyP>>)
               ELSE Len(hist) < D /\ hist' = Append(hist, op)

GSpec == GInit /\ [][GNext]_gvars
Emit == (Mode = "walks" /\ Len(hist) = D) => PrintT(<<"BEHAVIOUR", ToJson(hist)>>)
=============================================================================
