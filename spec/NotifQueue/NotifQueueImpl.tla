---------------------------- MODULE NotifQueueImpl ----------------------------
(* Implementation-shaped model of bluetoe/notification_queue.hpp ("to be bound, not      *)
(* admired").  One machine per priority level, chained by offset like                    *)
(* notification_queue_impl_base:                                                         *)
(*   general machine  notification_queue_impl<Size>: two bits per entry, round robin     *)
(*                    pointer next_, scan from next_, indication bit tested first (only  *)
(*                    when no confirmation is awaited), then the notification bit;       *)
(*                    next_ := hit + 1.                                                  *)
(*   Size = 1         notification_queue_impl<1>: one `state_` in {empty, notification,  *)
(*                    indication}; a queue call is REFUSED unless state_ = empty.         *)
(* Deliberate deviation switch: FixSingle = TRUE models the proposed repair (the single  *)
(* entry level keeps both bits, i.e. behaves like the general machine with Size = 1).    *)
(* The model is deterministic: every call has exactly one result and one successor.      *)
EXTENDS Integers, FiniteSets, Sequences

CONSTANTS S1, S2, S3, FixSingle

None  == -1
N     == S1 + S2 + S3
Idx   == 0 .. N - 1
Kinds == {"n", "i"}
Sz    == <<S1, S2, S3>>
Off   == <<0, S1, S1 + S2>>
Levels == {L \in 1 .. 3 : Sz[L] > 0}
LevelTab == [i \in Idx |-> IF i < S1 THEN 1 ELSE IF i < S1 + S2 THEN 2 ELSE 3]

VARIABLES bits,         \* [Idx -> SUBSET Kinds]   queue_[] (2 bits per entry) / state_
          nxt,          \* [1..3 -> Nat]           next_ of each level (local index)
          outstanding   \* outstanding_confirmation_index_ or None

mvars == <<bits, nxt, outstanding>>

MTypeOK == /\ bits \in [Idx -> SUBSET Kinds]
           /\ nxt \in [1 .. 3 -> 0 .. N]
           /\ \A L \in Levels : nxt[L] < Sz[L]
           /\ outstanding \in Idx \cup {None}
           /\ \A i \in Idx : (Sz[LevelTab[i]] = 1 /\ ~FixSingle) => Cardinality(bits[i]) <= 1

MInit == /\ bits = [i \in Idx |-> {}] /\ nxt = [L \in 1 .. 3 |-> 0] /\ outstanding = None

Refusing(i) == Sz[LevelTab[i]] = 1 /\ ~FixSingle          \* the Size = 1 specialisation as it is

\* ---- queue_notification / queue_indication ------------------------------------------------
QRes(i, k) == IF Refusing(i) THEN bits[i] = {} ELSE k \notin bits[i]
MQueue(i, k) ==
    /\ bits' = IF Refusing(i) /\ bits[i] # {} THEN bits ELSE [bits EXCEPT ![i] = @ \cup {k}]
    /\ UNCHANGED <<nxt, outstanding>>

\* ---- dequeue_indication_or_confirmation ---------------------------------------------------
\* what the scan finds at global index i
Hit(i) == IF "i" \in bits[i] /\ outstanding = None THEN "i"
          ELSE IF "n" \in bits[i] THEN "n" ELSE "e"
\* local indices of level L in scan order, starting at next_
Scan(L) == [j \in 1 .. Sz[L] |-> (nxt[L] + j - 1) % Sz[L]]
LevelHits(L) == {j \in 1 .. Sz[L] : Hit(Off[L] + Scan(L)[j]) # "e"}
FirstHit(L) == CHOOSE j \in LevelHits(L) : \A j2 \in LevelHits(L) : j <= j2
HitLevels == {L \in Levels : LevelHits(L) # {}}
HitLevel  == CHOOSE L \in HitLevels : \A L2 \in HitLevels : L <= L2       \* first machine in the chain with a result

DRes == IF HitLevels = {} THEN [k |-> "e", i |-> 0]
        ELSE LET L  == HitLevel
                 li == Scan(L)[FirstHit(L)]
             IN  [k |-> Hit(Off[L] + li), i |-> Off[L] + li]
MDequeue ==
    IF HitLevels = {} THEN UNCHANGED mvars
    ELSE LET L  == HitLevel
             li == Scan(L)[FirstHit(L)]
             i  == Off[L] + li
             k  == Hit(i)
         IN  /\ bits' = [bits EXCEPT ![i] = @ \ {k}]
             /\ nxt' = [nxt EXCEPT ![L] = (li + 1) % Sz[L]]
             /\ outstanding' = IF k = "i" THEN i ELSE outstanding

\* ---- indication_confirmed / clear_indications_and_confirmations ---------------------------
MConfirm == outstanding' = None /\ UNCHANGED <<bits, nxt>>
MClear   == bits' = [i \in Idx |-> {}] /\ nxt' = [L \in 1 .. 3 |-> 0] /\ outstanding' = None

\* operations as values (used by the generator and the refinement monitor)
Ops == {<<"qn", i>> : i \in Idx} \cup {<<"qi", i>> : i \in Idx} \cup {<<"dq">>, <<"cf">>, <<"cl">>}
MStep(op) == CASE op[1] = "qn" -> MQueue(op[2], "n")
               [] op[1] = "qi" -> MQueue(op[2], "i")
               [] op[1] = "dq" -> MDequeue
               [] op[1] = "cf" -> MConfirm
               [] op[1] = "cl" -> MClear

MNext == \E op \in Ops : MStep(op)
MSpec == MInit /\ [][MNext]_mvars
=============================================================================
