CONSTANTS NC = 2
SPECIFICATION ASpec
INVARIANTS ATypeOK NotificationsContinue
PROPERTIES AtMostOneIndicationInFlight
