CONSTANTS S1 = 1 S2 = 2 S3 = 0 TrackLast = TRUE
SPECIFICATION Spec
INVARIANTS TypeOK GhostOK DequeuePossible NotificationsContinue
PROPERTIES NewlyQueuedExact EachPendingDequeuedOnce PriorityOrder OneRoundFairness AtMostOneOutstanding
