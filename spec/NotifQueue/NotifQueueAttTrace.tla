--------------------------- MODULE NotifQueueAttTrace ---------------------------
(* Trace validation of harness/notifq/notifq_att_harness.cpp (real bluetoe::server) against *)
(* NotifQueueAtt.  Events: see the harness.  Same contract as the other trace specs.        *)
EXTENDS NotifQueueAtt, Json, IOUtils, TLC

Tr == ndJsonDeserialize(IOEnv.TRACE)
VARIABLE l
tvars == <<avars, l>>
Ev == Tr[l]
B(b) == IF b THEN "1" ELSE "0"

Explain(ev) ==
    \/ ev.e = "Reset" /\ ev.nc = NC /\ sub' = [c \in Chars |-> {}] /\ must' = {} /\ may' = {} /\ awaiting' = FALSE /\ phantom' = FALSE
    \/ ev.e = "sub" /\ ev.c \in Chars /\ ev.rsp = <<19>> /\ Subscribe(ev.c, ev.f)
    \/ ev.e = "notify" /\ ev.c \in Chars /\ Request(ev.c, "n", ev.r)
    \/ ev.e = "indicate" /\ ev.c \in Chars /\ Request(ev.c, "i", ev.r)
    \/ ev.e = "poll" /\ Poll(ev.op, ev.c)
    \/ ev.e = "confirm" /\ Confirmation(ev.len, ev.rsp)
    \/ ev.e = "read" /\ ev.rsp0 = 11 /\ OtherTraffic
    \/ ev.e = "Drained" /\ must = {} /\ ~awaiting /\ UNCHANGED avars

\* go on after a second indication in flight / a PDU nobody asked for is not possible; only these are adopted:
Relaxed(ev) ==
    \/ /\ ev.e = "poll" /\ ev.op = 29 /\ ev.c \in Chars /\ <<ev.c, "i">> \in must \cup may /\ awaiting
       /\ must' = must \ {<<ev.c, "i">>} /\ may' = may \ {<<ev.c, "i">>} /\ UNCHANGED <<sub, awaiting, phantom>>
    \/ /\ ev.e = "confirm" /\ ev.len = 1 /\ awaiting' = FALSE /\ phantom' = FALSE /\ UNCHANGED <<sub, must, may>>

WhyEv(ev) ==
    CASE ev.e = "poll" ->
            IF ev.op = 0 THEN <<"poll", "nothing_sent_but_owed", {e[2] : e \in Transmittable}, "awaiting_confirmation=" \o B(awaiting),
                                "polled_with_not_enabled_indication_queued=" \o B(PhantomAfter)>>
            ELSE IF ev.op = 29 /\ ev.c \in Chars /\ <<ev.c, "i">> \in must \cup may /\ "i" \in sub[ev.c] /\ awaiting
                 THEN <<"poll", "second_indication_before_confirmation">>
            ELSE IF ev.op \in {27, 29} /\ ev.c \in Chars /\ (IF ev.op = 27 THEN "n" ELSE "i") \notin sub[ev.c]
                 THEN <<"poll", "pdu_for_kind_not_enabled", ToString(ev.op)>>
            ELSE <<"poll", "pdu_nobody_asked_for", ToString(ev.op)>>
      [] ev.e = "confirm" -> <<"confirm", "len=" \o ToString(ev.len), IF ev.rsp = <<>> THEN "no_response" ELSE "response_opcode=" \o ToString(ev.rsp[1])>>
      [] ev.e = "Drained" -> <<"drained", "still_owed", {e[2] : e \in must}, "awaiting_confirmation=" \o B(awaiting),
                               "polled_with_not_enabled_indication_queued=" \o B(phantom)>>
      [] ev.e = "Crash"   -> <<"crash", ev.what>>
      [] OTHER            -> <<"unexplained", ev.e>>

Resets == {i \in 1..Len(Tr) : Tr[i].e = "Reset"}
NextReset(i) == IF \E j \in Resets : j > i
                THEN CHOOSE j \in Resets : j > i /\ \A k \in Resets : k > i => j <= k
                ELSE Len(Tr) + 1

TInit == AInit /\ l = 1
TNext ==
    \/ /\ l <= Len(Tr)
       /\ IF ENABLED Explain(Ev)
          THEN Explain(Ev) /\ l' = l + 1
          ELSE /\ PrintT(<<"MISMATCH", l>>)
               /\ PrintT(<<"WHY", l, ToJson(WhyEv(Ev))>>)
               /\ IF ENABLED Relaxed(Ev)
                  THEN Relaxed(Ev) /\ l' = l + 1
                  ELSE l' = NextReset(l) /\ UNCHANGED avars
    \/ /\ l = Len(Tr) + 1
       /\ PrintT(<<"TRACE_DONE", Len(Tr)>>)
       /\ l' = l + 1 /\ UNCHANGED avars
TSpec == TInit /\ [][TNext]_tvars
=============================================================================
