CONSTANTS S1 = 2 S2 = 0 S3 = 0 FixSingle = FALSE TrackLast = TRUE TrackHist = TRUE NIdx = {0,1} IIdx = {0,1}
SPECIFICATION RSpec
VIEW RView
INVARIANTS MTypeOK
CHECK_DEADLOCK FALSE
