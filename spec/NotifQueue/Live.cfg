CONSTANTS S1 = 1 S2 = 2 S3 = 0
SPECIFICATION FairSpec
PROPERTIES EventuallySent
