------------------------------ MODULE NotifQueue ------------------------------
(* Property-level specification of the outgoing notification queue (C11, C12).           *)
(*                                                                                       *)
(* The queue is a SET of pending requests <<characteristic index, kind>>, kind "n"       *)
(* (notification) or "i" (indication), plus the index of the indication that waits for   *)
(* its Handle Value Confirmation.  One action per public member function of              *)
(* bluetoe::notification_queue; `r` / `res` is what the call returns.                    *)
(*                                                                                       *)
(* Priorities: level sizes S1, S2, S3; level 1 (indices 0..S1-1) is the highest.         *)
(* A request is *dequeuable* if it is pending and (indication =>) no confirmation is     *)
(* awaited.  Dequeue returns SOME dequeuable request of the highest level that has one   *)
(* (C12 priority order) that does not overtake another dequeuable request of its level   *)
(* for the second time (C12 one-round fairness), or "empty" iff nothing is dequeuable.   *)
(*                                                                                       *)
(* Fairness ghost `over`: <<f, e>> \in over  ==  since f became pending, e was dequeued  *)
(* at a moment where f was dequeuable too (same level): "e has overtaken f".  A request  *)
(* may overtake every waiting request of its level at most once, i.e. a pending request  *)
(* is served within one round of its level.  The spec never looks at HOW the choice is   *)
(* made (round robin pointer, bit order ...).                                            *)
EXTENDS Integers, FiniteSets, Sequences

CONSTANTS S1, S2, S3   \* sizes of the (up to three) priority levels, 0 = level absent (cfg friendly)
CONSTANT TrackLast      \* FALSE: `last` is frozen (smaller state space for the liveness runs)
ASSUME /\ S1 \in Nat \ {0} /\ S2 \in Nat /\ S3 \in Nat /\ (S3 > 0 => S2 > 0)

None  == -1
N     == S1 + S2 + S3
Idx   == 0 .. N - 1
Kinds == {"n", "i"}
Req   == Idx \X Kinds
\* level 1 = indices 0..S1-1 is the highest priority
LevelTab == [i \in Idx |-> IF i < S1 THEN 1 ELSE IF i < S1 + S2 THEN 2 ELSE 3]
LevelOf(e) == LevelTab[e[1]]

VARIABLES pending,      \* set of requests
          outstanding,  \* index of the unconfirmed indication or None
          over,         \* fairness ghost, set of <<victim, overtaker>>
          passed,       \* diagnostic ghost: pending indications that were blocked (confirmation awaited)
                        \* while another request of their level was handed out; only used to NAME findings
          last          \* the last call and its result (history of length 1, to state the properties)

vars == <<pending, outstanding, over, passed, last>>

Call(op, i, k, r) == IF TrackLast THEN [op |-> op, i |-> i, k |-> k, r |-> r]
                                  ELSE [op |-> "init", i |-> 0, k |-> "-", r |-> FALSE]
Empty == [k |-> "e", i |-> 0]

TypeOK == /\ pending \subseteq Req
          /\ outstanding \in Idx \cup {None}
          /\ over \subseteq Req \X Req
          /\ passed \subseteq Req
          /\ last \in [op : {"init", "qn", "qi", "dq", "cf", "cl"}, i : Idx \cup {0}, k : {"n", "i", "e", "-"}, r : BOOLEAN]

Init == /\ pending = {} /\ outstanding = None /\ over = {} /\ passed = {}
        /\ last = Call("init", 0, "-", FALSE)

Dequeuable(e) == e \in pending /\ (e[2] = "i" => outstanding = None)
DQ            == {e \in Req : Dequeuable(e)}
Top(S)        == {e \in S : \A f \in S : LevelOf(f) >= LevelOf(e)}      \* requests of the best level in S
Rivals(e)     == {f \in DQ \ {e} : LevelOf(f) = LevelOf(e)}
Fair(e)       == \A f \in Rivals(e) : <<f, e>> \notin over
Candidates    == {e \in Top(DQ) : Fair(e)}

Queue(i, k, r) ==
    /\ r = (<<i, k>> \notin pending)                      \* C12: newly queued exactly if not pending
    /\ pending' = pending \cup {<<i, k>>}
    /\ UNCHANGED <<outstanding, over, passed>>
    /\ last' = Call(IF k = "n" THEN "qn" ELSE "qi", i, k, r)

QueueN(i, r) == Queue(i, "n", r)
QueueI(i, r) == Queue(i, "i", r)

\* effect of handing out request e (no guard on priority / fairness here)
OverAfter(e)   == {p \in over : p[1] # e} \cup {<<f, e>> : f \in Rivals(e)}
PassedAfter(e) == (passed \cup {f \in pending \ DQ : LevelOf(f) = LevelOf(e)}) \ {e}
Take(e) ==
    /\ pending' = pending \ {e}
    /\ outstanding' = IF e[2] = "i" THEN e[1] ELSE outstanding
    /\ over' = OverAfter(e)
    /\ passed' = PassedAfter(e)
    /\ last' = Call("dq", e[1], e[2], TRUE)

Dequeue(res) ==
    \/ /\ DQ = {} /\ res = Empty
       /\ UNCHANGED <<pending, outstanding, over, passed>>
       /\ last' = Call("dq", 0, "e", FALSE)
    \/ \E e \in Candidates : res = [k |-> e[2], i |-> e[1]] /\ Take(e)

Confirm ==
    /\ outstanding' = None
    /\ UNCHANGED <<pending, over, passed>>
    /\ last' = Call("cf", 0, "-", FALSE)

Clear ==
    /\ pending' = {} /\ outstanding' = None /\ over' = {} /\ passed' = {}
    /\ last' = Call("cl", 0, "-", FALSE)

Results == {Empty} \cup {[k |-> e[2], i |-> e[1]] : e \in Req}

Next == \/ \E i \in Idx, r \in BOOLEAN : QueueN(i, r) \/ QueueI(i, r)
        \/ \E res \in Results : Dequeue(res)
        \/ Confirm
        \/ Clear

Spec == Init /\ [][Next]_vars

-------------------------------------------------------------------------------
(* The listed properties, stated on observable calls (`last`) and the pending set.      *)

GhostOK == /\ \A p \in over : p[1] \in pending /\ p[1] # p[2] /\ LevelOf(p[1]) = LevelOf(p[2])
           /\ \A f \in passed : f \in pending /\ f[2] = "i"

\* the specification is implementable: whenever something is dequeuable, some choice is allowed
DequeuePossible == DQ # {} => Candidates # {}

LastReq == <<last'.i, last'.k>>
IsQ  == last'.op \in {"qn", "qi"}
IsDq == last'.op = "dq" /\ last'.k # "e"
IsDqEmpty == last'.op = "dq" /\ last'.k = "e"

\* --- C12 ---
NewlyQueuedExact ==
    [][IsQ => /\ last'.r = (LastReq \notin pending)
              /\ pending' = pending \cup {LastReq}]_vars
EachPendingDequeuedOnce ==
    [][/\ IsDq => (LastReq \in pending /\ pending' = pending \ {LastReq})
       /\ IsDqEmpty => (DQ = {} /\ pending' = pending)
       /\ (pending' # pending /\ last'.op # "cl") => (IsQ \/ IsDq)]_vars       \* nothing else adds / removes
PriorityOrder ==
    [][IsDq => \A f \in DQ : LevelOf(f) >= LevelOf(LastReq)]_vars
OneRoundFairness ==
    [][IsDq => \A f \in DQ \ {LastReq} : LevelOf(f) = LevelOf(LastReq) => <<f, LastReq>> \notin over]_vars

\* --- C11 ---
AtMostOneOutstanding ==
    [][/\ (IsDq /\ last'.k = "i") => (outstanding = None /\ outstanding' = last'.i)
       /\ (outstanding # None /\ outstanding' # outstanding) => last'.op \in {"cf", "cl"}
       /\ (IsDq /\ last'.k = "n") => outstanding' = outstanding]_vars
\* notifications are never blocked by an outstanding indication
NotificationsContinue == (outstanding # None /\ \E e \in pending : e[2] = "n")
                            => (Candidates # {} /\ \A e \in Candidates : e[2] = "n")

-------------------------------------------------------------------------------
(* Classification of a call the specification does NOT allow (used by the trace spec and *)
(* by the implementation-model monitor to name a finding; "ok" = the call is a step).    *)
(* The result is a tuple of strings / booleans; the check turns it into the signature.   *)
B(b) == IF b THEN "1" ELSE "0"
IsSingle(i) == Cardinality({j \in Idx : LevelTab[j] = LevelTab[i]}) = 1
Other(k) == IF k = "n" THEN "i" ELSE "n"

WhyQueue(i, k, r) ==
    IF r = (<<i, k>> \notin pending) THEN <<"ok">>
    ELSE <<"queue", k, "r=" \o B(r), "pending=" \o B(<<i, k>> \in pending),
           "other_kind_pending=" \o B(<<i, Other(k)>> \in pending), "single_entry_level=" \o B(IsSingle(i))>>

\* classes of the victims of an unfair choice e:  <<kind of the victim,
\*    "the other kind of the victim's own characteristic was handed out while the victim could have been",
\*    "the victim is an indication that was passed while it was blocked by an awaited confirmation">>
UnfairClasses(e) == {<<f[2], B(<<f, <<f[1], Other(f[2])>>>> \in over), B(f \in passed)>> :
                        f \in {g \in Rivals(e) : <<g, e>> \in over}}

WhyDequeue(res) ==
    IF res = Empty
    THEN IF DQ = {} THEN <<"ok">>
         ELSE <<"dequeue", "empty_but_dequeuable", {e[2] : e \in DQ}, "awaiting_confirmation=" \o B(outstanding # None)>>
    ELSE LET e == <<res.i, res.k>> IN
         IF e \notin pending THEN <<"dequeue", "not_pending", res.k>>
         ELSE IF e[2] = "i" /\ outstanding # None THEN <<"dequeue", "indication_while_awaiting_confirmation">>
         ELSE IF e \notin Top(DQ) THEN <<"dequeue", "priority_inversion", res.k>>
         ELSE IF ~Fair(e) THEN <<"dequeue", "overtaken_twice", UnfairClasses(e)>>
         ELSE <<"ok">>

-------------------------------------------------------------------------------
(* Liveness (C11: an accepted indication is eventually handed out if confirmations keep  *)
(* arriving; same for notifications).  Finite model, no state constraint.  A request may *)
(* of course wait as long as a higher priority level has something to send.              *)
DequeueSome == \E res \in Results \ {Empty} : Dequeue(res)
FairSpec == Spec /\ WF_vars(DequeueSome) /\ WF_vars(Confirm /\ outstanding # None)

HigherBusy(e) == \E f \in DQ : LevelOf(f) < LevelOf(e)
EventuallySent == \A e \in Req : (e \in pending) ~> (e \notin pending \/ HigherBusy(e))
=============================================================================
