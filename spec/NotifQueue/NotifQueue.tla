------------------------------ MODULE NotifQueue ------------------------------
(* Property-level specification of the outgoing notification queue (C11, C12).           *)
(*                                                                                       *)
(* The queue is a SET of pending requests <<characteristic index, kind>>, kind "n"       *)
(* (notification) or "i" (indication), plus the index of the indication that waits for   *)
(* its Handle Value Confirmation.  One action per public member function of              *)
(* bluetoe::notification_queue; `r` / `res` is what the call returns.                    *)
(*                                                                                       *)
(* Priorities: Sizes = <<s1, .., sk>>; level 1 (indices 0..s1-1) is the highest.         *)
(* A request is *dequeuable* if it is pending and (indication =>) no confirmation is     *)
(* awaited.  Dequeue returns SOME dequeuable request of the highest level that has one   *)
(* (C12 priority order) that does not overtake another dequeuable request of its level   *)
(* for the second time (C12 one-round fairness), or "empty" iff nothing is dequeuable.   *)
(*                                                                                       *)
(* Fairness ghost `over`: <<f, e>> \in over  ==  since f became pending, e was dequeued  *)
(* at a moment where f was dequeuable too (same level): "e has overtaken f".  A request  *)
(* may overtake every waiting request of its level at most once, i.e. a pending request  *)
(* is served within one round of its level.  The spec never looks at HOW the choice is   *)
(* made (round robin pointer, bit order ...).                                            *)
EXTENDS Integers, FiniteSets, Sequences

CONSTANTS S1, S2, S3   \* sizes of the (up to three) priority levels, 0 = level absent (cfg friendly)
Sizes == SelectSeq(<<S1, S2, S3>>, LAMBDA x : x > 0)     \* e.g. <<1, 2>>

None == -1
NLevels == Len(Sizes)
RECURSIVE SumTo(_)
SumTo(k) == IF k = 0 THEN 0 ELSE SumTo(k - 1) + Sizes[k]
N     == SumTo(NLevels)
Idx   == 0 .. N - 1
Kinds == {"n", "i"}
Req   == Idx \X Kinds
Level(i) == CHOOSE L \in 1 .. NLevels : SumTo(L - 1) <= i /\ i < SumTo(L)
LevelTab == [i \in Idx |-> Level(i)]          \* constant, evaluated once
LevelOf(e) == LevelTab[e[1]]

VARIABLES pending,      \* set of requests
          outstanding,  \* index of the unconfirmed indication or None
          over,         \* fairness ghost, set of <<victim, overtaker>>
          last          \* the last call and its result (history of length 1, to state the properties)

vars == <<pending, outstanding, over, last>>

Call(op, i, k, r) == [op |-> op, i |-> i, k |-> k, r |-> r]
Empty == [k |-> "e", i |-> 0]

TypeOK == /\ pending \subseteq Req
          /\ outstanding \in Idx \cup {None}
          /\ over \subseteq Req \X Req
          /\ last \in [op : {"init", "qn", "qi", "dq", "cf", "cl"}, i : Idx \cup {0}, k : {"n", "i", "e", "-"}, r : BOOLEAN]

Init == /\ pending = {} /\ outstanding = None /\ over = {}
        /\ last = Call("init", 0, "-", FALSE)

Dequeuable(e) == e \in pending /\ (e[2] = "i" => outstanding = None)
DQ            == {e \in Req : Dequeuable(e)}
Top(S)        == {e \in S : \A f \in S : LevelOf(f) >= LevelOf(e)}      \* requests of the best level in S
Rivals(e)     == {f \in DQ \ {e} : LevelOf(f) = LevelOf(e)}
Fair(e)       == \A f \in Rivals(e) : <<f, e>> \notin over
Candidates    == {e \in Top(DQ) : Fair(e)}

Queue(i, k, r) ==
    /\ r = (<<i, k>> \notin pending)                      \* C12: newly queued exactly if not pending
    /\ pending' = pending \cup {<<i, k>>}
    /\ UNCHANGED <<outstanding, over>>
    /\ last' = Call(IF k = "n" THEN "qn" ELSE "qi", i, k, r)

QueueN(i, r) == Queue(i, "n", r)
QueueI(i, r) == Queue(i, "i", r)

\* effect of handing out request e (no guard on priority / fairness here)
Take(e) ==
    /\ pending' = pending \ {e}
    /\ outstanding' = IF e[2] = "i" THEN e[1] ELSE outstanding
    /\ over' = {p \in over : p[1] # e} \cup {<<f, e>> : f \in Rivals(e)}
    /\ last' = Call("dq", e[1], e[2], TRUE)

Dequeue(res) ==
    \/ /\ DQ = {} /\ res = Empty
       /\ UNCHANGED <<pending, outstanding, over>>
       /\ last' = Call("dq", 0, "e", FALSE)
    \/ \E e \in Candidates : res = [k |-> e[2], i |-> e[1]] /\ Take(e)

Confirm ==
    /\ outstanding' = None
    /\ UNCHANGED <<pending, over>>
    /\ last' = Call("cf", 0, "-", FALSE)

Clear ==
    /\ pending' = {} /\ outstanding' = None /\ over' = {}
    /\ last' = Call("cl", 0, "-", FALSE)

Results == {Empty} \cup {[k |-> e[2], i |-> e[1]] : e \in Req}

Next == \/ \E i \in Idx, r \in BOOLEAN : QueueN(i, r) \/ QueueI(i, r)
        \/ \E res \in Results : Dequeue(res)
        \/ Confirm
        \/ Clear

Spec == Init /\ [][Next]_vars

-------------------------------------------------------------------------------
(* The listed properties, stated on observable calls (`last`) and the pending set.      *)

GhostOK == \A p \in over : p[1] \in pending /\ p[1] # p[2] /\ LevelOf(p[1]) = LevelOf(p[2])

\* the specification is implementable: whenever something is dequeuable, some choice is allowed
DequeuePossible == DQ # {} => Candidates # {}

LastReq == <<last'.i, last'.k>>
IsQ  == last'.op \in {"qn", "qi"}
IsDq == last'.op = "dq" /\ last'.k # "e"
IsDqEmpty == last'.op = "dq" /\ last'.k = "e"

\* --- C12 ---
NewlyQueuedExact ==
    [][IsQ => /\ last'.r = (LastReq \notin pending)
              /\ pending' = pending \cup {LastReq}]_vars
EachPendingDequeuedOnce ==
    [][/\ IsDq => (LastReq \in pending /\ pending' = pending \ {LastReq})
       /\ IsDqEmpty => (DQ = {} /\ pending' = pending)
       /\ (pending' # pending /\ last'.op # "cl") => (IsQ \/ IsDq)]_vars       \* nothing else adds / removes
PriorityOrder ==
    [][IsDq => \A f \in DQ : LevelOf(f) >= LevelOf(LastReq)]_vars
OneRoundFairness ==
    [][IsDq => \A f \in DQ \ {LastReq} : LevelOf(f) = LevelOf(LastReq) => <<f, LastReq>> \notin over]_vars

\* --- C11 ---
AtMostOneOutstanding ==
    [][/\ (IsDq /\ last'.k = "i") => (outstanding = None /\ outstanding' = last'.i)
       /\ (outstanding # None /\ outstanding' # outstanding) => last'.op \in {"cf", "cl"}
       /\ (IsDq /\ last'.k = "n") => outstanding' = outstanding]_vars
\* notifications are never blocked by an outstanding indication
NotificationsContinue == (outstanding # None /\ \E e \in pending : e[2] = "n")
                            => (Candidates # {} /\ \A e \in Candidates : e[2] = "n")

-------------------------------------------------------------------------------
(* Liveness (C11: an accepted indication is eventually handed out if confirmations keep  *)
(* arriving; same for notifications).  Finite model, no state constraint.  A request may *)
(* of course wait as long as a higher priority level has something to send.              *)
DequeueSome == \E res \in Results \ {Empty} : Dequeue(res)
FairSpec == Spec /\ WF_vars(DequeueSome) /\ WF_vars(Confirm /\ outstanding # None)

HigherBusy(e) == \E f \in DQ : LevelOf(f) < LevelOf(e)
EventuallySent == \A e \in Req : (e \in pending) ~> (e \notin pending \/ HigherBusy(e))
=============================================================================
