--------------------------- MODULE NotifQueueTrace ---------------------------
(* Trace validation: every recorded call of the real bluetoe::notification_queue must be  *)
(* a step of NotifQueue (for the partition S1, S2, S3 of this run).                        *)
(* Events (harness/notifq/notifq_harness.cpp):                                             *)
(*   {"e":"Reset","s":[s1,s2,s3]}  {"e":"qn"|"qi","i":i,"r":bool}                      *)
(*   {"e":"dq","k":"n"|"i"|"e","i":idx}  {"e":"cf"}  {"e":"cl"}                        *)
(*   {"e":"Drained"}  - written after "confirm; dequeue" was repeated until dequeue         *)
(*                      returned empty: nothing may be pending any more (finite shadow of   *)
(*                      the C11 liveness property)                                          *)
(* A call the spec cannot explain is reported as <<"MISMATCH", l>> and <<"WHY", l, class>>. *)
(* If it is a dequeue of a request that IS pending (wrong choice: priority, fairness,       *)
(* second indication) or a queue call with a wrong result, validation goes on from the      *)
(* state the implementation chose (see Relaxed), so that later calls of the same execution  *)
(* are still judged; otherwise it resynchronises at the next Reset.                         *)
EXTENDS NotifQueue, Json, IOUtils, TLC

Tr == ndJsonDeserialize(IOEnv.TRACE)

VARIABLE l
tvars == <<vars, l>>

Ev == Tr[l]
ResOf(ev) == [k |-> ev.k, i |-> ev.i]

Explain(ev) ==
    \/ /\ ev.e = "Reset" /\ ev.s = <<S1, S2, S3>>
       /\ pending' = {} /\ outstanding' = None /\ over' = {} /\ passed' = {}
       /\ last' = Call("init", 0, "-", FALSE)
    \/ ev.e = "qn" /\ ev.i \in Idx /\ QueueN(ev.i, ev.r)
    \/ ev.e = "qi" /\ ev.i \in Idx /\ QueueI(ev.i, ev.r)
    \/ ev.e = "dq" /\ Dequeue(ResOf(ev))
    \/ ev.e = "cf" /\ Confirm
    \/ ev.e = "cl" /\ Clear
    \/ ev.e = "Drained" /\ pending = {} /\ outstanding = None /\ UNCHANGED vars

\* the implementation handed out a pending request the spec would not have chosen now
Relaxed(ev) ==
    \/ /\ ev.e = "dq" /\ ev.k \in Kinds /\ <<ev.i, ev.k>> \in pending
       /\ Take(<<ev.i, ev.k>>)
    \* a queue call with the wrong result: "refused" (r = FALSE, not pending) is taken as dropped, "newly queued"
    \* (r = TRUE, already pending) as still pending once - i.e. the pending set stays as it is; should the
    \* implementation have done something else, a later dequeue is reported as not_pending / empty_but_dequeuable
    \/ /\ ev.e \in {"qn", "qi"} /\ ev.i \in Idx
       /\ UNCHANGED <<pending, outstanding, over, passed>>
       /\ last' = Call(ev.e, ev.i, IF ev.e = "qn" THEN "n" ELSE "i", ev.r)

WhyEv(ev) ==
    CASE ev.e \in {"qn", "qi"} -> IF ev.i \in Idx THEN WhyQueue(ev.i, IF ev.e = "qn" THEN "n" ELSE "i", ev.r)
                                  ELSE <<"queue", "index_out_of_range">>
      [] ev.e = "dq"      -> IF ev.k = "e" /\ ev.i # 0 THEN <<"dequeue", "empty_with_index">>
                             ELSE IF ev.k # "e" /\ ev.i \notin Idx THEN <<"dequeue", "index_out_of_range">>
                             ELSE WhyDequeue(ResOf(ev))
      [] ev.e = "Drained" -> <<"drained", "still_pending", {e[2] : e \in pending}, "awaiting_confirmation=" \o B(outstanding # None)>>
      [] ev.e = "Crash"   -> <<"crash", ev.what>>
      [] OTHER            -> <<"unexplained", ev.e>>

Resets == {i \in 1..Len(Tr) : Tr[i].e = "Reset"}
NextReset(i) == IF \E j \in Resets : j > i
                THEN CHOOSE j \in Resets : j > i /\ \A k \in Resets : k > i => j <= k
                ELSE Len(Tr) + 1

TInit == Init /\ l = 1

TNext ==
    \/ /\ l <= Len(Tr)
       /\ IF ENABLED Explain(Ev)
          THEN Explain(Ev) /\ l' = l + 1
          ELSE /\ PrintT(<<"MISMATCH", l>>)
               /\ PrintT(<<"WHY", l, ToJson(WhyEv(Ev))>>)
               /\ IF ENABLED Relaxed(Ev)
                  THEN Relaxed(Ev) /\ l' = l + 1
                  ELSE l' = NextReset(l) /\ UNCHANGED vars
    \/ /\ l = Len(Tr) + 1
       /\ PrintT(<<"TRACE_DONE", Len(Tr)>>)
       /\ l' = l + 1 /\ UNCHANGED vars

TSpec == TInit /\ [][TNext]_tvars
=============================================================================
