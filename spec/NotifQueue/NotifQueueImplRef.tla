--------------------------- MODULE NotifQueueImplRef ---------------------------
(* NotifQueueImpl against the property-level NotifQueue:                                  *)
(*   - the ghosts of NotifQueue (over, last) are carried along, updated by NotifQueue's    *)
(*     own rule from the implementation's results;                                         *)
(*   - PROPERTY A!Spec is the refinement "every step of the machine is a step of the       *)
(*     property-level queue" (C12 incl. single == many, C11 safety);                      *)
(*   - the Monitor prints <<"FINDING", class, history>> for EVERY machine step the         *)
(*     property does not allow (TLC itself would stop at the first one); the check replays *)
(*     one history per class on the real code - only a mismatch of the real code counts.   *)
(*   - RFairSpec / A!EventuallySent: liveness of C11 on the machine.                       *)
(* NIdx / IIdx restrict which characteristics are ever notified / indicated (environment). *)
EXTENDS NotifQueueImpl, TLC, Json

CONSTANTS TrackLast, TrackHist, NIdx, IIdx
VARIABLES over, passed, last, hist

rvars == <<mvars, over, passed, last>>
AbsPending == {e \in Idx \X Kinds : e[2] \in bits[e[1]]}

A == INSTANCE NotifQueue WITH pending <- AbsPending

ROps == {op \in Ops : (op[1] = "qn" => op[2] \in NIdx) /\ (op[1] = "qi" => op[2] \in IIdx)}

Why(op) == CASE op[1] = "qn" -> A!WhyQueue(op[2], "n", QRes(op[2], "n"))
             [] op[1] = "qi" -> A!WhyQueue(op[2], "i", QRes(op[2], "i"))
             [] op[1] = "dq" -> A!WhyDequeue(DRes)
             [] OTHER        -> <<"ok">>

Ghost(op) ==
    CASE op[1] \in {"qn", "qi"} ->
            LET k == IF op[1] = "qn" THEN "n" ELSE "i" IN
            over' = over /\ passed' = passed /\ last' = A!Call(op[1], op[2], k, QRes(op[2], k))
      [] op[1] = "dq" ->
            IF DRes.k = "e" THEN over' = over /\ passed' = passed /\ last' = A!Call("dq", 0, "e", FALSE)
            ELSE LET e == <<DRes.i, DRes.k>> IN
                 /\ over' = A!OverAfter(e) /\ passed' = A!PassedAfter(e)
                 /\ last' = A!Call("dq", e[1], e[2], TRUE)
      [] op[1] = "cf" -> over' = over /\ passed' = passed /\ last' = A!Call("cf", 0, "-", FALSE)
      [] op[1] = "cl" -> over' = {} /\ passed' = {} /\ last' = A!Call("cl", 0, "-", FALSE)

Monitor(op) == LET w == Why(op) IN
               w[1] # "ok" => PrintT(<<"FINDING", ToJson(w), ToJson(hist')>>)

RInit == MInit /\ over = {} /\ passed = {} /\ last = A!Call("init", 0, "-", FALSE) /\ hist = <<>>

RStep(op) == /\ MStep(op) /\ Ghost(op)
             /\ hist' = IF TrackHist THEN Append(hist, op) ELSE hist
             /\ (TrackHist => Monitor(op))

RNext == \E op \in ROps : RStep(op)
RSpec == RInit /\ [][RNext]_<<rvars, hist>>

RView == rvars          \* the history is not part of the state (BFS => hist is a shortest path)

\* liveness: weak fairness on a non-empty dequeue and on the arrival of the awaited confirmation
RDequeueSome == DRes.k # "e" /\ RStep(<<"dq">>)
RConfirm     == outstanding # None /\ RStep(<<"cf">>)
RFairSpec == RSpec /\ WF_<<rvars, hist>>(RDequeueSome) /\ WF_<<rvars, hist>>(RConfirm)
EventuallySent == A!EventuallySent
IndicationsEventuallySent ==
    \A e \in Idx \X {"i"} : (e \in AbsPending) ~> (e \notin AbsPending \/ A!HigherBusy(e))
Refines == A!Spec
=============================================================================
