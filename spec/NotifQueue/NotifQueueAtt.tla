----------------------------- MODULE NotifQueueAtt -----------------------------
(* C11 at ATT level: what a GATT client may observe on one connection.                     *)
(*                                                                                          *)
(*   sub[c]    the kinds ("n", "i") the client has enabled in the CCCD of characteristic c  *)
(*   must      accepted requests <<c, kind>> whose kind has been enabled ever since they    *)
(*             were accepted: they have to be transmitted                                   *)
(*   may       accepted requests that were not enabled at some moment since: the server may *)
(*             have dropped them silently (it looks at the CCCD when it builds the PDU)     *)
(*   awaiting  a Handle Value Indication (0x1D) was transmitted and no well formed Handle   *)
(*             Value Confirmation (0x1E, length 1) has been received since                  *)
(*                                                                                          *)
(* Poll = the link layer asks for an outgoing PDU until it gets one (bounded number of      *)
(* calls, each call may drop one request that is not enabled).  The property:               *)
(*   - an indication PDU is only transmitted while ~awaiting; notifications continue;       *)
(*   - Poll yields nothing only if nothing transmittable is owed (must), where an owed      *)
(*     indication is transmittable iff ~awaiting  ("never lost");                           *)
(*   - a confirmation of wrong length changes nothing (rejected), a well formed one ends    *)
(*     the waiting and is not answered.                                                     *)
(* Order among several transmittable requests (priority / fairness) is C12, not judged here.*)
EXTENDS Integers, FiniteSets, Sequences

CONSTANTS NC        \* number of characteristics (0 .. NC-1)

Chars == 0 .. NC - 1
Kinds == {"n", "i"}
Req   == Chars \X Kinds
Flags(f) == (IF f % 2 = 1 THEN {"n"} ELSE {}) \cup (IF (f \div 2) % 2 = 1 THEN {"i"} ELSE {})

VARIABLES sub, must, may, awaiting,
          phantom   \* diagnostic ghost (only used to NAME a finding): since the last well formed confirmation the
                    \* server was polled while an indication it may drop silently (may) was queued and ~awaiting
avars == <<sub, must, may, awaiting, phantom>>

ATypeOK == /\ sub \in [Chars -> SUBSET Kinds] /\ must \subseteq Req /\ may \subseteq Req /\ awaiting \in BOOLEAN /\ phantom \in BOOLEAN
           /\ must \cap may = {}
           /\ \A e \in must : e[2] \in sub[e[1]]

AInit == sub = [c \in Chars |-> {}] /\ must = {} /\ may = {} /\ awaiting = FALSE /\ phantom = FALSE

\* the client writes the CCCD of c
Subscribe(c, f) ==
    LET off == {e \in must : e[1] = c /\ e[2] \notin Flags(f)} IN
    /\ sub' = [sub EXCEPT ![c] = Flags(f)]
    /\ must' = must \ off
    /\ may' = may \cup off
    /\ UNCHANGED <<awaiting, phantom>>

\* server.notify<c>() / server.indicate<c>() returned r (TRUE = newly queued)
Request(c, k, r) ==
    LET e == <<c, k>> IN
    /\ IF r THEN IF k \in sub[c] THEN must' = must \cup {e} /\ may' = may \ {e}
                                 ELSE may' = (may \cup {e}) /\ must' = must
            ELSE UNCHANGED <<must, may>>           \* refused or already pending: nothing new is owed
    /\ UNCHANGED <<sub, awaiting, phantom>>

Transmittable == {e \in must : e[2] = "i" => ~awaiting}

\* op = 0: nothing; 27 (0x1B) notification of c; 29 (0x1D) indication of c
PhantomAfter == phantom \/ (~awaiting /\ \E e \in may : e[2] = "i")
Poll(op, c) ==
    /\ phantom' = PhantomAfter
    /\ \/ /\ op = 0 /\ Transmittable = {}
          /\ UNCHANGED <<sub, must, may, awaiting>>
       \/ /\ op = 27 /\ c \in Chars /\ <<c, "n">> \in must \cup may /\ "n" \in sub[c]
          /\ must' = must \ {<<c, "n">>} /\ may' = may \ {<<c, "n">>}
          /\ UNCHANGED <<sub, awaiting>>
       \/ /\ op = 29 /\ c \in Chars /\ <<c, "i">> \in must \cup may /\ "i" \in sub[c]
          /\ ~awaiting                                             \* at most one outstanding indication
          /\ awaiting' = TRUE
          /\ must' = must \ {<<c, "i">>} /\ may' = may \ {<<c, "i">>}
          /\ UNCHANGED sub

\* the client sends opcode 0x1E with a PDU of length len; rsp = the server's answer (bytes)
IsErrorRsp(rsp) == Len(rsp) = 5 /\ rsp[1] = 1 /\ rsp[2] = 30
Confirmation(len, rsp) ==
    IF len = 1 THEN /\ rsp = <<>>
                    /\ awaiting' = FALSE /\ phantom' = FALSE /\ UNCHANGED <<sub, must, may>>
               ELSE /\ (rsp = <<>> \/ IsErrorRsp(rsp))           \* rejected: no effect at all
                    /\ UNCHANGED avars

OtherTraffic == UNCHANGED avars

ANext == \/ \E c \in Chars, f \in 0 .. 3 : Subscribe(c, f)
         \/ \E c \in Chars, k \in Kinds, r \in BOOLEAN : Request(c, k, r)
         \/ \E op \in {0, 27, 29}, c \in Chars : Poll(op, c)
         \/ \E len \in 1 .. 3 : Confirmation(len, <<>>)
ASpec == AInit /\ [][ANext]_avars

\* C11 safety restated on the model: between an indication PDU and a well formed confirmation no indication PDU
\* (an indication request leaves must/may only by being transmitted)
AtMostOneIndicationInFlight ==
    [][(\E c \in Chars : <<c, "i">> \in (must \cup may) /\ <<c, "i">> \notin (must' \cup may')) => (~awaiting /\ awaiting')]_avars
NotificationsContinue == (\E e \in must : e[2] = "n") => Transmittable # {}
=============================================================================
