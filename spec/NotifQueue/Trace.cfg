CONSTANTS S1 = 1 S2 = 2 S3 = 0 TrackLast = FALSE
SPECIFICATION TSpec
INVARIANTS TypeOK GhostOK
CHECK_DEADLOCK FALSE
