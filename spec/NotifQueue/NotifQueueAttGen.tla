---------------------------- MODULE NotifQueueAttGen ----------------------------
(* Call sequences for the ATT level harness.  A behaviour = initial CCCD values (one `sub`  *)
(* per characteristic; all combinations, or the fixed vector F0,F1,F2 if FixedSub) followed *)
(* by D calls out of: notify c, indicate c (only where the characteristic has the property),*)
(* poll, confirm len (1 well formed, 2 and 3 malformed), read, and at most MaxResub later   *)
(* CCCD writes.  BFS: all sequences; -simulate: random ones.                                *)
(* AvoidUnsubInd = TRUE never indicates a characteristic whose indications are not enabled  *)
(* (keeps walks clear of a known defect so that the rest of them is still validated).       *)
EXTENDS Integers, Sequences, TLC, Json

CONSTANTS NC, CanN, CanI, D, MaxResub, FixedSub, F0, F1, F2, AvoidUnsubInd
VARIABLES hist, resub, cur
Chars == 0 .. NC - 1
FlagsOf(c) == {f \in 0 .. 3 : (f % 2 = 1 => c \in CanN) /\ (f \div 2 = 1 => c \in CanI)}
Fixed == <<F0, F1, F2>>

GInit == /\ resub = 0
         /\ \E fs \in [Chars -> 0 .. 3] :
                /\ \A c \in Chars : fs[c] \in FlagsOf(c) /\ (FixedSub => fs[c] = Fixed[c + 1])
                /\ hist = [i \in 1 .. NC |-> <<"sub", i - 1, fs[i - 1]>>]
                /\ cur = fs
Calls == {<<"notify", c>> : c \in CanN}
            \cup {<<"indicate", c>> : c \in {x \in CanI : AvoidUnsubInd => cur[x] \div 2 = 1}}
            \cup {<<"poll">>, <<"read", 0>>} \cup {<<"confirm", n>> : n \in 1 .. 3}
GNext == /\ Len(hist) < NC + D
         /\ \/ \E op \in Calls : hist' = Append(hist, op) /\ UNCHANGED <<resub, cur>>
            \/ /\ resub < MaxResub /\ resub' = resub + 1
               /\ \E c \in Chars : \E f \in FlagsOf(c) : hist' = Append(hist, <<"sub", c, f>>) /\ cur' = [cur EXCEPT ![c] = f]
GSpec == GInit /\ [][GNext]_<<hist, resub, cur>>
Emit == Len(hist) = NC + D => PrintT(<<"BEHAVIOUR", ToJson(hist)>>)
=============================================================================
