----------------------------- MODULE PduRingImpl -----------------------------
(* Implementation-shaped model of pdu_ring_buffer (ring_buffer.hpp), written to be bound:   *)
(* the two pointers front_/end_ (as offsets into the storage), the wrap mark (a 16 bit 0      *)
(* header written at front_ when an allocation wrapped), lengths read back from the stored    *)
(* headers, and the uint8_t narrowing of pdu_length( const P& ) in push_front.                *)
(* `live` (from PduRing) is a ghost here: it records what the user committed.                 *)
(*                                                                                            *)
(* Checked: every step of this model is a step of the property-level PduRing (RefinesXxx), and *)
(* alloc_front hands out only free regions (AllocSound) and fails only when the placement     *)
(* rule has no room (AllocComplete / AllocCompleteNonEmpty).                                  *)
(* It is also the behaviour generator for the replay on the real class (PduRingGen).          *)
EXTENDS PduRing, TLC

CONSTANT Alphabet        \* "full": every size / "real": the sizes that occur in practice (for large rings)

\* memory sizes of the PDUs the environment commits (MinSz < len; <= 254 = documented maximum 251 + layout overhead:
\* beyond 255 push_front narrows to uint8_t) and the sizes it asks alloc_front for
Lens  == IF Alphabet = "full" THEN MinSz + 1 .. Size
         ELSE { x \in { MinSz + 1, MinSz + 2, MinSz + 7, MinSz + 27, MinSz + 60, MinSz + 100, MinSz + 200, MinSz + 249, MinSz + 251 } :
                  x <= Size /\ x <= 254 }
Sizes == IF Alphabet = "full" THEN MinSz + 1 .. Size + 1
         ELSE Lens \cup { x \in { Size - 1, Size, Size \div 2, Size \div 2 + 1 } : x > MinSz }

VARIABLES front, end,    \* front_ - buffer, end_ - buffer
          bad            \* "" or a description of an access outside the storage / of a garbage header

ivars == <<Size, MinSz, live, mem, front, end, bad>>

Trunc8(n) == n % 256                                   \* std::uint8_t pdu_length( const P& )

\* Layout::header( p, v ): bytes p[0], p[1];  pdu_length( p ) = MinSz + p[1]
Mark(a)   == { [a |-> a, v |-> 0], [a |-> a + 1, v |-> 0] }
LenAt(a)  == MinSz + mem[a + 1]

(* alloc_front( buffer, size ): offset of the returned buffer or -1 *)
AllocAt(size) ==
    IF end > front /\ size < end - front THEN front           \* split: one byte must stay free
    ELSE IF front >= end
         THEN IF size <= Size - front THEN front              \* at the end
              ELSE IF size < end THEN 0                        \* at the beginning, one byte free
              ELSE -1
         ELSE -1

IInit == (\E c \in Configs : Init(CfgSize(c), CfgMin(c))) /\ front = 0 /\ end = 0 /\ bad = ""

\* reset( buffer )
IReset ==
    /\ front' = 0 /\ end' = 0 /\ bad' = ""
    /\ live' = <<>>
    /\ mem' = Apply([a \in Cells |-> 0], Mark(0))
    /\ UNCHANGED cfg

PushW(off) == IF front # off /\ front + 1 < Size THEN Mark(front) ELSE {}

\* alloc_front( size ) succeeded at off == AllocAt(size); user fills [off, off+size); push_front( pdu )
IPush(id, size, len) ==
    LET off    == AllocAt(size)
        filled == [a \in Cells |-> IF a >= off /\ a < off + size
                                   THEN (IF a < off + len THEN Content(id, len, a - off) ELSE id)
                                   ELSE mem[a]]
    IN /\ off # -1
       /\ len > MinSz /\ len <= size
       /\ off + size <= Size                 \* else the user itself would write outside: AllocSound forbids
       /\ mem'   = Apply(filled, PushW(off))
       /\ front' = off + Trunc8(len)
       /\ end'   = IF front = end THEN off ELSE end
       /\ live'  = Append(live, [id |-> id, off |-> off, len |-> len])
       /\ bad'   = bad
       /\ UNCHANGED cfg

\* pop_end( buffer )   @pre not empty
IPop ==
    /\ front # end
    /\ IF end + 1 >= Size
       THEN bad' = "pop_end reads a header outside the storage" /\ UNCHANGED <<cfg, front, end, live, mem>>
       ELSE LET e1 == end + LenAt(end) IN
            /\ end' = IF e1 # front /\ (e1 + 1 >= Size \/ mem[e1 + 1] = 0) THEN 0 ELSE e1
            /\ live' = IF live = <<>> THEN live ELSE Tail(live)
            /\ UNCHANGED <<cfg, front, mem, bad>>

\* next_end()
IPeekNonEmpty == front # end
IPeekOff      == end
IPeekLen      == LenAt(end)
\* more_than_one()
IMore         == end # front /\ end + LenAt(end) # front

INext ==
    \/ \E size \in Sizes, len \in Lens : IPush(FreshId, size, len)
    \/ IPop
    \/ IReset

(* ---- refinement: every implementation step is a property-level step --------------------- *)
ISpec == IInit /\ [][INext /\ Len(live') <= MaxLive]_ivars

RefinesPush  == [][\A size \in Sizes, len \in Lens :
                      IPush(FreshId, size, len) => Push(FreshId, AllocAt(size), size, len, PushW(AllocAt(size)))]_ivars
RefinesPop   == [][IPop /\ bad' = "" => Pop({})]_ivars
RefinesReset == [][IReset => Reset(Size, MinSz, Mark(0))]_ivars

NoBadAccess  == bad = ""
PtrOK        == front \in 0 .. Size /\ end \in 0 .. Size
\* what next_end() / more_than_one() return is what the property level says
PeekOK       == /\ IPeekNonEmpty = (live # <<>>)
                /\ live # <<>> => /\ end + 1 < Size
                                  /\ IPeekOff = Oldest.off /\ IPeekLen = Oldest.len
                                  /\ IMore = MoreThanOne
AllocSound   == \A size \in Sizes : AllocAt(size) # -1 => Free(AllocAt(size), size)
AllocCompleteNonEmpty == live # <<>> => \A size \in Sizes : HasRoom(size) => AllocAt(size) # -1
AllocCompleteEmpty    == live = <<>> => \A size \in Sizes : HasRoom(size) => AllocAt(size) # -1
=============================================================================
