----------------------------- MODULE PduRingImpl -----------------------------
(* Implementation-shaped model of pdu_ring_buffer (ring_buffer.hpp), written to be bound:   *)
(* the two pointers front_/end_ (as offsets into the storage), the wrap mark (a 16 bit 0      *)
(* header written at front_ when an allocation wrapped), lengths read back from the stored    *)
(* headers, and the uint8_t narrowing of pdu_length( const P& ) in push_front.                *)
(* `live` (from PduRing) is a ghost here: it records what the user committed.                 *)
(*                                                                                            *)
(* Checked: every step of this model is a step of the property-level PduRing (RefinesXxx), and *)
(* alloc_front hands out only free regions (AllocSound) and fails only when the placement     *)
(* rule has no room (AllocComplete / AllocCompleteNonEmpty).                                  *)
(* It is also the behaviour generator for the replay on the real class (PduRingGen).          *)
EXTENDS PduRing, TLC

CONSTANT MaxPdu          \* largest PDU memory size used by the environment (<= 255 + MinSz)

VARIABLES front, end,    \* front_ - buffer, end_ - buffer
          bad            \* "" or a description of an access outside the storage / of a garbage header

ivars == <<live, mem, front, end, bad>>

Trunc8(n) == n % 256                                   \* std::uint8_t pdu_length( const P& )

\* Layout::header( p, v ): bytes p[0], p[1];  pdu_length( p ) = MinSz + p[1]
Mark(a)   == { [a |-> a, v |-> 0], [a |-> a + 1, v |-> 0] }
LenAt(a)  == MinSz + mem[a + 1]

(* alloc_front( buffer, size ): offset of the returned buffer or -1 *)
AllocAt(size) ==
    IF end > front /\ size < end - front THEN front           \* split: one byte must stay free
    ELSE IF front >= end
         THEN IF size <= Size - front THEN front              \* at the end
              ELSE IF size < end THEN 0                        \* at the beginning, one byte free
              ELSE -1
         ELSE -1

IInit == Init /\ front = 0 /\ end = 0 /\ bad = ""

\* reset( buffer )
IReset ==
    /\ front' = 0 /\ end' = 0 /\ bad' = ""
    /\ live' = <<>>
    /\ mem' = Apply(mem, Mark(0))

PushW(off) == IF front # off /\ front + 1 < Size THEN Mark(front) ELSE {}

\* alloc_front( size ) succeeded at off == AllocAt(size); user fills [off, off+size); push_front( pdu )
IPush(id, size, len) ==
    LET off    == AllocAt(size)
        filled == [a \in Cells |-> IF a >= off /\ a < off + size
                                   THEN (IF a < off + len THEN Content(id, len, a - off) ELSE id)
                                   ELSE mem[a]]
    IN /\ off # -1
       /\ len > MinSz /\ len <= size
       /\ off + size <= Size                 \* else the user itself would write outside: AllocSound forbids
       /\ mem'   = Apply(filled, PushW(off))
       /\ front' = off + Trunc8(len)
       /\ end'   = IF front = end THEN off ELSE end
       /\ live'  = Append(live, [id |-> id, off |-> off, len |-> len])
       /\ bad'   = bad

\* pop_end( buffer )   @pre not empty
IPop ==
    /\ front # end
    /\ IF end + 1 >= Size
       THEN bad' = "pop_end reads a header outside the storage" /\ UNCHANGED <<front, end, live, mem>>
       ELSE LET e1 == end + LenAt(end) IN
            /\ end' = IF e1 # front /\ (e1 + 1 >= Size \/ mem[e1 + 1] = 0) THEN 0 ELSE e1
            /\ live' = IF live = <<>> THEN live ELSE Tail(live)
            /\ UNCHANGED <<front, mem, bad>>

\* next_end()
IPeekNonEmpty == front # end
IPeekOff      == end
IPeekLen      == LenAt(end)
\* more_than_one()
IMore         == end # front /\ end + LenAt(end) # front

INext(sizes, lens) ==
    \/ \E size \in sizes, len \in lens : IPush(FreshId, size, len)
    \/ IPop
    \/ IReset

(* ---- refinement: every implementation step is a property-level step --------------------- *)
Sizes == MinSz + 1 .. Size + 1
Lens  == MinSz + 1 .. MaxPdu

ISpec == IInit /\ [][INext(Sizes, Lens) /\ Len(live') <= MaxLive]_ivars

RefinesPush  == [][\A size \in Sizes, len \in Lens :
                      IPush(FreshId, size, len) => Push(FreshId, AllocAt(size), size, len, PushW(AllocAt(size)))]_ivars
RefinesPop   == [][IPop /\ bad' = "" => Pop({})]_ivars
RefinesReset == [][IReset => Reset(Mark(0))]_ivars

NoBadAccess  == bad = ""
PtrOK        == front \in 0 .. Size /\ end \in 0 .. Size
\* what next_end() / more_than_one() return is what the property level says
PeekOK       == /\ IPeekNonEmpty = (live # <<>>)
                /\ live # <<>> => /\ end + 1 < Size
                                  /\ IPeekOff = Oldest.off /\ IPeekLen = Oldest.len
                                  /\ IMore = MoreThanOne
AllocSound   == \A size \in Sizes : AllocAt(size) # -1 => Free(AllocAt(size), size)
AllocCompleteNonEmpty == live # <<>> => \A size \in Sizes : HasRoom(size) => AllocAt(size) # -1
AllocCompleteEmpty    == live = <<>> => \A size \in Sizes : HasRoom(size) => AllocAt(size) # -1
=============================================================================
