CONSTANTS MaxLive = 3  Configs = {<<6,2>>, <<6,3>>, <<7,2>>, <<7,3>>}  Alphabet = "full"  D = 60  EmitAll = TRUE
SPECIFICATION GSpec
VIEW View
CHECK_DEADLOCK FALSE
