CONSTANTS MaxLive = 3  Configs = {62, 63, 72, 73}  Alphabet = "full"  D = 60  EmitAll = TRUE
SPECIFICATION GSpec
VIEW View
CHECK_DEADLOCK FALSE
