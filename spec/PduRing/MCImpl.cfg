CONSTANTS MaxLive = 3  Configs = {<<8,2>>, <<9,3>>}  Alphabet = "full"
SPECIFICATION ISpec
INVARIANTS TypeOK InStorage NoOverlap IntactInv DistinctIds NoBadAccess PtrOK PeekOK AllocSound AllocCompleteNonEmpty
PROPERTIES RefinesPush RefinesPop RefinesReset
CHECK_DEADLOCK FALSE
