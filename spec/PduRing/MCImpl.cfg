CONSTANTS Size = 8  MinSz = 2  MaxLive = 3  MaxPdu = 8
SPECIFICATION ISpec
INVARIANTS TypeOK InStorage NoOverlap IntactInv DistinctIds NoBadAccess PtrOK PeekOK AllocSound AllocCompleteNonEmpty
PROPERTIES RefinesPush RefinesPop RefinesReset
CHECK_DEADLOCK FALSE
