CONSTANTS MaxLive = 3  Configs = {82, 93}  Alphabet = "full"
SPECIFICATION ISpec
INVARIANTS TypeOK InStorage NoOverlap IntactInv DistinctIds NoBadAccess PtrOK PeekOK AllocSound AllocCompleteNonEmpty
PROPERTIES RefinesPush RefinesPop RefinesReset
CHECK_DEADLOCK FALSE
