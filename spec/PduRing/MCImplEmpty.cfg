CONSTANTS MaxLive = 3  Configs = {<<8,2>>, <<9,3>>}  Alphabet = "full"
SPECIFICATION ISpec
INVARIANTS AllocCompleteEmpty
CHECK_DEADLOCK FALSE
