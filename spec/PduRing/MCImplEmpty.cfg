CONSTANTS MaxLive = 3  Configs = {82, 93}  Alphabet = "full"
SPECIFICATION ISpec
INVARIANTS AllocCompleteEmpty
CHECK_DEADLOCK FALSE
