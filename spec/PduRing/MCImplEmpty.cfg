CONSTANTS Size = 8  MinSz = 2  MaxLive = 3  MaxPdu = 8
SPECIFICATION ISpec
INVARIANTS AllocCompleteEmpty
CHECK_DEADLOCK FALSE
