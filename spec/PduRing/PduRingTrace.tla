----------------------------- MODULE PduRingTrace -----------------------------
(* Trace validation for C18: every recorded call of the real pdu_ring_buffer must be a step   *)
(* of the property-level PduRing.  Event format (harness/pduring/pduring_harness.cpp):         *)
(*   {"e":"Reset","size":S,"min":M,"layout":k, <c>}                                         *)
(*   {"e":"alloc","size":s,"r":bool,"off":o,"rsize":n, <c>}     alloc_front                  *)
(*   {"e":"push","id":i,"off":o,"size":s,"len":n, <c>}          user fill + push_front       *)
(*   {"e":"peek","r":bool,"off":o,"len":n,"runs":[[v,k]..], <c>} next_end + bytes read       *)
(*   {"e":"pop","r":bool, <c>}                                   pop_end (r: ring not empty)  *)
(*   {"e":"Undo"}                                                                            *)
(*   <c> = "w":[[a,v]..] bytes changed by the ring call, "empty":bool, "more":bool, ["b":1]  *)
(*                                                                                           *)
(* Tree traces: to replay *every* (state, operation) pair of the bounded model without        *)
(* re-executing prefixes, the harness can restore the ring + storage to the state before an    *)
(* operation ("Undo" event; "b":1 marks the first event of an operation).  A trace is then a   *)
(* depth first walk through a tree of histories, and every root-to-node path of the tree is a  *)
(* real execution.  `stk` holds the specification states to return to.  After an event that    *)
(* no action explains, the operation's subtree is skipped (`skip` counts nested operations)    *)
(* up to its Undo, where the walk is in a known state again; without Undo events the rest of   *)
(* the execution is skipped up to the next Reset, as in the other trace specifications.        *)
EXTENDS PduRing, Json, IOUtils, TLC

Tr == ndJsonDeserialize(IOEnv.TRACE)

VARIABLES l,      \* position in the trace
          stk,    \* sequence of <<live, mem>>: states before the operations that are not yet undone
          skip    \* 0: validating;  n > 0: inside the subtree of a rejected operation, n operations deep
tvars == <<vars, l, stk, skip>>

Ev == Tr[l]
Has(ev, k) == k \in DOMAIN ev
Begins(ev) == Has(ev, "b")

WOf(ev) == { [a |-> ev.w[i][1], v |-> ev.w[i][2]] : i \in 1 .. Len(ev.w) }

RECURSIVE Expand(_)
Expand(rs) == IF rs = <<>> THEN <<>> ELSE [k \in 1 .. rs[1][2] |-> rs[1][1]] \o Expand(Tail(rs))

\* the observers logged with an event must equal the projection of the state after the step
ObsOK(ev) == ev.empty = (live' = <<>>) /\ ev.more = (Len(live') > 1)

Explain(ev) ==
    \/ ev.e = "Reset" /\ Reset(ev.size, ev.min, WOf(ev)) /\ ObsOK(ev)
    \/ ev.e = "alloc" /\ Alloc(ev.size, ev.r, ev.off, WOf(ev)) /\ (ev.r => ev.rsize = ev.size) /\ ObsOK(ev)
    \/ ev.e = "push"  /\ Push(ev.id, ev.off, ev.size, ev.len, WOf(ev)) /\ ObsOK(ev)
    \/ ev.e = "peek"  /\ Peek(ev.r, ev.off, ev.len, Expand(ev.runs)) /\ WOf(ev) = {} /\ ObsOK(ev)
    \/ ev.e = "pop"   /\ ev.r /\ Pop(WOf(ev)) /\ ObsOK(ev)
    \/ ev.e = "pop"   /\ ~ev.r /\ live = <<>> /\ WOf(ev) = {} /\ UNCHANGED vars

Resets == {i \in 1..Len(Tr) : Tr[i].e = "Reset"}
NextReset(i) == IF \E j \in Resets : j > i
                THEN CHOOSE j \in Resets : j > i /\ \A k \in Resets : k > i => j <= k
                ELSE Len(Tr) + 1
\* is the execution that contains event i a tree walk (does it use Undo)?
HasUndo(i) == \E j \in i .. NextReset(i) - 1 : Tr[j].e = "Undo"

TInit == Init(1, 1) /\ l = 1 /\ stk = <<>> /\ skip = 0

Pushed(ev) == IF Begins(ev) /\ ev.e # "Reset" THEN Append(stk, <<live, mem>>) ELSE stk

TNext ==
    \/ /\ l <= Len(Tr) /\ skip = 0 /\ Ev.e # "Undo"
       /\ IF ENABLED Explain(Ev)
          THEN /\ Explain(Ev) /\ l' = l + 1 /\ skip' = 0
               /\ stk' = IF Ev.e = "Reset" THEN <<>> ELSE Pushed(Ev)
          ELSE /\ PrintT(<<"MISMATCH", l>>)
               /\ UNCHANGED vars
               /\ IF HasUndo(l) /\ Ev.e # "Reset"
                  THEN l' = l + 1 /\ skip' = 1 /\ stk' = Pushed(Ev)
                  ELSE l' = NextReset(l) /\ skip' = 0 /\ stk' = <<>>
    \/ /\ l <= Len(Tr) /\ skip = 0 /\ Ev.e = "Undo"
       /\ live' = stk[Len(stk)][1] /\ mem' = stk[Len(stk)][2] /\ UNCHANGED cfg
       /\ stk' = SubSeq(stk, 1, Len(stk) - 1)
       /\ l' = l + 1 /\ skip' = 0
    \/ /\ l <= Len(Tr) /\ skip > 0
       /\ IF Ev.e = "Reset" THEN l' = l /\ skip' = 0 /\ stk' = <<>> /\ UNCHANGED vars    \* a new execution ends the skip
          ELSE IF Ev.e = "Undo"
          THEN /\ skip' = skip - 1 /\ l' = l + 1
               /\ IF skip = 1
                  THEN /\ live' = stk[Len(stk)][1] /\ mem' = stk[Len(stk)][2] /\ UNCHANGED cfg
                       /\ stk' = SubSeq(stk, 1, Len(stk) - 1)
                  ELSE UNCHANGED <<vars, stk>>
          ELSE /\ skip' = (IF Begins(Ev) THEN skip + 1 ELSE skip) /\ l' = l + 1
               /\ UNCHANGED <<vars, stk>>
    \/ /\ l = Len(Tr) + 1
       /\ PrintT(<<"TRACE_DONE", Len(Tr)>>)
       /\ l' = l + 1 /\ UNCHANGED <<vars, stk, skip>>

TSpec == TInit /\ [][TNext]_tvars
=============================================================================
