------------------------------- MODULE PduRing -------------------------------
(* Property-level specification of the variable size PDU ring (C18):                        *)
(*   bluetoe::link_layer::pdu_ring_buffer< Size, Buffer, Layout >                           *)
(*                                                                                          *)
(* The storage is an array of Size byte cells 0..Size-1 (`mem`, one tag per byte).  The     *)
(* ring hands out regions of it (alloc_front), the user fills a region with a PDU and       *)
(* commits it (push_front); committed (live) PDUs are read (next_end) and released          *)
(* (pop_end) oldest first.  One action per public call; every action carries               *)
(*   W   the set of byte cells [a |-> address, v |-> new value] the *ring itself* changed   *)
(*       during the call (wrap marks, headers ...).  The property leaves the ring free to   *)
(*       scribble wherever it likes - except into live PDUs and outside its storage.        *)
(*                                                                                          *)
(* What C18 demands:                                                                        *)
(*   FIFO        live PDUs are returned in commit order (Peek/Pop work on Head(live))       *)
(*   Intact      the bytes of every live PDU are the bytes that were committed              *)
(*   Disjoint    a region handed out by alloc lies inside the storage and is disjoint from  *)
(*               every live PDU (so live PDUs never overlap)                                *)
(*   InBounds    nothing is written outside 0..Size-1                                       *)
(*   Room        alloc fails only when the placement rule HasRoom has no room               *)
EXTENDS Integers, Sequences, FiniteSets

VARIABLES Size,    \* bytes of storage           } the configuration (template arguments): chosen when the ring is
          MinSz,   \* Layout::data_channel_pdu_memory_size( 0 ): 2 (default layout), 3 (nRF encrypted "+1" layout) } constructed
          live,    \* sequence of [id, off, len]: committed PDUs, oldest first
          mem      \* [0..Size-1 -> byte value]

cfg  == <<Size, MinSz>>
vars == <<Size, MinSz, live, mem>>

Cells == 0 .. Size - 1

(* A PDU with id `id` and memory size `len` consists of `len` bytes: the LL header (byte 0   *)
(* carries the id, byte 1 the length field = payload size = len - MinSz, which must not be  *)
(* 0: precondition of push_front) and then id bytes.                                        *)
Content(id, len, k) == IF k = 1 THEN len - MinSz ELSE id

Extent(p)      == p.off .. (p.off + p.len - 1)
LiveBytes(lv)  == UNION { Extent(lv[i]) : i \in 1 .. Len(lv) }
Ids(lv)        == { lv[i].id : i \in 1 .. Len(lv) }

\* a region that may be handed out: inside the storage, disjoint from all live PDUs
Free(off, size) == /\ off >= 0 /\ size >= 0 /\ off + size <= Size
                   /\ (off .. (off + size - 1)) \cap LiveBytes(live) = {}

(* ---- the ring's placement rule, stated once ------------------------------------------- *)
(* (header comment of ring_buffer.hpp and the comments in alloc_front)                      *)
(*  - PDUs are stored in address order, newest after the previous one; the sequence wraps   *)
(*    to the start of the storage at most once ("split").                                  *)
(*  - not split: a PDU of `size` bytes fits contiguously behind the newest PDU up to the    *)
(*    end of the storage, or else at the start of the storage *strictly* below the oldest   *)
(*    PDU (one byte is always kept free, otherwise full and empty look alike).              *)
(*  - split: it fits behind the newest PDU strictly below the oldest PDU.                   *)
(*  - empty: "When the ring buffer is empty it is garantied that the buffer can store one   *)
(*    elemente of at least Size - 1 in size."                                               *)
Oldest == live[1]
Newest == live[Len(live)]
NewestEnd == Newest.off + Newest.len
Split  == Newest.off < Oldest.off

HasRoom(size) ==
    IF live = <<>> THEN size <= Size - 1
    ELSE IF ~Split THEN size <= Size - NewestEnd \/ size < Oldest.off
    ELSE size < Oldest.off - NewestEnd

(* ---- what the ring itself may write ---------------------------------------------------- *)
InBounds(W)        == \A w \in W : w.a \in Cells
SparesLive(W, lv)  == \A w \in W : w.a \notin LiveBytes(lv)
Apply(m, W)        == [a \in Cells |-> IF \E w \in W : w.a = a THEN (CHOOSE w \in W : w.a = a).v ELSE m[a]]

Intact(m, lv) == \A i \in 1 .. Len(lv) : \A k \in 0 .. lv[i].len - 1 :
                     m[lv[i].off + k] = Content(lv[i].id, lv[i].len, k)

(* ---- actions ----------------------------------------------------------------------------*)
Init(S, M) == Size = S /\ MinSz = M /\ live = <<>> /\ mem = [a \in 0 .. S - 1 |-> 0]

\* constructor of pdu_ring_buffer< S, Buffer, Layout with minimum M > / reset(): the ring is empty; it may
\* initialise its storage
Reset(S, M, W) ==
    /\ Size' = S /\ MinSz' = M
    /\ \A w \in W : w.a \in 0 .. S - 1
    /\ live' = <<>>
    /\ mem' = [a \in 0 .. S - 1 |-> IF \E w \in W : w.a = a THEN (CHOOSE w \in W : w.a = a).v ELSE 0]

\* alloc_front( size ) -> r = "a non-empty buffer was returned", at offset off.  @pre size > MinSz
Alloc(size, r, off, W) ==
    /\ size > MinSz
    /\ r  => Free(off, size)                 \* Disjoint
    /\ ~r => ~HasRoom(size)                  \* Room
    /\ InBounds(W) /\ SparesLive(W, live)
    /\ mem' = Apply(mem, W)
    /\ UNCHANGED <<cfg, live>>

(* the user fills the region [off, off+size) handed out by alloc_front( size ) in this very  *)
(* state with PDU `id` of `len` <= size bytes (the rest of the region is scratch and gets id  *)
(* bytes as well) and commits it with push_front.                                            *)
Push(id, off, size, len, W) ==
    /\ Free(off, size)                       \* environment: only regions that alloc handed out
    /\ MinSz < len /\ len <= size
    /\ id \notin Ids(live)
    /\ LET nl == Append(live, [id |-> id, off |-> off, len |-> len])
           filled == [a \in Cells |-> IF a >= off /\ a < off + size
                                      THEN (IF a < off + len THEN Content(id, len, a - off) ELSE id)
                                      ELSE mem[a]]
       IN /\ InBounds(W) /\ SparesLive(W, nl)
          /\ live' = nl
          /\ mem'  = Apply(filled, W)
          /\ UNCHANGED cfg

\* next_end() -> r = "non-empty", the buffer [off, off+len) and the bytes read through it
Peek(r, off, len, bytes) ==
    /\ r = (live # <<>>)
    /\ r => /\ off = Oldest.off /\ len = Oldest.len                                  \* FIFO
            /\ bytes = [k \in 1 .. len |-> Content(Oldest.id, Oldest.len, k - 1)]   \* Intact, as seen by the reader
    /\ UNCHANGED vars

\* pop_end()  @pre the ring is not empty
Pop(W) ==
    /\ live # <<>>
    /\ InBounds(W) /\ SparesLive(W, Tail(live))
    /\ live' = Tail(live)
    /\ mem'  = Apply(mem, W)
    /\ UNCHANGED cfg

\* observers
IsEmpty      == live = <<>>
MoreThanOne  == Len(live) > 1

(* ---- the listed properties as state invariants ------------------------------------------*)
TypeOK   == /\ mem \in [Cells -> Int]
            /\ \A i \in 1 .. Len(live) : live[i].len > MinSz /\ live[i].off \in Cells
InStorage == \A i \in 1 .. Len(live) : Extent(live[i]) \subseteq Cells
NoOverlap == \A i, j \in 1 .. Len(live) : i # j => Extent(live[i]) \cap Extent(live[j]) = {}
IntactInv == Intact(mem, live)
DistinctIds == \A i, j \in 1 .. Len(live) : i # j => live[i].id # live[j].id

(* ---- closed system for exhaustive checking of the property level itself ---------------- *)
(* The abstract ring writes nothing on its own (W = {}) and may place a PDU into *any* free   *)
(* region; ids are the smallest unused ones.                                                  *)
CONSTANTS MaxLive,       \* bound on the number of live PDUs
          Configs        \* set of configurations explored, each encoded as 10 * Size + MinSz (cfg files have no tuples)
CfgSize(c) == c \div 10
CfgMin(c)  == c % 10
FreshId == CHOOSE i \in 1 .. MaxLive + 1 : i \notin Ids(live)
Next ==
    \/ \E size \in MinSz + 1 .. Size + 1, off \in Cells, r \in BOOLEAN : Alloc(size, r, off, {})
    \/ /\ Len(live) < MaxLive
       /\ \E size \in MinSz + 1 .. Size, off \in Cells, len \in MinSz + 1 .. Size :
             Push(FreshId, off, size, len, {})     \* any free region, whether or not the rule has room
    \/ Pop({})
    \/ IF live = <<>> THEN Peek(FALSE, 0, 0, <<>>)
       ELSE Peek(TRUE, Oldest.off, Oldest.len, [k \in 1 .. Oldest.len |-> mem[Oldest.off + k - 1]])
    \/ Reset(Size, MinSz, {})

Spec == (\E c \in Configs : Init(CfgSize(c), CfgMin(c))) /\ [][Next]_vars

\* an empty ring never refuses a PDU of up to Size - 1 bytes; a failing alloc leaves no room
EmptyRoom == live = <<>> => \A size \in MinSz + 1 .. Size - 1 : HasRoom(size)
\* FIFO as an action property: the only way a PDU leaves is from the head, the only way in is at the tail
Fifo == [][\/ live' = live
           \/ live' = <<>>
           \/ live # <<>> /\ live' = Tail(live)
           \/ Len(live') = Len(live) + 1 /\ SubSeq(live', 1, Len(live)) = live]_vars
=============================================================================
