CONSTANTS MaxLive = 9  Configs = {}
SPECIFICATION TSpec
INVARIANTS InStorage NoOverlap IntactInv
CHECK_DEADLOCK FALSE
