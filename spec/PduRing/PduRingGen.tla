------------------------------ MODULE PduRingGen ------------------------------
(* Behaviour generator for the replay on the real pdu_ring_buffer.                            *)
(* The state graph of the implementation-shaped model PduRingImpl is explored breadth first    *)
(* to depth D with the history hidden by VIEW, i.e. every distinct (front, end, mem, live)      *)
(* state is expanded once.  For every transition generated - every (state, operation) pair of   *)
(* the bounded model - the shortest history leading to the state plus the operation is printed  *)
(* as one JSON line; the check keeps the maximal ones (a history that is a prefix of another    *)
(* one is replayed as part of it).  With -simulate it prints random deep histories instead.     *)
(* Operations:  <<"reset", Size, MinSz - 2>> first: the configuration (layout 0 default, 1 nRF)  *)
(*              <<"push", id, size, len>>   alloc_front( size ), fill, push_front (len bytes)   *)
(*                                          (also for sizes the model expects to be refused)     *)
(*              <<"pop">>                    next_end() (logged with its bytes) + pop_end()     *)
EXTENDS PduRingImpl, Json

CONSTANTS D,          \* number of operations
          EmitAll     \* TRUE: print at every transition (exhaustive) / FALSE: print at depth D only (simulation)
VARIABLES hist, fin
gvars == <<ivars, hist, fin>>
\* bytes outside live PDUs matter to the ring only as "wrap mark or not": 0 / not 0
View  == <<Size, MinSz, live, front, end, bad,
           [a \in Cells |-> IF a \in LiveBytes(live) THEN mem[a] ELSE IF mem[a] = 0 THEN 0 ELSE 1]>>

GInit == IInit /\ hist = << <<"reset", Size, MinSz - 2>> >> /\ fin = FALSE

Emit(h) == EmitAll => PrintT(<<"BEHAVIOUR", ToJson(h)>>)

GNext ==
  \/ \* simulation: a complete history is printed once, by a step of its own (not once per candidate successor)
    /\ ~EmitAll /\ Len(hist) = D + 1 /\ ~fin
    /\ fin' = TRUE /\ PrintT(<<"BEHAVIOUR", ToJson(hist)>>)
    /\ UNCHANGED <<ivars, hist>>
  \/
    /\ Len(hist) < D + 1 /\ UNCHANGED fin
    /\ \/ \E size \in Sizes, len \in Lens :
             /\ Len(live) < MaxLive
             /\ IPush(FreshId, size, len)
             /\ hist' = Append(hist, <<"push", FreshId, size, len>>)
       \/ \E size \in Sizes :      \* the model expects alloc_front to refuse; should the real ring grant, a PDU that
             /\ AllocAt(size) = -1  \* fills the region is committed (that is how a wrong grant does damage)
             /\ UNCHANGED ivars
             /\ hist' = Append(hist, <<"push", FreshId, size, IF size <= 254 THEN size ELSE 254>>)
       \/ IPop /\ hist' = Append(hist, <<"pop">>)
    /\ Emit(hist')

GSpec == GInit /\ [][GNext]_gvars
=============================================================================
