CONSTANTS MaxLive = 2  Configs = {<<6,2>>, <<7,3>>}
SPECIFICATION Spec
INVARIANTS TypeOK InStorage NoOverlap IntactInv DistinctIds EmptyRoom
PROPERTIES Fifo
