CONSTANTS MaxLive = 2  Configs = {62, 73}
SPECIFICATION Spec
INVARIANTS TypeOK InStorage NoOverlap IntactInv DistinctIds EmptyRoom
PROPERTIES Fifo
