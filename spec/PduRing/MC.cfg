CONSTANTS Size = 8  MinSz = 2  MaxLive = 2
SPECIFICATION Spec
INVARIANTS TypeOK InStorage NoOverlap IntactInv DistinctIds EmptyRoom
PROPERTIES Fifo
