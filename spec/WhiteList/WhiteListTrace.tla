--------------------------- MODULE WhiteListTrace ---------------------------
(* Trace validation: every recorded call of the real white list must be a step of WhiteList. *)
(* Event format (one JSON object per line):                                                *)
(*   {"e":"Reset","n":N}                                                                  *)
(*   {"e":"add"|"remove","a":id,"r":bool, <obs>}   {"e":"clear", <obs>}                  *)
(*   {"e":"connf"|"scanf","b":bool, <obs>}                                                *)
(*   <obs> = "in":[bool per address id], "free":k, "conn":[bool..], "scan":[bool..], "gc":bool, "gs":bool *)
EXTENDS WhiteList, Json, IOUtils, TLC, Integers

Tr == ndJsonDeserialize(IOEnv.TRACE)

VARIABLE l
tvars == <<vars, l>>

Ev == Tr[l]

\* the observation logged with an event must equal the projection of the state after the step
ObsOK(ev) ==
    /\ \A a \in Addr : /\ ev.in[a + 1]   = IsIn(a)'
                       /\ ev.conn[a + 1] = ConnAccept(a)'
                       /\ ev.scan[a + 1] = ScanAccept(a)'
    /\ ev.free = FreeSize'
    /\ ev.gc = connF' /\ ev.gs = scanF'

Explain(ev) ==
    \/ ev.e = "Reset"  /\ set' = {} /\ connF' = FALSE /\ scanF' = FALSE
    \/ ev.e = "add"    /\ Add(ev.a, ev.r) /\ ObsOK(ev)
    \/ ev.e = "remove" /\ Remove(ev.a, ev.r) /\ ObsOK(ev)
    \/ ev.e = "clear"  /\ Clear /\ ObsOK(ev)
    \/ ev.e = "connf"  /\ SetConnFilter(ev.b) /\ ObsOK(ev)
    \/ ev.e = "scanf"  /\ SetScanFilter(ev.b) /\ ObsOK(ev)

Resets == {i \in 1..Len(Tr) : Tr[i].e = "Reset"}
NextReset(i) == IF \E j \in Resets : j > i
                THEN CHOOSE j \in Resets : j > i /\ \A k \in Resets : k > i => j <= k
                ELSE Len(Tr) + 1

TInit == Init /\ l = 1

TNext ==
    \/ /\ l <= Len(Tr)
       /\ IF ENABLED Explain(Ev)
          THEN Explain(Ev) /\ l' = l + 1
          ELSE PrintT(<<"MISMATCH", l>>) /\ l' = NextReset(l) /\ UNCHANGED vars
    \/ /\ l = Len(Tr) + 1
       /\ PrintT(<<"TRACE_DONE", Len(Tr)>>)
       /\ l' = l + 1 /\ UNCHANGED vars

TSpec == TInit /\ [][TNext]_tvars
=============================================================================
