----------------------------- MODULE WhiteListGen -----------------------------
(* Behaviour generator: all operation sequences of WhiteList up to depth D (BFS) or random *)
(* ones (-simulate); every maximal sequence is printed as one JSON line and replayed on    *)
(* the real classes by harness/whitelist.                                                 *)
EXTENDS WhiteList, TLC, Json

CONSTANT D
VARIABLE hist
gvars == <<vars, hist>>

GInit == Init /\ hist = <<>>

Do(op) == hist' = Append(hist, op)

GNext ==
    /\ Len(hist) < D
    /\ \/ \E a \in Addr, r \in BOOLEAN : \/ Add(a, r)    /\ Do(<<"add", a>>)
                                         \/ Remove(a, r) /\ Do(<<"remove", a>>)
       \/ Clear /\ Do(<<"clear">>)
       \/ \E b \in BOOLEAN : \/ SetConnFilter(b) /\ Do(<<"connf", IF b THEN 1 ELSE 0>>)
                             \/ SetScanFilter(b) /\ Do(<<"scanf", IF b THEN 1 ELSE 0>>)

GSpec == GInit /\ [][GNext]_gvars

\* printed at every leaf (state at depth D); always TRUE
Emit == Len(hist) = D => PrintT(<<"BEHAVIOUR", ToJson(hist)>>)
=============================================================================
