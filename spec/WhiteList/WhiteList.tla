------------------------------ MODULE WhiteList ------------------------------
(* Property-level specification of the link layer white list (C26):             *)
(* a set of at most N device addresses plus two filter switches.                *)
(* One action per public member function; `r` is the value the call returns.    *)
EXTENDS Naturals, FiniteSets, Sequences

CONSTANTS N,      \* capacity
          Addr    \* address universe (an address = 6 bytes + random/public flag, here an id)

VARIABLES set,    \* addresses in the white list
          connF,  \* connection request filter switched on
          scanF   \* scan request filter switched on

vars == <<set, connF, scanF>>

TypeOK == set \subseteq Addr /\ connF \in BOOLEAN /\ scanF \in BOOLEAN
Bounded == Cardinality(set) <= N

Init == set = {} /\ connF = FALSE /\ scanF = FALSE

Add(a, r) ==
    /\ r = (a \in set \/ Cardinality(set) < N)          \* idempotent, fails only when full
    /\ set' = IF r THEN set \cup {a} ELSE set
    /\ UNCHANGED <<connF, scanF>>

Remove(a, r) ==
    /\ r = (a \in set)
    /\ set' = set \ {a}                                   \* exactly the given address
    /\ UNCHANGED <<connF, scanF>>

Clear == set' = {} /\ UNCHANGED <<connF, scanF>>

SetConnFilter(b) == connF' = b /\ UNCHANGED <<set, scanF>>
SetScanFilter(b) == scanF' = b /\ UNCHANGED <<set, connF>>

\* observers (no state change); used by the trace spec on the state *after* a mutator
IsIn(a)       == a \in set
FreeSize      == N - Cardinality(set)
ConnAccept(a) == ~connF \/ a \in set
ScanAccept(a) == ~scanF \/ a \in set

Next == \/ \E a \in Addr, r \in BOOLEAN : Add(a, r) \/ Remove(a, r)
        \/ Clear
        \/ \E b \in BOOLEAN : SetConnFilter(b) \/ SetScanFilter(b)

Spec == Init /\ [][Next]_vars

\* design-level properties checked exhaustively
AddIdempotent == [][\A a \in Addr : a \in set => (ENABLED Add(a, TRUE))]_vars
RemoveExact   == [][\A a \in Addr : (set' = set \ {a} /\ set' # set) => \A b \in set \ {a} : b \in set']_vars
FilterRule    == \A a \in Addr : /\ ConnAccept(a) = (~connF \/ a \in set)
                                 /\ ScanAccept(a) = (~scanF \/ a \in set)
=============================================================================
