CONSTANTS N = 3  Addr = {0,1,2,3,4}
SPECIFICATION TSpec
INVARIANTS TypeOK Bounded
CHECK_DEADLOCK FALSE
