CONSTANTS N = 3  Addr = {0,1,2,3,4}
SPECIFICATION Spec
INVARIANTS TypeOK Bounded FilterRule
PROPERTIES AddIdempotent RemoveExact
