CONSTANTS N = 2  Addr = {0,1,2,3}  D = 3
SPECIFICATION GSpec
INVARIANTS Emit
CHECK_DEADLOCK FALSE
