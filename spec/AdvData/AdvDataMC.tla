----------------------------- MODULE AdvDataMC -----------------------------
(* Sanity of the C14 oracle, checked exhaustively by TLC on small constants (MaxAdv = 12,      *)
(* long UUIDs of W128 = 4 octets):                                                            *)
(*   RefAccepted     - whatever a family of straightforward reference encoders produces (greedy *)
(*                     packing of the declared items in any of several orders, with and without *)
(*                     zero padding, with and without the optional GAP UUID) is WellFormed;     *)
(*   CorruptRejected - a reference output damaged in one of the ways the property is about     *)
(*                     (cut inside a structure, more octets than the buffer, wrong              *)
(*                     complete/incomplete or complete/shortened marker, Flags removed, a UUID  *)
(*                     split, a declared name / list dropped although there is room, a data     *)
(*                     octet changed, a structure repeated) is NOT WellFormed.                  *)
EXTENDS AdvData, TLC

CONSTANT Full   \* TRUE: the whole small declaration space (thorough tier); FALSE: a sub-space (quick tier)

VARIABLE s      \* [kind, d, which, n, out]
mvars == <<s, decl>>

----------------------------------------------------------------------------
\* small declaration space
U16a == <<16, 32>>
U16b == <<18, 34>>
U16c == <<20, 36>>
Gap  == <<0, 24>>
U128a == <<40, 42, 44, 46>>
U128b == <<50, 52, 54, 56>>
Names == IF Full THEN {<<>>, <<70>>, <<70, 72>>, <<70, 72, 74, 76, 78>>} ELSE {<<70, 72>>, <<70, 72, 74, 76, 78>>}
Custom == {<<>>, <<2, 1, 6>>, <<2, 1, 6, 3, 9, 70, 72>>, <<2, 1, 6, 2, 255, 9, 0, 0>>}

AutoDecls ==
    {[advMode |-> "auto", srMode |-> "auto", hasName |-> hn, name |-> IF hn THEN nm ELSE <<>>,
      uuid16 |-> u16, opt16 |-> o16, uuid128 |-> u128, advAppearance |-> ap, appearance |-> <<64, 2>>,
      hasRange |-> rg, range |-> <<6, 0, 128, 12>>, customAdv |-> <<>>, customSr |-> <<>>] :
        hn \in BOOLEAN, nm \in Names, u16 \in {<<>>, <<U16a>>, <<U16a, U16b, U16c>>}, o16 \in {<<>>, <<Gap>>},
        u128 \in IF Full THEN {<<>>, <<U128a>>, <<U128a, U128b>>} ELSE {<<>>, <<U128a, U128b>>},
        ap \in BOOLEAN, rg \in IF Full THEN BOOLEAN ELSE {FALSE}}

CustomDecls ==
    {[advMode |-> "custom", srMode |-> "custom", hasName |-> FALSE, name |-> <<>>, uuid16 |-> <<>>, opt16 |-> <<>>,
      uuid128 |-> <<>>, advAppearance |-> FALSE, appearance |-> <<0, 0>>, hasRange |-> FALSE,
      range |-> <<0, 0, 0, 0>>, customAdv |-> c, customSr |-> c] : c \in Custom}

Decls == AutoDecls \cup CustomDecls

----------------------------------------------------------------------------
\* reference encoders
RECURSIVE Flatten(_)
Flatten(ss) == IF ss = <<>> THEN <<>> ELSE ss[1] \o Flatten(Tail(ss))

ListItem(room, req, opt, w, tInc, tCmp) ==
    IF Len(req) = 0 \/ room < 2 + w THEN <<>>
    ELSE LET all == req \o opt
             k == Min(Len(all), (room - 2) \div w)
         IN  <<1 + w * k, IF k = Len(all) THEN tCmp ELSE tInc>> \o Flatten(SubSeq(all, 1, k))

Item(it, room, d, withOpt) ==
    CASE it = "flags" -> IF room >= 3 THEN <<2, TFlags, 6>> ELSE <<>>
      [] it = "name"  -> IF ~d.hasName \/ Len(d.name) = 0 \/ room < 3 THEN <<>>
                         ELSE IF Len(d.name) + 2 <= room THEN <<Len(d.name) + 1, TName>> \o d.name
                         ELSE <<room - 1, TShort>> \o SubSeq(d.name, 1, room - 2)
      [] it = "u16"   -> ListItem(room, d.uuid16, IF withOpt THEN d.opt16 ELSE <<>>, 2, TInc16, TCmp16)
      [] it = "u128"  -> ListItem(room, d.uuid128, <<>>, W128, TInc128, TCmp128)
      [] it = "app"   -> IF d.advAppearance /\ room >= 4 THEN <<3, TAppear>> \o d.appearance ELSE <<>>
      [] it = "range" -> IF d.hasRange /\ room >= 6 THEN <<5, TRange>> \o d.range ELSE <<>>

RECURSIVE Fill(_, _, _, _, _)
Fill(items, acc, lim, d, withOpt) ==
    IF items = <<>> THEN acc
    ELSE Fill(Tail(items), acc \o Item(items[1], lim - Len(acc), d, withOpt), lim, d, withOpt)

Orders == { <<"flags", "app", "name", "u16", "u128", "range">>,
            <<"flags", "range", "u128", "u16", "name", "app">>,
            <<"flags", "u16", "u128", "name", "app", "range">> }
          \cup (IF Full THEN { <<"flags", "name", "app", "range", "u128", "u16">>,
                               <<"flags", "u128", "name", "u16", "range", "app">> } ELSE {})

Zeros(k) == [i \in 1 .. k |-> 0]

\* whole structures of the custom data, as many as fit (a prefix), optionally only every second one
RECURSIVE WholePrefix(_, _)
WholePrefix(S, room) ==
    IF S = <<>> \/ Len(S[1].d) + 2 > room THEN <<>>
    ELSE <<Len(S[1].d) + 1, S[1].t>> \o S[1].d \o WholePrefix(Tail(S), room - Len(S[1].d) - 2)

RefOutputs(d, which, n) ==
    LET lim == Min(n, MaxAdv)
        Pad(b) == {b \o Zeros(k) : k \in {0, Min(2, lim - Len(b)), lim - Len(b)}}
    IN  IF which = "adv" /\ d.advMode = "auto"
        THEN UNION {Pad(Fill(o, <<>>, lim, d, w)) : o \in Orders, w \in BOOLEAN}
        ELSE IF which = "sr" /\ d.srMode = "auto"
        THEN Pad(<<>>) \cup Pad(Fill(<<"name", "u16">>, <<>>, lim, d, FALSE))
        ELSE Pad(WholePrefix(Parse(IF which = "adv" THEN d.customAdv ELSE d.customSr), lim))

----------------------------------------------------------------------------
\* positions of the structures in a tiled octet string: sequence of [at, len] (at = index of the length octet)
RECURSIVE Pos(_, _)
Pos(b, at) == IF at > Len(b) \/ b[at] = 0 THEN <<>> ELSE <<[at |-> at, len |-> b[at] + 1]>> \o Pos(b, at + b[at] + 1)

Replace(b, i, v) == [b EXCEPT ![i] = v]
Remove(b, from, len) == SubSeq(b, 1, from - 1) \o SubSeq(b, from + len, Len(b))

Init0 == /\ \E d \in Decls, which \in {"adv", "sr"}, n \in 0 .. MaxAdv + 2 :
              s = [kind |-> "init", d |-> d, which |-> which, n |-> n, out |-> <<>>]
         /\ decl = NoDecl

Ref == /\ s.kind = "init"
       /\ \E o \in RefOutputs(s.d, s.which, s.n) : s' = [s EXCEPT !.kind = "ref", !.out = o]
       /\ UNCHANGED decl

Corrupt(kind, o) == s' = [s EXCEPT !.kind = kind, !.out = o] /\ UNCHANGED decl
IsRef == s.kind = "ref"
IsAutoAdv == s.which = "adv" /\ s.d.advMode = "auto"

\* the payload ends inside a structure
Cut == LET P == Pos(s.out, 1) IN
    /\ IsRef
       /\ \E i \in DOMAIN P, k \in 1 .. Len(s.out) : /\ k >= P[i].at /\ k < P[i].at + P[i].len - 1
                                                     /\ Corrupt("cut", SubSeq(s.out, 1, k))
\* more octets than the buffer holds
Overlong == /\ IsRef /\ Len(s.out) > 0
            /\ s' = [s EXCEPT !.kind = "overlong", !.n = Len(s.out) - 1] /\ UNCHANGED decl
\* complete <-> incomplete, complete <-> shortened
Flip(t) == CASE t = TInc16 -> TCmp16 [] t = TCmp16 -> TInc16 [] t = TInc128 -> TCmp128 [] t = TCmp128 -> TInc128
             [] t = TShort -> TName [] t = TName -> TShort [] OTHER -> t
FlipMarker == LET P == Pos(s.out, 1) IN
    /\ IsRef /\ IsAutoAdv
              /\ \E i \in DOMAIN P : LET t == s.out[P[i].at + 1] IN
                    /\ Flip(t) # t
                    \* a list that lacks only the optional GAP UUID may carry either marker
                    /\ ~(t \in {TInc16, TCmp16} /\ SeqToSet(s.d.uuid16) \subseteq
                            SeqToSet(Chunks(SubSeq(s.out, P[i].at + 2, P[i].at + P[i].len - 1), 2))
                         /\ ~(SeqToSet(s.d.opt16) \subseteq
                            SeqToSet(Chunks(SubSeq(s.out, P[i].at + 2, P[i].at + P[i].len - 1), 2))))
                    /\ Corrupt("flipmarker", Replace(s.out, P[i].at + 1, Flip(t)))
NoFlags == LET P == Pos(s.out, 1) IN
    /\ IsRef /\ IsAutoAdv /\ s.n >= 3
           /\ \E i \in DOMAIN P : s.out[P[i].at + 1] = TFlags /\ Corrupt("noflags", Remove(s.out, P[i].at, P[i].len))
\* the last UUID of a list loses its last octet
Split == LET P == Pos(s.out, 1) IN
    /\ IsRef /\ IsAutoAdv
         /\ \E i \in DOMAIN P : /\ s.out[P[i].at + 1] \in {TInc16, TCmp16, TInc128, TCmp128} /\ P[i].len > 2
                                /\ Corrupt("split", Remove(Replace(s.out, P[i].at, s.out[P[i].at] - 1),
                                                           P[i].at + P[i].len - 1, 1))
\* the name / a list is left out although the buffer has room for it
DropItem == LET P == Pos(s.out, 1) IN
    /\ IsRef /\ IsAutoAdv
            /\ \E i \in DOMAIN P : /\ Kind(s.out[P[i].at + 1]) \in {"name", "uuid16", "uuid128"}
                                   /\ (Kind(s.out[P[i].at + 1]) = "uuid16" => Len(s.d.uuid16) > 0)
                                   /\ P[i].len >= (CASE Kind(s.out[P[i].at + 1]) = "name" -> 3
                                                     [] Kind(s.out[P[i].at + 1]) = "uuid16" -> 4
                                                     [] OTHER -> 2 + W128)
                                   /\ Corrupt("dropitem", Remove(s.out, P[i].at, P[i].len))
\* a data octet of a name, list, appearance or range structure is changed (model values are even: +1 is foreign)
BadOctet == LET P == Pos(s.out, 1) IN
    /\ IsRef /\ IsAutoAdv
            /\ \E i \in DOMAIN P, k \in 1 .. Len(s.out) :
                  /\ s.out[P[i].at + 1] # TFlags
                  /\ k >= P[i].at + 2 /\ k <= P[i].at + P[i].len - 1
                  /\ Corrupt("badoctet", Replace(s.out, k, s.out[k] + 1))
\* a structure occurs twice (budget enlarged so that only the repetition is wrong)
Repeat == LET P == Pos(s.out, 1) IN
    /\ IsRef /\ IsAutoAdv
          /\ \E i \in DOMAIN P : LET o == SubSeq(s.out, 1, P[i].at + P[i].len - 1) \o
                                          SubSeq(s.out, P[i].at, Len(s.out))
                                 IN  /\ Len(o) <= s.n /\ Len(o) <= MaxAdv
                                     /\ Corrupt("repeat", o)
\* a structure of the user's data only partly copied / changed
CustomDamage == LET P == Pos(s.out, 1) IN
    /\ IsRef /\ ~IsAutoAdv /\ (s.which = "adv" \/ s.d.srMode = "custom")
                /\ \E i \in DOMAIN P : Corrupt("customdamage", Replace(s.out, P[i].at + 1, s.out[P[i].at + 1] + 1))

Next == Ref \/ Cut \/ Overlong \/ FlipMarker \/ NoFlags \/ Split \/ DropItem \/ BadOctet \/ Repeat \/ CustomDamage
MCSpec == Init0 /\ [][Next]_mvars

RefAccepted     == s.kind = "ref" => WellFormed(s.out, s.n, s.d, s.which)
CorruptRejected == s.kind \notin {"init", "ref"} => ~WellFormed(s.out, s.n, s.d, s.which)
\* the violation names agree with the verdict, and a reference output for n <= MaxAdv is also a legal Call
CallAgrees      == s.kind = "ref" /\ s.n <= MaxAdv => WF(s.out, s.n, s.d, s.which)
=============================================================================
