CONSTANTS MaxAdv = 31  W128 = 16
SPECIFICATION TSpec
INVARIANTS TypeOK
CHECK_DEADLOCK FALSE
