CONSTANTS MaxAdv = 12  W128 = 4  Full = TRUE
SPECIFICATION MCSpec
INVARIANTS RefAccepted CorruptRejected CallAgrees
CHECK_DEADLOCK FALSE
