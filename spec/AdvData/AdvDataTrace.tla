--------------------------- MODULE AdvDataTrace ---------------------------
(* Trace validation for C14: every recorded call of advertising_data() / scan_response_data() of a   *)
(* generated server must be a Call step of AdvData for the declaration the server was generated from. *)
(* Events (one JSON object per line):                                                               *)
(*   {"e":"Reset","id":k,"decl":{...AdvData declaration record...}}     a server type is selected      *)
(*   {"e":"adv","n":n,"r":returned size,"out":[the first min(r,n) octets of the n octet buffer]}     *)
(*   {"e":"sr", "n":n,"r":...,"out":[...]}                                                         *)
(*   {"e":"Crash",...}   sanitizer report / signal during a call (e.g. a write behind the n octets):  *)
(*                       no action explains it                                                      *)
(* For a rejected adv / sr event the names of the violated rules are printed as <<"WHY", l, {...}>>. *)
EXTENDS AdvData, Json, IOUtils, TLC

Tr == ndJsonDeserialize(IOEnv.TRACE)

VARIABLE l
tvars == <<vars, l>>

Ev == Tr[l]

Explain(ev) ==
    \/ ev.e = "Reset" /\ Declare(ev.decl)
    \/ ev.e \in {"adv", "sr"} /\ Call(ev.e, ev.n, ev.r, ev.out)

Why(ev) == IF ev.e \in {"adv", "sr"} THEN CallViolations(ev.e, ev.n, ev.r, ev.out) ELSE {ev.e}

TInit == Init /\ l = 1

\* a rejected call does not end the execution: the calls are independent (the state is the declaration only),
\* so validation continues with the next event and every bad call of a declaration is reported
TNext ==
    \/ /\ l <= Len(Tr)
       /\ IF ENABLED Explain(Ev)
          THEN Explain(Ev) /\ l' = l + 1
          ELSE PrintT(<<"MISMATCH", l>>) /\ PrintT(<<"WHY", l, Why(Ev)>>) /\ l' = l + 1 /\ UNCHANGED vars
    \/ /\ l = Len(Tr) + 1
       /\ PrintT(<<"TRACE_DONE", Len(Tr)>>)
       /\ l' = l + 1 /\ UNCHANGED vars

TSpec == TInit /\ [][TNext]_tvars
TypeOK == decl.advMode \in {"auto", "custom"} /\ decl.srMode \in {"auto", "custom"}
=============================================================================
