\* C37 quick input family (the check writes tier dependent copies of this file into the build directory)
CONSTANTS NRnd = 6  HotVals = {1, 128}  RHot = FALSE  Seed = 1  NPassRnd = 0  PassGrid = FALSE  Which = "pure"
SPECIFICATION GSpec
INVARIANTS Emit
CHECK_DEADLOCK FALSE
