----------------------------- MODULE PasskeyGen -----------------------------
(* Implementation shaped models of a passkey generator on top of an octet RNG (C38), checked against  *)
(* Toolbox!CreatePasskey for EVERY octet stream over the alphabet B:                                  *)
(*   "raw3"      what nrf52/security_tool_box.cpp does: the first three random octets are the value  *)
(*   "reject20"  draw three octets, keep 20 bits, start over unless the value is at most 999999      *)
(*               (rejection sampling: every accepted value has exactly one 20 bit pre-image, so a    *)
(*               uniform RNG gives a uniform passkey - argued, not model checked)                    *)
(* The RNG is the environment: each draw delivers any octet of B.                                     *)
EXTENDS Toolbox, TLC

CONSTANTS B,        \* octets the RNG may deliver (a boundary alphabet; 0..255 for the full space)
          Design    \* "raw3" | "reject20"

VARIABLES buf,      \* octets drawn for the current attempt
          out       \* the TK handed out (octets, most significant first), Bottom while drawing

pvars == <<shown, buf, out>>

TKof(v) == Zeros(13) \o <<(v \div 65536) % 256, (v \div 256) % 256, v % 256>>

PInit == Init /\ buf = <<>> /\ out = Bottom

Draw == /\ out = Bottom /\ Len(buf) < 3
        /\ \E b \in B : buf' = Append(buf, b)
        /\ UNCHANGED <<shown, out>>

Value24 == buf[1] + 256 * buf[2] + 65536 * buf[3]
Value20 == buf[1] + 256 * buf[2] + 65536 * (buf[3] % 16)

HandOut(v) == out' = TKof(v) /\ shown' = v /\ buf' = <<>>

Finish == /\ out = Bottom /\ Len(buf) = 3
          /\ IF Design = "raw3" THEN HandOut(Value24)
             ELSE IF Value20 <= MaxPasskey THEN HandOut(Value20)
             ELSE buf' = <<>> /\ UNCHANGED <<shown, out>>      \* rejected: draw again

\* the next pairing starts from scratch (keeps the state space at |B|^3)
Again == out # Bottom /\ out' = Bottom /\ shown' = -1 /\ UNCHANGED buf

PNext == Draw \/ Finish \/ Again
PSpec == PInit /\ [][PNext]_pvars

PTypeOK == TypeOK /\ buf \in Seq(B) /\ Len(buf) <= 3 /\ (out = Bottom \/ IsOctets(out, 16))
\* refinement of Toolbox: handing out a TK is a CreatePasskey step
HandsOutPasskeys == [][out' # out /\ out' # Bottom => CreatePasskey(out')]_pvars
OutIsPasskey     == out # Bottom => IsPasskeyTK(out)
=============================================================================
