------------------------------ MODULE Toolbox ------------------------------
(* Property-level specification of the security tool box (C37) and of the passkey generator (C38).  *)
(*                                                                                                   *)
(* The cryptographic functions are written the way the Bluetooth Core specification writes them     *)
(* (Vol 3 Part H 2.2 security functions, RFC 4493 AES-CMAC, Vol 6 Part B 5.1.3.1 session key) over  *)
(* octet strings and an UNINTERPRETED block cipher: every definition takes the cipher E(key, block)  *)
(* as an operator argument.  The trace specification instantiates E with the finite map of block     *)
(* encryptions the code under test made the ECB hardware perform during the call; the model checking *)
(* configuration instantiates it with a toy permutation.  AES itself never enters the specification. *)
(*                                                                                                   *)
(* Notation.  A value of n octets is a sequence of n numbers 0..255 written as the Core             *)
(* specification prints it: MOST significant octet first ("0x0102" = <<1, 2>>), so `\o` is the       *)
(* specification's concatenation operator ||.  An absent value (a block encryption the cipher map    *)
(* does not contain) is the empty sequence `Bottom`; it propagates through every definition.         *)
EXTENDS Integers, Sequences, FiniteSets, Bitwise

Octet      == 0..255
Bottom     == <<>>
IsOctets(s, n) == Len(s) = n /\ \A i \in 1..n : s[i] \in Octet
Zeros(n)   == [i \in 1..n |-> 0]
Rev(s)     == [i \in 1..Len(s) |-> s[Len(s) + 1 - i]]
Min2(a, b) == IF a < b THEN a ELSE b
Max2(a, b) == IF a < b THEN b ELSE a

\* bitwise exclusive or of two 128 bit values
XorB(a, b) == IF Len(a) # 16 \/ Len(b) # 16 THEN Bottom ELSE [i \in 1..16 |-> a[i] ^^ b[i]]

-----------------------------------------------------------------------------
(* AES-CMAC, RFC 4493 (Vol 3 Part H 2.2.5).                                                         *)

\* multiplication by x in GF(2^128): left shift by one bit, conditionally xor const_Rb = 0x00..0087
Dbl(a) == IF Len(a) # 16 THEN Bottom
          ELSE LET sh == [i \in 1..16 |-> ((a[i] * 2) % 256) + (IF i < 16 THEN a[i + 1] \div 128 ELSE 0)]
               IN  IF a[1] >= 128 THEN [sh EXCEPT ![16] = sh[16] ^^ 135] ELSE sh

\* RFC 4493 2.4 step 2-4: the message as n blocks, the last one padded with 10..0 when incomplete
CmacBlocks(M) ==
    LET len      == Len(M)
        n        == IF len = 0 THEN 1 ELSE (len + 15) \div 16
        complete == len > 0 /\ len % 16 = 0
        Blk(i)   == SubSeq(M, 16 * (i - 1) + 1, Min2(16 * i, len))
        Pad(b)   == b \o <<128>> \o Zeros(15 - Len(b))
    IN  [ blocks   |-> [i \in 1..n |-> IF i < n \/ complete THEN Blk(i) ELSE Pad(Blk(i))],
          complete |-> complete ]

\* RFC 4493 2.4 steps 5-7, the sub keys K1, K2 (2.3) and the blocks given
CmacWith(E(_, _), K, K1, K2, B) ==
    LET n    == Len(B.blocks)
        Last == XorB(B.blocks[n], IF B.complete THEN K1 ELSE K2)
        X[i \in 0..(n - 1)] == IF i = 0 THEN Zeros(16) ELSE E(K, XorB(X[i - 1], B.blocks[i]))
    IN  E(K, XorB(X[n - 1], Last))
\* AES-CMAC_K(M): L = E(K, 0^128), K1 = L * x, K2 = K1 * x
\* (the singleton sets are an evaluation device only: they make TLC compute K, L and the blocks once)
Cmac(E(_, _), K, M) ==
    CHOOSE t \in { CmacWith(E, k, Dbl(L), Dbl(Dbl(L)), B) : k \in {K}, L \in {E(K, Zeros(16))}, B \in {CmacBlocks(M)} } : TRUE

-----------------------------------------------------------------------------
(* LE legacy pairing, Vol 3 Part H 2.2.3 / 2.2.4                                                    *)

\* p1 = pres || preq || rat' || iat'          p2 = padding || ia || ra
C1P1(pres, preq, rat, iat) == pres \o preq \o <<rat>> \o <<iat>>
C1P2(ia, ra)               == Zeros(4) \o ia \o ra
\* c1 (k, r, preq, pres, iat, rat, ia, ra) = e(k, e(k, r XOR p1) XOR p2)
C1p(E(_, _), k, r, p1, p2) == E(k, XorB(E(k, XorB(r, p1)), p2))
C1(E(_, _), k, r, preq, pres, iat, rat, ia, ra) == C1p(E, k, r, C1P1(pres, preq, rat, iat), C1P2(ia, ra))

\* s1(k, r1, r2) = e(k, r'),  r' = r1' || r2',  r1' / r2' the least significant 64 bits of r1 / r2
S1(E(_, _), k, r1, r2) == IF Len(r1) # 16 \/ Len(r2) # 16 THEN Bottom
                          ELSE E(k, SubSeq(r1, 9, 16) \o SubSeq(r2, 9, 16))

(* LE Secure Connections, Vol 3 Part H 2.2.6 - 2.2.9                                                *)
F4Msg(U, V, Z)            == U \o V \o <<Z>>
F4(E(_, _), U, V, X, Z)   == Cmac(E, X, F4Msg(U, V, Z))

F5Salt   == <<\h6C, \h88, \h83, \h91, \hAA, \hF5, \hA5, \h38, \h60, \h37, \h0B, \hDB, \h5A, \h60, \h83, \hBE>>
F5KeyId  == <<\h62, \h74, \h6C, \h65>>
\* Counter || keyID || N1 || N2 || A1 || A2 || Length (= 256)
F5Msg(counter, N1, N2, A1, A2) == <<counter>> \o F5KeyId \o N1 \o N2 \o A1 \o A2 \o <<1, 0>>
F5T(E(_, _), W)                == Cmac(E, F5Salt, W)
F5MacKey(E(_, _), W, N1, N2, A1, A2) == Cmac(E, F5T(E, W), F5Msg(0, N1, N2, A1, A2))
F5Ltk(E(_, _), W, N1, N2, A1, A2)    == Cmac(E, F5T(E, W), F5Msg(1, N1, N2, A1, A2))

F6Msg(N1, N2, R, IOcap, A1, A2)             == N1 \o N2 \o R \o IOcap \o A1 \o A2
F6(E(_, _), W, N1, N2, R, IOcap, A1, A2)    == Cmac(E, W, F6Msg(N1, N2, R, IOcap, A1, A2))

\* g2 = AES-CMAC_X(U || V || Y) mod 2^32 : the least significant 32 bits, as 4 octets
G2Msg(U, V, Y)          == U \o V \o Y
G2(E(_, _), U, V, X, Y) == LET m == Cmac(E, X, G2Msg(U, V, Y)) IN IF Len(m) # 16 THEN Bottom ELSE SubSeq(m, 13, 16)

\* 56 bit address operand of f5 / f6: most significant octet 0x00 public / 0x01 random, then the 48 bit address
Addr56(isRandom, addr48) == <<IF isRandom THEN 1 ELSE 0>> \o addr48

(* Link layer, Vol 6 Part B 5.1.3.1: SKD = SKDs || SKDm (SKDm the least significant 64 bits),       *)
(* sessionKey = e(LTK, SKD)                                                                          *)
SessionKey(E(_, _), LTK, SKDm, SKDs) == E(LTK, SKDs \o SKDm)

-----------------------------------------------------------------------------
(* P-256 public key validity (Vol 3 Part H 2.3.5.6.1: the coordinates must be a point of the curve). *)
(* TLC has 32 bit integers, so numbers are little endian base 256 digit sequences and the modular    *)
(* equation  y^2 + 3x = x^3 + b  (mod p)  is decided from an UNTRUSTED certificate:                  *)
(*      y^2 + 3x = ql * p + rl,     x * x = x2,     x2 * x + b = qr * p + rr,     rl, rr < p         *)
(* Each identity is CHECKED here over the integers: both sides are expanded into coefficient         *)
(* sequences (schoolbook products) and the certificate supplies the carry chain c that turns one     *)
(* into the other: L[i] - R[i] + c[i] = 256 * c[i+1], c[1] = c[n+1] = 0, hence                      *)
(* sum (L[i] - R[i]) 256^(i-1) telescopes to 0.  By uniqueness of division the point is on the curve *)
(* iff rl = rr.  Whoever computes the certificate is not trusted: a wrong one fails CertOK.          *)
P256p == Rev(<<\hFF, \hFF, \hFF, \hFF, \h00, \h00, \h00, \h01, \h00, \h00, \h00, \h00, \h00, \h00, \h00, \h00,
               \h00, \h00, \h00, \h00, \hFF, \hFF, \hFF, \hFF, \hFF, \hFF, \hFF, \hFF, \hFF, \hFF, \hFF, \hFF>>)
P256b == Rev(<<\h5A, \hC6, \h35, \hD8, \hAA, \h3A, \h93, \hE7, \hB3, \hEB, \hBD, \h55, \h76, \h98, \h86, \hBC,
               \h65, \h1D, \h06, \hB0, \hCC, \h53, \hB0, \hF6, \h3B, \hCE, \h3C, \h3E, \h27, \hD2, \h60, \h4B>>)

\* coefficient sequence of the product of two digit sequences (coefficients up to 32 * 255 * 255)
Conv(a, b) ==
    [k \in 1..(Len(a) + Len(b) - 1) |->
        LET lo == Max2(1, k + 1 - Len(b))
            hi == Min2(Len(a), k)
            S[i \in (lo - 1)..hi] == IF i = lo - 1 THEN 0 ELSE S[i - 1] + a[i] * b[k + 1 - i]
        IN  S[hi]]
AddC(a, b)  == [i \in 1..Max2(Len(a), Len(b)) |-> (IF i <= Len(a) THEN a[i] ELSE 0) + (IF i <= Len(b) THEN b[i] ELSE 0)]
Scale(c, a) == [i \in 1..Len(a) |-> c * a[i]]
At(s, i)    == IF i <= Len(s) THEN s[i] ELSE 0
\* the coefficient sequences L and R denote the same number; c is the carry chain that proves it
\* (the singleton sets are an evaluation device only: TLC computes the two sequences once)
SameNumber(L0, R0, c) ==
    \E L \in {L0}, R \in {R0} :
        LET n == Max2(Len(L), Len(R))
        IN  /\ Len(c) = n + 1 /\ c[1] = 0 /\ c[n + 1] = 0
            /\ \A i \in 1..n : c[i] \in -16777216..16777216 /\ At(L, i) - At(R, i) + c[i] = 256 * c[i + 1]
Less(a, b)  == \E i \in 1..Len(a) : a[i] < b[i] /\ \A j \in (i + 1)..Len(a) : a[j] = b[j]

\* x, y: 32 digits each.  cert = [ql: 33 digits, rl: 32, qr: 65, rr: 32, x2: 64, ca, cb, cc: carry chains]
CertOK(x, y, cert) ==
    /\ IsOctets(cert.ql, 33) /\ IsOctets(cert.rl, 32) /\ IsOctets(cert.qr, 65) /\ IsOctets(cert.rr, 32) /\ IsOctets(cert.x2, 64)
    /\ Less(cert.rl, P256p) /\ Less(cert.rr, P256p)
    /\ SameNumber(AddC(Conv(y, y), Scale(3, x)), AddC(Conv(cert.ql, P256p), cert.rl), cert.ca)
    /\ SameNumber(Conv(x, x), cert.x2, cert.cb)
    /\ SameNumber(AddC(Conv(cert.x2, x), P256b), AddC(Conv(cert.qr, P256p), cert.rr), cert.cc)
\* valid public key: both coordinates are field elements and the curve equation holds
\* (the "point at infinity" encoding (0, 0) fails the equation because b # 0)
ValidP256(x, y, cert) == Less(x, P256p) /\ Less(y, P256p) /\ cert.rl = cert.rr

-----------------------------------------------------------------------------
(* Passkey (Vol 3 Part H 2.3.5.3): a 6 digit number 000000..999999 used as 128 bit TK,               *)
(* e.g. 019655 -> TK = 0x00000000000000000000000000004CC7.                                          *)
MaxPasskey == 999999
\* value of the least significant three octets (999999 = 0x0F423F needs 20 bits)
Low24(tk)        == tk[16] + 256 * tk[15] + 65536 * tk[14]
UpperZero(tk)    == \A i \in 1..13 : tk[i] = 0
IsPasskeyTK(tk)  == IsOctets(tk, 16) /\ UpperZero(tk) /\ Low24(tk) <= MaxPasskey

-----------------------------------------------------------------------------
(* How Bluetoe hands values to the tool box.  Every argument and result of the C++ interface is an   *)
(* octet array holding the value least significant octet first - the representation SMP and the     *)
(* link layer use on the air (Vol 3 Part H 3.3: multi octet fields little endian), which is why      *)
(* the security manager copies PDU fields straight into these arrays.  `Val` turns such an array     *)
(* into the specification's notation; the Api operators below are the functions above seen through   *)
(* the C++ interface.  The ECB hardware block (key, clear text, cipher text) is in FIPS-197 order =  *)
(* most significant octet first = the specification's notation, so E needs no conversion.            *)
Val(a)  == Rev(a)
Arr(v)  == Rev(v)

ApiC1(E(_, _), k, r, p1, p2)   == Arr(C1p(E, Val(k), Val(r), Val(p1), Val(p2)))
ApiS1(E(_, _), k, srand, mrand) == Arr(S1(E, Val(k), Val(srand), Val(mrand)))
ApiF4(E(_, _), u, v, x, z)     == Arr(F4(E, Val(u), Val(v), Val(x), z))
ApiF5Mac(E(_, _), dh, nc, np, t1, a1, t2, a2) ==
    Arr(F5MacKey(E, Val(dh), Val(nc), Val(np), Addr56(t1 = 1, Val(a1)), Addr56(t2 = 1, Val(a2))))
ApiF5Ltk(E(_, _), dh, nc, np, t1, a1, t2, a2) ==
    Arr(F5Ltk(E, Val(dh), Val(nc), Val(np), Addr56(t1 = 1, Val(a1)), Addr56(t2 = 1, Val(a2))))
\* io = {IO capability, OOB data flag, AuthReq}: "IOcap is three octets with the most significant octet as the
\* AuthReq parameter ... and the least significant octet as the IO capability parameter"
ApiF6(E(_, _), w, n1, n2, r, io, t1, a1, t2, a2) ==
    Arr(F6(E, Val(w), Val(n1), Val(n2), Val(r), Val(io), Addr56(t1 = 1, Val(a1)), Addr56(t2 = 1, Val(a2))))
ApiG2(E(_, _), u, v, x, y)     == Arr(G2(E, Val(u), Val(v), Val(x), Val(y)))
ApiAes(E(_, _), key, data)     == Arr(E(Val(key), Val(data)))
ApiSk(E(_, _), ltk, skdm, skds) == Arr(SessionKey(E, Val(ltk), Val(skdm), Val(skds)))


(* One tool box call as (function name, flat octet sequence of all arguments in the order of the C++ *)
(* signature).  Address operands of f5 / f6 are passed as <type flag, 6 address octets>.             *)
Fns == {"c1", "s1", "f4", "f5", "f6", "g2", "aes", "sk"}
Shape(f) == CASE f = "c1"  -> <<16, 16, 16, 16>>            \* k, r, p1, p2
              [] f = "s1"  -> <<16, 16, 16>>                \* k, srand, mrand
              [] f = "f4"  -> <<32, 32, 16, 1>>             \* u, v, x, z
              [] f = "f5"  -> <<32, 16, 16, 1, 6, 1, 6>>    \* dhkey, n central, n peripheral, t1, a1, t2, a2
              [] f = "f6"  -> <<16, 16, 16, 16, 3, 1, 6, 1, 6>>  \* w, n1, n2, r, iocap, t1, a1, t2, a2
              [] f = "g2"  -> <<32, 32, 16, 16>>            \* u, v, x, y
              [] f = "aes" -> <<16, 16>>                    \* key, data  (nrf52_details::aes_le)
              [] f = "sk"  -> <<16, 8, 8>>                  \* ltk, skdm, skds
SumTo(s, n)  == LET S[i \in 0..n] == IF i = 0 THEN 0 ELSE S[i - 1] + s[i] IN S[n]
ArgLen(f)    == SumTo(Shape(f), Len(Shape(f)))
Opnd(f, flat, j) == SubSeq(flat, SumTo(Shape(f), j - 1) + 1, SumTo(Shape(f), j))
\* positions of `flat` that hold an address type flag (0 / 1)
FlagPos(f)   == CASE f = "f5" -> {65, 72} [] f = "f6" -> {68, 75} [] OTHER -> {}
ASSUME FlagPosShape == \A f \in Fns : FlagPos(f) = {SumTo(Shape(f), j - 1) + 1 :
                                                       j \in {j \in 1..Len(Shape(f)) : f \in {"f5", "f6"} /\ Shape(f)[j] = 1}}
ResultLen(f) == CASE f = "f5" -> 32 [] f = "g2" -> 4 [] OTHER -> 16

\* what the call has to return (f5: MacKey followed by LTK; g2: the 32 bit number as 4 octets, least significant first)
Result(E(_, _), f, flat) ==
    LET O(j) == Opnd(f, flat, j) IN
    CASE f = "c1"  -> ApiC1(E, O(1), O(2), O(3), O(4))
      [] f = "s1"  -> ApiS1(E, O(1), O(2), O(3))
      [] f = "f4"  -> ApiF4(E, O(1), O(2), O(3), O(4)[1])
      [] f = "f5"  -> ApiF5Mac(E, O(1), O(2), O(3), O(4)[1], O(5), O(6)[1], O(7))
                        \o ApiF5Ltk(E, O(1), O(2), O(3), O(4)[1], O(5), O(6)[1], O(7))
      [] f = "f6"  -> ApiF6(E, O(1), O(2), O(3), O(4), O(5), O(6)[1], O(7), O(8)[1], O(9))
      [] f = "g2"  -> ApiG2(E, O(1), O(2), O(3), O(4))
      [] f = "aes" -> ApiAes(E, O(1), O(2))
      [] f = "sk"  -> ApiSk(E, O(1), O(2), O(3))

-----------------------------------------------------------------------------
(* Sample data published with the specifications.  They pin the transcription above without any     *)
(* cipher: sub key derivation (RFC 4493 / Vol 3 Part H D.1) and the padded CMAC message blocks       *)
(* M0..Mn that appendix D prints for f4, f5, f6, g2, and the p1 / p2 example of 2.2.3.               *)
(* The published function RESULTS need AES; they are checked as trace events (`expect` field).       *)
D1L  == <<\h7D, \hF7, \h6B, \h0C, \h1A, \hB8, \h99, \hB3, \h3E, \h42, \hF0, \h47, \hB9, \h1B, \h54, \h6F>>
D1K1 == <<\hFB, \hEE, \hD6, \h18, \h35, \h71, \h33, \h66, \h7C, \h85, \hE0, \h8F, \h72, \h36, \hA8, \hDE>>
D1K2 == <<\hF7, \hDD, \hAC, \h30, \h6A, \hE2, \h66, \hCC, \hF9, \h0B, \hC1, \h1E, \hE4, \h6D, \h51, \h3B>>

DU  == <<\h20, \hB0, \h03, \hD2, \hF2, \h97, \hBE, \h2C, \h5E, \h2C, \h83, \hA7, \hE9, \hF9, \hA5, \hB9,
         \hEF, \hF4, \h91, \h11, \hAC, \hF4, \hFD, \hDB, \hCC, \h03, \h01, \h48, \h0E, \h35, \h9D, \hE6>>
DV  == <<\h55, \h18, \h8B, \h3D, \h32, \hF6, \hBB, \h9A, \h90, \h0A, \hFC, \hFB, \hEE, \hD4, \hE7, \h2A,
         \h59, \hCB, \h9A, \hC2, \hF1, \h9D, \h7C, \hFB, \h6B, \h4F, \hDD, \h49, \hF4, \h7F, \hC5, \hFD>>
DN1 == <<\hD5, \hCB, \h84, \h54, \hD1, \h77, \h73, \h3E, \hFF, \hFF, \hB2, \hEC, \h71, \h2B, \hAE, \hAB>>
DN2 == <<\hA6, \hE8, \hE7, \hCC, \h25, \hA7, \h5F, \h6E, \h21, \h65, \h83, \hF7, \hFF, \h3D, \hC4, \hCF>>
DR  == <<\h12, \hA3, \h34, \h3B, \hB4, \h53, \hBB, \h54, \h08, \hDA, \h42, \hD2, \h0C, \h2D, \h0F, \hC8>>
DA1 == <<\h00, \h56, \h12, \h37, \h37, \hBF, \hCE>>
DA2 == <<\h00, \hA7, \h13, \h70, \h2D, \hCF, \hC1>>
DIO == <<\h01, \h01, \h02>>

ASSUME SubKeys   == Dbl(D1L) = D1K1 /\ Dbl(D1K1) = D1K2
ASSUME RbCase    == Dbl(<<128>> \o Zeros(15)) = Zeros(15) \o <<135>>
ASSUME EmptyMsg  == CmacBlocks(<<>>) = [blocks |-> << <<128>> \o Zeros(15) >>, complete |-> FALSE]
ASSUME F4Blocks  == CmacBlocks(F4Msg(DU, DV, 0)) =
                      [blocks |-> <<SubSeq(DU, 1, 16), SubSeq(DU, 17, 32), SubSeq(DV, 1, 16), SubSeq(DV, 17, 32),
                                    <<0, 128>> \o Zeros(14)>>, complete |-> FALSE]
ASSUME F5Blocks  == CmacBlocks(F5Msg(1, DN1, DN2, DA1, DA2)) =
                      [blocks |-> << <<\h01, \h62, \h74, \h6C, \h65, \hD5, \hCB, \h84, \h54, \hD1, \h77, \h73, \h3E, \hFF, \hFF, \hB2>>,
                                     <<\hEC, \h71, \h2B, \hAE, \hAB, \hA6, \hE8, \hE7, \hCC, \h25, \hA7, \h5F, \h6E, \h21, \h65, \h83>>,
                                     <<\hF7, \hFF, \h3D, \hC4, \hCF, \h00, \h56, \h12, \h37, \h37, \hBF, \hCE, \h00, \hA7, \h13, \h70>>,
                                     <<\h2D, \hCF, \hC1, \h01, \h00, \h80>> \o Zeros(10) >>, complete |-> FALSE]
ASSUME F6Blocks  == CmacBlocks(F6Msg(DN1, DN2, DR, DIO, DA1, DA2)) =
                      [blocks |-> << DN1, DN2, DR,
                                     <<\h01, \h01, \h02, \h00, \h56, \h12, \h37, \h37, \hBF, \hCE, \h00, \hA7, \h13, \h70, \h2D, \hCF>>,
                                     <<\hC1, \h80>> \o Zeros(14) >>, complete |-> FALSE]
ASSUME G2Blocks  == CmacBlocks(G2Msg(DU, DV, DN2)) =
                      [blocks |-> <<SubSeq(DU, 1, 16), SubSeq(DU, 17, 32), SubSeq(DV, 1, 16), SubSeq(DV, 17, 32), DN2>>,
                       complete |-> TRUE]
\* 2.2.3: preq = 0x07071000000101, pres = 0x05000800000302, iat' = 1, rat' = 0, ia = 0xA1A2A3A4A5A6, ra = 0xB1B2B3B4B5B6
ASSUME C1Example == /\ C1P1(<<5, 0, 8, 0, 0, 3, 2>>, <<7, 7, 16, 0, 0, 1, 1>>, 0, 1)
                         = <<5, 0, 8, 0, 0, 3, 2, 7, 7, 16, 0, 0, 1, 1, 0, 1>>
                    /\ C1P2(<<\hA1, \hA2, \hA3, \hA4, \hA5, \hA6>>, <<\hB1, \hB2, \hB3, \hB4, \hB5, \hB6>>)
                         = <<0, 0, 0, 0, \hA1, \hA2, \hA3, \hA4, \hA5, \hA6, \hB1, \hB2, \hB3, \hB4, \hB5, \hB6>>
\* 2.3.5.3: passkey 019655 is TK 0x...4CC7
ASSUME PasskeyExample == Low24(Zeros(14) \o <<\h4C, \hC7>>) = 19655 /\ IsPasskeyTK(Zeros(14) \o <<\h4C, \hC7>>)
ASSUME PasskeyBound   == /\ IsPasskeyTK(Zeros(13) \o <<\h0F, \h42, \h3F>>)
                         /\ ~IsPasskeyTK(Zeros(13) \o <<\h0F, \h42, \h40>>)
                         /\ ~IsPasskeyTK(Zeros(12) \o <<1, 0, 0, 0>>)


\* published results (Vol 3 Part H 2.2.3, 2.2.4, appendix D.2 - D.5; Vol 6 Part C 1; FIPS-197 C.1; RFC 4493 4)
DC1R   == <<\h57, \h83, \hD5, \h21, \h56, \hAD, \h6F, \h0E, \h63, \h88, \h27, \h4E, \hC6, \h70, \h2E, \hE0>>
DC1P1  == <<\h05, \h00, \h08, \h00, \h00, \h03, \h02, \h07, \h07, \h10, \h00, \h00, \h01, \h01, \h00, \h01>>
DC1P2  == <<\h00, \h00, \h00, \h00, \hA1, \hA2, \hA3, \hA4, \hA5, \hA6, \hB1, \hB2, \hB3, \hB4, \hB5, \hB6>>
DC1Res == <<\h1E, \h1E, \h3F, \hEF, \h87, \h89, \h88, \hEA, \hD2, \hA7, \h4D, \hC5, \hBE, \hF1, \h3B, \h86>>
DS1R1  == <<\h00, \h0F, \h0E, \h0D, \h0C, \h0B, \h0A, \h09, \h11, \h22, \h33, \h44, \h55, \h66, \h77, \h88>>
DS1R2  == <<\h01, \h02, \h03, \h04, \h05, \h06, \h07, \h08, \h99, \hAA, \hBB, \hCC, \hDD, \hEE, \hFF, \h00>>
DS1Res == <<\h9A, \h1F, \hE1, \hF0, \hE8, \hB0, \hF4, \h9B, \h5B, \h42, \h16, \hAE, \h79, \h6D, \hA0, \h62>>
DF4Res == <<\hF2, \hC9, \h16, \hF1, \h07, \hA9, \hBD, \h1C, \hF1, \hED, \hA1, \hBE, \hA9, \h74, \h87, \h2D>>
DW     == <<\hEC, \h02, \h34, \hA3, \h57, \hC8, \hAD, \h05, \h34, \h10, \h10, \hA6, \h0A, \h39, \h7D, \h9B,
            \h99, \h79, \h6B, \h13, \hB4, \hF8, \h66, \hF1, \h86, \h8D, \h34, \hF3, \h73, \hBF, \hA6, \h98>>
DMacKey == <<\h29, \h65, \hF1, \h76, \hA1, \h08, \h4A, \h02, \hFD, \h3F, \h6A, \h20, \hCE, \h63, \h6E, \h20>>
DLtk    == <<\h69, \h86, \h79, \h11, \h69, \hD7, \hCD, \h23, \h98, \h05, \h22, \hB5, \h94, \h75, \h0A, \h38>>
DF6Res  == <<\hE3, \hC4, \h73, \h98, \h9C, \hD0, \hE8, \hC5, \hD2, \h6C, \h0B, \h09, \hDA, \h95, \h8F, \h61>>
DG2Res  == <<\h2F, \h9E, \hD5, \hBA>>
DSkLtk  == <<\h4C, \h68, \h38, \h41, \h39, \hF5, \h74, \hD8, \h36, \hBC, \hF3, \h4E, \h9D, \hFB, \h01, \hBF>>
DSkdM   == <<\hAC, \hBD, \hCE, \hDF, \hE0, \hF1, \h02, \h13>>
DSkdS   == <<\h02, \h13, \h24, \h35, \h46, \h57, \h68, \h79>>
DSkRes  == <<\h99, \hAD, \h1B, \h52, \h26, \hA3, \h7E, \h3E, \h05, \h8E, \h3B, \h8E, \h27, \hC2, \hC6, \h66>>
DFipsK  == [i \in 1..16 |-> i - 1]
DFipsP  == [i \in 1..16 |-> 17 * (i - 1)]
DFipsC  == <<\h69, \hC4, \hE0, \hD8, \h6A, \h7B, \h04, \h30, \hD8, \hCD, \hB7, \h80, \h70, \hB4, \hC5, \h5A>>
DCmacK  == <<\h2B, \h7E, \h15, \h16, \h28, \hAE, \hD2, \hA6, \hAB, \hF7, \h15, \h88, \h09, \hCF, \h4F, \h3C>>
\* P-256: base point G (FIPS 186) and "Public Key A" of the Core specification's P-256 sample data (Vol 2 Part G 7.1.2.1)
DGx == <<\h6B, \h17, \hD1, \hF2, \hE1, \h2C, \h42, \h47, \hF8, \hBC, \hE6, \hE5, \h63, \hA4, \h40, \hF2,
         \h77, \h03, \h7D, \h81, \h2D, \hEB, \h33, \hA0, \hF4, \hA1, \h39, \h45, \hD8, \h98, \hC2, \h96>>
DGy == <<\h4F, \hE3, \h42, \hE2, \hFE, \h1A, \h7F, \h9B, \h8E, \hE7, \hEB, \h4A, \h7C, \h0F, \h9E, \h16,
         \h2B, \hCE, \h33, \h57, \h6B, \h31, \h5E, \hCE, \hCB, \hB6, \h40, \h68, \h37, \hBF, \h51, \hF5>>
DAy == <<\hDC, \h80, \h9C, \h49, \h65, \h2A, \hEB, \h6D, \h63, \h32, \h9A, \hBF, \h5A, \h52, \h15, \h5C,
         \h76, \h63, \h45, \hC2, \h8F, \hED, \h30, \h24, \h74, \h1C, \h8E, \hD0, \h15, \h89, \hD2, \h8B>>

\* the published examples as tool box calls: [f, flat arguments in the C++ representation, published result]
AddrArg(a56) == <<a56[1]>> \o Arr(SubSeq(a56, 2, 7))
Vectors == <<
    [f |-> "c1",  a |-> Arr(Zeros(16)) \o Arr(DC1R) \o Arr(DC1P1) \o Arr(DC1P2),                         x |-> Arr(DC1Res)],
    [f |-> "s1",  a |-> Arr(Zeros(16)) \o Arr(DS1R1) \o Arr(DS1R2),                                       x |-> Arr(DS1Res)],
    [f |-> "f4",  a |-> Arr(DU) \o Arr(DV) \o Arr(DN1) \o <<0>>,                                          x |-> Arr(DF4Res)],
    [f |-> "f5",  a |-> Arr(DW) \o Arr(DN1) \o Arr(DN2) \o AddrArg(DA1) \o AddrArg(DA2),                  x |-> Arr(DMacKey) \o Arr(DLtk)],
    [f |-> "f6",  a |-> Arr(DMacKey) \o Arr(DN1) \o Arr(DN2) \o Arr(DR) \o Arr(DIO) \o AddrArg(DA1) \o AddrArg(DA2), x |-> Arr(DF6Res)],
    [f |-> "g2",  a |-> Arr(DU) \o Arr(DV) \o Arr(DN1) \o Arr(DN2),                                       x |-> Arr(DG2Res)],
    [f |-> "sk",  a |-> Arr(DSkLtk) \o Arr(DSkdM) \o Arr(DSkdS),                                          x |-> Arr(DSkRes)],
    [f |-> "aes", a |-> Arr(DFipsK) \o Arr(DFipsP),                                                       x |-> Arr(DFipsC)],
    [f |-> "aes", a |-> Arr(DCmacK) \o Arr(Zeros(16)),                                                    x |-> Arr(D1L)] >>
ASSUME VectorShapes == \A i \in 1..Len(Vectors) : /\ IsOctets(Vectors[i].a, ArgLen(Vectors[i].f))
                                                  /\ IsOctets(Vectors[i].x, ResultLen(Vectors[i].f))

-----------------------------------------------------------------------------
(* The (small) state machine: the tool box functions are pure; the only thing with a history is the  *)
(* passkey that was generated for display.                                                           *)
VARIABLE shown       \* value of the passkey generated last, -1 before the first one

vars == <<shown>>
TypeOK == shown \in -1..16777215
Init   == shown = -1

\* C38: the generator hands out a TK that is a six digit passkey - whatever the random octets were
CreatePasskey(tk) == IsPasskeyTK(tk) /\ shown' = Low24(tk)
PureCall          == UNCHANGED shown

PasskeySixDigits  == shown \in -1..MaxPasskey
=============================================================================
