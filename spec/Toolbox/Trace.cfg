SPECIFICATION TSpec
INVARIANTS TypeOK PasskeySixDigits
CHECK_DEADLOCK FALSE
