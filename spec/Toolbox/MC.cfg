\* C38 design level: the rejection sampling generator hands out six digit passkeys for every octet stream
CONSTANTS Design = "reject20"
          B = {0, 1, 14, 15, 16, 31, 62, 63, 64, 65, 66, 67, 127, 128, 143, 239, 240, 254, 255}
SPECIFICATION PSpec
INVARIANTS PTypeOK OutIsPasskey PasskeySixDigits
PROPERTIES HandsOutPasskeys
CHECK_DEADLOCK FALSE
