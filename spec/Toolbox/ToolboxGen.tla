----------------------------- MODULE ToolboxGen -----------------------------
(* Input generator and design-level check for the tool box (C37, C38).                              *)
(*                                                                                                   *)
(* The tool box functions are pure, so a behaviour is a single call.  TLC enumerates the whole input *)
(* family below (breadth first, depth 1) and prints every call as one JSON line; the harness replays *)
(* each of them on the real code.  Family, per function (arguments as the flat octet sequence of the *)
(* C++ call):                                                                                        *)
(*   zero, ff        all octets 0x00 / 0xFF                                                          *)
(*   hot  p v        zero base, octet p = v for every position p of every operand, v in HotVals      *)
(*                   (address type flags: v = 1) - shows every octet order / operand layout mistake  *)
(*   rhot p          pseudo random base, octet p inverted               (thorough)                   *)
(*   rnd  i          pseudo random operands, i in 1..NRnd                                            *)
(*   io              f6 with every IO capability 0..4 x OOB flag x AuthReq sample                    *)
(*   z               f4 with the z values the protocol uses (0, 0x80, 0x81) and 1, 0xFF             *)
(*   vec i           the sample data published with the specifications, with the published result    *)
(* and for the passkey generator (C38) RNG octet streams: all-zero, all-0xFF, the values around      *)
(* 999999 = 0x0F423F / 1000000 / 2^20 / 2^24 as 3 and 4 octet streams, rejected-then-accepted        *)
(* 6 octet streams, pseudo random ones and a grid over the upper two octets.                         *)
(*                                                                                                   *)
(* While enumerating, TLC evaluates the specification of every call with a TOY cipher (a key         *)
(* dependent permutation of the 16 octet blocks) and checks that the result is well formed and that  *)
(* it differs from the zero call whenever one octet differs: the definitions use every octet.        *)
EXTENDS Toolbox, TLC, Json

CONSTANTS NRnd,        \* pseudo random calls per function
          HotVals,     \* values for the one-hot family, e.g. {1, 128}
          RHot,        \* TRUE: one-hot family over a pseudo random base as well
          Seed,        \* seed of the pseudo random octets
          NPassRnd,    \* pseudo random RNG streams for create_passkey
          PassGrid     \* TRUE: grid over the two upper octets of the 24 bit value

VARIABLE hist
gvars == <<vars, hist>>

\* pseudo random octets: the Lehmer style generator x -> 75 x + 74 mod 65537
RECURSIVE RndFrom(_, _, _)
RndFrom(x, n, acc) == IF n = 0 THEN acc ELSE RndFrom((x * 75 + 74) % 65537, n - 1, Append(acc, (x \div 3) % 256))
RndSeq(s, n) == RndFrom((((s * 7919 + 104729) % 65537) * 75 + 74) % 65537, n, <<>>)

\* toy block cipher: for every key a permutation of the 16 octet blocks (rotation by one octet plus key
\* and position dependent constants); deliberately cheap - TLC evaluates it about 20,000 times
Toy(k, b) == IF Len(k) # 16 \/ Len(b) # 16 THEN Bottom
             ELSE [i \in 1..16 |-> (b[(i % 16) + 1] + 3 * k[i] + 7 * k[((i + 4) % 16) + 1] + i) % 256]

FnIndex(f) == CASE f = "c1" -> 1 [] f = "s1" -> 2 [] f = "f4" -> 3 [] f = "f5" -> 4 [] f = "f6" -> 5
                [] f = "g2" -> 6 [] f = "aes" -> 7 [] f = "sk" -> 8

\* (no LET inside a function constructor: TLC would re-evaluate it for every element)
ZeroArgs(f)       == Zeros(ArgLen(f))
MaskFlags(f, r)   == [p \in 1..Len(r) |-> IF p \in FlagPos(f) THEN r[p] % 2 ELSE r[p]]
FFArgs(f)         == MaskFlags(f, [p \in 1..ArgLen(f) |-> 255])
RndArgs(f, i)     == MaskFlags(f, RndSeq(Seed * 1000 + FnIndex(f) * 97 + i, ArgLen(f)))
HotArgs(f, p, v)  == [ZeroArgs(f) EXCEPT ![p] = v]
Flip(f, b, p)     == [b EXCEPT ![p] = IF p \in FlagPos(f) THEN 1 - b[p] ELSE 255 - b[p]]
RHotArgs(f, p)    == Flip(f, RndArgs(f, 0), p)
With3(b, p, x, y, z) == [b EXCEPT ![p] = x, ![p + 1] = y, ![p + 2] = z]

Call(f, a, tag) == [f |-> f, a |-> a, tag |-> tag]

PureCalls ==
    UNION { {Call(f, ZeroArgs(f), <<"zero">>), Call(f, FFArgs(f), <<"ff">>)}
            \cup {Call(f, HotArgs(f, p, v), <<"hot", p, v>>) : p \in 1..ArgLen(f) \ FlagPos(f), v \in HotVals}
            \cup {Call(f, HotArgs(f, p, 1), <<"hot", p, 1>>) : p \in FlagPos(f)}
            \cup (IF RHot THEN {Call(f, RHotArgs(f, p), <<"rhot", p>>) : p \in 1..ArgLen(f)} ELSE {})
            \cup {Call(f, RndArgs(f, i), <<"rnd", i>>) : i \in 1..NRnd}
          : f \in Fns }
    \cup {Call("f6", With3(RndArgs("f6", 0), 65, io, oob, auth), <<"io", io, oob, auth>>)
            : io \in 0..4, oob \in 0..1, auth \in {0, 1, 4, 5, 8, 9, 13, 45}}
    \cup {Call("f4", [RndArgs("f4", 1) EXCEPT ![81] = z], <<"z", z>>) : z \in {0, 1, 128, 129, 255}}
    \cup {[f |-> Vectors[i].f, a |-> Vectors[i].a, tag |-> <<"vec", i>>, expect |-> Vectors[i].x] : i \in 1..Len(Vectors)}

\* --- RNG streams for create_passkey: <<tail seed, stream octets>> ----------------------------------
Oct3(v) == <<v % 256, (v \div 256) % 256, (v \div 65536) % 256>>
Edge == {0, 1, 9, 255, 256, 65535, 65536, 999998, 999999, 1000000, 1000001, 1000255, 1000256, 1048575, 1048576, 1048577,
         1065535, 2000000, 8388607, 8388608, 16711680, 16777214, 16777215, 999999 + 1048576, 1000000 + 1048576, 999999 + 15728640}
PassStreams ==
    {<<"v3", Oct3(v)>> : v \in Edge}
    \cup {<<"v4", Oct3(v) \o <<q>> >> : v \in {0, 999999, 1000000, 1048575, 16777215}, q \in {0, 1, 255}}
    \cup {<<"v6", Oct3(v) \o Oct3(w)>> : v \in {1000000, 1048575, 16777215, 999999}, w \in {0, 999999, 1000000, 16777215}}
    \cup {<<"const", [i \in 1..n |-> c]>> : n \in {0, 3, 4, 8, 16, 64}, c \in {0, 255}}
    \cup {<<"rnd", RndSeq(Seed * 1000 + 500 + i, 3)>> : i \in 1..NPassRnd}
    \cup (IF PassGrid THEN {<<"grid", <<b0, b1, b2>> >> : b0 \in {0, 63, 64, 255}, b1 \in {0, 1, 15, 16, 64, 65, 66, 67, 68, 127, 128, 200, 240, 241, 254, 255}, b2 \in 0..255} ELSE {})
PassCalls == {[f |-> "passkey", a |-> <<Seed + 1>> \o <<Len(s[2])>> \o s[2], tag |-> <<s[1]>>] : s \in PassStreams}

CONSTANT Which      \* "pure" (C37) or "passkey" (C38)
Calls == IF Which = "pure" THEN PureCalls ELSE PassCalls

GInit == Init /\ hist = <<>>
GNext == /\ hist = <<>>
         /\ \E c \in Calls : hist' = <<c>>
         /\ UNCHANGED vars
GSpec == GInit /\ [][GNext]_gvars

Emit == Len(hist) = 1 => PrintT(<<"BEHAVIOUR", ToJson(hist)>>)

\* --- design level checks on the enumerated family (toy cipher) --------------------------------------
ToyResult(c) == Result(Toy, c.f, c.a)
\* the value before g2's final truncation to 32 bits (the toy cipher has no diffusion, so a changed octet need
\* not reach the four octets g2 keeps)
Wide(f, a)   == IF f = "g2" THEN Cmac(Toy, Val(Opnd(f, a, 3)), G2Msg(Val(Opnd(f, a, 1)), Val(Opnd(f, a, 2)), Val(Opnd(f, a, 4))))
                ELSE Result(Toy, f, a)
WellFormed == (Len(hist) = 1 /\ hist[1].f \in Fns) =>
                 /\ IsOctets(hist[1].a, ArgLen(hist[1].f))
                 /\ \A p \in FlagPos(hist[1].f) : hist[1].a[p] \in {0, 1}
                 /\ IsOctets(ToyResult(hist[1]), ResultLen(hist[1].f))
\* every octet of every operand takes part in the result - except the upper halves of s1's two random
\* numbers, which the definition of s1 drops (r1', r2' are the least significant 64 bits)
Unused(f)  == IF f = "s1" THEN (25..32) \cup (41..48) ELSE {}
Sensitive  == (Len(hist) = 1 /\ hist[1].f \in Fns /\ hist[1].tag[1] = "hot") =>
                 ((Wide(hist[1].f, hist[1].a) = Wide(hist[1].f, ZeroArgs(hist[1].f))) <=> (hist[1].tag[2] \in Unused(hist[1].f)))
PassShape  == (Len(hist) = 1 /\ hist[1].f = "passkey") =>
                 /\ hist[1].a[2] = Len(hist[1].a) - 2
                 /\ \A i \in 3..Len(hist[1].a) : hist[1].a[i] \in Octet
=============================================================================
