\* C38 design level, thorough tier: a larger octet alphabet (every 8th value plus the boundaries of 0x0F423F)
CONSTANTS Design = "reject20"
          B = {0, 1, 8, 14, 15, 16, 17, 24, 31, 32, 40, 48, 56, 62, 63, 64, 65, 66, 67, 72, 80, 88, 96, 104, 112, 120, 127, 128,
               136, 143, 144, 152, 160, 168, 176, 184, 192, 200, 208, 216, 224, 232, 239, 240, 241, 248, 254, 255}
SPECIFICATION PSpec
INVARIANTS PTypeOK OutIsPasskey PasskeySixDigits
PROPERTIES HandsOutPasskeys
CHECK_DEADLOCK FALSE
