\* C38 design level: the generator as implemented (first three RNG octets verbatim) - PasskeySixDigits is
\* expected to be VIOLATED; TLC's shortest counterexample is recorded in the evidence
CONSTANTS Design = "raw3"
          B = {0, 1, 14, 15, 16, 31, 62, 63, 64, 65, 66, 67, 127, 128, 143, 239, 240, 254, 255}
SPECIFICATION PSpec
INVARIANTS PTypeOK PasskeySixDigits
CHECK_DEADLOCK FALSE
