---------------------------- MODULE ToolboxTrace ----------------------------
(***************************************************************************************************
Trace validation for C37 / C38: every recorded call of the real nRF52 security tool box must be a
step of Toolbox.  One event per call (harness/toolbox/toolbox_harness.cpp):

  {"e":"Reset"}
  {"e":"c1","k":[16],"r":[16],"p1":[16],"p2":[16],"res":[16],"ecb":[{"k":[16],"p":[16],"c":[16]},..]}
  {"e":"s1","k","srand","mrand","res","ecb"}         {"e":"f4","u":[32],"v":[32],"k","z":n,"res","ecb"}
  {"e":"f5","dh":[32],"nc","np","t1":0|1,"a1":[6],"t2","a2","mackey":[16],"ltk":[16],"ecb"}
  {"e":"f6","key","n1","n2","r","io":[3],"t1","a1","t2","a2","res","ecb"}
  {"e":"g2","u","v","x","y","res":[4],"ecb"}         {"e":"aes","key","data","res","ecb"}
  {"e":"sk","ltk","skdm":[8],"skds":[8],"res","ecb"}
  {"e":"vk","cls":n,"x":[32],"y":[32],"res":bool,"cert":[453]}
  {"e":"create_passkey","script":[..],"rng":[octets consumed],"res":[16],"shown_lo":n,"shown_hi":n}

All octet lists are the C++ arrays as passed / returned (index 0 first).  "ecb" is the log of the
emulated ECB peripheral for that call, in hardware (FIPS-197) octet order.  An optional "expect"
field carries the result published in the specification's sample data for these arguments.

The uninterpreted cipher E of Toolbox is interpreted, per event, as the finite map the log defines.
A call is explained only if its result equals the specified function of its arguments under that
map - which needs every block encryption the definition prescribes to be in the log.
***************************************************************************************************)
EXTENDS Toolbox, Json, IOUtils, TLC

Tr == ndJsonDeserialize(IOEnv.TRACE)

VARIABLE l
tvars == <<vars, l>>

Ev == Tr[l]
Has(ev, f) == f \in DOMAIN ev

\* the cipher map of one call
\* (here and below, quantification over a singleton set is an evaluation device only: it makes TLC compute
\* the bound value once instead of at every use of an operator argument)
Find(log, k, b) ==
    LET hits == {i \in 1..Len(log) : log[i].k = k /\ log[i].p = b}
    IN  IF hits = {} THEN Bottom ELSE log[CHOOSE i \in hits : \A j \in hits : i <= j].c
Lookup(log, k0, b0) == CHOOSE c \in {Find(log, k, b) : k \in {k0}, b \in {b0}} : TRUE
IsFunction(log) == \A i, j \in 1..Len(log) : (log[i].k = log[j].k /\ log[i].p = log[j].p) => log[i].c = log[j].c

\* arguments / result of a pure call in the flat layout of Toolbox!Shape
Flat(ev) == CASE ev.e = "c1"  -> ev.k \o ev.r \o ev.p1 \o ev.p2
              [] ev.e = "s1"  -> ev.k \o ev.srand \o ev.mrand
              [] ev.e = "f4"  -> ev.u \o ev.v \o ev.k \o <<ev.z>>
              [] ev.e = "f5"  -> ev.dh \o ev.nc \o ev.np \o <<ev.t1>> \o ev.a1 \o <<ev.t2>> \o ev.a2
              [] ev.e = "f6"  -> ev.key \o ev.n1 \o ev.n2 \o ev.r \o ev.io \o <<ev.t1>> \o ev.a1 \o <<ev.t2>> \o ev.a2
              [] ev.e = "g2"  -> ev.u \o ev.v \o ev.x \o ev.y
              [] ev.e = "aes" -> ev.key \o ev.data
              [] ev.e = "sk"  -> ev.ltk \o ev.skdm \o ev.skds
Returned(ev) == IF ev.e = "f5" THEN ev.mackey \o ev.ltk ELSE ev.res

\* what the specification says the call returns, given the block encryptions the call performed
Specified(ev) == LET E(k, b) == Lookup(ev.ecb, k, b)
                 IN  CHOOSE r \in {Result(E, ev.e, flat) : flat \in {Flat(ev)}} : TRUE

PureOK(ev, spec) ==
    /\ IsOctets(Flat(ev), ArgLen(ev.e))
    /\ IsFunction(ev.ecb)
    /\ Returned(ev) = spec
    /\ Has(ev, "expect") => ev.expect = spec

\* public key: the coordinates are little endian octet arrays = the base 256 digits of the numbers
CertLen == 33 + 32 + 65 + 32 + 64 + 65 + 65 + 97
Cert(ev) == [ql |-> SubSeq(ev.cert, 1, 33),    rl |-> SubSeq(ev.cert, 34, 65),   qr |-> SubSeq(ev.cert, 66, 130),
             rr |-> SubSeq(ev.cert, 131, 162), x2 |-> SubSeq(ev.cert, 163, 226),
             ca |-> SubSeq(ev.cert, 227, 291), cb |-> SubSeq(ev.cert, 292, 356), cc |-> SubSeq(ev.cert, 357, 453)]
Digits(a) == Rev(Val(a))
VkCertOK(ev) == /\ IsOctets(ev.x, 32) /\ IsOctets(ev.y, 32) /\ Len(ev.cert) = CertLen
                /\ \E x \in {Digits(ev.x)}, y \in {Digits(ev.y)}, cert \in {Cert(ev)} : CertOK(x, y, cert)
VkValid(ev)  == \E x \in {Digits(ev.x)}, y \in {Digits(ev.y)}, cert \in {Cert(ev)} : ValidP256(x, y, cert)
VkOK(ev) == /\ VkCertOK(ev)
            /\ ev.res = VkValid(ev)
            /\ Has(ev, "expect") => (ev.expect[1] = 1) = VkValid(ev)

\* Is the recorded call a step of Toolbox?  (state level: the functions are pure and CreatePasskey's
\* precondition does not depend on the state, so the expensive part is evaluated once per event)
PasskeyOK(ev) == /\ IsOctets(ev.res, 16)
                 /\ IsPasskeyTK(Val(ev.res))                          \* = ENABLED CreatePasskey(Val(ev.res))
                 \* what pairing_numeric_output shows is read_32bit(res): the same six digit number
                 /\ ev.shown_hi = 0 /\ ev.shown_lo = Low24(Val(ev.res))
Judge(ev) == \/ ev.e = "Reset"
             \/ ev.e \in Fns /\ PureOK(ev, Specified(ev))
             \/ ev.e = "vk"  /\ VkOK(ev)
             \/ ev.e = "create_passkey" /\ PasskeyOK(ev)
\* ... and the step it takes
Step(ev) == \/ ev.e = "Reset" /\ shown' = -1
            \/ ev.e \in Fns \cup {"vk"} /\ PureCall
            \/ ev.e = "create_passkey" /\ CreatePasskey(Val(ev.res))
Explain(ev) == Judge(ev) /\ Step(ev)

\* why an event was not explained (only used for the report; short strings - TLC wraps printed tuples at 80 columns)
\*   encryption-not-performed  the definition needs a block encryption E(k, b) that the call did not perform
\*   result-differs            all prescribed encryptions were performed, the returned value is not the specified one
\*   published-value-differs   the value published with the specification differs from the specified function
Raw24(ev) == IF Len(ev.rng) >= 3 THEN ev.rng[1] + 256 * ev.rng[2] + 65536 * ev.rng[3] ELSE -1
Diag(ev) ==
    IF ev.e \in Fns THEN
        LET spec == Specified(ev) IN
        IF ~IsOctets(Flat(ev), ArgLen(ev.e)) THEN "malformed-event"
        ELSE IF ~IsFunction(ev.ecb) THEN "ecb-log-not-a-function"
        ELSE IF Len(spec) # ResultLen(ev.e) THEN "encryption-not-performed"
        ELSE IF Returned(ev) # spec THEN "result-differs"
        ELSE "published-value-differs"
    ELSE IF ev.e = "vk" THEN
        IF ~VkCertOK(ev) THEN "bad-certificate"
        ELSE IF ev.res # VkValid(ev)
             THEN (IF ev.res THEN "accepts-invalid-key" ELSE "rejects-valid-key")
        ELSE "published-point-differs"
    ELSE IF ev.e = "create_passkey" THEN
        IF ~IsOctets(ev.res, 16) THEN "malformed-event"
        ELSE IF ~UpperZero(Val(ev.res)) THEN "upper-octets-not-zero"
        ELSE IF Low24(Val(ev.res)) > MaxPasskey
             THEN (IF Low24(Val(ev.res)) = Raw24(ev) THEN "out-of-range:first-3-rng-octets-verbatim" ELSE "out-of-range:other")
                  \o (IF Low24(Val(ev.res)) >= 1048576 THEN ":>=2^20" ELSE ":<2^20")
        ELSE "displayed-value-differs"
    ELSE "unexplained-event"

Resets == {i \in 1..Len(Tr) : Tr[i].e = "Reset"}
NextReset(i) == IF \E j \in Resets : j > i
                THEN CHOOSE j \in Resets : j > i /\ \A k \in Resets : k > i => j <= k
                ELSE Len(Tr) + 1

TInit == Init /\ l = 1

\* pure calls and failed passkey calls leave no state behind: validation continues with the next event
\* (an unexplained event does not hide the following ones); a Crash ends the execution
TNext ==
    \/ /\ l <= Len(Tr)
       /\ \E explained \in {Judge(Ev)} :
            IF explained
            THEN Step(Ev) /\ l' = l + 1
            ELSE /\ PrintT(<<"MISMATCH", l>>)
                 /\ PrintT(<<"DIAG", l, Diag(Ev)>>)
                 /\ l' = IF Ev.e = "Crash" THEN NextReset(l) ELSE l + 1
                 /\ UNCHANGED vars
    \/ /\ l = Len(Tr) + 1
       /\ PrintT(<<"TRACE_DONE", Len(Tr)>>)
       /\ l' = l + 1 /\ UNCHANGED vars

TSpec == TInit /\ [][TNext]_tvars
=============================================================================
