\* C38 quick RNG stream family
CONSTANTS NRnd = 0  HotVals = {1}  RHot = FALSE  Seed = 1  NPassRnd = 40  PassGrid = FALSE  Which = "passkey"
SPECIFICATION GSpec
INVARIANTS Emit WellFormed Sensitive PassShape TypeOK PasskeySixDigits
CHECK_DEADLOCK FALSE
