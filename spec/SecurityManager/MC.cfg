CONSTANTS MCKinds <- AllKinds  Enforce <- AllProps  Configs <- MCConfigs  Requests <- MCRequests  Opcodes <- AllOps  LenClasses <- AllLens  DbSlots <- AllDb
SPECIFICATION Spec
INVARIANTS TypeOK RevealAfterVerify OrderOnly KeyOnlyAfterSuccess DistAfterCompletion StatusSound
PROPERTIES DistOnlyEncrypted
CHECK_DEADLOCK FALSE
