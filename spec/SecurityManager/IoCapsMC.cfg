SPECIFICATION Spec
INVARIANT AllCellsDefined
CHECK_DEADLOCK FALSE
