--------------------------- MODULE SecurityManager ---------------------------
(* Property-level specification of the SMP responder (peripheral) for C32-C35.            *)
(*                                                                                        *)
(* Cryptography is symbolic: a value the central sends is a *label* (honest / wrong       *)
(* confirm value, honest / wrong random, valid / invalid public key, honest / wrong DHKey *)
(* check Ea); a value the peripheral sends is identified by its opcode (`o`).             *)
(* The central (environment) may send any SMP PDU at any time, the user may answer the    *)
(* numeric comparison question at any time, the link layer may switch encryption on/off,  *)
(* poll for output and ask for a key at any time.                                         *)
(*                                                                                        *)
(* Every action has two parts:                                                            *)
(*   - tracking: what the exchange *is* after this step, derived only from the inputs     *)
(*     (labels) and the kind of PDU the peripheral emitted; defined for every output,     *)
(*   - guards G32..G35: what the property with that number allows at this step.           *)
(* `Enforce` selects the guards that are active (model checking: all; trace validation of *)
(* ./check C33: only C33, so that a deviation from C32 does not hide what C33 says).      *)
(*                                                                                        *)
(* The spec demands no liveness: a valid step may always be answered with Pairing Failed. *)
EXTENDS IoCaps, Integers, Sequences

CONSTANT Enforce                  \* subset of {"C32", "C33", "C34", "C35"}
E(p) == p \in Enforce

VARIABLES
    cfg,        \* [kind, in, out, mitm, bond, oob, sync, pre]: manager variant, local IO, options, OOB data present,
                \*   sync = -1: user answers later, 0/1: user answers "no"/"yes" inside the callback,
                \*   pre = (EDIV,Rand) slots for which the application's bond data base holds an entry *of this peer* that
                \*   the application put there itself (bonds of earlier connections); the only field that changes (Db)
    phase,      \* "idle" "leg_req" "leg_conf" "lesc_req" "lesc_keys" "lesc_conf" "lesc_rand" "completed"
    fam,        \* "none" | "legacy" | "lesc"     family of the current / last exchange
    alg,        \* method selected for the current exchange (IoCaps!Methods) or "none"
    mconf,      \* legacy: central's confirm value received: "none" | "good" (honest, right TK) | "bad"
    ea,         \* LESC: central's DHKey check received while waiting for the user: "none" | "good" | "bad"
    user,       \* numeric comparison: "na" | "pending" | "yes" | "no"
    shown,      \* numeric comparison value was displayed and the user was asked in this exchange
    pairedOk,   \* phase = completed and every verification step of the exchange was done and passed
    authOk,     \* phase = completed and the exchange authenticated the peer
    enc,        \* link encrypted
    budget,     \* key distribution items that may still be sent for the last completed pairing
    dbLesc,     \* bond data base legitimately holds the LTK of a LESC pairing of this connection under (EDIV,Rand) = (0,0)
    dbNew,      \* bond data base legitimately holds the LTK created for distribution (legacy bonding) of this connection
    last        \* status of the last exchange that completed on this connection: "no_key" (none yet) | "unauthenticated" |
                \*   "authenticated"; survives later failed / aborted / unfinished exchanges

vars == <<cfg, phase, fam, alg, mconf, ea, user, shown, pairedOk, authOk, enc, budget, dbLesc, dbNew, last>>

Phases == {"idle", "leg_req", "leg_conf", "lesc_req", "lesc_keys", "lesc_conf", "lesc_rand", "completed"}
Kinds  == {"legacy", "lesc", "combined"}
Outs   == {"none", "failed", "response", "confirm", "random", "pubkey", "dhkey", "ltk", "ediv_rand", "other"}
Items  == {"ltk", "ediv_rand"}
\* (EDIV,Rand) classes a key can be asked for / a bond can be stored under:
\*   0: (0,0)   1: a pair some earlier bond was distributed with   2: a pair nobody ever distributed
\*   3: the pair the bond created by a legacy pairing on this connection is distributed with
\*   4: (0, Rand # 0)   5: (EDIV # 0, 0)
Slots  == 0..5
\* identity of an offered key: "cur" = the key the current / last exchange on this connection produces (reference
\* computation), "old" = the key of an earlier exchange on this connection, "new" = the LTK created for distribution by the
\* last legacy pairing, "newold" = by an earlier one, "this" / "other" = the key the application stored for slot kslot
\* and this peer / another peer, "unknown" = none of these
Kids   == {"none", "cur", "old", "new", "newold", "this", "other", "unknown"}

TypeOK ==
    /\ cfg.kind \in Kinds /\ cfg.in \in 0..2 /\ cfg.out \in 0..1 /\ cfg.mitm \in BOOLEAN /\ cfg.bond \in BOOLEAN
    /\ cfg.oob \in BOOLEAN /\ cfg.sync \in -1..1 /\ cfg.pre \subseteq Slots
    /\ phase \in Phases /\ fam \in {"none", "legacy", "lesc"} /\ alg \in Methods \cup {"none"}
    /\ mconf \in {"none", "good", "bad"} /\ ea \in {"none", "good", "bad"} /\ user \in {"na", "pending", "yes", "no"}
    /\ shown \in BOOLEAN /\ pairedOk \in BOOLEAN /\ authOk \in BOOLEAN /\ enc \in BOOLEAN
    /\ budget \subseteq Items /\ dbLesc \in BOOLEAN /\ dbNew \in BOOLEAN
    /\ last \in {"no_key", "unauthenticated", "authenticated"}

InitWith(c) ==
    /\ cfg = c /\ phase = "idle" /\ fam = "none" /\ alg = "none" /\ mconf = "none" /\ ea = "none" /\ user = "na"
    /\ shown = FALSE /\ pairedOk = FALSE /\ authOk = FALSE /\ enc = FALSE /\ budget = {} /\ dbLesc = FALSE /\ dbNew = FALSE
    /\ last = "no_key"

\* a new connection (what link_layer does when a connection is requested)
ResetTo(c) ==
    /\ cfg' = c /\ phase' = "idle" /\ fam' = "none" /\ alg' = "none" /\ mconf' = "none" /\ ea' = "none" /\ user' = "na"
    /\ shown' = FALSE /\ pairedOk' = FALSE /\ authOk' = FALSE /\ enc' = FALSE /\ budget' = {} /\ dbLesc' = FALSE /\ dbNew' = FALSE
    /\ last' = "no_key"

-----------------------------------------------------------------------------
(* a Pairing Request: r = [io, oob, auth, maxkey, idist, rdist] *)
ReqValid(r) == /\ r.io \in 0..4 /\ r.oob \in 0..1 /\ r.maxkey \in 7..16 /\ r.idist \in 0..15 /\ r.rdist \in 0..15

LegacyMethods == {"just_works", "oob", "passkey_display", "passkey_input"}
LescMethods   == LegacyMethods \cup {"numeric_comparison"}

\* tracking helpers ------------------------------------------------------------
ToIdle ==       \* Pairing Failed: the exchange is over, nothing of it may be used any more
    /\ phase' = "idle" /\ mconf' = "none" /\ ea' = "none" /\ pairedOk' = FALSE /\ authOk' = FALSE
    /\ UNCHANGED <<cfg, fam, alg, user, shown, enc, budget, dbLesc, dbNew, last>>
        \* `user` is kept: the application may still hold the question and answer it later

Stay == UNCHANGED vars

UserOk == alg # "numeric_comparison" \/ user = "yes"

\* the peripheral sent its last message of the exchange (legacy: Srand, LESC: Eb): pairing is complete for it
Complete(ok) ==
    LET auth == IF fam = "legacy" THEN ok /\ alg # "just_works"
                                  ELSE alg = "numeric_comparison" /\ user = "yes" /\ shown IN
    /\ phase' = "completed" /\ pairedOk' = ok
    /\ authOk' = auth
    /\ last' = IF auth THEN "authenticated" ELSE "unauthenticated"     \* whatever earlier exchanges achieved
    /\ budget' = IF cfg.bond /\ fam = "legacy" THEN Items ELSE budget
    \* a bonding manager stores the key of a completed pairing (slot 3 / slot 0) over whatever was there: the entry
    \* is legitimate afterwards iff this exchange was verified
    /\ dbNew'  = IF cfg.bond /\ fam = "legacy" THEN ok ELSE dbNew
    /\ dbLesc' = IF cfg.bond /\ fam = "lesc"   THEN ok ELSE dbLesc
    /\ mconf' = "none" /\ ea' = "none"
    /\ UNCHANGED <<cfg, fam, alg, user, shown, enc>>

-----------------------------------------------------------------------------
(* Pairing Request received; o = kind of the answer, rauth = AuthReq of the Pairing Response, *)
(* a = method the peripheral selected (C36 decides whether that choice is right)             *)
Req(r, o, rauth, a) ==
    LET lesc == UseLesc(r.auth, rauth) IN
    /\ E("C32") =>
          /\ o \in {"response", "failed"}
          /\ o = "response" =>
                /\ phase \in {"idle", "completed"}          \* re-pairing after completion may be accepted or refused
                /\ ReqValid(r)
                /\ (lesc => cfg.kind # "legacy") /\ (~lesc => cfg.kind # "lesc")
                /\ a \in (IF lesc THEN LescMethods ELSE LegacyMethods)
    /\ E("C34") => o \notin Items
    /\ CASE o = "response" ->
              /\ phase' = IF lesc THEN "lesc_req" ELSE "leg_req"
              /\ fam' = IF lesc THEN "lesc" ELSE "legacy"
              /\ alg' = a /\ mconf' = "none" /\ ea' = "none" /\ user' = "na" /\ shown' = FALSE
              /\ pairedOk' = FALSE /\ authOk' = FALSE
              /\ UNCHANGED <<cfg, enc, budget, dbLesc, dbNew, last>>
         [] o = "failed" -> ToIdle
         [] OTHER -> Stay

(* any other SMP PDU: opcode op, lc = 0 correct length / 1 too short / 2 too long, label = 0 honest/valid, *)
(* other = wrong; o = kind of the answer; sh = numeric value displayed and user asked during this call       *)
Pdu(op, lc, label, o, sh) ==
    LET good == lc = 0 /\ label = 0
        \* protocol steps that are in order
        legConfirm == op = 3  /\ lc = 0 /\ phase = "leg_req"
        legRandom  == op = 4  /\ lc = 0 /\ phase = "leg_conf"
        pubKey     == op = 12 /\ lc = 0 /\ phase = "lesc_req"
        lescRandom == op = 4  /\ lc = 0 /\ phase = "lesc_conf"
        dhkey      == op = 13 /\ lc = 0 /\ phase = "lesc_rand"
    IN
    /\ E("C32") =>
          \/ o = "failed"                                             \* always allowed, mandatory for everything else
          \/ o = "confirm" /\ legConfirm
          \/ o = "random"  /\ legRandom /\ mconf = "good" /\ good    \* Srand only after Mrand matched Mconfirm
          \/ o = "pubkey"  /\ pubKey /\ good                          \* only for a valid public key
          \/ o = "random"  /\ lescRandom
          \/ o = "dhkey"   /\ dhkey /\ good /\ UserOk                 \* Eb only after a correct Ea (and the user's yes)
          \/ o = "none"    /\ dhkey /\ user = "pending"               \* Ea kept until the user answered
    /\ E("C34") => o \notin Items
    /\ CASE o = "failed" -> ToIdle
         [] o = "confirm" /\ legConfirm ->
              /\ phase' = "leg_conf" /\ mconf' = IF good THEN "good" ELSE "bad"
              /\ UNCHANGED <<cfg, fam, alg, ea, user, shown, pairedOk, authOk, enc, budget, dbLesc, dbNew, last>>
         [] o = "random" /\ fam = "legacy" /\ phase \in {"leg_req", "leg_conf"} ->
              Complete(legRandom /\ mconf = "good" /\ good)
         [] o = "pubkey" /\ pubKey ->
              /\ phase' = "lesc_keys"
              /\ UNCHANGED <<cfg, fam, alg, mconf, ea, user, shown, pairedOk, authOk, enc, budget, dbLesc, dbNew, last>>
         [] o = "random" /\ lescRandom ->
              /\ phase' = "lesc_rand"
              /\ shown' = (alg = "numeric_comparison" /\ sh)
              /\ user' = IF alg = "numeric_comparison" /\ sh
                         THEN (CASE cfg.sync = -1 -> "pending" [] cfg.sync = 1 -> "yes" [] OTHER -> "no")
                         ELSE "na"
              /\ UNCHANGED <<cfg, fam, alg, mconf, ea, pairedOk, authOk, enc, budget, dbLesc, dbNew, last>>
         [] o = "dhkey" -> Complete(dhkey /\ good /\ UserOk)
         [] o = "none" /\ dhkey ->
              /\ ea' = IF good THEN "good" ELSE "bad"
              /\ UNCHANGED <<cfg, phase, fam, alg, mconf, user, shown, pairedOk, authOk, enc, budget, dbLesc, dbNew, last>>
         [] OTHER -> Stay

(* the link layer polls the security manager for output *)
Poll(o) ==
    /\ E("C32") =>
          \/ o \in {"none", "ltk", "ediv_rand"}                       \* key distribution is C34's business
          \/ o = "confirm" /\ phase = "lesc_keys"
          \/ o = "dhkey"   /\ phase = "lesc_rand" /\ ea = "good" /\ UserOk   \* deferred Eb: the stored Ea was correct
          \/ o = "failed"                                             \* giving up is always allowed
    \* C34: every distributed item is judged against the encryption state *of this call* (`enc` follows every Enc
    \* event and is compared with the connection's is_encrypted() after every event), not of an earlier poll
    /\ E("C34") => (o \in Items => enc /\ o \in budget)
    /\ CASE o = "confirm" /\ phase = "lesc_keys" ->
              /\ phase' = "lesc_conf"
              /\ UNCHANGED <<cfg, fam, alg, mconf, ea, user, shown, pairedOk, authOk, enc, budget, dbLesc, dbNew, last>>
         [] o = "dhkey"  -> Complete(phase = "lesc_rand" /\ ea = "good" /\ UserOk)
         [] o = "failed" -> ToIdle
         [] o \in Items  ->
              /\ budget' = budget \ {o}
              /\ UNCHANGED <<cfg, phase, fam, alg, mconf, ea, user, shown, pairedOk, authOk, enc, dbLesc, dbNew, last>>
         [] OTHER -> Stay

(* the user answers the numeric comparison question (an answer nobody waits for changes nothing) *)
User(answer) ==
    /\ user' = IF user = "pending" THEN (IF answer THEN "yes" ELSE "no") ELSE user
    /\ UNCHANGED <<cfg, phase, fam, alg, mconf, ea, shown, pairedOk, authOk, enc, budget, dbLesc, dbNew, last>>

(* the link layer starts / stops encryption *)
Enc(on) ==
    /\ enc' = on
    /\ UNCHANGED <<cfg, phase, fam, alg, mconf, ea, user, shown, pairedOk, authOk, budget, dbLesc, dbNew, last>>

(* The bond data base is an object of the application (environment): at any time it may hold entries for any       *)
(* (EDIV,Rand) slot - (0,0) included, that is where LESC bonds live - for this peer and for other peers, put there  *)
(* by the application (bonds of earlier connections) or by the security manager (store_bond). Db: the application  *)
(* adds / removes the entry of slot s for this peer (peer = 0) or for another peer (peer = 1). An entry of another  *)
(* peer is never a key for this connection, so the spec keeps no state for it. Writing or erasing slot 0 / 3 for   *)
(* this peer replaces what a pairing on this connection stored there.                                              *)
Db(peer, s, on) ==
    IF peer = 0
    THEN /\ cfg' = [cfg EXCEPT !.pre = IF on THEN @ \cup {s} ELSE @ \ {s}]
         /\ dbLesc' = (dbLesc /\ s # 0) /\ dbNew' = (dbNew /\ s # 3)
         /\ UNCHANGED <<phase, fam, alg, mconf, ea, user, shown, pairedOk, authOk, enc, budget, last>>
    ELSE Stay

(* the link layer looks up a key (LL_ENC_REQ) for slot `which`.                                                    *)
(* found: a key is offered; kid / kslot: which key it is (Kids); dbsame: it equals what the bond data base holds   *)
(* for (EDIV, Rand, this peer) at the time of the call.                                                            *)
(*                                                                                                                 *)
(* C33: "... offers a key only after a pairing on this connection completed successfully (requested with EDIV=0    *)
(* and Rand=0) or when the bond database holds a key for the requested EDIV/Rand and peer, and the offered key is  *)
(* the one that pairing produced."                                                                                 *)
(* DECISION for the case that BOTH exist for (0,0) - a pairing completed successfully on this connection and the   *)
(* bond data base holds an entry for (0,0, peer) (an older LESC bond, or one the application stored): the last     *)
(* clause is unconditional, so the offered key has to be the key that pairing produced ("cur"); the bond entry is  *)
(* not an acceptable answer then. (The central that just paired encrypts with the new STK / LTK; an older bond key  *)
(* would also put the link under a key whose authentication is not the one C35 reports for this pairing.) The bond  *)
(* data base is the source only when no successfully completed pairing of this connection answers the request:     *)
(* other slots, or slot 0 while pairing is idle / in progress / failed / completed without verification. A key     *)
(* taken from the bond data base must be the entry of exactly (slot, this peer) and must have got there            *)
(* legitimately: stored by the application (kid "this", same slot) or by a verified pairing on this connection     *)
(* (slot 0: LESC LTK, kid "cur" / "old"; slot 3: the created LTK, kid "new").                                      *)
PairingAnswers(which) == which = 0 /\ phase = "completed" /\ pairedOk
DbHolds(which, kid, kslot) ==
    \/ which \in cfg.pre /\ kid = "this" /\ kslot = which
    \/ which = 0 /\ dbLesc /\ kid \in {"cur", "old"}
    \/ which = 3 /\ dbNew  /\ kid = "new"
Find(which, found, kid, kslot, dbsame) ==
    /\ E("C33") =>
          (found => IF PairingAnswers(which) THEN kid = "cur"
                                             ELSE DbHolds(which, kid, kslot) /\ dbsame)
    /\ Stay

\* what has to be reported as pairing status (C35)
\* "... authenticated key exactly when the completed pairing exchange authenticated the peer, ... unauthenticated key
\* exactly after Just Works, ... no key when no pairing completed": several exchanges may run on one connection; the
\* status is that of the LAST completed exchange alone - an authenticated exchange followed by a completed Just Works
\* exchange is unauthenticated (and vice versa), whatever happened in between. While the last exchange is not completed
\* (new request in progress, failed, aborted) after an earlier one did complete, the property is silent: both "no_key"
\* (what the strict reading ExpStatus says) and the status of the last completed exchange are accepted, nothing stronger.
AllowedStatus == IF phase = "completed" THEN { IF authOk THEN "authenticated" ELSE "unauthenticated" }
                                        ELSE { "no_key", last }
ExpStatus == IF phase # "completed" THEN "no_key"
             ELSE IF authOk THEN "authenticated" ELSE "unauthenticated"

-----------------------------------------------------------------------------
(* model checking: the environment does anything, the peripheral anything the enforced guards allow *)
CONSTANTS Configs,      \* set of cfg records
          Requests,     \* set of request records [io, oob, auth, maxkey, idist, rdist]
          Opcodes,      \* SMP opcodes the environment uses (0..15 in the thorough tier)
          LenClasses,   \* length classes the environment uses (0 correct, 1 too short, 2 too long)
          DbSlots       \* slots the application adds / removes bond data base entries for

Init == \E c \in Configs : InitWith(c)

\* AuthReq octet of the Pairing Response of this configuration (SC iff the manager can do LESC)
RAuth == (IF cfg.kind = "legacy" THEN 0 ELSE 8) + (IF cfg.mitm THEN 4 ELSE 0) + (IF cfg.bond THEN 1 ELSE 0)

Next ==
    \/ \E r \in Requests, o \in Outs, a \in LescMethods : Req(r, o, RAuth, a)
    \/ \E op \in Opcodes, lc \in LenClasses, label \in 0..1, o \in Outs, sh \in BOOLEAN : Pdu(op, lc, label, o, sh)
    \/ \E o \in Outs : Poll(o)
    \/ \E b \in BOOLEAN : User(b) \/ Enc(b)
    \/ \E w \in {0, 1, 3}, f \in BOOLEAN, k \in {"cur", "this"}, s \in BOOLEAN : Find(w, f, k, w, s)   \* (changes nothing)
    \/ \E p \in 0..1, sl \in DbSlots, on \in BOOLEAN : Db(p, sl, on)

Spec == Init /\ [][Next]_vars

\* --- the listed properties as invariants of the spec with every guard enforced ---
\* C32: a completed exchange went through every verification step, in order
RevealAfterVerify == phase = "completed" => pairedOk
OrderOnly == /\ phase \in {"leg_req", "leg_conf"} => fam = "legacy" /\ cfg.kind # "lesc"
             /\ phase \in {"lesc_req", "lesc_keys", "lesc_conf", "lesc_rand"} => fam = "lesc" /\ cfg.kind # "legacy"
             /\ (phase = "completed" /\ alg = "numeric_comparison") => user = "yes"
             /\ ea # "none" => phase = "lesc_rand" /\ user # "na"
\* C33: the pairing key is only ever offered for a verified, completed exchange
KeyOnlyAfterSuccess == pairedOk => phase = "completed"
\* C34: an item can only be pending after a completed (legacy, bonding) pairing; sending needs encryption
DistOnlyEncrypted == [][budget' # budget /\ budget' \subseteq budget => enc]_vars
DistAfterCompletion == budget # {} => cfg.bond /\ cfg.kind # "lesc"
\* C35
StatusSound == /\ authOk => phase = "completed" /\ alg # "just_works"
               /\ (authOk /\ fam = "legacy") => pairedOk
               /\ (authOk /\ fam = "lesc") => alg = "numeric_comparison" /\ user = "yes" /\ shown
               /\ (ExpStatus = "no_key") = (phase # "completed")
               /\ ExpStatus \in AllowedStatus /\ (phase = "completed" => last = ExpStatus)
=============================================================================
