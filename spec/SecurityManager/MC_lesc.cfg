CONSTANTS MCKind = "lesc"  Enforce <- AllProps  Configs <- MCConfigs  Requests <- MCRequests  Opcodes <- AllOps
SPECIFICATION Spec
INVARIANTS TypeOK RevealAfterVerify OrderOnly KeyOnlyAfterSuccess DistAfterCompletion StatusSound
PROPERTIES DistOnlyEncrypted
CHECK_DEADLOCK FALSE
