----------------------------- MODULE IoCapsTrace -----------------------------
(* C36: every recorded Pairing Request / Pairing Response pair of the real security managers (and    *)
(* every cell of the real io_capabilities_matrix) must be a row of the Core specification's tables   *)
(* as transcribed in IoCaps.tla.                                                                     *)
(* Rows are independent of each other (each Req is sent to a fresh manager and connection).          *)
(*   {"e":"Reset",...}                                   a new configuration follows (no content)      *)
(*   {"e":"Req","kind":0|1|2,"in":0..2,"out":0..1,"mitm":b,                                         *)
(*            "io","oobf","auth","maxkey","idist","rdist","oobdata":b,                               *)
(*            "rsp":b,"rio","roob","rauth", "alg":method,"family":"legacy"|"lesc"|"none","oop","olen",..} *)
(*   {"e":"Matrix","in","out","io","lio","legacy":method,"lesc":method}                              *)
EXTENDS IoCaps, Json, IOUtils, TLC, Integers, Sequences

Tr == ndJsonDeserialize(IOEnv.TRACE)

VARIABLE l
tvars == <<l>>
Ev == Tr[l]

ReqValid(ev) == ev.io \in 0..4 /\ ev.oobf \in 0..1 /\ ev.maxkey \in 7..16 /\ ev.idist \in 0..15 /\ ev.rdist \in 0..15

\* what the Core specification selects for the exchanged request / response
Expected(ev)   == Method(ev.io, ev.oobf = 1, ev.auth % 32, ev.rio, ev.roob = 1, ev.rauth)
TableOnly(ev)  == MethodIgnoringMitm(ev.io, ev.oobf = 1, ev.auth % 32, ev.rio, ev.roob = 1, ev.rauth)
Lesc(ev)       == UseLesc(ev.auth % 32, ev.rauth)

ReqRow(ev) ==
    LET cfg == [kind |-> ev.kind, in |-> ev.in, out |-> ev.out] IN
    IF ~ReqValid(ev) \/ (cfg.kind = 1 /\ ~SC(ev.auth % 32))       \* malformed, or legacy pairing asked from the LESC-only manager
    THEN ~ev.rsp /\ ev.oop = 5 /\ ev.olen = 2
    ELSE /\ ev.rsp
         /\ ev.rio = IoCapOf(cfg.in, cfg.out)                      \* advertised IO capability (Table 2.5)
         /\ ev.roob \in 0..1 /\ (ev.roob = 1 => ev.oobdata)        \* OOB flag only with OOB data
         /\ (cfg.kind = 0 => ~SC(ev.rauth))                        \* the legacy manager cannot offer LESC
         /\ ev.family = IF Lesc(ev) THEN "lesc" ELSE "legacy"
         /\ ev.alg = Expected(ev)

MatrixRow(ev) ==
    /\ ev.lio = IoCapOf(ev.in, ev.out)
    /\ ev.legacy = IoMethod(FALSE, IoCapOf(ev.in, ev.out), ev.io)
    /\ ev.lesc   = IoMethod(TRUE,  IoCapOf(ev.in, ev.out), ev.io)

Explain(ev) ==
    \/ ev.e = "Reset"
    \/ ev.e = "Req"    /\ ReqRow(ev)
    \/ ev.e = "Matrix" /\ MatrixRow(ev)

Resets == {i \in 1..Len(Tr) : Tr[i].e = "Reset"}
NextReset(i) == IF \E j \in Resets : j > i
                THEN CHOOSE j \in Resets : j > i /\ \A k \in Resets : k > i => j <= k
                ELSE Len(Tr) + 1

\* for the signature of a finding: what was expected
Context(ev) ==
    IF ev.e = "Req" /\ ev.rsp /\ ReqValid(ev)
    THEN [expected |-> Expected(ev), tableonly |-> TableOnly(ev), lesc |-> Lesc(ev),
          mitm |-> Mitm(ev.auth % 32) \/ Mitm(ev.rauth), expio |-> IoCapOf(ev.in, ev.out)]
    ELSE [expected |-> "failed"]

TInit == l = 1

TNext ==
    \/ /\ l <= Len(Tr)
       /\ IF ENABLED Explain(Ev)
          THEN Explain(Ev) /\ l' = l + 1
          ELSE PrintT(<<"CONTEXT", l, ToJson(Context(Ev))>>) /\ PrintT(<<"MISMATCH", l>>)
               /\ l' = l + 1                          \* rows are independent: go on with the next one
    \/ /\ l = Len(Tr) + 1
       /\ PrintT(<<"TRACE_DONE", Len(Tr)>>)
       /\ l' = l + 1

TSpec == TInit /\ [][TNext]_tvars
=============================================================================
