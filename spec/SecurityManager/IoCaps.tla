------------------------------- MODULE IoCaps -------------------------------
(* Reference definition of the SMP pairing method selection (C36).              *)
(* Transcribed from the Bluetooth Core Specification, Vol 3 Part H,             *)
(*   3.5.1  (Table 3.3/3.4: IO capability codes), 2.3.2 (Table 2.3-2.5: input x *)
(*   output capability -> IO capability), 2.3.5.1 (Table 2.6: OOB/MITM rules    *)
(*   for LE legacy pairing, Table 2.7: for LE Secure Connections, Table 2.8:    *)
(*   mapping of IO capabilities to key generation method).                      *)
(* NOT transcribed from the Bluetoe sources.                                    *)
(* Everything is a function of the *exchanged* Pairing Request / Pairing        *)
(* Response fields, which is how the Core specification states the rules.       *)
EXTENDS Naturals, FiniteSets

\* IO capability codes (3.5.1)
DisplayOnly     == 0
DisplayYesNo    == 1
KeyboardOnly    == 2
NoInputNoOutput == 3
KeyboardDisplay == 4
IoCap == 0..4

\* local input / output capabilities (2.3.2)
NoInput == 0  YesNo == 1  Keyboard == 2         \* input
NoOutput == 0 NumericOutput == 1                \* output

\* Table 2.5: mapping of input and output capabilities to the IO capability
IoCapOf(in, out) ==
    CASE in = NoInput  /\ out = NoOutput      -> NoInputNoOutput
      [] in = YesNo    /\ out = NoOutput      -> NoInputNoOutput
      [] in = Keyboard /\ out = NoOutput      -> KeyboardOnly
      [] in = NoInput  /\ out = NumericOutput -> DisplayOnly
      [] in = YesNo    /\ out = NumericOutput -> DisplayYesNo
      [] in = Keyboard /\ out = NumericOutput -> KeyboardDisplay

\* key generation methods, from the responder's point of view
Methods == {"just_works", "passkey_display",   \* passkey entry: responder displays, initiator inputs
            "passkey_input",                   \* passkey entry: initiator displays (or both input), responder inputs
            "numeric_comparison", "oob"}

JW == "just_works"  PD == "passkey_display"  PI == "passkey_input"  NC == "numeric_comparison"

\* Table 2.8, rows = responder, columns = initiator (DisplayOnly, DisplayYesNo, KeyboardOnly,
\* NoInputNoOutput, KeyboardDisplay); each cell <<legacy, LE secure connections>>.
\* "Passkey Entry: responder displays, initiator inputs" = PD; "initiator displays, responder
\* inputs" and "initiator and responder input" = PI (the responder inputs in both).
Table28 ==
    <<  \* responder DisplayOnly
        << <<JW,JW>>, <<JW,JW>>, <<PD,PD>>, <<JW,JW>>, <<PD,PD>> >>,
        \* responder DisplayYesNo
        << <<JW,JW>>, <<JW,NC>>, <<PD,PD>>, <<JW,JW>>, <<PD,NC>> >>,
        \* responder KeyboardOnly
        << <<PI,PI>>, <<PI,PI>>, <<PI,PI>>, <<JW,JW>>, <<PI,PI>> >>,
        \* responder NoInputNoOutput
        << <<JW,JW>>, <<JW,JW>>, <<JW,JW>>, <<JW,JW>>, <<JW,JW>> >>,
        \* responder KeyboardDisplay
        << <<PI,PI>>, <<PI,NC>>, <<PD,PD>>, <<JW,JW>>, <<PI,NC>> >>
    >>

IoMethod(lesc, ioR, ioI) == Table28[ioR + 1][ioI + 1][IF lesc THEN 2 ELSE 1]

\* AuthReq bits (3.5.1, Figure 3.3)
Bit(x, b) == (x \div b) % 2 = 1
Bonding(a) == Bit(a, 1)
Mitm(a)    == Bit(a, 4)
SC(a)      == Bit(a, 8)
Keypress(a) == Bit(a, 16)

\* LE Secure Connections pairing is used iff both devices set SC (2.3.1 / 2.3.5.1)
UseLesc(authI, authR) == SC(authI) /\ SC(authR)

\* Table 2.6 / 2.7 followed by Table 2.8
Method(ioI, oobI, authI, ioR, oobR, authR) ==
    LET lesc == UseLesc(authI, authR)
        useOob == IF lesc THEN oobI \/ oobR         \* Table 2.7: at least one side has OOB data
                          ELSE oobI /\ oobR         \* Table 2.6: both sides have OOB data
        mitm == Mitm(authI) \/ Mitm(authR)
    IN  IF useOob THEN "oob"
        ELSE IF ~mitm THEN JW                       \* neither side requests MITM protection: IO capabilities ignored
        ELSE IoMethod(lesc, ioR, ioI)

\* the same without the MITM rule (used only to classify deviations, not as an oracle)
MethodIgnoringMitm(ioI, oobI, authI, ioR, oobR, authR) ==
    LET lesc == UseLesc(authI, authR)
        useOob == IF lesc THEN oobI \/ oobR ELSE oobI /\ oobR
    IN  IF useOob THEN "oob" ELSE IoMethod(lesc, ioR, ioI)

Authenticated(m) == m # JW

-----------------------------------------------------------------------------
(* sanity properties of the transcription, checked by TLC (ASSUME = evaluated once) *)

\* mirror image of a method when initiator and responder swap roles
Mirror(m) == CASE m = PD -> PI [] m = PI -> PD [] OTHER -> m

ASSUME TableTotal ==
    \A r \in IoCap, i \in IoCap, l \in BOOLEAN : IoMethod(l, r, i) \in Methods \ {"oob"}
\* the table is symmetric up to the roles, except where both sides have to type (KeyboardOnly x
\* KeyboardOnly: both input) and where one keyboard+display meets another (the initiator displays)
ASSUME TableSymmetric ==
    \A r \in IoCap, i \in IoCap, l \in BOOLEAN :
        \/ IoMethod(l, r, i) = Mirror(IoMethod(l, i, r))
        \/ (r = KeyboardOnly /\ i = KeyboardOnly)
        \/ (~l /\ r = KeyboardDisplay /\ i = KeyboardDisplay)
\* numeric comparison exactly when both can display and both can say yes/no, and only with LESC
ASSUME NumericComparisonCells ==
    \A r \in IoCap, i \in IoCap, l \in BOOLEAN :
        (IoMethod(l, r, i) = NC) <=> (l /\ r \in {DisplayYesNo, KeyboardDisplay} /\ i \in {DisplayYesNo, KeyboardDisplay})
\* legacy and LESC differ only in the numeric comparison cells
ASSUME LegacyLescDiffer ==
    \A r \in IoCap, i \in IoCap :
        IoMethod(FALSE, r, i) # IoMethod(TRUE, r, i) => IoMethod(TRUE, r, i) = NC
\* no input and no output on either side: nothing but Just Works is possible
ASSUME NoIoJustWorks ==
    \A x \in IoCap, l \in BOOLEAN : IoMethod(l, NoInputNoOutput, x) = JW /\ IoMethod(l, x, NoInputNoOutput) = JW
\* a passkey can only be displayed by a side with a display and typed by a side with a keyboard
HasDisplay(c)  == c \in {DisplayOnly, DisplayYesNo, KeyboardDisplay}
HasKeyboard(c) == c \in {KeyboardOnly, KeyboardDisplay}
ASSUME PasskeyFeasible ==
    \A r \in IoCap, i \in IoCap, l \in BOOLEAN :
        /\ IoMethod(l, r, i) = PD => HasDisplay(r) /\ HasKeyboard(i)
        /\ IoMethod(l, r, i) = PI => HasKeyboard(r) /\ (HasDisplay(i) \/ HasKeyboard(i))
\* whenever a passkey could be exchanged the table does not fall back to Just Works
ASSUME NoNeedlessJustWorks ==
    \A r \in IoCap, i \in IoCap, l \in BOOLEAN :
        IoMethod(l, r, i) = JW => ~( (HasDisplay(r) /\ HasKeyboard(i)) \/ (HasKeyboard(r) /\ HasDisplay(i)) \/ (HasKeyboard(r) /\ HasKeyboard(i)) )
ASSUME IoCapOfTotal ==
    \A in \in 0..2, out \in 0..1 : IoCapOf(in, out) \in IoCap
ASSUME OobRule ==
    \A a \in 0..31, b \in 0..31, r \in IoCap, i \in IoCap :
        /\ Method(i, TRUE, a, r, TRUE, b) = "oob"
        /\ Method(i, FALSE, a, r, FALSE, b) # "oob"
        /\ (Method(i, TRUE, a, r, FALSE, b) = "oob") = UseLesc(a, b)
        /\ (Method(i, FALSE, a, r, TRUE, b) = "oob") = UseLesc(a, b)
=============================================================================
