------------------------------- MODULE MCSM -------------------------------
(* exhaustive model checking of SecurityManager: all three manager kinds x bonding x user answer timing; *)
(* the environment sends every opcode 0..15 with right / wrong length and honest / wrong label at every  *)
(* step. The IO configuration does not occur in the guards (method selection is C36), so it is fixed.    *)
EXTENDS SecurityManager

CONSTANT MCKinds
MCConfigs == { [kind |-> k, in |-> 1, out |-> 1, mitm |-> FALSE, bond |-> b, oob |-> FALSE, sync |-> s, pre |-> {}] :
               k \in MCKinds, b \in BOOLEAN, s \in -1..1 }
MCRequests == { [io |-> i, oob |-> 0, auth |-> a, maxkey |-> 16, idist |-> 0, rdist |-> 0] : i \in {1, 5}, a \in {0, 8} }
AllProps == {"C32", "C33", "C34", "C35"}
NoProps == {}
AllKinds == {"legacy", "lesc", "combined"}
AllOps == 0..15
QuickOps == {1, 3, 4, 11, 12, 13}
AllLens == 0..2
QuickLens == {0, 1}
NoDb == {}
AllDb == {0}      \* slot 0 is where the bond store of a LESC pairing and the application's entries meet
QuickConfigs == { c \in MCConfigs : c.bond /\ c.sync # 0 }
=============================================================================
