CONSTANTS Enforce <- TraceEnforce  Configs = {}  Requests = {}  Opcodes = {}  LenClasses = {}  DbSlots = {}
SPECIFICATION TSpec
INVARIANTS TypeOK
CHECK_DEADLOCK FALSE
