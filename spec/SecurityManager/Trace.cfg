CONSTANTS Enforce <- TraceEnforce  Configs = {}  Requests = {}  Opcodes = {}
SPECIFICATION TSpec
INVARIANTS TypeOK
CHECK_DEADLOCK FALSE
