CONSTANTS Enforce <- TraceEnforce  Configs = {}  Requests = {}  Opcodes = {}  LenClasses = {}
SPECIFICATION TSpec
INVARIANTS TypeOK
CHECK_DEADLOCK FALSE
