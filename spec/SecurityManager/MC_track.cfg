CONSTANTS MCKinds <- AllKinds  Enforce <- NoProps  Configs <- MCConfigs  Requests <- MCRequests  Opcodes <- QuickOps  LenClasses <- QuickLens
SPECIFICATION Spec
INVARIANTS TypeOK KeyOnlyAfterSuccess DistAfterCompletion
CHECK_DEADLOCK FALSE
