CONSTANTS MCKinds <- AllKinds  Enforce <- NoProps  Configs <- MCConfigs  Requests <- MCRequests  Opcodes <- QuickOps  LenClasses <- QuickLens  DbSlots <- NoDb
SPECIFICATION Spec
INVARIANTS TypeOK KeyOnlyAfterSuccess DistAfterCompletion
CHECK_DEADLOCK FALSE
