CONSTANTS MCKind = "combined"  Enforce <- NoProps  Configs <- MCConfigs  Requests <- MCRequests  Opcodes <- QuickOps
SPECIFICATION Spec
INVARIANTS TypeOK KeyOnlyAfterSuccess DistAfterCompletion
CHECK_DEADLOCK FALSE
