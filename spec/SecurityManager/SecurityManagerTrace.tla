------------------------ MODULE SecurityManagerTrace ------------------------
(* Trace validation: every recorded call of the real security manager must be a step of       *)
(* SecurityManager with the guards of the property under test (constant Enforce) switched on. *)
(* Events (harness/sm/sm_harness.cpp):                                                        *)
(*   Reset kind in out mitm bond oob sync                                                     *)
(*   Req   io oobf auth maxkey idist rdist | rsp rauth alg family <out> <obs>                 *)
(*   Pdu   op lc label | <out> <obs>          Poll | <out> <obs>                              *)
(*   User  answer waspending <obs>            Enc on changed <obs>                            *)
(*   Find  which | found kid kslot indb dbsame <obs>                                          *)
(*   Db    peer slot on <obs>               (the application adds / removes a bond data base entry) *)
(*   <out> = olen oop oerr carries out        <obs> = st lstat encrypted linkstat upend dask ddisp *)
EXTENDS SecurityManager, Json, IOUtils, TLC

Tr == ndJsonDeserialize(IOEnv.TRACE)

\* guards switched on: the property under test (environment variable PROP; "ALL" = every guard)
TraceEnforce == IF IOEnv.PROP = "ALL" THEN {"C32", "C33", "C34", "C35"} ELSE {IOEnv.PROP}

VARIABLE l
tvars == <<vars, l>>
Ev == Tr[l]

KindName(k) == CASE k = 0 -> "legacy" [] k = 1 -> "lesc" [] OTHER -> "combined"

\* kind of PDU the peripheral emitted
OutOf(ev) ==
    IF ev.olen = 0 THEN "none"
    ELSE CASE ev.oop = 5  /\ ev.olen = 2  -> "failed"
           [] ev.oop = 2  /\ ev.olen = 7  -> "response"
           [] ev.oop = 3  /\ ev.olen = 17 -> "confirm"
           [] ev.oop = 4  /\ ev.olen = 17 -> "random"
           [] ev.oop = 12 /\ ev.olen = 65 -> "pubkey"
           [] ev.oop = 13 /\ ev.olen = 17 -> "dhkey"
           [] ev.oop = 6  /\ ev.olen = 17 -> "ltk"
           [] ev.oop = 7  /\ ev.olen = 11 -> "ediv_rand"
           [] OTHER -> "other"

\* the logged observation must be the projection of the state after the step
ObsOK(ev) ==
    /\ E("C35") => ev.lstat \in AllowedStatus'
    /\ ev.encrypted = enc'

\* "... is answered with Pairing Failed and returns pairing to idle"
FailedIsIdle(ev) == E("C32") => (OutOf(ev) = "failed" => ev.st = "idle")

Explain(ev) ==
    \/ /\ ev.e = "Reset"
       /\ ResetTo([kind |-> KindName(ev.kind), in |-> ev.in, out |-> ev.out, mitm |-> ev.mitm, bond |-> ev.bond,
                    oob |-> ev.oob, sync |-> ev.sync, pre |-> {ev.pre[i] : i \in DOMAIN ev.pre}])
    \/ /\ ev.e = "Req"
       /\ Req([io |-> ev.io, oob |-> ev.oobf, auth |-> ev.auth, maxkey |-> ev.maxkey, idist |-> ev.idist, rdist |-> ev.rdist],
              OutOf(ev), IF ev.rsp THEN ev.rauth ELSE 0, IF ev.alg \in Methods THEN ev.alg ELSE "none")
       /\ ObsOK(ev) /\ FailedIsIdle(ev)
    \/ ev.e = "Pdu"  /\ Pdu(ev.op, ev.lc, ev.label, OutOf(ev), ev.dask > 0 /\ ev.ddisp > 0) /\ ObsOK(ev) /\ FailedIsIdle(ev)
    \/ ev.e = "Poll" /\ Poll(OutOf(ev)) /\ ObsOK(ev) /\ FailedIsIdle(ev)
    \/ ev.e = "User" /\ User(ev.answer) /\ ObsOK(ev)
    \/ ev.e = "Enc"  /\ Enc(ev.on) /\ ObsOK(ev)
    \/ ev.e = "Find" /\ Find(ev.which, ev.found, ev.kid, ev.kslot, ev.dbsame) /\ ObsOK(ev)
    \/ ev.e = "Db"   /\ Db(ev.peer, ev.slot, ev.on) /\ ObsOK(ev)

Resets == {i \in 1..Len(Tr) : Tr[i].e = "Reset"}
NextReset(i) == IF \E j \in Resets : j > i
                THEN CHOOSE j \in Resets : j > i /\ \A k \in Resets : k > i => j <= k
                ELSE Len(Tr) + 1

TInit == InitWith([kind |-> "legacy", in |-> 0, out |-> 0, mitm |-> FALSE, bond |-> FALSE, oob |-> FALSE, sync |-> -1, pre |-> {}]) /\ l = 1

\* the state in which an event was rejected (for the signature of the finding)
Context == [phase |-> phase, fam |-> fam, alg |-> alg, mconf |-> mconf, ea |-> ea, user |-> user, shown |-> shown,
            pairedOk |-> pairedOk, authOk |-> authOk, enc |-> enc, budget |-> budget, dbLesc |-> dbLesc, dbNew |-> dbNew,
            pre |-> cfg.pre, last |-> last, expstatus |-> ExpStatus]

TNext ==
    \/ /\ l <= Len(Tr)
       /\ IF ENABLED Explain(Ev)
          THEN Explain(Ev) /\ l' = l + 1
          ELSE PrintT(<<"CONTEXT", l, ToJson(Context)>>) /\ PrintT(<<"MISMATCH", l>>) /\ l' = NextReset(l) /\ UNCHANGED vars
    \/ /\ l = Len(Tr) + 1
       /\ PrintT(<<"TRACE_DONE", Len(Tr)>>)
       /\ l' = l + 1 /\ UNCHANGED vars

TSpec == TInit /\ [][TNext]_tvars
=============================================================================
