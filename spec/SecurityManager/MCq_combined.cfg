CONSTANTS MCKind = "combined"  Enforce <- AllProps  Configs <- MCConfigs  Requests <- MCRequests  Opcodes <- QuickOps
SPECIFICATION Spec
INVARIANTS TypeOK RevealAfterVerify OrderOnly KeyOnlyAfterSuccess DistAfterCompletion StatusSound
PROPERTIES DistOnlyEncrypted
CHECK_DEADLOCK FALSE
