------------------------- MODULE SecurityManagerGen -------------------------
(* Behaviour generator for C32-C35: transition cover of the state graph of SecurityManager (all    *)
(* guards on) for a set of manager configurations. TLC explores the graph breadth first with the history *)
(* hidden by a VIEW, so every distinct spec state is reached by one shortest input sequence, and   *)
(* the action constraint prints  <shortest path to s> + <input of the transition>  for *every*     *)
(* transition s -> t: one implementation test per transition of the model.                         *)
(* Only the inputs are replayed; what the real code answers is judged by trace validation.         *)
(* find_key / bond data base inputs are not part of the alphabet (they change nothing the managers  *)
(* read before the next find_key): checks/sm.py appends them as probes to every behaviour.         *)
EXTENDS SecurityManager, TLC, Json

CONSTANTS GConfigs,                         \* set of cfg records (compiled configuration + OOB data present + answer timing)
          GReqsOf(_),                       \* cfg -> Pairing Requests: set of <<io, oob, auth, maxkey, idist, rdist>>
          GPdus,                            \* other PDUs: set of <<opcode, lenclass, label>>
          GFinds,                           \* find_key probes: subset of 0..3
          GEnc,                             \* BOOLEAN: encryption changes are inputs in every state; FALSE: only during key
                                            \*   distribution (items pending, or encryption on), where they are always inputs
          GDepthOf(_),                      \* cfg -> maximal number of inputs up to the first completed exchange
          GSegs, GDepth2Of(_)               \* several exchanges on one connection: after each of the first GSegs completions
                                            \*   (a step into phase "completed") GDepth2Of(cfg) further inputs are allowed (0: bound not extended), so that
                                            \*   complete -> new request -> complete / fail / abort with another method is
                                            \*   inside the bound; `last` in the view keeps these histories apart
VARIABLES hist, left, nseg                  \* left: inputs still allowed; nseg: completions that extended the bound
gvars == <<vars, hist, left, nseg>>
GView == vars

NoRequests == {}
NoOps == {}
AllProps == {"C32", "C33", "C34", "C35"}

B(b) == IF b THEN 1 ELSE 0
KindNo(k) == CASE k = "legacy" -> 0 [] k = "lesc" -> 1 [] OTHER -> 2
GInit == \E c \in GConfigs :
            InitWith(c) /\ left = GDepthOf(c) /\ nseg = 0 /\ hist = << <<"reset", B(c.oob), c.sync, KindNo(c.kind), c.in, c.out, B(c.mitm), B(c.bond)>> >>

Do(op) == hist' = Append(hist, op)

RecOf(r) == [io |-> r[1], oob |-> r[2], auth |-> r[3], maxkey |-> r[4], idist |-> r[5], rdist |-> r[6]]

\* methods the peripheral may have selected: by the Core rules, and by the table alone (MITM flags ignored),
\* with the OOB flag of the response telling the truth or being 0
AlgsFor(r) ==
    IF r[1] \notin IoCap THEN {"just_works"} ELSE
    LET ioR == IoCapOf(cfg.in, cfg.out) IN
    UNION { { Method(r[1], r[2] = 1, r[3], ioR, oobR, RAuth), MethodIgnoringMitm(r[1], r[2] = 1, r[3], ioR, oobR, RAuth) } :
            oobR \in {cfg.oob, FALSE} }

GNext ==
    /\ left > 0
    /\ \/ \E r \in GReqsOf(cfg) : \E o \in {"response", "failed"}, a \in AlgsFor(r) :
             \* last field 1: the model accepted a new request right after a completed exchange. The property leaves open
             \* whether that request is accepted or answered with Pairing Failed (back to idle) and accepted when repeated;
             \* both end in the same model state, so the replayed central repeats such a request once when it is refused
             \* (script flag, harness/sm) - otherwise an implementation that refuses would never get into a second exchange
             Req(RecOf(r), o, RAuth, a) /\ Do(<<"req", r[1], r[2], r[3], r[4], r[5], r[6], B(phase = "completed" /\ o = "response")>>)
       \/ \E p \in GPdus, o \in Outs :
             Pdu(p[1], p[2], p[3], o, alg = "numeric_comparison") /\ Do(<<"pdu", p[1], p[2], p[3]>>)
       \/ \E o \in Outs : Poll(o) /\ Do(<<"poll">>)
       \/ \E b \in BOOLEAN : cfg.in = 1 /\ cfg.sync = -1 /\ User(b) /\ Do(<<"user", B(b)>>)
       \* C34 "all interleavings of SMP traffic, encryption state changes and output polling": while anything is left to
       \* distribute the link layer may switch encryption on / off between any two inputs (polls in particular)
       \/ \E b \in BOOLEAN : (GEnc \/ budget # {} \/ enc) /\ b # enc /\ Enc(b) /\ Do(<<"enc", B(b)>>)
       \/ \E w \in GFinds : Find(w, FALSE, "none", -1, FALSE) /\ Do(<<"find", w>>)
    /\ IF phase' = "completed" /\ phase # "completed" /\ nseg < GSegs /\ GDepth2Of(cfg) > 0
       THEN left' = GDepth2Of(cfg) /\ nseg' = nseg + 1
       ELSE left' = left - 1 /\ nseg' = nseg

GSpec == GInit /\ [][GNext]_gvars

\* evaluated for every transition (before TLC drops successors whose view was seen already); always TRUE
EmitEdge == PrintT(<<"BEHAVIOUR", ToJson(hist')>>)
=============================================================================
