------------------------------ MODULE IoCapsMC ------------------------------
(* evaluates the ASSUMEs of IoCaps (sanity of the transcription) and prints the whole selection table *)
EXTENDS IoCaps, TLC
VARIABLE x
Grid == { <<l, r, i, oi, or, mi, mr>> : l \in BOOLEAN, r \in IoCap, i \in IoCap, oi \in BOOLEAN, or \in BOOLEAN, mi \in BOOLEAN, mr \in BOOLEAN }
Auth(l, m) == (IF l THEN 8 ELSE 0) + (IF m THEN 4 ELSE 0)
Cell(g) == Method(g[3], g[4], Auth(g[1], g[6]), g[2], g[5], Auth(g[1], g[7]))
Init == /\ x = 0
        /\ PrintT(<<"TABLE28", [l \in BOOLEAN |-> [r \in IoCap |-> [i \in IoCap |-> IoMethod(l, r, i)]]]>>)
        /\ \A g \in Grid : Cell(g) \in Methods
Next == x = 0 /\ x' \in 1..Cardinality(Grid)     \* one state per cell, so that the cells are counted as states
Spec == Init /\ [][Next]_x
AllCellsDefined == \A g \in Grid : Cell(g) \in Methods
=============================================================================
