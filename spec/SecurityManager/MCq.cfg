CONSTANTS MCKinds <- AllKinds  Enforce <- AllProps  Configs <- QuickConfigs  Requests <- MCRequests  Opcodes <- QuickOps  LenClasses <- QuickLens  DbSlots <- NoDb
SPECIFICATION Spec
INVARIANTS TypeOK RevealAfterVerify OrderOnly KeyOnlyAfterSuccess DistAfterCompletion StatusSound
PROPERTIES DistOnlyEncrypted
CHECK_DEADLOCK FALSE
