----------------------------- MODULE LLDataImpl -----------------------------
(* Implementation-shaped model of bluetoe::link_layer::ll_data_pdu_buffer (written to be  *)
(* bound, not admired): the members sequence_number_, next_expected_sequence_number_,      *)
(* next_empty_, empty_sequence_number_, the transmit ring as a queue of [sn, pdu] (the SN   *)
(* is written into the header by commit_transmit_buffer), the receive ring as a queue; one  *)
(* operator per member function with the decision structure of the code:                    *)
(*   acknowledge(bool)  AckBool       received(pdu)       Received                          *)
(*   next_transmit()    NextTransmit  acknowledge(pdu)    AckPdu  (MIC failure entry point) *)
(* Central, channel and the radio ISR dispatch are those of LLData. The invariants of       *)
(* LLData are checked directly on this model.                                               *)
(* MicTogglesNesn = TRUE is the code as it is (acknowledge(pdu) toggles NESN for a new PDU): *)
(* TLC then produces the shortest history that loses a PDU (known finding C17);             *)
(* FALSE is the repaired code (fixes/C17-no-nesn-toggle-on-mic-failure.diff).               *)
(* Deliberate deviations: ring capacities are PDU counts (RxCap, TxCap), not bytes; the     *)
(* more-data flag is not modelled. The central also sends the reserved LLID 0 (with and    *)
(* without payload): received() acknowledges and counts such a PDU but does not store it    *)
(* (ghost `dropped`), acknowledge(pdu) ignores it completely.                               *)
EXTENDS Naturals, Sequences

CONSTANTS MaxC, MaxP, RxCap, TxCap,
          MicTogglesNesn,   \* BOOLEAN, see above
          MicOn             \* which PDUs a MIC failure can hit: "none" (C15) | "retx": retransmissions of accepted
                            \* data PDUs, the encrypted-link case (C16) | "any" non-empty PDU (C17)

VARIABLES cSn, cNesn, cCur, cData, cAcked, cGot,      \* central, as in LLData
          b,                                          \* the buffer object (record of its members + counters)
          committed, delivered,                       \* ghost: what the upper layer committed / was handed
          dropped,                                    \* ghost: reserved-LLID PDUs with payload that were acknowledged, not stored
          air

cvars == <<cSn, cNesn, cCur, cData, cAcked, cGot>>
vars  == <<cvars, b, committed, delivered, dropped, air>>

Empty     == [id |-> 0, len |-> 0, llid |-> 1]
IsData(p) == p.id # 0
Flip(x)   == 1 - x
MkPdu(k)  == [id |-> k, len |-> k, llid |-> 2]
Empty0    == [id |-> 0, len |-> 0, llid |-> 0]
MkPdu0(k) == [id |-> k, len |-> k, llid |-> 0]
Rsv(p)    == p.llid = 0

Init ==
    /\ cSn = 0 /\ cNesn = 0 /\ cCur = <<>> /\ cData = <<>> /\ cAcked = 0 /\ cGot = <<>>
    /\ b = [seq |-> 0, nesn |-> 0, nextEmpty |-> FALSE, emptySn |-> 0, txq |-> <<>>, rxq |-> <<>>, rxCtr |-> 0, txCtr |-> 0]
    /\ committed = <<>> /\ delivered = <<>> /\ dropped = <<>> /\ air = <<>>

\* ---- member functions (pure: state record in, state record out) -------------------------
AckBool(s, n) ==                                                   \* acknowledge( bool nesn )
    IF s.nextEmpty
    THEN IF s.emptySn # n THEN [s EXCEPT !.nextEmpty = FALSE] ELSE s
    ELSE IF s.txq = <<>> THEN s
    ELSE IF s.txq[1].sn # n THEN [s EXCEPT !.txq = Tail(@), !.txCtr = @ + 1] ELSE s

NextTransmit(s) ==                                                 \* next_transmit()
    IF s.nextEmpty
    THEN [st |-> s, sn |-> s.emptySn, pdu |-> Empty]
    ELSE IF s.txq = <<>>
    THEN [st |-> [s EXCEPT !.nextEmpty = TRUE, !.emptySn = s.seq, !.seq = Flip(s.seq)], sn |-> s.seq, pdu |-> Empty]
    ELSE [st |-> s, sn |-> s.txq[1].sn, pdu |-> s.txq[1].pdu]

Received(s, c) ==                                                  \* received( pdu )
    LET s1 == AckBool(s, c.nesn) IN
    IF c.sn = s1.nesn
    THEN LET s2 == [s1 EXCEPT !.nesn = Flip(@)] IN
         IF c.pdu.len # 0
         THEN [s2 EXCEPT !.rxq = IF c.pdu.llid # 0 THEN Append(@, c.pdu) ELSE @, !.rxCtr = @ + 1]
         ELSE s2
    ELSE s1

AckPdu(s, c) ==                                                    \* acknowledge( pdu ): CRC ok, MIC failed
    IF c.pdu.llid = 0 THEN s ELSE
    LET s1 == AckBool(s, c.nesn) IN
    IF MicTogglesNesn /\ c.sn = s1.nesn THEN [s1 EXCEPT !.nesn = Flip(@)] ELSE s1

\* ---- upper layer ------------------------------------------------------------------------
Commit ==
    /\ Len(committed) < MaxP
    /\ Len(b.txq) < TxCap
    /\ LET p == MkPdu(Len(committed) + 1) IN
       /\ committed' = Append(committed, p)
       /\ b' = [b EXCEPT !.txq = Append(@, [sn |-> b.seq, pdu |-> p]), !.seq = Flip(@)]
    /\ UNCHANGED <<cvars, delivered, dropped, air>>

Read ==
    /\ b.rxq # <<>>
    /\ delivered' = Append(delivered, Head(b.rxq))
    /\ b' = [b EXCEPT !.rxq = Tail(@)]
    /\ UNCHANGED <<cvars, committed, dropped, air>>

\* ---- one connection event ---------------------------------------------------------------
Exchange(p, out) ==
    /\ air = <<>>
    /\ IF cCur # <<>> THEN p = cCur[1]
       ELSE (p \in {Empty, Empty0} \/ (p \in {MkPdu(Len(cData) + 1), MkPdu0(Len(cData) + 1)} /\ Len(cData) < MaxC))
    /\ out = "mic" => /\ IsData(p)
                      /\ MicOn # "none"
                      /\ MicOn = "retx" => (cCur # <<>> /\ cSn # b.nesn)
    /\ IF Len(b.rxq) >= RxCap THEN out \in {"lost", "nobuf"} ELSE out \in {"lost", "crc", "mic", "ok"}
    /\ cCur'  = <<p>>
    /\ cData' = IF cCur = <<>> /\ IsData(p) THEN Append(cData, p) ELSE cData
    /\ LET c  == [sn |-> cSn, nesn |-> cNesn, pdu |-> p]
           s1 == CASE out = "ok"  -> Received(b, c)
                   [] out = "mic" -> AckPdu(b, c)
                   [] OTHER       -> b                         \* crc / nobuf: only next_transmit()
           t  == NextTransmit(s1)
       IN  IF out = "lost"
           THEN UNCHANGED <<b, dropped, air>>
           ELSE /\ b' = t.st
                /\ dropped' = IF s1.rxCtr # b.rxCtr /\ s1.rxq = b.rxq THEN Append(dropped, p) ELSE dropped
                /\ air' = <<[sn |-> t.sn, nesn |-> t.st.nesn, pdu |-> t.pdu]>>
    /\ UNCHANGED <<cSn, cNesn, cAcked, cGot, committed, delivered>>

CentralRx(pout) ==
    /\ air # <<>>
    /\ LET r    == air[1]
           acks == pout # "lost" /\ r.nesn # cSn
           newd == pout = "ok" /\ r.sn = cNesn
       IN  /\ cSn'    = IF acks THEN Flip(cSn) ELSE cSn
           /\ cCur'   = IF acks THEN <<>> ELSE cCur
           /\ cAcked' = IF acks /\ IsData(cCur[1]) THEN cAcked + 1 ELSE cAcked
           /\ cNesn'  = IF newd THEN Flip(cNesn) ELSE cNesn
           /\ cGot'   = IF newd /\ IsData(r.pdu) THEN Append(cGot, r.pdu) ELSE cGot
    /\ air' = <<>>
    /\ UNCHANGED <<cData, b, committed, delivered, dropped>>

Next ==
    \/ Commit
    \/ Read
    \/ \E p \in {Empty, Empty0} \cup {MkPdu(k) : k \in 1..MaxC} \cup {MkPdu0(k) : k \in 1..MaxC}, out \in {"lost", "crc", "nobuf", "mic", "ok"} : Exchange(p, out)
    \/ \E pout \in {"lost", "ok", "nak"} : CentralRx(pout)

Spec == Init /\ [][Next]_vars

\* ---- the invariants of LLData, on the implementation's state ------------------------------
Accepted == delivered \o b.rxq
NTaken   == Len(Accepted) + Len(dropped)
InSeq(p, s) == \E i \in 1..Len(s) : s[i] = p
DeliveredPrefix     == /\ NTaken <= Len(cData)
                       /\ \A i \in 1..Len(dropped) : Rsv(dropped[i])
                       /\ LET log == SubSeq(cData, 1, NTaken) IN
                          /\ SelectSeq(log, LAMBDA p : InSeq(p, dropped))  = dropped
                          /\ SelectSeq(log, LAMBDA p : ~InSeq(p, dropped)) = Accepted
AckOnlyAfterReceipt == cAcked <= NTaken
CentralGotPrefix    == cGot = SubSeq(committed, 1, Len(cGot))
DeliveredAfterAck   == b.txCtr <= Len(cGot)
RxCounterInStep     == b.rxCtr = NTaken
TxCounterInStep     == /\ b.txCtr + Len(b.txq) = Len(committed)
                       /\ \A i \in 1..Len(b.txq) : b.txq[i].pdu = committed[b.txCtr + i]
SnAlternates        == \A i \in 1..(Len(b.txq) - 1) : b.txq[i].sn # b.txq[i + 1].sn
=============================================================================
