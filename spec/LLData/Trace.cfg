CONSTANTS MaxC = 1000  MaxP = 1000  RxCap = 1000  TxCap = 1000
CONSTANT RoomRule = TRUE
SPECIFICATION TSpec
INVARIANTS TraceInv
CHECK_DEADLOCK FALSE
