----------------------------- MODULE LLDataGen -----------------------------
(* Behaviour generator for the replay on the real ll_data_pdu_buffer.                    *)
(* A behaviour is the list of things the *environment* does; the harness plays them:     *)
(*   <<"commit">>            upper layer commits the next data PDU                       *)
(*   <<"read">>              upper layer reads (and frees) the oldest received PDU       *)
(*   <<"x", out, ch, m>>     connection event: the central transmits, if it is free to   *)
(*                           choose, ch = 0: empty PDU, 1: new data PDU, 2: PDU without  *)
(*                           payload and the reserved LLID 0, 3: new PDU with payload    *)
(*                           and the reserved LLID 0; out = what the                     *)
(*                           channel does: lost | crc | mic | ok | enc (nobuf is decided *)
(*                           by the real buffer; enc = CRC ok on an encrypted link: the  *)
(*                           harness lets the MIC fail iff the buffer's receive counter  *)
(*                           differs from the packet counter of the PDU, as CCM does)    *)
(*                           (m = the outcome on the generator's model path, informative) *)
(*   <<"r", pout>>           the central receives the answer: lost | ok | nak            *)
(* The generator follows one path of LLData per behaviour (the answer an implementation  *)
(* most likely gives: new data if there is some, acknowledgement used on a MIC failure,  *)
(* not used without buffer, reserved-LLID PDUs acknowledged, counted and dropped); the   *)
(* real answer is judged by LLDataTrace, not by this path.                               *)
(*                                                                                       *)
(* Mode: "plain" no MIC failures (C15); "enc" encrypted link: a retransmission of a data *)
(*       PDU the peripheral already accepted (and counted) fails its MIC, nothing else   *)
(*       does (C16);                                                                     *)
(*       "any" a MIC failure can hit any data PDU (C17)                                  *)
(* Cover: "all"   BFS over all behaviours of length D (printed at depth D)               *)
(*        "state" one behaviour per reachable model state   (VIEW GViewState)            *)
(*        "trans" one behaviour per (operation, model state) (VIEW GViewTrans)           *)
(*        "mic"   one behaviour per model state and per model state entered by a MIC     *)
(*                failure (VIEW GViewMic)                                                *)
(*        "sim"   -simulate: printed at depth D                                          *)
EXTENDS LLData, TLC, Json

CONSTANTS D, Mode, Cover
VARIABLE hist
gvars == <<vars, hist>>

GInit == Init /\ hist = <<>>
Do(op) == hist' = Append(hist, op)

Last == IF hist = <<>> THEN <<>> ELSE hist[Len(hist)]
GViewState == <<vars>>
GViewTrans == <<vars, Last>>
GViewMic   == <<vars, Last # <<>> /\ Last[1] = "x" /\ Last[4] = "mic">>

\* the PDU the central puts on air for choice ch
CPdu(ch) == IF cCur # <<>> THEN cCur[1]
            ELSE CASE ch = 1 -> MkPdu(Len(cData) + 1) [] ch = 3 -> MkPdu0(Len(cData) + 1) [] ch = 2 -> Empty0 [] OTHER -> Empty

Accepted2(p) == IsData(p) /\ cCur # <<>> /\ cSn # pNesn       \* retransmission of an accepted data PDU
ScriptOuts(p) ==
    CASE Mode = "plain" -> {"lost", "crc", "ok"}
      [] Mode = "enc"   -> {"lost", "crc", "enc"}
      [] OTHER          -> IF IsData(p) THEN {"lost", "crc", "mic", "ok"} ELSE {"lost", "crc", "ok"}

GNext ==
    /\ Len(hist) < D
    /\ \/ /\ air = <<>> /\ Len(committed) < MaxP
          /\ (Len(committed) - txCtr < TxCap) \/ Last # <<"commit">>     \* no repeated failing commits
          /\ Commit(MkPdu(Len(committed) + 1), Len(committed) - txCtr < TxCap)
          /\ Do(<<"commit">>)
       \/ /\ air = <<>> /\ Real(stored) # <<>>
          /\ Read(Real(stored)[1], Len(Real(stored)) > 1)
          /\ Do(<<"read">>)
       \/ \E ch \in 0..3 :
            /\ ch # 0 => cCur = <<>>                         \* the central is free to choose
            /\ ch \in {1, 3} => Len(cData) < MaxC
            /\ \E so \in ScriptOuts(CPdu(ch)) :
                 LET out == IF so # "lost" /\ Len(Real(stored)) >= RxCap THEN "nobuf"
                            ELSE IF so = "enc" THEN (IF Accepted2(CPdu(ch)) THEN "mic" ELSE "ok")
                            ELSE so
                     c   == [sn |-> cSn, nesn |-> cNesn, pdu |-> CPdu(ch)] IN
                 /\ Exchange(c, out, out = "mic", TRUE, TRUE, Real(StoredAfter(c, out, TRUE)) # <<>>)
                 /\ Do(<<"x", so, ch, out>>)
       \/ \E pout \in POutcomes : CentralRx(pout) /\ Do(<<"r", pout>>)

GSpec == GInit /\ [][GNext]_gvars

\* always TRUE; prints the behaviours
Emit == (IF Cover \in {"all", "sim"} THEN Len(hist) = D ELSE hist # <<>>) => PrintT(<<"BEHAVIOUR", ToJson(hist)>>)
=============================================================================
