---------------------------- MODULE LLDataTrace ----------------------------
(* Trace validation: every recorded step of the real ll_data_pdu_buffer (driven by           *)
(* harness/lldata) must be a step of LLData. Events (one JSON object per line):               *)
(*  {"e":"Reset", ...}                                                                       *)
(*  {"e":"commit","id","len","llid","r"}            upper layer commits data PDU id          *)
(*  {"e":"read","id","len","llid","ok"}             upper layer reads; id 0 = nothing there  *)
(*  {"e":"x","out","csn","cnesn","cid","clen","cllid",        central -> peripheral          *)
(*           "resp","psn","pnesn","pid","plen","pllid","pok","rxinc","txinc", ...}  answer    *)
(*  {"e":"crx","pout","csn","cnesn","cfree","cgot"}           answer -> central              *)
(* "ok"/"pok": payload bytes equal the pattern of the PDU id and the size fits the header.   *)
(* An event no action explains is printed as MISMATCH, together with a DIAG line naming the  *)
(* first obligation that failed (used for the finding signature only).                       *)
EXTENDS LLData, Json, IOUtils, TLC, Integers

Tr == ndJsonDeserialize(IOEnv.TRACE)

VARIABLE l
tvars == <<vars, l>>

Ev == Tr[l]

CP(ev) == [sn |-> ev.csn, nesn |-> ev.cnesn, pdu |-> [id |-> ev.cid, len |-> ev.clen, llid |-> ev.cllid]]
RP(ev) == [sn |-> ev.psn, nesn |-> ev.pnesn, pdu |-> [id |-> ev.pid, len |-> ev.plen, llid |-> ev.pllid],
           rxinc |-> ev.rxinc, txinc |-> ev.txinc]

ResetAll ==
    /\ cSn' = 0 /\ cNesn' = 0 /\ cCur' = <<>> /\ cData' = <<>> /\ cAcked' = 0 /\ cGot' = <<>>
    /\ committed' = <<>> /\ pOut' = <<>> /\ pSent' = 0 /\ pSn' = 0 /\ pNesn' = 0
    /\ stored' = <<>> /\ delivered' = <<>> /\ dropped' = <<>> /\ rxCtr' = 0 /\ txCtr' = 0 /\ air' = <<>>

\* cheap observations logged with every call: pending_outgoing_data_available(), next_received().size != 0
\* (the latter is the parameter vis of Read / Exchange: it settles which reserved-LLID PDUs were dropped)
ObsPending(ev) == ev.pending = (Len(committed') > txCtr')
ObsOK(ev) ==
    /\ ObsPending(ev)
    /\ ev.rxhead  = (stored' # <<>>)

ExplainX(ev) ==
    \E ackC, dataC, accC \in BOOLEAN :
        /\ Exchange(CP(ev), ev.out, ackC, dataC, accC, ev.rxhead)
        /\ IF ev.out = "lost"
           THEN ~ev.resp
           ELSE ev.resp /\ ev.pok /\ air' = <<RP(ev)>>
        /\ ObsPending(ev)

Explain(ev) ==
    \/ ev.e = "Reset"  /\ ResetAll
    \/ ev.e = "commit" /\ Commit([id |-> ev.id, len |-> ev.len, llid |-> ev.llid], ev.r) /\ ObsOK(ev)
    \/ ev.e = "read"   /\ Read([id |-> ev.id, len |-> ev.len, llid |-> ev.llid], ev.rxhead) /\ ev.ok /\ ObsPending(ev)
    \/ ev.e = "x"      /\ ExplainX(ev)
    \/ ev.e = "crx"    /\ CentralRx(ev.pout)
                       /\ ev.csn = cSn' /\ ev.cnesn = cNesn' /\ ev.cfree = (cCur' = <<>>) /\ ev.cgot = Len(cGot')

\* ---- diagnosis of a rejected event (for the finding signature only; evaluated in the state before the event) ----
Failing(pairs) == LET f == SelectSeq(pairs, LAMBDA p : p[2]) IN [i \in 1..Len(f) |-> f[i][1]]

DiagX(ev) ==
    LET c == CP(ev)
        r == RP(ev)
        acc == ~Rsv(c.pdu) \/ r.nesn # pNesn         \* a reserved-LLID PDU may be refused: take what the answer shows
        Ans(ackC, dataC) == Answer(c, ev.out, ackC, dataC, acc)
        a == Ans(TRUE, TRUE)                          \* nesn and rxinc do not depend on the other choices
        fits(b) == b.sn = r.sn /\ b.pdu = r.pdu
        anyfit == \E ackC, dataC \in BOOLEAN : fits(Ans(ackC, dataC))
        cls == <<ev.out, IF c.sn = pNesn THEN "new" ELSE "retx", IF IsData(c.pdu) THEN "data" ELSE "empty",
                 IF pOut # <<>> /\ c.nesn # pOut[1].sn THEN "acks" ELSE "noack",
                 IF Rsv(c.pdu) THEN "llid0" ELSE "llid123">>
        what == IF air # <<>> \/ ~CentralSends(c) \/ ev.out \notin Outcomes THEN <<"harness">>
                ELSE IF ev.out = "lost" THEN (IF ev.resp THEN <<"answer-to-lost">> ELSE <<"other">>)
                ELSE IF ~ev.resp THEN <<"no-answer">>
                ELSE Failing(<<
                    <<"nobuf-while-empty", RoomRule /\ ev.out = "nobuf" /\ stored = <<>> >>,
                    <<"nesn", r.nesn # a.nesn>>,
                    <<"rxinc", r.rxinc # a.rxinc>>,
                    <<"retransmission-differs", ~anyfit /\ pOut # <<>> /\ r.sn = pOut[1].sn>>,
                    <<"new-pdu-without-ack", ~anyfit /\ pOut # <<>> /\ r.sn # pOut[1].sn
                                             /\ ~\E ackC, dataC \in BOOLEAN : Ans(ackC, dataC).new>>,
                    <<"new-pdu-wrong", ~anyfit /\ (pOut = <<>> \/ r.sn # pOut[1].sn)
                                       /\ \E ackC, dataC \in BOOLEAN : Ans(ackC, dataC).new>>,
                    <<"txinc", anyfit /\ ~\E ackC, dataC \in BOOLEAN :
                                             /\ fits(Ans(ackC, dataC))
                                             /\ Ans(ackC, dataC).txinc = r.txinc>>,
                    <<"payload", ~ev.pok>>,
                    <<"rxhead", ~Settled(StoredAfter(c, ev.out, acc), ev.rxhead)>>,
                    <<"pending", ev.pending # (Len(committed) > txCtr + r.txinc)>> >>)
    IN  <<IF what = <<>> THEN <<"other">> ELSE what, cls>>

Diag(ev) ==
    CASE ev.e = "x"      -> DiagX(ev)
      [] ev.e = "read"   -> <<Failing(<< <<"payload", ~ev.ok>>,
                                         <<"phantom", stored = <<>> /\ ev.id # 0>>,
                                         <<"missing", Real(stored) # <<>> /\ ev.id = 0>>,
                                         <<"wrong-pdu", stored # <<>> /\ ev.id # 0
                                                        /\ ~\E k \in 0..(Len(stored) - 1) :
                                                               /\ AllRsv(SubSeq(stored, 1, k))
                                                               /\ stored[k + 1] = [id |-> ev.id, len |-> ev.len, llid |-> ev.llid]>>,
                                         <<"rxhead", IF ev.rxhead THEN Len(stored) <= 1 ELSE Len(Real(stored)) > 1>>,
                                         <<"pending", ev.pending # (Len(committed) > txCtr)>> >>), <<>> >>
      [] ev.e = "commit" -> <<Failing(<< <<"refused-while-empty", RoomRule /\ ~ev.r /\ Len(committed) = txCtr>>,
                                         <<"rxhead", ev.rxhead # (stored # <<>>)>>,
                                         <<"pending", ev.pending # (Len(committed) + (IF ev.r THEN 1 ELSE 0) > txCtr)>> >>), <<>> >>
      [] OTHER           -> << <<"harness">>, <<>> >>

\* first Reset event after position i (executions are short: linear scan)
RECURSIVE FirstReset(_)
FirstReset(i) == IF i > Len(Tr) THEN Len(Tr) + 1 ELSE IF Tr[i].e = "Reset" THEN i ELSE FirstReset(i + 1)
NextReset(i) == FirstReset(i + 1)

TInit == Init /\ l = 1

TNext ==
    \/ /\ l <= Len(Tr)
       /\ IF ENABLED Explain(Ev)
          THEN Explain(Ev) /\ l' = l + 1
          ELSE PrintT(<<"MISMATCH", l>>) /\ PrintT(<<"DIAG", l, Diag(Ev)>>) /\ l' = NextReset(l) /\ UNCHANGED vars
    \/ /\ l = Len(Tr) + 1
       /\ PrintT(<<"TRACE_DONE", Len(Tr)>>)
       /\ l' = l + 1 /\ UNCHANGED vars

TSpec == TInit /\ [][TNext]_tvars

\* the properties of LLData evaluated on the real execution
TraceInv ==
    /\ DeliveredPrefix /\ AckOnlyAfterReceipt /\ CentralGotPrefix /\ DeliveredAfterAck
    /\ RxCounterInStep /\ TxCounterInStep
=============================================================================
