---------------------------- MODULE LLDataTrace ----------------------------
(* Trace validation: every recorded step of the real ll_data_pdu_buffer (driven by           *)
(* harness/lldata) must be a step of LLData. Events (one JSON object per line):               *)
(*  {"e":"Reset", ...}                                                                       *)
(*  {"e":"commit","id","len","llid","r"}            upper layer commits data PDU id          *)
(*  {"e":"read","id","len","llid","ok"}             upper layer reads; id 0 = nothing there  *)
(*  {"e":"x","out","csn","cnesn","cid","clen","cllid",        central -> peripheral          *)
(*           "resp","psn","pnesn","pid","plen","pllid","pok","rxinc","txinc", ...}  answer    *)
(*  {"e":"crx","pout","csn","cnesn","cfree","cgot"}           answer -> central              *)
(* "ok"/"pok": payload bytes equal the pattern of the PDU id and the size fits the header.   *)
(* An event no action explains is printed as MISMATCH, together with a DIAG line naming the  *)
(* first obligation that failed (used for the finding signature only).                       *)
EXTENDS LLData, Json, IOUtils, TLC, Integers

Tr == ndJsonDeserialize(IOEnv.TRACE)

VARIABLE l
tvars == <<vars, l>>

Ev == Tr[l]

CP(ev) == [sn |-> ev.csn, nesn |-> ev.cnesn, pdu |-> [id |-> ev.cid, len |-> ev.clen, llid |-> ev.cllid]]
RP(ev) == [sn |-> ev.psn, nesn |-> ev.pnesn, pdu |-> [id |-> ev.pid, len |-> ev.plen, llid |-> ev.pllid],
           rxinc |-> ev.rxinc, txinc |-> ev.txinc]

ResetAll ==
    /\ cSn' = 0 /\ cNesn' = 0 /\ cCur' = <<>> /\ cData' = <<>> /\ cAcked' = 0 /\ cGot' = <<>>
    /\ committed' = <<>> /\ pOut' = <<>> /\ pSent' = 0 /\ pSn' = 0 /\ pNesn' = 0
    /\ stored' = <<>> /\ delivered' = <<>> /\ rxCtr' = 0 /\ txCtr' = 0 /\ air' = <<>>

ExplainX(ev) ==
    \E ackC, dataC \in BOOLEAN :
        /\ Exchange(CP(ev), ev.out, ackC, dataC)
        /\ IF ev.out = "lost"
           THEN ~ev.resp
           ELSE ev.resp /\ ev.pok /\ air' = <<RP(ev)>>

Explain(ev) ==
    \/ ev.e = "Reset"  /\ ResetAll
    \/ ev.e = "commit" /\ Commit([id |-> ev.id, len |-> ev.len, llid |-> ev.llid], ev.r)
    \/ ev.e = "read"   /\ Read([id |-> ev.id, len |-> ev.len, llid |-> ev.llid]) /\ ev.ok
    \/ ev.e = "x"      /\ ExplainX(ev)
    \/ ev.e = "crx"    /\ CentralRx(ev.pout)
                       /\ ev.csn = cSn' /\ ev.cnesn = cNesn' /\ ev.cfree = (cCur' = <<>>) /\ ev.cgot = Len(cGot')

\* which obligation failed (for signatures; evaluated in the state before the event)
DiagX(ev) ==
    LET c == CP(ev)
        r == RP(ev)
        a == Answer(c, ev.out, TRUE, TRUE)            \* nesn and rxinc do not depend on the choices
        fits(b) == b.sn = r.sn /\ b.pdu = r.pdu
        cls == <<ev.out, IF c.sn = pNesn THEN "new" ELSE "retx", IF IsData(c.pdu) THEN "data" ELSE "empty",
                 IF pOut # <<>> /\ c.nesn # pOut[1].sn THEN "acks" ELSE "noack">>
        what == IF air # <<>> \/ ~CentralSends(c) \/ ev.out \notin Outcomes THEN "harness"
                ELSE IF ev.out = "lost" THEN (IF ev.resp THEN "answer-to-lost" ELSE "other")
                ELSE IF ~ev.resp THEN "no-answer"
                ELSE IF ev.out = "nobuf" /\ stored = <<>> THEN "nobuf-while-empty"
                ELSE IF r.nesn # a.nesn THEN "nesn"
                ELSE IF r.rxinc # a.rxinc THEN "rxinc"
                ELSE IF ~\E ackC, dataC \in BOOLEAN : fits(Answer(c, ev.out, ackC, dataC))
                     THEN (IF pOut # <<>> /\ r.sn = pOut[1].sn THEN "retransmission-differs"
                           ELSE IF \E ackC, dataC \in BOOLEAN : Answer(c, ev.out, ackC, dataC).new THEN "new-pdu-wrong"
                           ELSE "new-pdu-without-ack")
                ELSE IF ~\E ackC, dataC \in BOOLEAN : fits(Answer(c, ev.out, ackC, dataC)) /\ Answer(c, ev.out, ackC, dataC).txinc = r.txinc
                     THEN "txinc"
                ELSE IF ~ev.pok THEN "payload"
                ELSE "other"
    IN  <<what>> \o cls

Diag(ev) ==
    CASE ev.e = "x"      -> DiagX(ev)
      [] ev.e = "read"   -> <<IF ~ev.ok THEN "payload"
                              ELSE IF stored = <<>> THEN "phantom"
                              ELSE IF ev.id = 0 THEN "missing" ELSE "wrong-pdu">>
      [] ev.e = "commit" -> <<IF ev.r THEN "harness" ELSE "refused-while-empty">>
      [] OTHER           -> <<"harness">>

Resets == {i \in 1..Len(Tr) : Tr[i].e = "Reset"}
NextReset(i) == IF \E j \in Resets : j > i
                THEN CHOOSE j \in Resets : j > i /\ \A k \in Resets : k > i => j <= k
                ELSE Len(Tr) + 1

TInit == Init /\ l = 1

TNext ==
    \/ /\ l <= Len(Tr)
       /\ IF ENABLED Explain(Ev)
          THEN Explain(Ev) /\ l' = l + 1
          ELSE PrintT(<<"MISMATCH", l>>) /\ PrintT(<<"DIAG", l, Diag(Ev)>>) /\ l' = NextReset(l) /\ UNCHANGED vars
    \/ /\ l = Len(Tr) + 1
       /\ PrintT(<<"TRACE_DONE", Len(Tr)>>)
       /\ l' = l + 1 /\ UNCHANGED vars

TSpec == TInit /\ [][TNext]_tvars

\* the properties of LLData evaluated on the real execution
TraceInv ==
    /\ DeliveredPrefix /\ AckOnlyAfterReceipt /\ CentralGotPrefix /\ DeliveredAfterAck
    /\ RxCounterInStep /\ TxCounterInStep
=============================================================================
