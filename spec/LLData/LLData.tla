------------------------------- MODULE LLData -------------------------------
(* Property-level specification of the link layer data channel as seen at the radio   *)
(* interface of the peripheral's PDU buffer (C15, C16, C17).                           *)
(*                                                                                     *)
(* System = central (environment, Core specification Vol 6 Part B 4.5.9 acknowledgement *)
(* and flow control) + lossy channel in both directions + peripheral buffer + the      *)
(* peripheral's upper layer (commits PDUs to be sent, reads received PDUs).            *)
(*                                                                                     *)
(* One connection event = two steps:                                                   *)
(*   Exchange(c, out, ..)  the central puts PDU c on air (new or retransmission, empty  *)
(*                         or data); `out` is what the peripheral's radio makes of it;  *)
(*                         the peripheral answers (record in `air`) unless out = lost   *)
(*   CentralRx(pout)       what the central makes of the answer                        *)
(*                                                                                     *)
(* out:  "lost"  nothing received (no answer)                                          *)
(*       "crc"   CRC error, the peripheral answers but must not use the received header *)
(*       "nobuf" no receive buffer available: PDU ignored, the peripheral answers       *)
(*       "mic"   CRC ok, MIC wrong (only non-empty PDUs carry a MIC)                    *)
(*       "ok"    CRC ok and MIC ok (or link not encrypted)                              *)
(* pout: "lost" (lost or CRC error at the central), "ok", "nak" (the central uses the   *)
(*       acknowledgement but has no room for the data: flow control)                   *)
(*                                                                                     *)
(* A PDU is a record [id, len, llid]; id 0 = a PDU without payload; the non-empty PDUs   *)
(* of each direction are numbered 1, 2, 3... in the order they are first handed to the  *)
(* link layer, so the CCM packet counter a non-empty PDU is (de)crypted with is id - 1  *)
(* (ghost counter).                                                                    *)
(*                                                                                     *)
(* Reserved LLID (0b00): the central may send PDUs with LLID 0, with and without        *)
(* payload. The properties only say this about them: a PDU with payload was encrypted   *)
(* with the central's packet counter, so *if* the peripheral acknowledges it as new it  *)
(* must count it (C16), and it is acknowledged at most once like any PDU (C15, C17).    *)
(* Everything else is left open: the peripheral may refuse it (accC = FALSE: NESN stays, *)
(* the central repeats it), may or may not use the acknowledgement in its header, and   *)
(* may hand it to the upper layer or drop it. The last choice is resolved lazily: an    *)
(* accepted reserved PDU is put into `stored`; it is moved to `dropped` when the upper  *)
(* layer's view shows that it is not there (a younger PDU or nothing is read, or        *)
(* next_received() shows nothing: parameter vis of Read / Exchange).                   *)
EXTENDS Naturals, Sequences

CONSTANTS MaxC,     \* number of data PDUs the central sends           (bounds Next only)
          MaxP,     \* number of data PDUs the peripheral commits       (bounds Next only)
          RxCap,    \* model checking: receive buffer holds RxCap PDUs  (Next only)
          TxCap,    \* model checking: transmit buffer holds TxCap PDUs (Next only)
          RoomRule  \* BOOLEAN: demand that an *empty* buffer accepts a PDU (progress half of C15)

VARIABLES
    \* ---- central (environment) ----
    cSn,        \* transmitSeqNum
    cNesn,      \* nextExpectedSeqNum
    cCur,       \* <<pdu>> the PDU on its way and not yet acknowledged, or <<>>
    cData,      \* data PDUs the central has put on air so far, in order (ghost)
    cAcked,     \* number of its data PDUs the central believes delivered
    cGot,       \* data PDUs the central accepted from the peripheral, in order
    \* ---- peripheral ----
    committed,  \* data PDUs committed by the upper layer, in order
    pOut,       \* <<[sn, pdu]>> last PDU transmitted and not yet acknowledged, or <<>> (nothing sent yet)
    pSent,      \* number of committed PDUs that were transmitted at least once
    pSn,        \* SN of the next new PDU
    pNesn,      \* NESN the peripheral answers with
    stored,     \* received data PDUs waiting in the receive buffer
    delivered,  \* received data PDUs handed to the upper layer
    dropped,    \* accepted (acknowledged, counted) reserved-LLID PDUs that never reached the upper layer (ghost)
    rxCtr,      \* receive packet counter  (number of increment_receive_packet_counter calls)
    txCtr,      \* transmit packet counter (number of increment_transmit_packet_counter calls)
    \* ---- channel ----
    air         \* <<answer>> of the peripheral in the running connection event, or <<>>

cvars == <<cSn, cNesn, cCur, cData, cAcked, cGot>>
pvars == <<committed, pOut, pSent, pSn, pNesn, stored, delivered, dropped, rxCtr, txCtr>>
vars  == <<cvars, pvars, air>>

Empty      == [id |-> 0, len |-> 0, llid |-> 1]
Empty0     == [id |-> 0, len |-> 0, llid |-> 0]     \* no payload, reserved LLID
IsData(p)  == p.id # 0                              \* has a payload (and a packet counter)
Rsv(p)     == p.llid = 0
AllRsv(s)  == \A i \in 1..Len(s) : Rsv(s[i])
Real(s)    == SelectSeq(s, LAMBDA p : ~Rsv(p))
\* vis = next_received() shows a PDU, s = the accepted PDUs not yet read: when nothing is shown, only reserved-LLID
\* PDUs can be outstanding (they were dropped)
Settled(s, vis) == IF vis THEN s # <<>> ELSE AllRsv(s)
Flip(b)    == 1 - b
Outcomes   == {"lost", "crc", "nobuf", "mic", "ok"}
POutcomes  == {"lost", "ok", "nak"}

Init ==
    /\ cSn = 0 /\ cNesn = 0 /\ cCur = <<>> /\ cData = <<>> /\ cAcked = 0 /\ cGot = <<>>
    /\ committed = <<>> /\ pOut = <<>> /\ pSent = 0 /\ pSn = 0 /\ pNesn = 0
    /\ stored = <<>> /\ delivered = <<>> /\ dropped = <<>> /\ rxCtr = 0 /\ txCtr = 0
    /\ air = <<>>

-----------------------------------------------------------------------------
(* upper layer of the peripheral *)

\* r = the transmit buffer had room. It must have room when nothing is waiting for an acknowledgement.
Commit(p, r) ==
    /\ p.id = Len(committed) + 1 /\ p.len > 0 /\ p.llid \in 1..3
    /\ (~r /\ RoomRule) => Len(committed) > txCtr
    /\ committed' = IF r THEN Append(committed, p) ELSE committed
    /\ UNCHANGED <<cvars, pOut, pSent, pSn, pNesn, stored, delivered, dropped, rxCtr, txCtr, air>>

\* next_received() / free_received(): p = the oldest stored PDU, or Empty when there is none; reserved-LLID PDUs
\* older than p (all of them if p = Empty) turn out to have been dropped; vis = a further PDU is shown afterwards
Read(p, vis) ==
    /\ \E k \in 0..Len(stored) :
         LET rest == SubSeq(stored, k + 2, Len(stored)) IN
         /\ AllRsv(SubSeq(stored, 1, k))
         /\ IF k = Len(stored) THEN p = Empty /\ delivered' = delivered
                               ELSE p = stored[k + 1] /\ delivered' = Append(delivered, p)
         /\ Settled(rest, vis)
         /\ stored'  = IF vis THEN rest ELSE <<>>
         /\ dropped' = dropped \o SubSeq(stored, 1, k) \o (IF vis THEN <<>> ELSE rest)
    /\ UNCHANGED <<cvars, committed, pOut, pSent, pSn, pNesn, rxCtr, txCtr, air>>

-----------------------------------------------------------------------------
(* environment: what a conforming central puts on air *)
CentralSends(c) ==
    /\ c.sn = cSn /\ c.nesn = cNesn
    /\ IF cCur # <<>>
       THEN c.pdu = cCur[1]                                     \* retransmission until acknowledged
       ELSE \/ c.pdu \in {Empty, Empty0}
            \/ c.pdu.id = Len(cData) + 1 /\ c.pdu.len > 0 /\ c.pdu.llid \in 0..3

(* The peripheral's obligations for one received PDU (Core specification 4.5.9):        *)
(*  - NESN toggles iff a *new* PDU (SN = NESN) arrived with valid CRC and valid MIC and *)
(*    was stored (empty PDUs need no storage; a PDU with the reserved LLID may be refused *)
(*    (accC) and need not be kept); nothing else changes NESN                   [C15,C17]*)
(*  - the receive counter advances iff that new PDU is not empty - whatever its LLID [C16]*)
(*  - the PDU sent last is acknowledged iff the central's NESN differs from its SN; the  *)
(*    acknowledgement must be used when the PDU was valid ("ok"), may be used when the   *)
(*    header had a valid CRC ("mic", "nobuf", reserved LLID; ackC) and must not be used    *)
(*    after a CRC error; the transmit counter advances iff a non-empty PDU is acknowledged *)
(*                                                                              [C15,C16]*)
(*  - an unacknowledged PDU is sent again unchanged; after an acknowledgement (or at the *)
(*    start) the next committed PDU or an empty PDU (dataC) follows with the next SN [C15]*)
Answer(c, out, ackC, dataC, accC) ==
    LET accept  == out = "ok" /\ c.sn = pNesn /\ (Rsv(c.pdu) => accC)
        store   == accept /\ IsData(c.pdu)
        ackable == pOut # <<>> /\ c.nesn # pOut[1].sn
        acked   == CASE out = "ok"               -> ackable /\ (Rsv(c.pdu) => ackC)
                     [] out \in {"mic", "nobuf"} -> ackable /\ ackC
                     [] OTHER                    -> FALSE
        retx    == pOut # <<>> /\ ~acked
        data    == ~retx /\ dataC /\ pSent < Len(committed)
    IN  [ sn    |-> IF retx THEN pOut[1].sn ELSE pSn,
          nesn  |-> IF accept THEN Flip(pNesn) ELSE pNesn,
          pdu   |-> IF retx THEN pOut[1].pdu ELSE IF data THEN committed[pSent + 1] ELSE Empty,
          rxinc |-> IF store THEN 1 ELSE 0,
          txinc |-> IF acked /\ IsData(pOut[1].pdu) THEN 1 ELSE 0,
          new   |-> ~retx,
          data  |-> data ]

Wire(a) == [sn |-> a.sn, nesn |-> a.nesn, pdu |-> a.pdu, rxinc |-> a.rxinc, txinc |-> a.txinc]

\* the accepted PDUs not yet read after the connection event (before the upper layer's view settles it)
StoredAfter(c, out, accC) ==
    IF out # "lost" /\ Answer(c, out, TRUE, TRUE, accC).rxinc = 1 THEN Append(stored, c.pdu) ELSE stored

Exchange(c, out, ackC, dataC, accC, vis) ==
    /\ air = <<>>
    /\ CentralSends(c)
    /\ out \in Outcomes
    /\ out = "mic"   => IsData(c.pdu)            \* an empty PDU has no MIC
    /\ (out = "nobuf" /\ RoomRule) => stored # <<>>     \* an empty receive buffer has room for a PDU
    /\ cCur'  = <<c.pdu>>
    /\ cData' = IF cCur = <<>> /\ IsData(c.pdu) THEN Append(cData, c.pdu) ELSE cData
    /\ LET s == StoredAfter(c, out, accC) IN
       /\ Settled(s, vis)
       /\ stored'  = IF vis THEN s ELSE <<>>
       /\ dropped' = IF vis THEN dropped ELSE dropped \o s
    /\ IF out = "lost"
       THEN UNCHANGED <<pOut, pSent, pSn, pNesn, rxCtr, txCtr, air>>
       ELSE LET a == Answer(c, out, ackC, dataC, accC) IN
            /\ pNesn'  = a.nesn
            /\ rxCtr'  = rxCtr + a.rxinc
            /\ txCtr'  = txCtr + a.txinc
            /\ pOut'   = <<[sn |-> a.sn, pdu |-> a.pdu]>>
            /\ pSn'    = IF a.new THEN Flip(pSn) ELSE pSn
            /\ pSent'  = IF a.data THEN pSent + 1 ELSE pSent
            /\ air'    = <<Wire(a)>>
    /\ UNCHANGED <<cSn, cNesn, cAcked, cGot, committed, delivered>>

\* environment: the central's side of 4.5.9
CentralRx(pout) ==
    /\ air # <<>>
    /\ pout \in POutcomes
    /\ LET r    == air[1]
           acks == pout # "lost" /\ r.nesn # cSn
           newd == pout = "ok" /\ r.sn = cNesn
       IN  /\ cSn'    = IF acks THEN Flip(cSn) ELSE cSn
           /\ cCur'   = IF acks THEN <<>> ELSE cCur
           /\ cAcked' = IF acks /\ IsData(cCur[1]) THEN cAcked + 1 ELSE cAcked
           /\ cNesn'  = IF newd THEN Flip(cNesn) ELSE cNesn
           /\ cGot'   = IF newd /\ IsData(r.pdu) THEN Append(cGot, r.pdu) ELSE cGot
    /\ air' = <<>>
    /\ UNCHANGED <<cData, pvars>>

-----------------------------------------------------------------------------
(* bounded instance for model checking: PDU k has length k, LLID 2 (start) or the reserved LLID 0 *)
MkPdu(k)  == [id |-> k, len |-> k, llid |-> 2]
MkPdu0(k) == [id |-> k, len |-> k, llid |-> 0]
\* (an operator with a parameter: TLC evaluates constant definitions eagerly, MaxC is huge in trace validation)
CPdus(n)  == {Empty, Empty0} \cup {MkPdu(k) : k \in 1..n} \cup {MkPdu0(k) : k \in 1..n}

Next ==
    \/ /\ Len(committed) < MaxP
       /\ Commit(MkPdu(Len(committed) + 1), Len(committed) - txCtr < TxCap)
    \/ \E p \in CPdus(MaxC), vis \in BOOLEAN : Read(p, vis)
    \/ /\ air = <<>>
       /\ \E p \in CPdus(MaxC) :
            LET c == [sn |-> cSn, nesn |-> cNesn, pdu |-> p] IN
            /\ CentralSends(c)
            /\ \E out \in Outcomes :
                 /\ IF Len(stored) >= RxCap THEN out \in {"lost", "nobuf"} ELSE out # "nobuf"
                 /\ \E ackC \in (IF out = "lost" THEN {TRUE} ELSE BOOLEAN), dataC \in (IF out = "lost" THEN {TRUE} ELSE BOOLEAN),
                       accC \in (IF Rsv(p) /\ out = "ok" THEN BOOLEAN ELSE {TRUE}), vis \in BOOLEAN :
                      Exchange(c, out, ackC, dataC, accC, vis)
    \/ \E pout \in POutcomes : CentralRx(pout)

Spec == Init /\ [][Next]_vars

-----------------------------------------------------------------------------
(* the listed properties *)
Pdus == [id : 0..(MaxC + MaxP), len : 0..(MaxC + MaxP), llid : 0..3]
TypeOK ==
    /\ cSn \in 0..1 /\ cNesn \in 0..1 /\ pSn \in 0..1 /\ pNesn \in 0..1
    /\ cCur \in Seq(Pdus) /\ Len(cCur) <= 1
    /\ cData \in Seq(Pdus) /\ cGot \in Seq(Pdus) /\ committed \in Seq(Pdus)
    /\ stored \in Seq(Pdus) /\ delivered \in Seq(Pdus) /\ dropped \in Seq(Pdus)
    /\ Len(pOut) <= 1 /\ Len(air) <= 1
    /\ cAcked \in Nat /\ pSent \in Nat /\ rxCtr \in Nat /\ txCtr \in Nat

Accepted == delivered \o stored
NTaken   == Len(delivered) + Len(stored) + Len(dropped)      \* non-empty PDUs the peripheral acknowledged as new
InSeq(p, s) == \E i \in 1..Len(s) : s[i] = p

\* C15: every new PDU from the central reaches the upper layer exactly once and in order; only PDUs with the
\* reserved LLID may be dropped on the way
DeliveredPrefix ==
    /\ NTaken <= Len(cData)
    /\ AllRsv(dropped)
    /\ LET log == SubSeq(cData, 1, NTaken) IN
       /\ SelectSeq(log, LAMBDA p : InSeq(p, dropped))  = dropped
       /\ SelectSeq(log, LAMBDA p : ~InSeq(p, dropped)) = Accepted

\* C15 (last sentence), C17: the central never believes a PDU delivered that the peripheral did not take
AckOnlyAfterReceipt == cAcked <= NTaken

\* C15: the central gets the committed PDUs in order, exactly once, and the peripheral considers a
\* PDU delivered (frees it, advances its counter) only after the central really accepted it
CentralGotPrefix  == cGot = SubSeq(committed, 1, Len(cGot))
DeliveredAfterAck == txCtr <= Len(cGot)

\* C16: the counter used for a data PDU equals its ghost counter (id - 1) on both sides
RxCounterInStep == rxCtr = NTaken
TxCounterInStep ==
    /\ pSent = txCtr + (IF pOut # <<>> /\ IsData(pOut[1].pdu) THEN 1 ELSE 0)
    /\ (pOut # <<>> /\ IsData(pOut[1].pdu)) => pOut[1].pdu = committed[txCtr + 1]
    /\ pSent <= Len(committed)

\* C15 last sentence / C17 as a step property: NESN moves only together with storing the PDU on air
NoAckWithoutStore ==
    [][pNesn' # pNesn =>
          /\ cCur' # <<>>
          /\ IF IsData(cCur'[1])
             THEN /\ NTaken' = NTaken + 1 /\ rxCtr' = rxCtr + 1
                  /\ Real(stored') = IF Rsv(cCur'[1]) THEN Real(stored) ELSE Append(Real(stored), cCur'[1])
             ELSE NTaken' = NTaken /\ Real(stored') = Real(stored) /\ rxCtr' = rxCtr]_vars

\* C16 as a step property: exactly one increment per newly stored / newly acknowledged data PDU
CountersStep ==
    [][/\ rxCtr' # rxCtr => (rxCtr' = rxCtr + 1 /\ pNesn' # pNesn /\ NTaken' = NTaken + 1 /\ cCur' = <<cData'[rxCtr']>>)
       /\ txCtr' # txCtr => (txCtr' = txCtr + 1 /\ pOut # <<>> /\ pOut[1].pdu = committed[txCtr'] /\ cNesn # pOut[1].sn)
       /\ NTaken' # NTaken => (NTaken' = NTaken + 1 /\ rxCtr' = rxCtr + 1)]_vars

\* C15: a PDU is repeated until the central's NESN acknowledges it
RetransmitUntilAck ==
    [][(pOut # <<>> /\ pOut' # pOut) => cNesn # pOut[1].sn]_vars
=============================================================================
