CONSTANTS MaxC = 3  MaxP = 3  RxCap = 2  TxCap = 2
CONSTANT RoomRule = TRUE
SPECIFICATION Spec
INVARIANTS TypeOK DeliveredPrefix AckOnlyAfterReceipt CentralGotPrefix DeliveredAfterAck RxCounterInStep TxCounterInStep
PROPERTIES NoAckWithoutStore CountersStep RetransmitUntilAck
CHECK_DEADLOCK FALSE
