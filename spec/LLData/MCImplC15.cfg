CONSTANTS MaxC = 3  MaxP = 3  RxCap = 1  TxCap = 2  MicTogglesNesn = TRUE  MicOn = "none"
SPECIFICATION Spec
INVARIANTS DeliveredPrefix AckOnlyAfterReceipt CentralGotPrefix DeliveredAfterAck RxCounterInStep TxCounterInStep SnAlternates
CHECK_DEADLOCK FALSE
