CONSTANTS MaxC = 3  MaxP = 3  RxCap = 1  TxCap = 1  D = 6  Mode = "any"  Cover = "all"
CONSTANT RoomRule = TRUE
SPECIFICATION GSpec
INVARIANTS Emit
CHECK_DEADLOCK FALSE
