CONSTANTS Maps <- MCMaps  UMaps <- MCUMaps  Hops <- MCHops  Steps <- MCSteps  NMax = 40
SPECIFICATION Spec
INVARIANTS TypeOK ClosedForm Periodic FullRound NeverInvalid RemapAgree
PROPERTIES InMap FullIdentity TableForm
