CONSTANTS Maps <- MCQMaps  UMaps <- MCUMaps  Hops <- MCHops  Steps <- MCSteps  NMax = 38
SPECIFICATION Spec
INVARIANTS TypeOK ClosedForm Periodic FullRound NeverInvalid RemapAgree
PROPERTIES InMap FullIdentity TableForm
