--------------------------- MODULE ChannelMapTrace ---------------------------
(* Trace validation for C20: every recorded call of the real channel_map class and every     *)
(* connection event scheduled by the real link_layer must be a step of ChannelMap.          *)
(* Events (one JSON object per line):                                                       *)
(*   {"e":"Reset"}                                                                          *)
(*  class level (harness/chanmap, mode class)                                               *)
(*   {"e":"reset2","map":[5 octets],"hop":h,"r":bool,"tab":[data_channel(0..36)] or []}    *)
(*   {"e":"reset1","map":[5 octets],"r":bool,"tab":[...]}                                   *)
(*  link layer level (mode ll; real link_layer on the repository's simulated radio)         *)
(*   {"e":"Connect","map":[5 octets],"hop":h,"lat":k,"r":connection events were scheduled}  *)
(*   {"e":"Ev","cnt":16 bit event counter,"ch":channel of the scheduled connection event}   *)
(*   {"e":"MapInd","map":[5 octets],"inst":instant}     LL_CHANNEL_MAP_IND delivered in the *)
(*                                                      preceding connection event          *)
EXTENDS ChannelMap, Json, IOUtils, TLC

Tr == ndJsonDeserialize(IOEnv.TRACE)

VARIABLE l
tvars == <<vars, l>>

Ev == Tr[l]

\* the table the class exposes = channel of the i-th connection event under the parameters in force
TabOK(ev) ==
    IF chop' = 0 THEN Len(ev.tab) = 0
    ELSE /\ Len(ev.tab) = NumCh
         /\ \A i \in 0 .. NumCh - 1 : RemapIs(cmap', UnmappedAt(chop', i), ev.tab[i + 1])

\* number of connection events between the previous scheduled event and the one with counter c
Dist(c) == ((c - Counter(n)) + 65536) % 65536

Explain(ev) ==
    \/ ev.e = "Reset"   /\ cmap' = {} /\ chop' = 0 /\ last' = 0 /\ n' = -1 /\ phas' = FALSE /\ pmap' = {} /\ pinst' = 0
    \/ ev.e = "reset2"  /\ Reset2(MapOf(ev.map), ev.hop, ev.r) /\ TabOK(ev)
    \/ ev.e = "reset1"  /\ Reset1(MapOf(ev.map), ev.r) /\ TabOK(ev)
    \/ ev.e = "Connect" /\ Reset2(MapOf(ev.map), ev.hop, ev.r)
    \/ ev.e = "Ev"      /\ Event(Dist(ev.cnt), ev.ch)
    \/ ev.e = "MapInd"  /\ MapInd(MapOf(ev.map), ev.inst)

Resets == {i \in 1..Len(Tr) : Tr[i].e = "Reset"}
NextReset(i) == IF \E j \in Resets : j > i
                THEN CHOOSE j \in Resets : j > i /\ \A k \in Resets : k > i => j <= k
                ELSE Len(Tr) + 1

TInit == Init /\ l = 1

TNext ==
    \/ /\ l <= Len(Tr)
       /\ IF ENABLED Explain(Ev)
          THEN Explain(Ev) /\ l' = l + 1
          ELSE PrintT(<<"MISMATCH", l>>) /\ l' = NextReset(l) /\ UNCHANGED vars
    \/ /\ l = Len(Tr) + 1
       /\ PrintT(<<"TRACE_DONE", Len(Tr)>>)
       /\ l' = l + 1 /\ UNCHANGED vars

TSpec == TInit /\ [][TNext]_tvars
=============================================================================
