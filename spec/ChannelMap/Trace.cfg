CONSTANTS Maps = {}  UMaps = {}  Hops = {}  Steps = {}  NMax = 0
SPECIFICATION TSpec
INVARIANTS TypeOK
CHECK_DEADLOCK FALSE
