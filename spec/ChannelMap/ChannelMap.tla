------------------------------ MODULE ChannelMap ------------------------------
(* Property-level specification of data channel selection (C20).                          *)
(*                                                                                        *)
(* Channel Selection Algorithm #1, transcribed from the Bluetooth Core specification      *)
(* (Vol 6, Part B, 4.5.8.2) - not from the code:                                          *)
(*   unmappedChannel = (lastUnmappedChannel + hopIncrement) mod 37 for every connection   *)
(*   event (lastUnmappedChannel = 0 before the first event of a connection; events the    *)
(*   peripheral skips because of peripheral latency advance it as well);                  *)
(*   if unmappedChannel is a used channel it is the data channel, otherwise               *)
(*   remappingIndex = unmappedChannel mod numUsedChannels selects the data channel from   *)
(*   the table of used channels in ascending order.                                       *)
(* A channel map is the set of used data channels (subset of 0..36); the bits 37..39 of   *)
(* the 5 octet ChM field are reserved and ignored (MapOf).                                *)
(* A CONNECT_IND / LL_CHANNEL_MAP_IND whose map has fewer than two used channels or whose *)
(* hop increment is outside 5..16 is not applied (Reset2 / Reset1 / Event leave the map   *)
(* in force unchanged).                                                                   *)
EXTENDS Integers, FiniteSets, Sequences

NumCh == 37
AllCh == 0 .. 36

(* ------------------------------ the function -------------------------------------- *)
Rank(map, c) == Cardinality({x \in map : x < c})
\* k-th (0 based) entry of the table of used channels in ascending order
Nth(map, k)  == CHOOSE c \in map : Rank(map, c) = k

Valid(map, hop)  == Cardinality(map) >= 2 /\ hop \in 5 .. 16
ValidMap(map)    == Cardinality(map) >= 2

Unmapped(lastUnmapped, hop) == (lastUnmapped + hop) % NumCh
Remap(map, u) == IF u \in map THEN u ELSE Nth(map, u % Cardinality(map))

\* the same relation in a form that is cheap to *check*: ch is the data channel for unmapped channel u
\* (RemapAgree below: RemapIs(map, u, ch) <=> ch = Remap(map, u))
RemapIs(map, u, ch) == IF u \in map THEN ch = u ELSE ch \in map /\ Rank(map, ch) = u % Cardinality(map)

\* closed form: unmapped channel / data channel of the i-th connection event (i = 0 is the first)
UnmappedAt(hop, i)      == (((i % NumCh) + 1) * hop) % NumCh
ChannelAt(map, hop, i)  == Remap(map, UnmappedAt(hop, i))

\* the 5 octets of a ChM field -> set of used channels (LSB of octet 0 = channel 0; bits 37..39 reserved)
Bit(byte, k)  == (byte \div (2 ^ k)) % 2
MapOf(bytes)  == {c \in AllCh : Bit(bytes[(c \div 8) + 1], c % 8) = 1}

(* ------------------------------ the state machine --------------------------------- *)
CONSTANTS Maps,     \* channel maps offered in CONNECT_IND (model checking only)
          UMaps,    \* channel maps offered in LL_CHANNEL_MAP_IND (model checking only)
          Hops,     \* hop increments offered (model checking only)
          Steps,    \* numbers of connection events advanced by one step (1 = no latency)
          NMax      \* bound on the number of connection events (model checking only)

VARIABLES cmap,     \* channel map in force ({} = no connection parameters applied yet)
          chop,     \* hop increment in force (0 = none)
          last,     \* lastUnmappedChannel
          n,        \* index of the latest connection event since the connection was created (-1 = none yet)
          phas, pmap, pinst   \* pending LL_CHANNEL_MAP_IND: new map and instant (16 bit event counter)

vars == <<cmap, chop, last, n, phas, pmap, pinst>>

Counter(k) == (k + 65536) % 65536          \* 16 bit connEventCounter of event index k (k >= -1)

TypeOK == /\ cmap \subseteq AllCh /\ chop \in 0 .. 16 /\ last \in AllCh /\ n \in Int /\ n >= -1
          /\ phas \in BOOLEAN /\ pmap \subseteq AllCh /\ pinst \in 0 .. 65535
          /\ (chop # 0 => Valid(cmap, chop))

Init == cmap = {} /\ chop = 0 /\ last = 0 /\ n = -1 /\ phas = FALSE /\ pmap = {} /\ pinst = 0

\* channel_map::reset(map, hop) / CONNECT_IND: applied iff valid, otherwise nothing changes
Reset2(m, h, r) ==
    /\ r = Valid(m, h)
    /\ IF r THEN cmap' = m /\ chop' = h /\ last' = 0 /\ n' = -1 /\ phas' = FALSE /\ pmap' = {} /\ pinst' = 0
            ELSE UNCHANGED vars

\* channel_map::reset(map): immediate change of the map in force, hop increment kept
Reset1(m, r) ==
    /\ chop # 0
    /\ r = ValidMap(m)
    /\ cmap' = IF r THEN m ELSE cmap
    /\ UNCHANGED <<chop, last, n, phas, pmap, pinst>>

\* LL_CHANNEL_MAP_IND received during event n; instant strictly in the future (else the link is lost, C21)
MapInd(m, inst) ==
    /\ chop # 0 /\ n >= 0 /\ ~phas
    /\ inst \in 0 .. 65535
    /\ ((inst - Counter(n) - 1) + 65536) % 65536 < 32767
    /\ phas' = TRUE /\ pmap' = m /\ pinst' = inst
    /\ UNCHANGED <<cmap, chop, last, n>>

\* the instant lies in event indices n+1 .. n+d
Crossed(d) == phas /\ ((pinst - Counter(n) - 1) + 65536) % 65536 < d

\* the peripheral listens to the d-th next connection event: map in force, unmapped channel, data channel
EvMap(d) == IF Crossed(d) /\ ValidMap(pmap) THEN pmap ELSE cmap
EvUnm(d) == (last + d * chop) % NumCh
EvCh(d)  == Remap(EvMap(d), EvUnm(d))

Event(d, ch) ==
    /\ chop # 0 /\ d >= 1
    /\ ch = EvCh(d)
    /\ cmap' = EvMap(d)
    /\ last' = EvUnm(d)
    /\ n' = n + d
    /\ phas' = (phas /\ ~Crossed(d))
    /\ UNCHANGED <<chop, pmap, pinst>>

\* model checking bound: the first NMax events and NMax events around the wrap of the 16 bit counter
InBound(k) == k <= NMax \/ (k >= 65529 /\ k <= 65529 + NMax)

Next == \/ chop = 0 /\ \E m \in Maps, h \in Hops : Reset2(m, h, Valid(m, h))
        \/ chop # 0 /\ \E m \in {AllCh, {5}}, h \in {0, 7} : Reset2(m, h, Valid(m, h))    \* new connection / refused request
        \/ \E m \in UMaps : Reset1(m, ValidMap(m))
        \/ \E m \in UMaps, k \in {1, 3} : MapInd(m, Counter(n + k))
        \/ \E d \in Steps : InBound(n + d) /\ Event(d, EvCh(d))

Spec == Init /\ [][Next]_vars

(* ------------------------------ sanity of the transcription ----------------------- *)
\* the channel of every event is a used channel of the map in force
InMap        == [][n' > n => (EvCh(n' - n) \in cmap' /\ Event(n' - n, EvCh(n' - n)))]_vars
\* with all 37 channels used the algorithm is the identity on the unmapped channel
FullIdentity == [][(n' > n /\ cmap' = AllCh) => Event(n' - n, last')]_vars
\* recursion = closed form by event index; the sequence has period 37 (this is the table the code keeps)
ClosedForm   == n >= 0 => last = UnmappedAt(chop, n)
Periodic     == (n >= 0 /\ (n + 1) % NumCh = 0) => last = 0
TableForm    == [][n' > n => Event(n' - n, ChannelAt(cmap', chop, n'))]_vars
RemapAgree   == (cmap # {} /\ (n <= 0 \/ n = 20)) => \A u \in AllCh, c \in AllCh : RemapIs(cmap, u, c) <=> (c = Remap(cmap, u))
\* a full map visits every channel exactly once per round (hop increment and 37 are coprime)
FullRound    == \A h \in 5 .. 16 : {ChannelAt(AllCh, h, i) : i \in 0 .. 36} = AllCh
\* invalid parameters are never in force
NeverInvalid == chop # 0 => Valid(cmap, chop)

(* ------------------------------ model checking instance --------------------------- *)
MCMaps    == {AllCh, {}, {36}, {0, 36}, {1, 2, 3}, 0 .. 18, {c \in AllCh : c % 2 = 0}, {c \in AllCh : c % 3 = 1}, 9 .. 11}
             \cup {AllCh \ {a} : a \in AllCh} \cup {{a, (a + 9) % 37} : a \in {0, 3, 7, 11, 19, 27, 28, 30, 35, 36}}
MCQMaps   == {AllCh, {36}, {0, 36}, 0 .. 18, {c \in AllCh : c % 3 = 1}, AllCh \ {0}, AllCh \ {8, 36}}
MCUMaps   == {AllCh, {5}, {0, 36}, {c \in AllCh : c % 2 = 1}}
MCHops    == {0, 5, 7, 16, 17}
MCSteps   == {1, 2, 65530}
=============================================================================
