---------------------------- MODULE ChannelMapGen ----------------------------
(* Behaviour generator for the link layer level binding of C20: a CONNECT_IND (channel map, hop   *)
(* increment, peripheral latency) followed by one entry per connection event: the central sends   *)
(* an empty PDU ("r"), nothing ("t", the event times out) or an LL_CHANNEL_MAP_IND ("m", new map, *)
(* instant = counter of that event + off).  BFS to depth D enumerates all such scenarios over the *)
(* small alphabets below, -simulate produces long random ones (several rounds of 37 events).      *)
(* The central never sends a second LL_CHANNEL_MAP_IND before the instant of the first passed     *)
(* (every entry advances the event counter by at least one, so `cd` counts down conservatively).  *)
(* The class level rows (all maps x hops) are a plain grid enumerated by checks/chanmap.py.       *)
EXTENDS ChannelMap, TLC, Json

CONSTANTS D,        \* length of a behaviour (CONNECT_IND + D-1 connection events)
          GMaps, GUMaps, GHops, GLats, GOffs, GRsv

VARIABLES hist, cd
gvars == <<vars, hist, cd>>

ByteOf(m, i, rsv) == LET bit(k) == IF (8 * i + k) \in m THEN 2 ^ k ELSE 0
                     IN  bit(0) + bit(1) + bit(2) + bit(3) + bit(4) + bit(5) + bit(6) + bit(7)
                         + (IF i = 4 THEN 32 * rsv ELSE 0)
Bytes(m, rsv) == [i \in 1 .. 5 |-> ByteOf(m, i - 1, rsv)]

GInit == Init /\ hist = <<>> /\ cd = 0

Do(op) == hist' = Append(hist, op)

GNext ==
    /\ Len(hist) < D
    /\ \/ /\ hist = <<>>
          /\ \E m \in GMaps, h \in GHops, lat \in GLats, rsv \in GRsv :
                /\ Reset2(m, h, Valid(m, h))
                /\ Do(<<"conn">> \o Bytes(m, rsv) \o <<h, lat>>)
          /\ cd' = 0
       \/ /\ hist # <<>>
          /\ UNCHANGED vars
          /\ \/ Do(<<"r">>) /\ cd' = IF cd > 0 THEN cd - 1 ELSE 0
             \/ Do(<<"t">>) /\ cd' = IF cd > 0 THEN cd - 1 ELSE 0
             \/ /\ cd = 0 /\ chop # 0
                /\ \E m \in GUMaps, off \in GOffs, rsv \in GRsv :
                      Do(<<"m">> \o Bytes(m, rsv) \o <<off>>) /\ cd' = off

GSpec == GInit /\ [][GNext]_gvars

Emit == Len(hist) = D => PrintT(<<"BEHAVIOUR", ToJson(hist)>>)

\* alphabets
BfsMaps  == {AllCh, {3, 30}, AllCh \ {0, 36}, {17}, 0 .. 18}
BfsUMaps == {{c \in AllCh : c % 2 = 0}, {36}, AllCh \ {5}}
SimMaps  == BfsMaps \cup {{c \in AllCh : c % 3 = 1}, {0, 1, 2}, AllCh \ {11}, {}, 9 .. 36, {0, 36}}
SimUMaps == BfsUMaps \cup {AllCh, {1, 2}, {}, {c \in AllCh : c % 5 = 2}, 20 .. 36}
=============================================================================
