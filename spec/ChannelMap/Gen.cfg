CONSTANTS Maps = {}  UMaps = {}  Hops = {}  Steps = {}  NMax = 0
CONSTANTS D = 3  GMaps <- BfsMaps  GUMaps <- BfsUMaps  GHops = {4, 5, 16, 17}  GLats = {0, 2}  GOffs = {1, 3}  GRsv = {0}
SPECIFICATION GSpec
INVARIANTS Emit
CHECK_DEADLOCK FALSE
