SPECIFICATION Spec
INVARIANTS Innermost DocExample MustInMay GapIsMay CodeRule
CHECK_DEADLOCK FALSE
