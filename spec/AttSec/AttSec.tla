------------------------------- MODULE AttSec -------------------------------
(* Property-level definitions for four properties of the Bluetoe ATT server:                    *)
(*   C05  encryption-protected values are never exposed / modified on an unencrypted link        *)
(*   C07  prepared writes are deferred, per client, applied in order (shared_write_queue<N>)     *)
(*   C10  notifications / indications carry the requested characteristic to subscribed clients   *)
(*   C01  ATT input handling is well framed (ResponseClass over the ATT opcode table, MTU bound) *)
(*                                                                                              *)
(* Everything here is a pure operator over                                                      *)
(*   d     a normalized server declaration (tools/gen_server.py, spec/Gatt/README.md)           *)
(*   t     its attribute table  GattDb!Build(d)                                                 *)
(*   s     link security of the requesting connection  [enc : BOOLEAN, pair : 0..3]             *)
(*         (link_state::is_encrypted / pairing_status; pair = 0 is device_pairing_status::no_key)*)
(*   vals  value store  << <<serial, bytes>>, .. >>  (memory behind every bound/handler value)   *)
(*   cccd  observed client configurations  << <<c, handle, value>>, .. >>  (c = 0-based connection)*)
(*   wq    write queue  [owner : 0..NConn, ents : Seq([h, off, val])]   (owner 0 = free)         *)
(* The *OK predicates say which (response, next state) the property allows - no more than the   *)
(* property states; Ref* is one ideal server, used by AttSecModel to show that the predicates   *)
(* are satisfiable by a conforming server and to generate behaviours.                           *)
EXTENDS GattDb, TLC

NConn == 3

\* ---------------------------------------------------------------------------- bytes / PDUs
BytesOf(b)    == {b[i] : i \in 1..Len(b)}
Take(b, n)    == SubSeq(b, 1, Min(n, Len(b)))
Drop(b, n)    == SubSeq(b, n + 1, Len(b))
Overwrite(cur, off, val) ==           \* cur with val written at offset off (off + Len(val) <= Len(cur))
    [i \in 1..Len(cur) |-> IF i > off /\ i <= off + Len(val) THEN val[i - off] ELSE cur[i]]

OpError == 1        OpMtuReq == 2        OpFindInfo == 4     OpFindByType == 6   OpReadByType == 8
OpRead == 10        OpReadBlob == 12     OpReadMulti == 14   OpReadByGroup == 16 OpWrite == 18
OpPrepare == 22     OpExecute == 24      OpNotification == 27 OpIndication == 29 OpConfirmation == 30
OpWriteCmd == 82    OpSignedWrite == 210

ErrInvalidHandle == 1   ErrReadNotPermitted == 2  ErrWriteNotPermitted == 3  ErrInvalidPdu == 4
ErrInsuffAuthentication == 5  ErrNotSupported == 6  ErrInvalidOffset == 7  ErrQueueFull == 9
ErrAttributeNotFound == 10    ErrInvalidLength == 13  ErrInsuffEncryption == 15

ErrorRsp(op, h, code) == <<OpError, op>> \o LE16(h) \o <<code>>
IsErrorRsp(out)       == Len(out) = 5 /\ out[1] = OpError
IsErrorFor(out, op)   == IsErrorRsp(out) /\ out[2] = op /\ out[5] # 0

\* ---------------------------------------------------------------------------- which attributes are protected
\* encryption.hpp: requires_encryption / no_encryption_required / may_require_encryption can be given at server,
\* service and characteristic level, "this definition applies to all containing characteristics, where it can be
\* overridden"; may_require_encryption "basically means that the characteristic does not require encryption" for
\* the built-in check. MustEnc is the reading that demands the least: the innermost explicit option decides and
\* only requires_encryption protects. (GattDb!CharEnc - the table field `enc` - is the other defensible reading:
\* may_require_encryption is transparent and an outer requires_encryption stays in force. MustEnc => CharEnc, see
\* EncRule.tla; attributes in the gap are neither demanded to be protected nor demanded to be open.)
SvcEncOpt(d, k)    == IF k <= Len(d.services) THEN d.services[k].enc ELSE "inherit"          \* implicit GAP service
ChrEncOpt(d, k, j) == IF k <= Len(d.services) THEN d.services[k].chars[j].enc ELSE "inherit"
InnermostRequires(o) ==     \* o = <<server option, service option, characteristic option>>
    LET ex == {i \in 1..3 : o[i] # "inherit"}
    IN  ex # {} /\ o[CHOOSE i \in ex : \A j \in ex : j <= i] = "requires"
MustEnc(d, k, j) == InnermostRequires(<<d.opts.enc, SvcEncOpt(d, k), ChrEncOpt(d, k, j)>>)

Prot(d, a)    == a.kind \in {"value", "cccd"} /\ MustEnc(d, a.svc, a.chr)      \* protection demanded
MayProt(d, a) == a.kind \in {"value", "cccd"} /\ a.enc /\ ~Prot(d, a)          \* protection permitted, not demanded

SerialOf(d, a) == IF a.svc <= Len(d.services) /\ a.chr > 0 THEN d.services[a.svc].chars[a.chr].serial ELSE 0

ProtIdx(d, t)     == {i \in 1..Len(t) : Prot(d, t[i])}
ProtHandles(d, t) == {t[i].h : i \in ProtIdx(d, t)}
ProtSerials(d, t) == {SerialOf(d, t[i]) : i \in {j \in ProtIdx(d, t) : t[j].kind = "value"}} \ {0}

\* ---------------------------------------------------------------------------- value store / CCCD observation
HasVal(vals, sr) == \E i \in 1..Len(vals) : vals[i][1] = sr
ValOf(vals, sr)  == vals[CHOOSE i \in 1..Len(vals) : vals[i][1] = sr][2]
PutVal(vals, sr, b) == [i \in 1..Len(vals) |-> IF vals[i][1] = sr THEN <<sr, b>> ELSE vals[i]]
CurVal(d, vals, a)  == IF a.kind = "value" /\ HasVal(vals, SerialOf(d, a)) THEN ValOf(vals, SerialOf(d, a))
                       ELSE IF a.kind = "cccd" THEN <<0, 0>> ELSE a.val
CccdOf(cccd, c0, h) == IF \E i \in 1..Len(cccd) : cccd[i][1] = c0 /\ cccd[i][2] = h
                       THEN cccd[CHOOSE i \in 1..Len(cccd) : cccd[i][1] = c0 /\ cccd[i][2] = h][3] ELSE 0

SecErr(s) == IF s.pair = 0 THEN ErrInsuffAuthentication ELSE ErrInsuffEncryption
Unencrypted == [enc |-> FALSE, pair |-> 0]

\* ============================================================================ C05
\* ph = ProtHandles(d, t), ps = ProtSerials(d, t) are passed in (computed once per server)
ProtBytes(ps, vals) == UNION {BytesOf(vals[i][2]) : i \in {j \in 1..Len(vals) : vals[j][1] \in ps}}
NoMarker(out, pb)   == \A i \in 1..Len(out) : out[i] \notin pb

ProtValsSame(ps, vals, vals2) ==
    /\ Len(vals2) = Len(vals)
    /\ \A i \in 1..Len(vals) : vals[i][1] \in ps => vals2[i] = vals[i]
ProtCccdSame(ph, cccd, cccd2) ==
    /\ Len(cccd2) = Len(cccd)
    /\ \A i \in 1..Len(cccd) : cccd[i][2] \in ph => cccd2[i] = cccd[i]

\* requests that name exactly one attribute and are well formed enough to name it
NamesOne(in) == \/ (in[1] = OpRead /\ Len(in) = 3)
                \/ (in[1] = OpReadBlob /\ Len(in) = 5)
                \/ (in[1] = OpWrite /\ Len(in) >= 3)
                \/ (in[1] = OpPrepare /\ Len(in) >= 5)
\* error codes such a request deserves for reasons other than link security
OtherErrs(d, vals, in, a) ==
    LET cur == CurVal(d, vals, a) IN
    CASE in[1] = OpRead     -> IF a.rd THEN {} ELSE {ErrReadNotPermitted}
      [] in[1] = OpReadBlob -> (IF a.rd THEN {} ELSE {ErrReadNotPermitted})
                               \cup (IF U16(in, 4) > Len(cur) THEN {ErrInvalidOffset} ELSE {})
      [] in[1] = OpWrite    -> (IF a.wr THEN {} ELSE {ErrWriteNotPermitted})
                               \cup (IF Len(in) - 3 > Len(cur) THEN {ErrInvalidLength} ELSE {})
      [] in[1] = OpPrepare  -> (IF a.wr THEN {} ELSE {ErrWriteNotPermitted})
                               \cup (IF d.opts.wq = 0 THEN {ErrNotSupported} ELSE {})
      [] OTHER -> {}

RbtHandles(out) ==      \* handles listed in a Read By Type Response (malformed lists give {})
    IF Len(out) >= 4 /\ out[1] = OpReadByType + 1 /\ out[2] >= 2 /\ (Len(out) - 2) % out[2] = 0
    THEN {U16(out, 3 + (k - 1) * out[2]) : k \in 1..((Len(out) - 2) \div out[2])} ELSE {}
MultiHandles(in) == {U16(in, 2 * k) : k \in 1..((Len(in) - 1) \div 2)}

\* is the echo of a Prepare Write to an attribute that is not protected (repeats what the client sent)
OpenEcho(ph, in, out) == in[1] = OpPrepare /\ Len(in) >= 5 /\ out = <<OpPrepare + 1>> \o Tail(in) /\ U16(in, 2) \notin ph

\* a request `in` answered with `out` on a connection with security s; vals, cccd before and vals2, cccd2 after
C05ReqOK(d, t, ph, ps, s, vals, cccd, in, out, vals2, cccd2) ==
    s.enc \/
    ( /\ ProtValsSame(ps, vals, vals2)                              \* never modified
      /\ ProtCccdSame(ph, cccd, cccd2)
      /\ NoMarker(out, ProtBytes(ps, vals)) \/ OpenEcho(ph, in, out) \* never returned
      /\ (NamesOne(in) /\ U16(in, 2) \in ph) =>                     \* the rejection and its code
            /\ IsErrorFor(out, in[1])
            /\ out[5] \in ({SecErr(s)} \cup OtherErrs(d, vals, in, t[AttrAt(t, U16(in, 2))]))
            /\ out[5] = ErrNotSupported \/ U16(out, 3) = U16(in, 2)
      /\ in[1] = OpReadByType => RbtHandles(out) \cap ph = {}
      /\ (in[1] = OpReadMulti /\ Len(in) >= 5 /\ Len(in) % 2 = 1 /\ MultiHandles(in) \cap ph # {}) => IsErrorFor(out, OpReadMulti) )

\* a PDU the server sends on its own (l2cap_output) on a connection with security s
C05OutOK(ph, ps, s, vals, out) ==
    s.enc \/ ( /\ NoMarker(out, ProtBytes(ps, vals))
               /\ Len(out) >= 3 => U16(out, 2) \notin ph )

\* ============================================================================ C07
WqFree == [owner |-> 0, ents |-> <<>>]
RECURSIVE SumLen(_, _)
SumLen(ents, extra) == IF ents = <<>> THEN 0 ELSE Len(ents[1].val) + extra + SumLen(Tail(ents), extra)
\* write_queue.hpp documents 7 octets of overhead per prepared write ("( ( N + 17 ) / 18 * 7 ) + N"); handle and
\* offset alone need 4. An entry that fits with 7 must be accepted, one that does not fit with 4 must be refused.
MustFit(d, ents, n) == SumLen(ents, 7) + n + 7 <= d.opts.wq
CantFit(d, ents, n) == SumLen(ents, 4) + n + 4 > d.opts.wq

\* reasons to refuse a write of `n` octets at offset `off` to handle h (permission, security, value rules)
PermReasons(d, t, s, h) ==
    IF h = 0 \/ ~HasAttr(t, h) THEN {ErrInvalidHandle}
    ELSE LET a == t[AttrAt(t, h)] IN
         (IF a.wr THEN {} ELSE {ErrWriteNotPermitted}) \cup (IF Prot(d, a) /\ ~s.enc THEN {SecErr(s)} ELSE {})
PermMay(d, t, s, h) ==      \* reasons a server may have in addition (protection permitted, not demanded)
    IF h # 0 /\ HasAttr(t, h) /\ MayProt(d, t[AttrAt(t, h)]) /\ ~s.enc THEN {ErrInsuffAuthentication, ErrInsuffEncryption} ELSE {}
ValueReasons(d, t, vals, h, off, n) ==
    IF h = 0 \/ ~HasAttr(t, h) \/ ~t[AttrAt(t, h)].wr THEN {}
    ELSE LET size == Len(CurVal(d, vals, t[AttrAt(t, h)])) IN
         IF off > size THEN {ErrInvalidOffset} ELSE IF off + n > size THEN {ErrInvalidLength} ELSE {}

\* value store after `val` was written to handle h at offset off (CCCD writes do not touch the value store)
Written(d, t, vals, h, off, val) ==
    LET a == t[AttrAt(t, h)] IN
    IF a.kind = "value" /\ HasVal(vals, SerialOf(d, a))
    THEN PutVal(vals, SerialOf(d, a), Overwrite(ValOf(vals, SerialOf(d, a)), off, val)) ELSE vals

\* which of the two security error codes is used is C05's business, not C07's
SecEq(codes) == IF codes \cap {ErrInsuffAuthentication, ErrInsuffEncryption} # {}
                THEN codes \cup {ErrInsuffAuthentication, ErrInsuffEncryption} ELSE codes

\* Write Request <<0x12, h, value>> (offset 0)
C07WriteOK(d, t, s, vals, in, out, vals2) ==
    IF Len(in) < 3 THEN IsErrorFor(out, OpWrite) /\ vals2 = vals
    ELSE LET h == U16(in, 2)
             v == Drop(in, 3)
             r == PermReasons(d, t, s, h) \cup ValueReasons(d, t, vals, h, 0, Len(v))
         IN  \/ r = {} /\ out = <<OpWrite + 1>> /\ vals2 = Written(d, t, vals, h, 0, v)
             \/ /\ IsErrorFor(out, OpWrite) /\ out[5] \in SecEq(r \cup PermMay(d, t, s, h)) /\ U16(out, 3) = h
                /\ vals2 = vals

\* Prepare Write Request <<0x16, h, off, value>> from connection c (1-based)
C07PrepareOK(d, t, s, c, vals, wq, in, out, vals2, wq2) ==
    /\ vals2 = vals                                                \* never changes a value
    /\ IF d.opts.wq = 0 THEN IsErrorFor(out, OpPrepare) /\ out[5] = ErrNotSupported /\ wq2 = wq
       ELSE IF Len(in) < 5 THEN IsErrorFor(out, OpPrepare) /\ wq2 = wq
       ELSE LET h   == U16(in, 2)
                off == U16(in, 4)
                v   == Drop(in, 5)
                mine == wq.owner \in {0, c}
                must == PermReasons(d, t, s, h)
                        \cup (IF ~mine \/ CantFit(d, wq.ents, Len(v)) THEN {ErrQueueFull} ELSE {})
                may  == PermMay(d, t, s, h)
                        \cup (IF mine /\ ~MustFit(d, wq.ents, Len(v)) THEN {ErrQueueFull} ELSE {})
            IN  \/ /\ must = {}                                    \* accepted exactly when permitted: echo, queued
                   /\ out = <<OpPrepare + 1>> \o Tail(in)
                   /\ wq2 = [owner |-> c, ents |-> Append(wq.ents, [h |-> h, off |-> off, val |-> v])]
                \/ /\ IsErrorFor(out, OpPrepare) /\ out[5] \in SecEq(must \cup may) /\ U16(out, 3) = h
                   /\ wq2 = wq

\* executing the queue: index of the first entry that can not be written (0 = none) and the store after the
\* entries before it
RECURSIVE ApplyFrom(_, _, _, _, _, _)
ApplyFrom(d, t, s, vals, ents, k) ==
    IF k > Len(ents) THEN [fail |-> 0, vals |-> vals, codes |-> {}]
    ELSE LET e == ents[k]
             r == PermReasons(d, t, s, e.h) \cup ValueReasons(d, t, vals, e.h, e.off, Len(e.val))
         IN  IF r # {} THEN [fail |-> k, vals |-> vals, codes |-> r]
             ELSE ApplyFrom(d, t, s, Written(d, t, vals, e.h, e.off, e.val), ents, k + 1)
TouchedSerials(d, t, ents) == {SerialOf(d, t[AttrAt(t, ents[i].h)]) : i \in {j \in 1..Len(ents) : HasAttr(t, ents[j].h)}}

\* Execute Write Request <<0x18, flag>> from connection c
C07ExecuteOK(d, t, s, c, vals, wq, in, out, vals2, wq2) ==
    IF d.opts.wq = 0 THEN IsErrorFor(out, OpExecute) /\ out[5] = ErrNotSupported /\ wq2 = wq /\ vals2 = vals
    ELSE IF Len(in) # 2 \/ in[2] \notin {0, 1} THEN IsErrorFor(out, OpExecute) /\ wq2 = wq /\ vals2 = vals
    ELSE IF wq.owner # c THEN out = <<OpExecute + 1>> /\ wq2 = wq /\ vals2 = vals      \* nothing of this client queued
    ELSE IF in[2] = 0 THEN out = <<OpExecute + 1>> /\ wq2 = WqFree /\ vals2 = vals       \* cancel
    ELSE LET r == ApplyFrom(d, t, s, vals, wq.ents, 1) IN
         /\ wq2 = WqFree                                                                   \* released in any case
         /\ IF r.fail = 0
            THEN \/ out = <<OpExecute + 1>> /\ vals2 = r.vals                                \* all, in order
                 \/ /\ \E k \in 1..Len(wq.ents) : PermMay(d, t, s, wq.ents[k].h) # {}
                    /\ IsErrorFor(out, OpExecute) /\ out[5] \in {ErrInsuffAuthentication, ErrInsuffEncryption}
                    /\ Len(vals2) = Len(vals)
                    /\ \A i \in 1..Len(vals) : vals[i][1] \notin TouchedSerials(d, t, wq.ents) => vals2[i] = vals[i]
            ELSE /\ IsErrorFor(out, OpExecute) /\ U16(out, 3) = wq.ents[r.fail].h
                 /\ out[5] \in SecEq(r.codes \cup PermMay(d, t, s, wq.ents[r.fail].h))
                 \* Vol 3 Part F 3.4.6.3: the state of the attributes that were to be written is undefined
                 /\ Len(vals2) = Len(vals)
                 /\ \A i \in 1..Len(vals) : vals[i][1] \notin TouchedSerials(d, t, wq.ents) => vals2[i] = vals[i]

\* ============================================================================ C10
\* notifiable characteristics: <<service k, characteristic j>> of the user services
AllChars(d) == UNION {{<<k, j>> : j \in 1..Len(d.services[k].chars)} : k \in 1..Len(d.services)}
CharOfSerial(d, sr) == CHOOSE kj \in AllChars(d) : d.services[kj[1]].chars[kj[2]].serial = sr
ValAttrOf(t, k, j)  == t[CHOOSE i \in 1..Len(t) : t[i].kind = "value" /\ t[i].svc = k /\ t[i].chr = j]
CccdAttrOf(t, k, j) == t[CHOOSE i \in 1..Len(t) : t[i].kind = "cccd" /\ t[i].svc = k /\ t[i].chr = j]
\* kind: 1 = notification (CCCD bit 0), 2 = indication (CCCD bit 1)
Subscribed(t, cccd, c0, k, j, kind) == (CccdOf(cccd, c0, CccdAttrOf(t, k, j).h) \div kind) % 2 = 1
Sendable(d, t, s, k, j)             == Prot(d, ValAttrOf(t, k, j)) => s.enc
KindOp(kind) == IF kind = 1 THEN OpNotification ELSE OpIndication

\* `out` is the Handle Value Notification / Indication of the pending request p = <<c, serial, kind>>
PduOf(d, t, s, vals, cccd, mtu, p, out) ==
    LET kj == CharOfSerial(d, p[2])
        va == ValAttrOf(t, kj[1], kj[2])
    IN  /\ Len(out) >= 3 /\ out[1] = KindOp(p[3]) /\ U16(out, 2) = va.h       \* the VALUE handle of that characteristic
        /\ Drop(out, 3) = Take(CurVal(d, vals, va), mtu - 3)                    \* its current value
        /\ Subscribed(t, cccd, p[1] - 1, kj[1], kj[2], p[3])                    \* subscribed for that kind
        /\ Sendable(d, t, s, kj[1], kj[2])

\* ============================================================================ C01
\* ATT opcode table (Vol 3 Part F 3.4.8): requests and their response opcodes
RequestOps == {OpMtuReq, OpFindInfo, OpFindByType, OpReadByType, OpRead, OpReadBlob, OpReadMulti, OpReadByGroup,
               OpWrite, OpPrepare, OpExecute}
\* total classification of a PDU by its first octet:
\*   "request"  a request of the table: its response opcode or an Error Response naming the request opcode
\*   "none"     commands (command flag, bit 6: Write Command 0x52, Signed Write Command 0xD2, ...), Handle Value
\*              Confirmation 0x1E, Handle Value Notification 0x1B and Error Response 0x01 sent by the client:
\*              no response
\*   "free"     the property is silent: response opcodes and Handle Value Indication sent by the client (either
\*              no response or an Error Response naming the opcode)
\*   "unknown"  any other opcode (command flag clear): Error Response, Request Not Supported
ResponseClass(op) ==
    IF op \in RequestOps THEN "request"
    ELSE IF (op \div 64) % 2 = 1 \/ op \in {OpConfirmation, OpNotification, OpError} THEN "none"
    ELSE IF op = OpIndication \/ (op - 1) \in RequestOps THEN "free"
    ELSE "unknown"

C01ReqOK(in, out, mtu) ==
    /\ Len(out) <= mtu
    /\ CASE ResponseClass(in[1]) = "request" -> (Len(out) >= 1 /\ out[1] = in[1] + 1) \/ IsErrorFor(out, in[1])
         [] ResponseClass(in[1]) = "none"    -> out = <<>>
         [] ResponseClass(in[1]) = "free"    -> out = <<>> \/ IsErrorFor(out, in[1])
         [] OTHER                            -> IsErrorFor(out, in[1]) /\ out[5] = ErrNotSupported
\* negotiated MTU after a request (Exchange MTU Request with a legal value that was answered with a response)
MtuAfter(smtu, mtu, in, out) ==
    IF in[1] = OpMtuReq /\ Len(in) = 3 /\ U16(in, 2) >= 23 /\ Len(out) >= 1 /\ out[1] = OpMtuReq + 1
    THEN Min(smtu, U16(in, 2)) ELSE mtu

\* ============================================================================ an ideal server (Ref)
\* One conforming implementation of the requests used by the generated behaviours. Returns
\* [out, vals, cccd, wq]; cccd entries of connection c (0-based c0) are updated by CCCD writes.
PutCccd(cccd, c0, h, v) == [i \in 1..Len(cccd) |-> IF cccd[i][1] = c0 /\ cccd[i][2] = h THEN <<c0, h, v>> ELSE cccd[i]]
AttrVal(d, vals, cccd, c0, a) == IF a.kind = "cccd" THEN LE16(CccdOf(cccd, c0, a.h)) ELSE CurVal(d, vals, a)
Accessible(d, s, a) == (Prot(d, a) \/ MayProt(d, a)) => s.enc          \* the ideal server protects both readings

RefRead(d, t, s, vals, cccd, c0, mtu, op, h, off) ==
    IF h = 0 \/ ~HasAttr(t, h) THEN ErrorRsp(op, h, ErrInvalidHandle)
    ELSE LET a == t[AttrAt(t, h)]
             v == AttrVal(d, vals, cccd, c0, a)
         IN  IF ~Accessible(d, s, a) THEN ErrorRsp(op, h, SecErr(s))
             ELSE IF ~a.rd THEN ErrorRsp(op, h, ErrReadNotPermitted)
             ELSE IF off > Len(v) THEN ErrorRsp(op, h, ErrInvalidOffset)
             ELSE <<op + 1>> \o Take(Drop(v, off), mtu - 1)

\* Read By Type for a 16 bit type: the first readable, accessible attribute of the type in range (a one entry list)
RefReadByType(d, t, s, vals, cccd, c0, mtu, in) ==
    LET st == U16(in, 2)
        en == U16(in, 4)
        m  == {i \in 1..Len(t) : t[i].h >= st /\ t[i].h <= en /\ t[i].type = SubSeq(in, 6, 7)
                                 /\ t[i].rd /\ Accessible(d, s, t[i])}
    IN  IF st = 0 \/ st > en THEN ErrorRsp(OpReadByType, st, ErrInvalidHandle)
        ELSE IF m = {} THEN ErrorRsp(OpReadByType, st, ErrAttributeNotFound)
        ELSE LET a == t[CHOOSE i \in m : \A j \in m : i <= j]
                 v == Take(AttrVal(d, vals, cccd, c0, a), mtu - 4)
             IN  <<OpReadByType + 1, Len(v) + 2>> \o LE16(a.h) \o v

\* Read Multiple: the values of all handles (a Read Response starts with 0x0B + .., an error with 0x01)
RECURSIVE ConcatTails(_, _)
ConcatTails(rs, k) == IF k > Len(rs) THEN <<>> ELSE Tail(rs[k]) \o ConcatTails(rs, k + 1)
RefReadMulti(d, t, s, vals, cccd, c0, mtu, in) ==
    IF Len(in) < 5 \/ Len(in) % 2 = 0 THEN ErrorRsp(OpReadMulti, 0, ErrInvalidPdu)
    ELSE LET n  == (Len(in) - 1) \div 2
             rs == [k \in 1..n |-> RefRead(d, t, s, vals, cccd, c0, 1000, OpReadMulti, U16(in, 2 * k), 0)]
             bad == {k \in 1..n : rs[k][1] = OpError}
         IN  IF bad # {} THEN rs[CHOOSE k \in bad : \A j \in bad : k <= j]
             ELSE Take(<<OpReadMulti + 1>> \o ConcatTails(rs, 1), mtu)

RefWriteResult(d, t, s, vals, cccd, c0, h, off, v) ==       \* [code, vals, cccd], code 0 = written
    IF h = 0 \/ ~HasAttr(t, h) THEN [code |-> ErrInvalidHandle, vals |-> vals, cccd |-> cccd]
    ELSE LET a == t[AttrAt(t, h)]
             size == Len(AttrVal(d, vals, cccd, c0, a))
         IN  IF ~Accessible(d, s, a) THEN [code |-> SecErr(s), vals |-> vals, cccd |-> cccd]
             ELSE IF ~a.wr THEN [code |-> ErrWriteNotPermitted, vals |-> vals, cccd |-> cccd]
             ELSE IF off > size THEN [code |-> ErrInvalidOffset, vals |-> vals, cccd |-> cccd]
             ELSE IF off + Len(v) > size THEN [code |-> ErrInvalidLength, vals |-> vals, cccd |-> cccd]
             ELSE IF a.kind = "cccd"
                  THEN [code |-> 0, vals |-> vals,
                        cccd |-> IF off = 0 /\ Len(v) >= 1 THEN PutCccd(cccd, c0, h, v[1] % 4) ELSE cccd]
                  ELSE [code |-> 0, vals |-> Written(d, t, vals, h, off, v), cccd |-> cccd]

RECURSIVE RefApply(_, _, _, _, _, _, _, _)
RefApply(d, t, s, vals, cccd, c0, ents, k) ==
    IF k > Len(ents) THEN [out |-> <<OpExecute + 1>>, vals |-> vals, cccd |-> cccd]
    ELSE LET w == RefWriteResult(d, t, s, vals, cccd, c0, ents[k].h, ents[k].off, ents[k].val) IN
         IF w.code # 0 THEN [out |-> ErrorRsp(OpExecute, ents[k].h, w.code), vals |-> vals, cccd |-> cccd]
         ELSE RefApply(d, t, s, w.vals, w.cccd, c0, ents, k + 1)

Same(out, vals, cccd, wq) == [out |-> out, vals |-> vals, cccd |-> cccd, wq |-> wq]

RefRequest(d, t, s, c, mtu, vals, cccd, wq, in) ==
    LET c0 == c - 1
        op == in[1]
    IN
    CASE op = OpRead /\ Len(in) = 3 -> Same(RefRead(d, t, s, vals, cccd, c0, mtu, op, U16(in, 2), 0), vals, cccd, wq)
      [] op = OpReadBlob /\ Len(in) = 5 -> Same(RefRead(d, t, s, vals, cccd, c0, mtu, op, U16(in, 2), U16(in, 4)), vals, cccd, wq)
      [] op = OpReadByType /\ Len(in) = 7 -> Same(RefReadByType(d, t, s, vals, cccd, c0, mtu, in), vals, cccd, wq)
      [] op = OpReadMulti -> Same(RefReadMulti(d, t, s, vals, cccd, c0, mtu, in), vals, cccd, wq)
      [] op \in {OpWrite, OpWriteCmd} /\ Len(in) >= 3 ->
            LET w == RefWriteResult(d, t, s, vals, cccd, c0, U16(in, 2), 0, Drop(in, 3))
                rsp == IF w.code = 0 THEN <<OpWrite + 1>> ELSE ErrorRsp(OpWrite, U16(in, 2), w.code)
            IN  Same(IF op = OpWriteCmd THEN <<>> ELSE rsp, w.vals, w.cccd, wq)
      [] op = OpPrepare /\ Len(in) >= 5 /\ d.opts.wq > 0 ->
            LET h == U16(in, 2)
                v == Drop(in, 5)
                w == RefWriteResult(d, t, s, vals, cccd, c0, h, 0, <<>>)        \* permission probe
            IN  IF w.code # 0 THEN Same(ErrorRsp(op, h, w.code), vals, cccd, wq)
                ELSE IF wq.owner \notin {0, c} \/ ~MustFit(d, wq.ents, Len(v)) THEN Same(ErrorRsp(op, h, ErrQueueFull), vals, cccd, wq)
                ELSE Same(<<op + 1>> \o Tail(in), vals, cccd,
                          [owner |-> c, ents |-> Append(wq.ents, [h |-> h, off |-> U16(in, 4), val |-> v])])
      [] op = OpExecute /\ Len(in) = 2 /\ in[2] \in {0, 1} /\ d.opts.wq > 0 ->
            IF wq.owner # c THEN Same(<<op + 1>>, vals, cccd, wq)
            ELSE IF in[2] = 0 THEN Same(<<op + 1>>, vals, cccd, WqFree)
            ELSE LET r == RefApply(d, t, s, vals, cccd, c0, wq.ents, 1) IN Same(r.out, r.vals, r.cccd, WqFree)
      [] op \in {OpPrepare, OpExecute} /\ d.opts.wq = 0 -> Same(ErrorRsp(op, 0, ErrNotSupported), vals, cccd, wq)
      [] ResponseClass(op) = "request" -> Same(ErrorRsp(op, 0, ErrInvalidPdu), vals, cccd, wq)
      [] ResponseClass(op) \in {"none", "free"} -> Same(<<>>, vals, cccd, wq)
      [] OTHER -> Same(ErrorRsp(op, 0, ErrNotSupported), vals, cccd, wq)
=============================================================================
