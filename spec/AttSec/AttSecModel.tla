----------------------------- MODULE AttSecModel -----------------------------
(* Design level model + behaviour generator for C05 / C07 / C10 / C01 on ONE concrete server declaration. *)
(*                                                                                                        *)
(* The declaration is the first line of IOEnv.DECLS (<name>.norm.json written by tools/gen_server.py),    *)
(* the table is GattDb!Build of it, IOEnv.ATTSEC_MODE selects the property (operation alphabet and       *)
(* invariants), IOEnv.ATTSEC_NC the number of connections that act (1..3).                               *)
(* The server of the model is the ideal server AttSec!Ref*; TLC checks on every reachable step that       *)
(*   - the property holds (invariants C05NoLeak, C07Deferred, C07Exclusive, C07Released, C10Requested,    *)
(*     C01Framed - stated directly on the step, not through the *OK predicates), and                      *)
(*   - the *OK predicates of AttSec.tla, which are the oracle of the trace validation, accept the ideal   *)
(*     server (RefConforms): the oracle is satisfiable, it cannot reject a conforming implementation for  *)
(*     the behaviours explored.                                                                           *)
(* With the history variable every path is a behaviour; Emit prints the maximal ones for the replay on    *)
(* the real server (harness/attsec), as a list of operations:                                            *)
(*   [op |-> "sec", c, enc, pair]  [op |-> "req", c, in]  [op |-> "notify", serial, ind, how]             *)
(*   [op |-> "out", c]  [op |-> "drain", c]  [op |-> "disc", c]  [op |-> "setval", serial, val]           *)
EXTENDS AttSec, Json, IOUtils

Decls == ndJsonDeserialize(IOEnv.DECLS)
D     == Decls[1]
T     == Build(D)
Mode  == IOEnv.ATTSEC_MODE
NC    == IF IOEnv.ATTSEC_NC = "1" THEN 1 ELSE IF IOEnv.ATTSEC_NC = "2" THEN 2 ELSE 3

CONSTANTS Depth,        \* operations after the prefix (the empty prefix gets Depth, the others Depth - 1 when > 1)
          Scenarios     \* 0: start from the empty prefix only; 1: the scenario prefixes for the exhaustive
                        \* enumeration; 2: all scenario prefixes (random simulation)

VARIABLES st,     \* [sec, mtu, vals, cccd, wq, pend, await]
          hist,   \* operations so far (prefix included)
          last,   \* the last step: [op, out, pre, ok]
          left    \* operations still allowed
vars == <<st, hist, last, left>>

\* ---------------------------------------------------------------------------- the declaration seen by the model
PH == ProtHandles(D, T)
PS == ProtSerials(D, T)
UserIdx   == {i \in 1..Len(T) : T[i].svc <= Len(D.services)}
ValIdx    == {i \in UserIdx : T[i].kind = "value"}
CccdIdx   == {i \in UserIdx : T[i].kind = "cccd"}
Serials   == {SerialOf(D, T[i]) : i \in ValIdx}
StoreSerials == {sr \in Serials : LET kj == CharOfSerial(D, sr) IN D.services[kj[1]].chars[kj[2]].vkind \in {"bound", "const", "handler"}}
CharRec(sr) == LET kj == CharOfSerial(D, sr) IN D.services[kj[1]].chars[kj[2]]
SeqOfSet(S) == LET n == Cardinality(S)
                   f[k \in 0..n] == IF k = 0 THEN <<>> ELSE Append(f[k - 1], CHOOSE x \in S : x \notin BytesOf(f[k - 1]) /\ \A y \in S \ BytesOf(f[k - 1]) : x <= y)
               IN  f[n]
InitVals == LET ss == SeqOfSet(StoreSerials) IN [i \in 1..Len(ss) |-> <<ss[i], CharRec(ss[i]).init>>]
CccdHandles == SeqOfSet({T[i].h : i \in CccdIdx})
InitCccd == [n \in 1..(NConn * Len(CccdHandles)) |->
               <<(n - 1) \div Len(CccdHandles), CccdHandles[((n - 1) % Len(CccdHandles)) + 1], 0>>]

St0 == [sec  |-> [c \in 1..NConn |-> Unencrypted], mtu |-> [c \in 1..NConn |-> 23],
        vals |-> InitVals, cccd |-> InitCccd, wq |-> WqFree, pend |-> {}, await |-> [c \in 1..NConn |-> FALSE]]

\* ---------------------------------------------------------------------------- the ideal server, one operation
Deliverable(s, p) ==      \* pending request p = <<c, serial, kind>> can be sent now
    LET kj == CharOfSerial(D, p[2]) IN
    /\ Subscribed(T, s.cccd, p[1] - 1, kj[1], kj[2], p[3]) /\ Sendable(D, T, s.sec[p[1]], kj[1], kj[2])
    /\ p[3] = 2 => ~s.await[p[1]]
PduFor(s, p) == LET kj == CharOfSerial(D, p[2])
                    va == ValAttrOf(T, kj[1], kj[2])
                IN  <<KindOp(p[3])>> \o LE16(va.h) \o Take(CurVal(D, s.vals, va), s.mtu[p[1]] - 3)
Smallest(S) == CHOOSE p \in S : \A q \in S : p[2] < q[2] \/ (p[2] = q[2] /\ p[3] <= q[3])

\* one poll of the outgoing queue of connection c: [st, out]
Poll(s, c) ==
    LET mine == {p \in s.pend : p[1] = c}
        good == {p \in mine : Deliverable(s, p)}
        blocked == {p \in mine : p[3] = 2 /\ s.await[c] /\ p \notin good}      \* wait for the confirmation
    IN  IF good = {} THEN [st |-> [s EXCEPT !.pend = (s.pend \ mine) \cup blocked], out |-> <<>>]
        ELSE LET p == Smallest(good) IN
             [st |-> [s EXCEPT !.pend = s.pend \ {p}, !.await[c] = (p[3] = 2) \/ s.await[c]], out |-> PduFor(s, p)]
RECURSIVE DrainFrom(_, _, _, _)
DrainFrom(s, c, outs, fuel) ==
    LET r == Poll(s, c) IN
    IF r.out = <<>> \/ fuel = 0 THEN [st |-> r.st, outs |-> outs]
    ELSE DrainFrom([r.st EXCEPT !.await[c] = FALSE], c, Append(outs, r.out), fuel - 1)      \* the client confirms

Step(s, o) ==       \* -> [st, out]  (out: response PDU, or list of PDUs for drain)
    CASE o.op = "sec"   -> [st |-> [s EXCEPT !.sec[o.c] = [enc |-> o.enc, pair |-> o.pair]], out |-> <<>>]
      [] o.op = "disc"  -> [st |-> [s EXCEPT !.sec[o.c] = Unencrypted, !.mtu[o.c] = 23, !.await[o.c] = FALSE,
                                             !.pend = {p \in s.pend : p[1] # o.c},
                                             !.wq = IF s.wq.owner = o.c THEN WqFree ELSE s.wq,
                                             !.cccd = [i \in 1..Len(s.cccd) |-> IF s.cccd[i][1] = o.c - 1
                                                                                THEN <<s.cccd[i][1], s.cccd[i][2], 0>> ELSE s.cccd[i]]],
                            out |-> <<>>]
      [] o.op = "setval" -> [st |-> [s EXCEPT !.vals = PutVal(s.vals, o.serial, o.val)], out |-> <<>>]
      [] o.op = "notify" -> [st |-> [s EXCEPT !.pend = s.pend \cup {<<c, o.serial, IF o.ind THEN 2 ELSE 1>> : c \in 1..NConn}],
                             out |-> <<>>]
      [] o.op = "out"   -> Poll(s, o.c)
      [] o.op = "drain" -> LET r == DrainFrom(s, o.c, <<>>, 40) IN [st |-> r.st, out |-> r.outs]
      [] o.op = "req"   ->
            LET r == RefRequest(D, T, s.sec[o.c], o.c, s.mtu[o.c], s.vals, s.cccd, s.wq, o.in) IN
            [st |-> [s EXCEPT !.vals = r.vals, !.cccd = r.cccd, !.wq = r.wq,
                              !.await[o.c] = IF o.in = <<OpConfirmation>> THEN FALSE ELSE s.await[o.c],
                              !.mtu[o.c] = MtuAfter(D.opts.mtu, s.mtu[o.c], o.in, r.out)],
             out |-> r.out]

RECURSIVE Run(_, _, _)
Run(s, ops, k) == IF k > Len(ops) THEN s ELSE Run(Step(s, ops[k]).st, ops, k + 1)

\* ---------------------------------------------------------------------------- operation alphabets
Req(c, in)  == [op |-> "req", c |-> c, in |-> in]
SecOp(c, e, p) == [op |-> "sec", c |-> c, enc |-> e, pair |-> p]
SecStates   == {<<FALSE, 0>>, <<FALSE, 1>>, <<TRUE, 1>>}       \* unencrypted/no key, unencrypted/paired, encrypted
SecOps(c)   == {SecOp(c, x[1], x[2]) : x \in SecStates}
\* payload octets: distinct per target and per position in the history, outside the range of the initial values
Payload(i, n, k) == [j \in 1..n |-> 224 + ((8 * (i % 4) + 4 * (k % 2) + (j - 1)) % 32)]
HOf(i) == LE16(T[i].h)
NotifyOps == {[op |-> "notify", serial |-> sr, ind |-> ind, how |-> how] :
                 sr \in {x \in Serials : CharRec(x).notify \/ CharRec(x).indicate}, ind \in BOOLEAN, how \in {0, 1}}
ValidNotify(o) == (o.ind /\ CharRec(o.serial).indicate) \/ (~o.ind /\ CharRec(o.serial).notify)

SizeAt(i) == Len(T[i].val)
C05Ops(c, k) ==
    UNION {{Req(c, <<OpRead>> \o HOf(i)), Req(c, <<OpReadBlob>> \o HOf(i) \o <<1, 0>>),
            Req(c, <<OpWrite>> \o HOf(i) \o Payload(i, SizeAt(i), k)),
            Req(c, <<OpWriteCmd>> \o HOf(i) \o Payload(i, SizeAt(i), k + 1)),
            Req(c, <<OpPrepare>> \o HOf(i) \o <<0, 0>> \o Payload(i, SizeAt(i), k)),
            Req(c, <<OpReadByType, 1, 0, 255, 255>> \o T[i].type)} : i \in ValIdx}
    \cup UNION {{Req(c, <<OpRead>> \o HOf(i)), Req(c, <<OpWrite>> \o HOf(i) \o <<3, 0>>), Req(c, <<OpWrite>> \o HOf(i) \o <<0, 0>>)} : i \in CccdIdx}
    \cup {Req(c, <<OpReadByType, 1, 0, 255, 255, 2, 41>>), Req(c, <<OpReadByType, 1, 0, 255, 255, 3, 40>>)}
    \cup {Req(c, <<OpReadMulti>> \o HOf(p[1]) \o HOf(p[2])) :
              p \in {q \in ValIdx \X ValIdx : (q[2] - q[1]) \in {-6, -5, -4, -3, 3, 4, 5, 6}}}
    \cup {Req(c, <<OpExecute, 0>>), Req(c, <<OpExecute, 1>>), [op |-> "out", c |-> c], [op |-> "drain", c |-> c]}
    \cup SecOps(c)

WritableIdx == {i \in ValIdx : T[i].wr}
ReadOnlyIdx == {i \in ValIdx : ~T[i].wr}
C07Ops(c, k) ==
    UNION {{Req(c, <<OpPrepare>> \o HOf(i) \o <<0, 0>> \o Payload(i, SizeAt(i), k)),
            Req(c, <<OpWrite>> \o HOf(i) \o Payload(i, SizeAt(i), k + 1))} : i \in WritableIdx}
    \cup {Req(c, <<OpPrepare>> \o HOf(i) \o <<SizeAt(i) - 1, 0>> \o Payload(i, 2, k)) : i \in {x \in WritableIdx : ~Prot(D, T[x])}}  \* too long at execute
    \cup {Req(c, <<OpPrepare>> \o HOf(i) \o <<0, 0>> \o Payload(i, 1, k)) : i \in ReadOnlyIdx}
    \cup {Req(c, <<OpExecute, 0>>), Req(c, <<OpExecute, 1>>), [op |-> "disc", c |-> c]}
    \cup SecOps(c)
\* extra operations that only the random simulation uses
C07Extra(c, k) ==
    {Req(c, <<OpPrepare>> \o HOf(i) \o <<2, 0>> \o Payload(i, 2, k)) : i \in WritableIdx}
    \cup {Req(c, <<OpPrepare>> \o HOf(i) \o <<0, 0>> \o Payload(i, 2, k)) : i \in WritableIdx}
    \cup {Req(c, <<OpPrepare>> \o HOf(i) \o <<SizeAt(i) + 1, 0>> \o Payload(i, 1, k)) : i \in WritableIdx}   \* invalid offset at execute
    \cup {Req(c, <<OpPrepare, 0, 0, 0, 0, 1>>), Req(c, <<OpPrepare, 99, 0, 0, 0, 1>>), Req(c, <<OpExecute, 2>>), Req(c, <<OpExecute>>)}

C10Ops(c, k) ==
    UNION {{Req(c, <<OpWrite>> \o HOf(i) \o <<3, 0>>), Req(c, <<OpWrite>> \o HOf(i) \o <<0, 0>>)} : i \in CccdIdx}
    \cup {[op |-> "out", c |-> c], [op |-> "drain", c |-> c], Req(c, <<OpConfirmation>>)}
C10Extra(c, k) ==
    UNION {{Req(c, <<OpWrite>> \o HOf(i) \o <<1, 0>>), Req(c, <<OpWrite>> \o HOf(i) \o <<2, 0>>)} : i \in CccdIdx}
    \cup SecOps(c) \cup {[op |-> "disc", c |-> c], Req(c, <<OpMtuReq, 40, 0>>)}
C10Global(k) ==
    {o \in NotifyOps : ValidNotify(o)}
    \cup {[op |-> "setval", serial |-> sr, val |-> [j \in 1..Len(CharRec(sr).init) |-> 128 + ((16 * (k % 4) + sr + j) % 64)]] :
             sr \in {x \in StoreSerials : CharRec(x).notify \/ CharRec(x).indicate}}

Simulating == Depth > 12
OpsAt(k) ==
    CASE Mode = "C05" -> UNION {C05Ops(c, k) : c \in 1..NC} \cup {o \in NotifyOps : ValidNotify(o) /\ o.how = 0}
      [] Mode = "C07" -> UNION {C07Ops(c, k) \cup (IF Simulating THEN C07Extra(c, k) ELSE {}) : c \in 1..NC}
      [] Mode = "C10" -> UNION {C10Ops(c, k) \cup (IF Simulating THEN C10Extra(c, k) ELSE {}) : c \in 1..NC} \cup C10Global(k)
      [] Mode = "C01" -> {Req(1, <<op>> \o [j \in 1..(n - 1) |-> IF j = 1 THEN 3 ELSE 0]) : op \in 0..255, n \in 1..23}
      [] OTHER -> {}

\* ---------------------------------------------------------------------------- scenario prefixes
SetVals == LET ss == SeqOfSet(StoreSerials) IN
           [i \in 1..Len(ss) |-> [op |-> "setval", serial |-> ss[i],
                                  val |-> [j \in 1..Len(CharRec(ss[i]).init) |-> 160 + ((16 * (ss[i] - 1) + (j - 1)) % 64)]]]
ValSeq  == SeqOfSet(ValIdx)
CccdSeq == SeqOfSet(CccdIdx)
WriteAll(c, k)   == [n \in 1..Len(ValSeq) |-> Req(c, <<OpWrite>> \o HOf(ValSeq[n]) \o Payload(ValSeq[n], SizeAt(ValSeq[n]), k))]
PrepareAll(c, k) == [n \in 1..Len(ValSeq) |-> Req(c, <<OpPrepare>> \o HOf(ValSeq[n]) \o <<0, 0>> \o Payload(ValSeq[n], SizeAt(ValSeq[n]), k))]
SubscribeAll(c)  == [n \in 1..Len(CccdSeq) |-> Req(c, <<OpWrite>> \o HOf(CccdSeq[n]) \o <<3, 0>>)]
NotifyAll == LET ns == SeqOfSet({sr \in Serials : CharRec(sr).notify}) IN
             [n \in 1..Len(ns) |-> [op |-> "notify", serial |-> ns[n], ind |-> FALSE, how |-> 0]]
IndicateAll == LET ns == SeqOfSet({sr \in Serials : CharRec(sr).indicate}) IN
             [n \in 1..Len(ns) |-> [op |-> "notify", serial |-> ns[n], ind |-> TRUE, how |-> 0]]

Unenc == {<<FALSE, 0>>, <<FALSE, 1>>}
Prefixes ==
    CASE Mode = "C05" ->
            IF Scenarios = 0 THEN {SetVals}
            ELSE {SetVals}
                 \cup {SetVals \o <<SecOp(1, x[1], x[2])>> : x \in SecStates}
                 \* values written, subscriptions made, notifications requested on an encrypted link that then loses encryption
                 \cup {SetVals \o <<SecOp(1, TRUE, 1)>> \o WriteAll(1, 1) \o SubscribeAll(1) \o NotifyAll \o IndicateAll \o <<SecOp(1, x[1], x[2])>> : x \in Unenc}
                 \* writes prepared on an encrypted link, executed after it lost encryption
                 \cup {SetVals \o <<SecOp(1, TRUE, 1)>> \o PrepareAll(1, 1) \o <<SecOp(1, x[1], x[2])>> : x \in Unenc}
                 \* writes prepared on an unencrypted link
                 \cup {SetVals \o <<SecOp(1, x[1], x[2])>> \o PrepareAll(1, 1) : x \in Unenc}
      [] Mode = "C10" ->
            IF Scenarios = 0 THEN {<<>>}
            ELSE IF Scenarios = 1 THEN {<<>>, SubscribeAll(1)}
            ELSE {<<>>, SubscribeAll(1), SubscribeAll(1) \o SubscribeAll(2) \o <<SecOp(1, TRUE, 1)>>}
      [] OTHER -> {<<>>}

\* ---------------------------------------------------------------------------- conformance of the ideal server with the oracle
OkStep(pre, o, out, post) ==
    CASE Mode = "C05" /\ o.op = "req" -> C05ReqOK(D, T, PH, PS, pre.sec[o.c], pre.vals, pre.cccd, o.in, out, post.vals, post.cccd)
      [] Mode = "C05" /\ o.op = "drain" -> \A i \in 1..Len(out) : C05OutOK(PH, PS, pre.sec[o.c], pre.vals, out[i])
      [] Mode = "C05" /\ o.op = "out" -> C05OutOK(PH, PS, pre.sec[o.c], pre.vals, out)
      [] Mode = "C07" /\ o.op = "req" /\ o.in[1] = OpWrite   -> C07WriteOK(D, T, pre.sec[o.c], pre.vals, o.in, out, post.vals) /\ post.wq = pre.wq
      [] Mode = "C07" /\ o.op = "req" /\ o.in[1] = OpPrepare -> C07PrepareOK(D, T, pre.sec[o.c], o.c, pre.vals, pre.wq, o.in, out, post.vals, post.wq)
      [] Mode = "C07" /\ o.op = "req" /\ o.in[1] = OpExecute -> C07ExecuteOK(D, T, pre.sec[o.c], o.c, pre.vals, pre.wq, o.in, out, post.vals, post.wq)
      [] Mode = "C10" /\ o.op = "out" -> out = <<>> \/ \E p \in {q \in pre.pend : q[1] = o.c} :
                                              PduOf(D, T, pre.sec[o.c], pre.vals, pre.cccd, pre.mtu[o.c], p, out)
      [] o.op = "req" /\ Mode = "C01" -> C01ReqOK(o.in, out, pre.mtu[o.c])
      [] OTHER -> TRUE

\* ---------------------------------------------------------------------------- the state machine
Budget(prefix) == IF prefix \in {<<>>, SetVals} \/ Depth = 1 \/ Simulating \/ Mode = "C10" THEN Depth ELSE Depth - 1

Init == \E prefix \in Prefixes :
          /\ st = Run(St0, prefix, 1) /\ hist = prefix /\ left = Budget(prefix)
          /\ last = [op |-> [op |-> "none"], out |-> <<>>, pre |-> St0, ok |-> TRUE]

\* C07: the connections are interchangeable, the first operation comes from connection 1
FirstOps(S) == IF Mode = "C07" /\ hist = <<>> THEN {o \in S : o.c = 1} ELSE S

Next == /\ left > 0
        /\ \E o \in FirstOps(OpsAt(Len(hist))) :
              LET r == Step(st, o) IN
              /\ st' = r.st /\ hist' = Append(hist, o) /\ left' = left - 1
              /\ last' = [op |-> o, out |-> r.out, pre |-> st, ok |-> OkStep(st, o, r.out, r.st)]

Spec == Init /\ [][Next]_vars

\* every maximal behaviour, once
Emit == left = 0 => PrintT(<<"BEHAVIOUR", ToJson(hist)>>)
\* model checking: the history is not part of the state
View == <<st, left, last.op, last.out>>

\* ---------------------------------------------------------------------------- invariants
RefConforms == last.ok

IsReq == last.op.op = "req"
ReqSec == last.pre.sec[last.op.c]
\* C05: in an unencrypted state no output contains an octet of a protected value (the echo of a Prepare Write
\* to an unprotected attribute repeats what the client sent), protected values and CCCDs are unchanged
C05NoLeak ==
    /\ (last.op.op \in {"req", "out"} /\ ~ReqSec.enc) =>
          /\ \/ NoMarker(last.out, ProtBytes(PS, last.pre.vals))
             \/ (IsReq /\ OpenEcho(PH, last.op.in, last.out))
          /\ ProtValsSame(PS, last.pre.vals, st.vals) /\ ProtCccdSame(PH, last.pre.cccd, st.cccd)
    /\ (last.op.op = "drain" /\ ~ReqSec.enc) =>
          \A i \in 1..Len(last.out) : NoMarker(last.out[i], ProtBytes(PS, last.pre.vals))
C05Code ==      \* a read / write of a protected attribute on an unencrypted link is rejected with the documented code
    (IsReq /\ ~ReqSec.enc /\ Len(last.op.in) >= 3 /\ last.op.in[1] \in {OpRead, OpWrite}
        /\ U16(last.op.in, 2) \in PH) =>
    (IsErrorFor(last.out, last.op.in[1]) /\ last.out[5] = (IF ReqSec.pair = 0 THEN ErrInsuffAuthentication ELSE ErrInsuffEncryption))
\* C07
C07Deferred  == (IsReq /\ last.op.in[1] = OpPrepare) => st.vals = last.pre.vals
C07Exclusive == (IsReq /\ last.op.in[1] = OpPrepare /\ last.out[1] = OpPrepare + 1) =>
                    (last.pre.wq.owner \in {0, last.op.c} /\ st.wq.owner = last.op.c)
C07Full      == (IsReq /\ last.op.in[1] = OpPrepare /\ last.pre.wq.owner \notin {0, last.op.c} /\ D.opts.wq > 0) =>
                    (IsErrorFor(last.out, OpPrepare) /\ st.wq = last.pre.wq)
C07Released  == /\ (IsReq /\ last.op.in[1] = OpExecute /\ Len(last.op.in) = 2 /\ last.op.in[2] \in {0, 1}
                          /\ last.pre.wq.owner = last.op.c) => st.wq = WqFree
                /\ (last.op.op = "disc" /\ last.pre.wq.owner = last.op.c) => st.wq = WqFree
                /\ (st.wq.owner = 0) = (st.wq.ents = <<>>)
C07Cancel    == (IsReq /\ last.op.in = <<OpExecute, 0>>) => st.vals = last.pre.vals
\* C10: a PDU is the notification / indication of a requested characteristic, for a subscribed connection
C10Requested ==
    (last.op.op = "out" /\ last.out # <<>>) =>
        \E p \in last.pre.pend : /\ p[1] = last.op.c
                                 /\ PduOf(D, T, ReqSec, last.pre.vals, last.pre.cccd, last.pre.mtu[last.op.c], p, last.out)
                                 /\ p \notin st.pend
\* C01: every PDU is classified and the ideal server's answer has the shape the class demands, within the MTU
C01Framed ==
    IsReq => LET op == last.op.in[1]
                 cl == ResponseClass(op)
             IN  /\ cl \in {"request", "none", "free", "unknown"}
                 /\ Len(last.out) <= last.pre.mtu[last.op.c]
                 /\ cl = "request" => (last.out # <<>> /\ (last.out[1] = op + 1 \/ (last.out[1] = OpError /\ last.out[2] = op)))
                 /\ cl = "none" => last.out = <<>>
                 /\ cl = "unknown" => last.out = ErrorRsp(op, 0, ErrNotSupported)
C10Single == \A c \in 1..NConn, sr \in Serials, kd \in {1, 2} : Cardinality({p \in st.pend : p = <<c, sr, kd>>}) <= 1
=============================================================================
