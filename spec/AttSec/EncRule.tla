------------------------------- MODULE EncRule -------------------------------
(* C05, rule level: all placements of {no option, requires_encryption, no_encryption_required,          *)
(* may_require_encryption} at server x 2 services x 2 characteristics each (4^7 = 16384 declarations).   *)
(*                                                                                                      *)
(* AttSec!MustEnc is what the property check demands (innermost explicit option decides, only           *)
(* requires_encryption protects). TLC checks for every placement and every characteristic that            *)
(*   Innermost   MustEnc is the documented inheritance rule written out case by case,                    *)
(*   DocExample  the example in the documentation of requires_encryption comes out as documented,        *)
(*   MustInMay   MustEnc => GattDb!CharEnc (the other reading: may_require_encryption transparent),       *)
(*   GapIsMay    the two readings differ only where a may_require_encryption is the innermost option,     *)
(*   CodeRule    the rule transcribed from details::encryption_default / characteristic_requires_         *)
(*               encryption protects at least what MustEnc demands (design level argument; the binding    *)
(*               to the compiled code is the trace validation of the compiled placements).                *)
EXTENDS AttSec

Opt == {"inherit", "requires", "none", "may"}
VARIABLE p          \* <<server, service 1, service 2, c11, c12, c21, c22>>

Decl == [opts |-> [enc |-> p[1]],
         services |-> << [enc |-> p[2], chars |-> << [enc |-> p[4]], [enc |-> p[5]] >>],
                         [enc |-> p[3], chars |-> << [enc |-> p[6]], [enc |-> p[7]] >>] >>]
Chars == {<<1, 1>>, <<1, 2>>, <<2, 1>>, <<2, 2>>}
O(kj) == <<Decl.opts.enc, Decl.services[kj[1]].enc, Decl.services[kj[1]].chars[kj[2]].enc>>
Must(kj) == MustEnc(Decl, kj[1], kj[2])
May(kj)  == CharEnc(Decl, Decl.services[kj[1]], Decl.services[kj[1]].chars[kj[2]])

\* encryption.hpp: encryption_default< Default, Options... >::value with one option per level
CodeLevel(def, o) == (o = "requires") \/ (o \notin {"requires", "none"} /\ def)
Code(kj) == CodeLevel(CodeLevel(CodeLevel(FALSE, O(kj)[1]), O(kj)[2]), O(kj)[3])

Init == p \in [1..7 -> Opt]
Next == UNCHANGED p
Spec == Init /\ [][Next]_p

Innermost == \A kj \in Chars :
    Must(kj) <=> \/ O(kj)[3] = "requires"
                 \/ O(kj)[3] = "inherit" /\ O(kj)[2] = "requires"
                 \/ O(kj)[3] = "inherit" /\ O(kj)[2] = "inherit" /\ O(kj)[1] = "requires"
DocExample ==       \* server requires; service A: no_encryption_required; service B: one characteristic no_encryption_required
    (p[1] = "requires" /\ p[2] = "none" /\ p[3] = "inherit" /\ p[4] = "inherit" /\ p[5] = "inherit" /\ p[6] = "none" /\ p[7] = "inherit")
        => (~Must(<<1, 1>>) /\ ~Must(<<1, 2>>) /\ ~Must(<<2, 1>>) /\ Must(<<2, 2>>))
MustInMay == \A kj \in Chars : Must(kj) => May(kj)
GapIsMay  == \A kj \in Chars : (May(kj) /\ ~Must(kj)) =>
                \E i \in 1..3 : O(kj)[i] = "may" /\ \A j \in (i + 1)..3 : O(kj)[j] \in {"inherit", "may"}
CodeRule  == \A kj \in Chars : (Must(kj) => Code(kj)) /\ (Code(kj) <=> May(kj))
=============================================================================
