----------------------------- MODULE AttSecTrace -----------------------------
(* Trace validation of harness/attsec traces against the property-level predicates of AttSec.tla.        *)
(* IOEnv.ATTSEC_MODE selects the property whose oracle judges the events: "C05", "C07", "C10", "C01".    *)
(* Events (harness/attsec/attsec_harness.cpp): Reset, Cccds, Obs, SetVal, Mtu, Req, Sec, Notify, Out,     *)
(* Drain, Disc, Crash; while observation is on every event but Reset carries "vals" and "cccd", which     *)
(* become the next value store / CCCD view - constrained by the oracle of the mode, so the state after a   *)
(* step is determined by (state, event).                                                                  *)
(* For an event the oracle rejects TLC prints <<"MISMATCH", l>> and <<"WHY", l, name, ctx, {tags}>>.        *)
(* A rejected request that was answered with an Error Response (or nothing) had by contract no effect:     *)
(* validation continues behind it; after any other rejected event it resumes at the next Reset.            *)
EXTENDS AttSec, Json, IOUtils

Tr   == ndJsonDeserialize(IOEnv.TRACE)
Mode == IOEnv.ATTSEC_MODE

VARIABLES d, t,          \* declaration and table of the server under test
          ph, pser,      \* handles / serials of the attributes whose protection is demanded (C05)
          sec, mtu,      \* per connection (1-based): link security, negotiated MTU
          vals, cccd,    \* value store and CCCD view (observed)
          wq,            \* C07: owner and entries of the write queue
          may, must,     \* C10: pending requests <<c, serial, kind>>: may be sent / must be sent by the next drain
          await,         \* C10: an indication sent to c is not yet confirmed
          l
vars  == <<d, t, ph, pser, sec, mtu, vals, cccd, wq, may, must, await>>
tvars == <<vars, l>>

Ev == Tr[l]
Conns == 1..NConn
C(ev) == ev.c + 1
HasObs(ev)  == "vals" \in DOMAIN ev
ObsVals(ev) == IF HasObs(ev) THEN ev.vals ELSE vals
ObsCccd(ev) == IF HasObs(ev) THEN ev.cccd ELSE cccd
Obs(ev) == vals' = ObsVals(ev) /\ cccd' = ObsCccd(ev)

\* ---------------------------------------------------------------------------- C10 bookkeeping
KJ(p) == CharOfSerial(d, p[2])
SubNow(cc, p)   == Subscribed(t, cc, p[1] - 1, KJ(p)[1], KJ(p)[2], p[3])
SendNow(ss, p)  == Sendable(d, t, ss[p[1]], KJ(p)[1], KJ(p)[2])
\* requests that stay owed after the subscriptions / the link security changed
Owed(ms, cc, ss) == {p \in ms : SubNow(cc, p) /\ SendNow(ss, p)}
Rebalance(ms, ys, cc, ss) == /\ must' = Owed(ms, cc, ss)
                             /\ may' = ys \cup (ms \ Owed(ms, cc, ss))
KindOfChar(sr, ind) == LET ch == d.services[CharOfSerial(d, sr)[1]].chars[CharOfSerial(d, sr)[2]]
                       IN  IF ind THEN ch.indicate ELSE ch.notify
IsSerial(sr) == \E kj \in AllChars(d) : d.services[kj[1]].chars[kj[2]].serial = sr

\* the PDUs `outs` sent one after the other to connection c (indications confirmed when conf): the pending sets after
RECURSIVE Sent(_, _, _, _, _)
Sent(c, outs, k, pend, conf) ==     \* -> [ok, pend]
    IF k > Len(outs) THEN [ok |-> TRUE, pend |-> pend]
    ELSE LET ps == {p \in pend : p[1] = c /\ PduOf(d, t, sec[c], vals, cccd, mtu[c], p, outs[k])}
         IN  IF ps = {} THEN [ok |-> FALSE, pend |-> pend]
             ELSE Sent(c, outs, k + 1, pend \ ps, conf)

OutOK10(ev) ==
    LET c == C(ev) IN
    IF ev.out = <<>> THEN UNCHANGED <<may, must, await>>
    ELSE LET r == Sent(c, <<ev.out>>, 1, may \cup must, FALSE) IN
         /\ r.ok
         /\ may' = may \cap r.pend /\ must' = must \cap r.pend
         /\ await' = [await EXCEPT ![c] = @ \/ ev.out[1] = OpIndication]

\* a drain sends everything that is owed (one PDU per request) unless the connection waits for a confirmation, an
\* indication nobody subscribed to is queued, or both kinds of one characteristic are queued (C11 / C12 territory)
DrainOK10(ev) ==
    LET c == C(ev)
        r == Sent(c, ev.outs, 1, may \cup must, TRUE)
        mine == {p \in may \cup must : p[1] = c}
        clean == /\ ~await[c]
                 /\ \A p \in mine : p[3] = 2 => p \in must
                 /\ \A p \in mine, q \in mine : p[2] = q[2] => p[3] = q[3]
        rest == {p \in r.pend : p[1] = c}
    IN  /\ r.ok
        /\ clean => rest \cap must = {}
        /\ must' = {p \in must : p[1] # c}
        \* in a clean situation everything queued was dequeued; otherwise requests may still sit in the queue
        /\ may' = {p \in may : p[1] # c} \cup (IF clean THEN {} ELSE rest)
        /\ await' = [await EXCEPT ![c] = FALSE]

NotifyOK10(ev) ==
    LET kd == IF ev.ind THEN 2 ELSE 1
        ps == {<<c, ev.serial, kd>> : c \in Conns}
        owe == {p \in ps : SubNow(cccd, p) /\ SendNow(sec, p)}
    IN  /\ ev.r \in {0, 1} /\ IsSerial(ev.serial) /\ KindOfChar(ev.serial, ev.ind)
        /\ must' = must \cup owe
        /\ may' = (may \cup (ps \ owe)) \ (must \cup owe)
        /\ UNCHANGED await

\* ---------------------------------------------------------------------------- requests
ReqOK(ev, in) ==
    LET c == C(ev)
        s == sec[c]
    IN
    /\ mtu' = [mtu EXCEPT ![c] = MtuAfter(d.opts.mtu, mtu[c], in, ev.out)]
    /\ Obs(ev)
    /\ \/ /\ Mode = "C05"
          /\ C05ReqOK(d, t, ph, pser, s, vals, cccd, in, ev.out, vals', cccd')
          /\ UNCHANGED <<wq, may, must, await>>
       \/ /\ Mode = "C07"
          /\ UNCHANGED <<may, must, await>>
          /\ \/ in[1] = OpWrite   /\ C07WriteOK(d, t, s, vals, in, ev.out, vals') /\ wq' = wq
             \/ in[1] = OpPrepare /\ C07PrepareOK(d, t, s, c, vals, wq, in, ev.out, vals', wq') /\ cccd' = cccd
             \/ in[1] = OpExecute /\ C07ExecuteOK(d, t, s, c, vals, wq, in, ev.out, vals', wq')
             \/ in[1] \notin {OpWrite, OpPrepare, OpExecute} /\ wq' = wq
       \/ /\ Mode = "C10"
          /\ wq' = wq
          /\ await' = [await EXCEPT ![c] = IF in = <<OpConfirmation>> THEN FALSE ELSE @]
          /\ Rebalance(must, may, cccd', sec)
       \/ /\ Mode = "C01"
          /\ C01ReqOK(in, ev.out, mtu[c])
          /\ UNCHANGED <<wq, may, must, await>>
    /\ UNCHANGED <<d, t, ph, pser, sec>>

FreshSec == [c \in Conns |-> Unencrypted]

Explain(ev) ==
    \/ /\ ev.e = "Reset"
       /\ ev.smtu = ev.decl.opts.mtu /\ ev.nconn = NConn
       /\ IF ev.decl = d THEN UNCHANGED <<d, t, ph, pser>>          \* same server as before: keep the table
          ELSE /\ WellFormed(ev.decl)
               /\ d' = ev.decl /\ t' = Build(ev.decl)
               /\ ph' = ProtHandles(ev.decl, t') /\ pser' = ProtSerials(ev.decl, t')
       /\ sec' = FreshSec /\ mtu' = [c \in Conns |-> 23]
       /\ vals' = <<>> /\ cccd' = <<>> /\ wq' = WqFree /\ may' = {} /\ must' = {} /\ await' = [c \in Conns |-> FALSE]
    \/ /\ ev.e \in {"Cccds", "Obs", "SetVal"}
       /\ Obs(ev) /\ UNCHANGED <<d, t, ph, pser, sec, mtu, wq, may, must, await>>
    \/ /\ ev.e = "Sec"
       /\ sec' = [sec EXCEPT ![C(ev)] = [enc |-> ev.enc, pair |-> ev.pair]]
       /\ Obs(ev) /\ Rebalance(must, may, cccd', sec')
       /\ UNCHANGED <<d, t, ph, pser, mtu, wq, await>>
    \/ /\ ev.e = "Disc"
       /\ sec' = [sec EXCEPT ![C(ev)] = Unencrypted] /\ mtu' = [mtu EXCEPT ![C(ev)] = 23]
       /\ wq' = IF wq.owner = C(ev) THEN WqFree ELSE wq              \* client_disconnected releases the queue
       /\ Obs(ev)
       /\ may' = {p \in may : p[1] # C(ev)} /\ must' = {p \in must : p[1] # C(ev)}
       /\ await' = [await EXCEPT ![C(ev)] = FALSE]
       /\ UNCHANGED <<d, t, ph, pser>>
    \/ ev.e = "Mtu" /\ ReqOK(ev, <<OpMtuReq>> \o LE16(ev.cm))
    \/ ev.e = "Req" /\ ReqOK(ev, ev.in)
    \/ /\ ev.e = "Notify"
       /\ IF Mode = "C10" THEN NotifyOK10(ev) ELSE UNCHANGED <<may, must, await>>
       /\ Obs(ev) /\ UNCHANGED <<d, t, ph, pser, sec, mtu, wq>>
    \/ /\ ev.e = "Out"
       /\ \/ Mode = "C10" /\ OutOK10(ev)
          \/ Mode = "C05" /\ C05OutOK(ph, pser, sec[C(ev)], vals, ev.out) /\ UNCHANGED <<may, must, await>>
          \/ Mode \notin {"C05", "C10"} /\ Len(ev.out) <= mtu[C(ev)] /\ UNCHANGED <<may, must, await>>
       /\ Obs(ev) /\ UNCHANGED <<d, t, ph, pser, sec, mtu, wq>>
    \/ /\ ev.e = "Drain"
       /\ \/ Mode = "C10" /\ DrainOK10(ev)
          \/ Mode = "C05" /\ (\A i \in 1..Len(ev.outs) : C05OutOK(ph, pser, sec[C(ev)], vals, ev.outs[i])) /\ UNCHANGED <<may, must, await>>
          \/ Mode \notin {"C05", "C10"} /\ UNCHANGED <<may, must, await>>
       /\ Obs(ev) /\ UNCHANGED <<d, t, ph, pser, sec, mtu, wq>>

\* a rejected request that had (by contract) no effect: keep the abstract state, follow the observation
Harmless(ev) == ev.e \in {"Req", "Mtu"} /\ t # <<>> /\ (ev.out = <<>> \/ ev.out[1] = OpError \/ Mode = "C01")
Recover(ev) ==
    /\ Obs(ev)
    /\ mtu' = [mtu EXCEPT ![C(ev)] = MtuAfter(d.opts.mtu, mtu[C(ev)], IF ev.e = "Mtu" THEN <<OpMtuReq>> \o LE16(ev.cm) ELSE ev.in, ev.out)]
    /\ UNCHANGED <<d, t, ph, pser, sec, wq, may, must, await>>

\* ---------------------------------------------------------------------------- diagnosis (signature material)
Hex(n) == LET dg == <<"0", "1", "2", "3", "4", "5", "6", "7", "8", "9", "a", "b", "c", "d", "e", "f">>
          IN  dg[(n \div 16) + 1] \o dg[(n % 16) + 1]
SecName(s) == IF s.enc THEN "enc" ELSE IF s.pair = 0 THEN "nokey" ELSE "paired"
KindOfHandle(h) == IF h # 0 /\ HasAttr(t, h)
                   THEN LET a == t[AttrAt(t, h)] IN a.kind \o (IF Prot(d, a) THEN ":prot" ELSE IF MayProt(d, a) THEN ":mayprot" ELSE ":open")
                        \o (IF a.kind = "value" /\ ~a.wr THEN ":ro" ELSE "")
                   ELSE "nohandle"
OutName(out) == IF out = <<>> THEN "none" ELSE IF IsErrorRsp(out) THEN "err" \o Hex(out[5]) ELSE "rsp" \o Hex(out[1])
OpNameOf(in) == CASE in[1] = OpRead -> "Read" [] in[1] = OpReadBlob -> "ReadBlob" [] in[1] = OpReadByType -> "ReadByType"
                  [] in[1] = OpReadMulti -> "ReadMultiple" [] in[1] = OpWrite -> "Write" [] in[1] = OpWriteCmd -> "WriteCmd"
                  [] in[1] = OpPrepare -> "Prepare" [] in[1] = OpExecute -> "Execute" [] in[1] = OpMtuReq -> "Mtu"
                  [] OTHER -> "Op" \o Hex(in[1])

WhyReq(ev, in) ==
    LET c == C(ev)
        s == sec[c]
        h == IF Len(in) >= 3 THEN U16(in, 2) ELSE 0
        v2 == ObsVals(ev)
        c2 == ObsCccd(ev)
    IN
    CASE Mode = "C05" ->
            <<OpNameOf(in), KindOfHandle(h) \o "|" \o SecName(s),
              (IF ~ProtValsSame(pser, vals, v2) THEN {"protected_value_modified"} ELSE {})
              \cup (IF ~ProtCccdSame(ph, cccd, c2) THEN {"protected_cccd_modified"} ELSE {})
              \cup (IF ~NoMarker(ev.out, ProtBytes(pser, vals)) /\ ~OpenEcho(ph, in, ev.out)
                    THEN {"protected_octets_in_response"} ELSE {})
              \cup (IF NamesOne(in) /\ h \in ph THEN {"answer=" \o OutName(ev.out), "want=err" \o Hex(SecErr(s))} ELSE {})
              \cup (IF in[1] = OpReadByType /\ RbtHandles(ev.out) \cap ph # {} THEN {"lists_protected_attribute"} ELSE {})
              \cup (IF in[1] = OpReadMulti /\ ~IsErrorFor(ev.out, OpReadMulti) THEN {"not_rejected"} ELSE {})>>
      [] Mode = "C07" ->
            <<OpNameOf(in),
              (IF in[1] = OpExecute THEN "owner=" \o (IF wq.owner = 0 THEN "none" ELSE IF wq.owner = c THEN "self" ELSE "other")
                                          \o "|n=" \o ToString(Len(wq.ents)) \o (IF Len(in) = 2 THEN "|flag=" \o ToString(in[2]) ELSE "|malformed")
               ELSE KindOfHandle(h) \o "|owner=" \o (IF wq.owner = 0 THEN "none" ELSE IF wq.owner = c THEN "self" ELSE "other"))
              \o "|" \o SecName(s),
              {"answer=" \o OutName(ev.out)}
              \cup (IF v2 # vals /\ in[1] = OpPrepare THEN {"value_changed"} ELSE {})
              \cup (IF in[1] = OpPrepare /\ Len(in) >= 5 /\ d.opts.wq > 0
                    THEN (IF PermReasons(d, t, s, h) = {} /\ wq.owner \in {0, c} /\ MustFit(d, wq.ents, Len(in) - 5) THEN {"want=accept"}
                          ELSE IF PermReasons(d, t, s, h) # {} THEN {"want=err" \o Hex(CHOOSE x \in PermReasons(d, t, s, h) : TRUE)}
                          ELSE {"want=err09"})
                    ELSE {})
              \cup (IF in[1] = OpExecute /\ v2 # vals /\ (wq.owner # c \/ (Len(in) = 2 /\ in[2] = 0)) THEN {"value_changed"} ELSE {})
              \cup (IF in[1] = OpExecute /\ wq.owner = c /\ Len(in) = 2 /\ in[2] = 1
                    THEN (IF ApplyFrom(d, t, s, vals, wq.ents, 1).fail = 0
                          THEN (IF ev.out = <<OpExecute + 1>> THEN {"values_not_as_queued"} ELSE {"want=rsp19"})
                          ELSE {"want=err" \o Hex(CHOOSE x \in ApplyFrom(d, t, s, vals, wq.ents, 1).codes : TRUE)})
                    ELSE {})
              \cup (IF in[1] = OpWrite /\ Len(in) >= 3
                    THEN (IF PermReasons(d, t, s, h) \cup ValueReasons(d, t, vals, h, 0, Len(in) - 3) = {}
                          THEN (IF ev.out = <<OpWrite + 1>> THEN {"value_not_written"} ELSE {"want=rsp13"})
                          ELSE {"want=err"}) ELSE {})>>
      [] Mode = "C01" ->
            <<"Class:" \o ResponseClass(in[1]),
              (IF ResponseClass(in[1]) = "request" THEN OpNameOf(in)
               ELSE IF in[1] \in {OpWriteCmd, OpSignedWrite, OpConfirmation, OpNotification, OpError} THEN "Op" \o Hex(in[1])
               ELSE IF (in[1] \div 64) % 2 = 1 THEN "command" ELSE "other")
              \o (IF in[1] = OpConfirmation THEN (IF Len(in) = 1 THEN "|len=1" ELSE "|len>1") ELSE ""),
              (IF Len(ev.out) > mtu[c] THEN {"longer_than_mtu"} ELSE {})
              \cup (IF ev.out = <<>> THEN {"no_response"}
                    ELSE IF IsErrorRsp(ev.out) THEN (IF ev.out[2] # in[1] THEN {"error_names_other_opcode"} ELSE {"error_response:" \o Hex(ev.out[5])})
                    ELSE IF ev.out[1] = OpError THEN {"malformed_error_response"}
                    ELSE {"response:" \o Hex(ev.out[1])})>>
      [] OTHER -> <<OpNameOf(in), "C10", {"request"}>>

PduTag(c, out) ==      \* classify an unexplained notification / indication
    LET h == IF Len(out) >= 3 THEN U16(out, 2) ELSE 0
        kd == IF out[1] = OpIndication THEN 2 ELSE 1
        cand == {p \in {<<c, sr, kd>> : sr \in {d.services[kj[1]].chars[kj[2]].serial : kj \in AllChars(d)}} :
                    HasAttr(t, h) /\ t[AttrAt(t, h)].kind = "value" /\ SerialOf(d, t[AttrAt(t, h)]) = p[2]}
    IN  IF Len(out) < 3 \/ out[1] \notin {OpNotification, OpIndication} THEN {"malformed_pdu"}
        ELSE IF cand = {} THEN {"not_a_value_handle"}
        ELSE LET p == CHOOSE x \in cand : TRUE IN
             (IF p \notin may \cup must THEN {"not_requested"} ELSE {})
             \cup (IF ~SubNow(cccd, p) THEN {"not_subscribed"} ELSE {})
             \cup (IF ~SendNow(sec, p) THEN {"protected_on_unencrypted_link"} ELSE {})
             \cup (IF Drop(out, 3) # Take(CurVal(d, vals, t[AttrAt(t, h)]), mtu[c] - 3) THEN {"not_the_current_value"} ELSE {})
             \cup (IF p \in may \cup must /\ PduOf(d, t, sec[c], vals, cccd, mtu[c], p, out) THEN {"duplicate"} ELSE {})

Why(ev) ==
    CASE ev.e = "Crash" -> <<"Crash", "crash", {ev.what}>>
      [] ev.e = "Reset" -> <<"Reset", "decl", {"not_well_formed_or_smtu"}>>
      [] t = <<>>       -> <<ev.e, "no_reset", {"no_reset"}>>
      [] ev.e = "Req"   -> WhyReq(ev, ev.in)
      [] ev.e = "Mtu"   -> WhyReq(ev, <<OpMtuReq>> \o LE16(ev.cm))
      [] ev.e = "Out" /\ Mode = "C10" -> <<"Out", "pdu", PduTag(C(ev), ev.out)>>
      [] ev.e = "Out" /\ Mode = "C05" -> <<"Out", SecName(sec[C(ev)]), {"protected_value_sent"}>>
      [] ev.e = "Drain" /\ Mode = "C05" -> <<"Drain", SecName(sec[C(ev)]), {"protected_value_sent"}>>
      [] ev.e = "Drain" /\ Mode = "C10" ->
            LET c == C(ev)
                r == Sent(c, ev.outs, 1, may \cup must, TRUE)
                bad == {i \in 1..Len(ev.outs) : \A p \in may \cup must : ~PduOf(d, t, sec[c], vals, cccd, mtu[c], p, ev.outs[i])}
                owed == {p \in must \cap r.pend : p[1] = c}
            IN  <<"Drain", "pdu",
                  (IF ~r.ok THEN UNION {PduTag(c, ev.outs[i]) : i \in bad} \cup (IF bad = {} THEN {"duplicate"} ELSE {})
                   ELSE {"owed_not_sent:" \o (IF \E p \in owed : p[3] = 1 THEN "n" ELSE "") \o (IF \E p \in owed : p[3] = 2 THEN "i" ELSE "")})>>
      [] ev.e = "Notify" -> <<"Notify", "call", {"r=" \o ToString(ev.r)}>>
      [] OTHER -> <<ev.e, "event", {"unexplained"}>>

\* ---------------------------------------------------------------------------- trace automaton (spec/README.md contract)
Resets == {i \in 1..Len(Tr) : Tr[i].e = "Reset"}
NextReset(i) == IF \E j \in Resets : j > i
                THEN CHOOSE j \in Resets : j > i /\ \A k \in Resets : k > i => j <= k
                ELSE Len(Tr) + 1

TInit == /\ d = <<>> /\ t = <<>> /\ ph = {} /\ pser = {} /\ sec = FreshSec /\ mtu = [c \in Conns |-> 23]
         /\ vals = <<>> /\ cccd = <<>> /\ wq = WqFree /\ may = {} /\ must = {} /\ await = [c \in Conns |-> FALSE]
         /\ l = 1

TNext ==
    \/ /\ l <= Len(Tr)
       /\ IF ENABLED Explain(Ev)
          THEN Explain(Ev) /\ l' = l + 1
          ELSE /\ PrintT(<<"MISMATCH", l>>) /\ PrintT(<<"WHY", l>> \o Why(Ev))
               /\ IF Harmless(Ev) THEN Recover(Ev) /\ l' = l + 1
                  ELSE l' = NextReset(l) /\ UNCHANGED vars
    \/ /\ l = Len(Tr) + 1
       /\ PrintT(<<"TRACE_DONE", Len(Tr)>>)
       /\ l' = l + 1 /\ UNCHANGED vars

TSpec == TInit /\ [][TNext]_tvars
=============================================================================
