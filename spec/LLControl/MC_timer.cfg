CONSTANTS Feat = {1, 2, 4, 8}  VersNr = 9  CompId = 617  MaxOwed = 1  MaxT = 0  MaxLevel = 7
CONSTANT RxAlphabet <- MCRxTimer
SPECIFICATION Spec
INVARIANTS TypeOK NeverAnswerRejects VersionOnce Satisfiable
PROPERTIES TimeoutOnlyWhenPending OnlyItsAnswerStopsTheTimer OtherAnswerKeepsTheTimer
CONSTRAINT Bound
CHECK_DEADLOCK FALSE
