CONSTANTS Ids = {1, 2}  Known = {1}  D = 2
SPECIFICATION GSpec
INVARIANTS Emit
CHECK_DEADLOCK FALSE
