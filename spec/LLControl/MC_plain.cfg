CONSTANTS Feat = {1, 2, 4}  VersNr = 9  CompId = 617  MaxOwed = 2  MaxT = 50000000  MaxLevel = 4
CONSTANT RxAlphabet <- MCRx
SPECIFICATION Spec
INVARIANTS TypeOK NeverAnswerRejects UnknownGetsUnknownRsp MalformedGetsUnknownRsp VersionOnce Satisfiable
PROPERTIES TimeoutOnlyWhenPending OnlyItsAnswerStopsTheTimer OtherAnswerKeepsTheTimer
CONSTRAINT Bound
CHECK_DEADLOCK FALSE
