------------------------------ MODULE LLEncTrace ------------------------------
(* Trace validation for C28: classifies the PDUs of the recorded connection events (harness/llctrl, *)
(* configuration 2: radio_with_encryption, protected characteristic, mocked bond data base) and      *)
(* folds them through LLEnc.  Per event: first what the peripheral transmitted (queued before the   *)
(* event), then what it received (processed after the event), then the reported encryption state.   *)
EXTENDS LLEnc, Json, IOUtils, TLC

Tr == ndJsonDeserialize(IOEnv.TRACE)

VARIABLE l
tvars == <<es, l>>
Ev == Tr[l]

IsRejPdu(x) == (Len(x) = 3 /\ x[2] = 13) \/ (Len(x) = 4 /\ x[2] = 17 /\ x[3] = 3)
\* x = <<llid, payload...>>
TxOp(x) == IF x[1] = 3 THEN
                CASE Len(x) = 2 /\ x[2] = 5 -> "start_enc_req"
                  [] IsRejPdu(x) -> "reject_enc"
                  [] OTHER -> "other"
           ELSE IF x[1] = 2 /\ Len(x) >= 6 /\ x[4] = 4 /\ x[5] = 0 THEN
                CASE x[6] = 11 -> "read_rsp"
                  [] x[6] = 1  -> "read_err"
                  [] OTHER -> "other"
           ELSE "other"
TxCode(x) == IF IsRejPdu(x) THEN x[Len(x)] ELSE 0
RxOp(x) == IF x[1] = 3 THEN
                CASE Len(x) = 24 /\ x[2] = 3 -> "enc_req"
                  [] Len(x) = 2 /\ x[2] = 6  -> "start_enc_rsp"
                  [] Len(x) = 2 /\ x[2] = 10 -> "pause_enc_req"
                  [] Len(x) = 2 /\ x[2] = 11 -> "pause_enc_rsp"
                  [] OTHER -> "other"
           ELSE IF x[1] = 2 /\ Len(x) >= 8 /\ x[4] = 4 /\ x[5] = 0 /\ x[6] = 10 /\ x[7] = 3 /\ x[8] = 0 THEN "att_read"
           ELSE "other"
RxId(x) == IF RxOp(x) = "enc_req" THEN SubSeq(x, 3, 12) ELSE <<>>

RECURSIVE FoldTx(_, _), FoldRx(_, _)
FoldTx(S, txs) == IF Len(txs) = 0 \/ ~S.ok THEN S ELSE FoldTx(EOnTx(S, TxOp(Head(txs)), TxCode(Head(txs))), Tail(txs))
FoldRx(S, rxs) == IF Len(rxs) = 0 \/ ~S.ok THEN S ELSE FoldRx(EOnRx(S, RxOp(Head(rxs)), RxId(Head(rxs))), Tail(rxs))

After(ev) ==
    CASE ev.e = "Reset"   -> EDead({})
      [] ev.e = "Key"     -> [es EXCEPT !.keys = es.keys \cup {ev.id}]
      [] ev.e = "ConnReq" -> EConnected(es)
      [] ev.e = "Adv"     -> EDisconnected(es)
      [] ev.e = "Ev"      -> IF ~es.conn THEN EBad(es)
                             ELSE EObserve(FoldRx(FoldTx(es, ev.tx), ev.rx), ev.enc)
      [] ev.e \in {"Cb", "App", "Fin"} -> EObserve(es, ev.enc)
      [] ev.e = "Quiesce" -> EQuiesce(es)
      [] ev.e = "Crash"   -> EBad(es)
      [] OTHER -> es

Explain(ev) == LET S == After(ev) IN S.ok /\ es' = S

\* first Reset event after position i (linear scan: many executions per file, many known mismatches)
RECURSIVE ScanReset(_)
ScanReset(i) == IF i > Len(Tr) THEN Len(Tr) + 1 ELSE IF Tr[i].e = "Reset" THEN i ELSE ScanReset(i + 1)
NextReset(i) == ScanReset(i + 1)

TInit == es = EDead({}) /\ l = 1

TNext ==
    \/ /\ l <= Len(Tr)
       /\ IF ENABLED Explain(Ev)
          THEN Explain(Ev) /\ l' = l + 1
          ELSE PrintT(<<"MISMATCH", l>>) /\ l' = NextReset(l) /\ UNCHANGED evars
    \/ /\ l = Len(Tr) + 1
       /\ PrintT(<<"TRACE_DONE", Len(Tr)>>)
       /\ l' = l + 1 /\ UNCHANGED evars

TSpec == TInit /\ [][TNext]_tvars
=============================================================================
