CONSTANTS Feat = {0, 1, 2, 4, 8}  VersNr = 9  CompId = 617  MaxOwed = 1  MaxT = 50000000  MaxLevel = 7
CONSTANT RxAlphabet <- MCRxSmall
SPECIFICATION Spec
INVARIANTS TypeOK NeverAnswerRejects UnknownGetsUnknownRsp MalformedGetsUnknownRsp VersionOnce Satisfiable
PROPERTIES TimeoutOnlyWhenPending OnlyItsAnswerStopsTheTimer OtherAnswerKeepsTheTimer
CONSTRAINT Bound
CHECK_DEADLOCK FALSE
