-------------------------------- MODULE LLEnc --------------------------------
(* C28 - a link is encrypted only with a key supplied for it (peripheral role).                   *)
(*                                                                                               *)
(* Abstract state of one link:                                                                    *)
(*   keys  : the Rand/EDIV pairs for which the security manager / bond data base holds a key      *)
(*   proc  : encryption start procedure (Core Vol 6 Part B 5.1.3.1)                               *)
(*             "none"       no procedure running                                                  *)
(*             "known"      LL_ENC_REQ received, the data base supplied a key for its Rand/EDIV   *)
(*             "unknown"    LL_ENC_REQ received, no key -> has to be rejected (PIN or key missing) *)
(*             "startSent"  the peripheral sent LL_START_ENC_REQ (only possible from "known")     *)
(*   on    : the link is legitimately encrypted: LL_START_ENC_RSP arrived in "startSent"          *)
(*   reads : for every ATT read of the protected characteristic not answered yet: was the link    *)
(*           legitimately encrypted when the request arrived                                      *)
(* Observations: enc (what the link layer reports: connection data is_encrypted) and the answers   *)
(* to the ATT reads.  The property:  enc => on   and   read succeeded => on at the request.       *)
(* The central may send anything in any order; the spec never restricts the central.              *)
EXTENDS Integers, Sequences, FiniteSets

VARIABLE es

EFresh(keys) == [ok |-> TRUE, conn |-> TRUE, keys |-> keys, proc |-> "none", on |-> FALSE, reads |-> <<>>]
EDead(keys)  == [EFresh(keys) EXCEPT !.conn = FALSE]
EBad(S) == [S EXCEPT !.ok = FALSE]

\* ---- what the central sends (abstract operations; the trace spec classifies real PDUs) -------------
EOnRx(S, op, id) ==
    CASE op = "enc_req"       -> [S EXCEPT !.proc = IF id \in S.keys THEN "known" ELSE "unknown"]
      [] op = "start_enc_rsp" -> IF S.proc = "startSent" THEN [S EXCEPT !.on = TRUE, !.proc = "none"] ELSE S
      [] op = "pause_enc_req" -> [S EXCEPT !.on = FALSE, !.proc = "none"]
      [] op = "pause_enc_rsp" -> S
      [] op = "att_read"      -> [S EXCEPT !.reads = Append(S.reads, S.on)]
      [] OTHER -> S

\* ---- what the peripheral sends ---------------------------------------------------------------------
EOnTx(S, op, code) ==
    CASE op = "start_enc_req" -> IF S.proc = "known" THEN [S EXCEPT !.proc = "startSent"]
                                 ELSE EBad(S)                               \* LL_START_ENC_REQ without a supplied key
      [] op = "reject_enc"    -> IF S.proc = "unknown" /\ code # 6 THEN EBad(S)   \* must be "PIN or key missing"
                                 ELSE IF S.proc \in {"known", "unknown"} THEN [S EXCEPT !.proc = "none"] ELSE S
      [] op = "read_rsp"      -> IF Len(S.reads) = 0 \/ ~Head(S.reads) THEN EBad(S)   \* protected value delivered on a link that was not encrypted
                                 ELSE [S EXCEPT !.reads = Tail(S.reads)]
      [] op = "read_err"      -> IF Len(S.reads) = 0 THEN EBad(S) ELSE [S EXCEPT !.reads = Tail(S.reads)]
      [] OTHER -> S

\* the link layer reports `enc` after having processed an event
EObserve(S, enc) == IF enc /\ ~(S.conn /\ S.on) THEN EBad(S) ELSE S

EDisconnected(S) == EDead(S.keys)
EConnected(S)    == IF S.conn THEN EBad(S) ELSE EFresh(S.keys)

\* an LL_ENC_REQ for an unknown key has been rejected by now
EQuiesce(S) == IF S.conn /\ S.proc = "unknown" THEN EBad(S) ELSE S

\* ---- model -----------------------------------------------------------------------------------------
CONSTANTS Ids, Known          \* Rand/EDIV universe and the ones with a key

evars == <<es>>
EInit == es = EFresh(Known)
EStep(S) == S.ok /\ es' = S

CentralSends == \E op \in {"enc_req", "start_enc_rsp", "pause_enc_req", "pause_enc_rsp", "att_read"}, id \in Ids :
                    es.conn /\ Len(es.reads) < 2 /\ EStep(EOnRx(es, op, id))
\* a correct peripheral: reacts according to proc, answers reads according to `on` at the request
PeripheralSends == \/ es.proc = "known" /\ EStep(EOnTx(es, "start_enc_req", 0))
                   \/ es.proc = "unknown" /\ EStep(EOnTx(es, "reject_enc", 6))
                   \/ Len(es.reads) > 0 /\ EStep(EOnTx(es, IF Head(es.reads) THEN "read_rsp" ELSE "read_err", 0))
Reconnect == \/ es.conn /\ EStep(EDisconnected(es))
             \/ ~es.conn /\ EStep(EConnected(es))
ENext == CentralSends \/ PeripheralSends \/ Reconnect
ESpec == EInit /\ [][ENext]_evars

ETypeOK == es.ok /\ es.proc \in {"none", "known", "unknown", "startSent"} /\ es.on \in BOOLEAN
\* the statement of C28 on the abstract machine
OnOnlyAfterSuppliedKey ==                \* `on` rises only by LL_START_ENC_RSP in startSent, which needs a known key
    [][(~es.on /\ es'.on) => (es.proc = "startSent" /\ es'.conn)]_evars
StartSentOnlyWithKey ==
    [][(es.proc # "startSent" /\ es'.proc = "startSent") => es.proc = "known"]_evars
KnownOnlyWithKey == [][(es'.proc = "known" /\ es.proc # "known") => es.keys # {}]_evars
NotConnectedNotOn == ~es.conn => ~es.on
=============================================================================
