CONSTANTS Feat = {1, 2, 4}  VersNr = 9  CompId = 617  MaxOwed = 2  MaxT = 0
CONSTANT RxAlphabet = {}
SPECIFICATION TSpec
CHECK_DEADLOCK FALSE
