---------------------------- MODULE LLCallbacksGen ----------------------------
(* Behaviour generator for C29.  Operations (hist entries):                                        *)
(*   <<"conn">>               the central answers the advertisement with CONNECT_IND               *)
(*   <<"to">>                 one lost connection event                                            *)
(*   <<"ev", k1, .., kn>>     one connection event with a burst of n control PDUs (kinds, see Kinds) *)
(*   <<"term", k1, .., kn>>   the same burst followed by LL_TERMINATE_IND in the same event         *)
(*   <<"disc", k1, .., kn>>   the application calls disconnect() right before this burst            *)
(*   <<"sup">>                the central falls silent until the supervision timeout                *)
(* cs follows with an ideal reporter (every callback delivered at once), so the generator stays      *)
(* inside LLCallbacks.  BFS enumerates all behaviours with D operations and bursts from             *)
(* Kinds^(0..MaxBurst); with Rand = TRUE (-simulate) the bursts are random sequences up to MaxBurst. *)
EXTENDS LLCallbacks, TLC, Json

CONSTANTS D, Kinds, MaxBurst, Rand
VARIABLE hist
gvars == <<cs, hist>>

\* (the argument keeps TLC from caching the random value)
Bursts(h) == IF Rand THEN {[i \in 1..RandomElement(0..(MaxBurst + 0 * Len(h))) |-> RandomElement(Kinds)]}
             ELSE UNION {[1..n -> Kinds] : n \in 0..MaxBurst}

Causes(b) == [i \in 1..Len(b) |-> <<b[i], <<>>>>]
ReportAll(S) == LET S1 == IF S.life = "requested" /\ S.heard THEN COnCallback(S, "established", <<>>) ELSE S
                IN  [S1 EXCEPT !.info = <<>>]
Ended(S, reason) == LET S1 == COnAdvertising(ReportAll(S))
                    IN  IF S1.life = "established" THEN COnCallback(S1, "closed", <<reason>>)
                        ELSE COnCallback(S1, "attempt_timeout", <<>>)

GInit == CInit /\ hist = <<>>
Do(S, op) == S.ok /\ cs' = S /\ hist' = Append(hist, op)

GNext ==
    /\ Len(hist) < D
    /\ \/ cs.life = "idle" /\ Do(COnCallback(COnConnect(cs), "requested", <<>>), <<"conn">>)
       \/ cs.life # "idle" /\ Do(COnEvent(cs, TRUE, <<>>, {}, {}), <<"to">>)
       \/ cs.life # "idle" /\ \E b \in Bursts(hist) : Do(ReportAll(COnEvent(cs, FALSE, Causes(b), {}, {})), <<"ev">> \o b)
       \/ cs.life # "idle" /\ \E b \in Bursts(hist) : Do(Ended(COnEvent(cs, FALSE, Causes(b), {}, {19}), 19), <<"term">> \o b)
       \/ cs.life # "idle" /\ \E b \in Bursts(hist) : Do(Ended(COnEvent(COnDisconnect(cs, 22), FALSE, Causes(b), {}, {}), 22), <<"disc">> \o b)
       \/ cs.life # "idle" /\ Do(Ended(COnEvent(cs, TRUE, <<>>, {}, {}), 8), <<"sup">>)

GSpec == GInit /\ [][GNext]_gvars
Emit == Len(hist) = D => PrintT(<<"BEHAVIOUR", ToJson(hist)>>)
=============================================================================
