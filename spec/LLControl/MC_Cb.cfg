CONSTANTS MaxInfo = 3
SPECIFICATION CSpec
INVARIANTS CTypeOK
PROPERTIES OrderOK
CHECK_DEADLOCK FALSE
