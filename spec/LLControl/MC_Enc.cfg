CONSTANTS Ids = {1, 2}  Known = {1}
SPECIFICATION ESpec
INVARIANTS ETypeOK NotConnectedNotOn
PROPERTIES OnOnlyAfterSuppliedKey StartSentOnlyWithKey KnownOnlyWithKey
CHECK_DEADLOCK FALSE
