------------------------------ MODULE LLControl ------------------------------
(* C27 - LL control PDUs get the specified responses (peripheral role).                          *)
(*                                                                                              *)
(* Property-level table transcribed from the Bluetooth Core Specification, Vol 6 Part B,        *)
(* 2.4.2 (LL Control PDUs: opcodes, CtrData lengths, "not supported / reserved / wrong length    *)
(* -> LL_UNKNOWN_RSP") and 5.1 (procedures), 5.2 (procedure response timeout, 40 s).             *)
(* A PDU is the sequence of its payload octets (opcode first).  The state is one record `st`;    *)
(* the operators OnRx / OnTx / OnApp / OnClosed / OnTime / OnQuiesce are the transition          *)
(* functions (field ok = FALSE: the observed step is not allowed).  The actions at the end use   *)
(* them for exhaustive model checking over a small PDU alphabet, LLControlTrace folds them over   *)
(* the recorded connection events of the real link layer.                                        *)
(*                                                                                              *)
(* Where the Core specification leaves freedom (or the central misbehaves) the table is          *)
(* permissive - see the comments at Allowed.                                                     *)
EXTENDS Integers, Sequences, FiniteSets

CONSTANTS Feat,     \* supported LL features (set of bit numbers): 0 encryption, 1 connection parameters request,
                    \* 2 extended reject, 4 ping, 5 data length extension, 8 2M PHY   (from the configuration)
          VersNr,   \* own VersNr of LL_VERSION_IND
          CompId    \* own company identifier

VARIABLE st

ProcTimeout == 40000000          \* procedure response timeout in us (5.2)
Slack       == 2000              \* us; simulated window widening / T_IFS

\* ---- opcodes --------------------------------------------------------------------------------
CONNECTION_UPDATE_IND == 0   CHANNEL_MAP_IND == 1     TERMINATE_IND == 2    ENC_REQ == 3
ENC_RSP == 4                 START_ENC_REQ == 5       START_ENC_RSP == 6    UNKNOWN_RSP == 7
FEATURE_REQ == 8             FEATURE_RSP == 9         PAUSE_ENC_REQ == 10   PAUSE_ENC_RSP == 11
VERSION_IND == 12            REJECT_IND == 13         PERIPHERAL_FEATURE_REQ == 14
CONNECTION_PARAM_REQ == 15   CONNECTION_PARAM_RSP == 16   REJECT_EXT_IND == 17
PING_REQ == 18               PING_RSP == 19           LENGTH_REQ == 20      LENGTH_RSP == 21
PHY_REQ == 22                PHY_RSP == 23            PHY_UPDATE_IND == 24

\* CtrData length + 1 (2.4.2); 0 = opcode this table treats as unknown for every configuration
NomLen(op) == CASE op = 0 -> 12 [] op = 1 -> 8  [] op = 2 -> 2  [] op = 3 -> 23 [] op = 4 -> 13
                [] op = 5 -> 1  [] op = 6 -> 1  [] op = 7 -> 2  [] op = 8 -> 9  [] op = 9 -> 9
                [] op = 10 -> 1 [] op = 11 -> 1 [] op = 12 -> 6 [] op = 13 -> 2 [] op = 14 -> 9
                [] op = 15 -> 24 [] op = 16 -> 24 [] op = 17 -> 3 [] op = 18 -> 1 [] op = 19 -> 1
                [] op = 20 -> 9 [] op = 21 -> 9 [] op = 22 -> 3 [] op = 23 -> 3 [] op = 24 -> 5
                [] OTHER -> 0

Op(p) == IF Len(p) = 0 THEN -1 ELSE p[1]
U16(p, i) == p[i] + 256 * p[i + 1]
Bits(b) == {i \in 0..7 : (b \div (2 ^ i)) % 2 = 1}
FeatOctet(j) == {i - 8 * j : i \in {k \in Feat : k \div 8 = j}}        \* own feature bits of octet j as 0..7

HasEnc == 0 \in Feat
Has2M  == 8 \in Feat
HasDLE == 5 \in Feat

\* responses / PDUs that only a peripheral sends: a peripheral that receives one never started the
\* corresponding procedure.  Permissive: ignore it or treat the opcode as not supported.
UnsolicitedOps == {ENC_RSP, START_ENC_REQ, FEATURE_RSP, PERIPHERAL_FEATURE_REQ, CONNECTION_PARAM_RSP,
                   PING_RSP, LENGTH_RSP, PHY_RSP}

ValidParams(p) ==                                   \* 2.4.2.16: value ranges of LL_CONNECTION_PARAM_REQ/RSP
    LET mn == U16(p, 2)  mx == U16(p, 4)  lat == U16(p, 6)  to == U16(p, 8)
    IN  6 <= mn /\ mn <= mx /\ mx <= 3200 /\ lat <= 499 /\ 10 <= to /\ to <= 3200

ValidPhys(p) == p[2] \in {0, 1, 2, 4} /\ p[3] \in {0, 1, 2, 4}

EncBusy(S) == S.encph \in {"keyAsked", "startSent"}

\* an answer to an earlier LL_VERSION_IND of the central is still to be transmitted
VersionOwed(S) == \E i \in 1..Len(S.owed) : Op(S.owed[i].p) = VERSION_IND /\ "rsp" \in S.owed[i].kinds

\* ---- the table: set of allowed reaction kinds ---------------------------------------------------
\*   "none" no PDU     "unk" LL_UNKNOWN_RSP(opcode)    "unkany" LL_UNKNOWN_RSP(anything)
\*   "rsp" the specified response PDU (Fits checks the payload)    "rej" LL_REJECT_IND / LL_REJECT_EXT_IND(opcode, *)
\*   "close" the connection ends (closeOk collects the admissible reasons)
AllowedWF(S, p) ==              \* p has the nominal length of its opcode
    LET op == Op(p) IN
    CASE op = UNKNOWN_RSP -> {"none"}
      [] op \in {REJECT_IND, REJECT_EXT_IND} -> {"none"}
      [] op \in UnsolicitedOps -> {"none", "unk"} \cup (IF op \in {START_ENC_REQ, PERIPHERAL_FEATURE_REQ} THEN {"rej"} ELSE {})
      [] op = PAUSE_ENC_RSP -> IF HasEnc THEN {"none"} ELSE {"none", "unk"}
      [] op = TERMINATE_IND -> {"close"}
      [] op \in {CONNECTION_UPDATE_IND, CHANNEL_MAP_IND} -> {"none", "close"}      \* effect at the instant: C21
      [] op = PHY_UPDATE_IND -> IF ~Has2M THEN {"unk"}
                                ELSE IF ValidPhys(p) THEN {"none", "close"} ELSE {"none", "close", "unk", "rej"}
      [] op = FEATURE_REQ -> {"rsp"}
      [] op = VERSION_IND -> IF S.verTx = 0 /\ ~VersionOwed(S) THEN {"rsp"}   \* 5.1.5: answer, once
                             ELSE IF ~S.verRx THEN {"none"}                    \* the answer to our own LL_VERSION_IND
                             ELSE {"none", "unk"}                              \* central repeats itself
      [] op = PING_REQ -> {"rsp"}
      [] op = PHY_REQ -> IF ~Has2M THEN {"unk", "rsp"}
                         ELSE IF p[2] \in 1..7 /\ p[3] \in 1..7 THEN {"rsp"} ELSE {"rsp", "rej", "unk"}   \* no PHY / RFU bits: invalid
      [] op = LENGTH_REQ -> IF HasDLE THEN {"rsp"} ELSE {"unk"}
      [] op = CONNECTION_PARAM_REQ -> IF ValidParams(p) THEN {"rsp", "rej"} ELSE {"rej"}   \* 5.1.7: out of range -> reject
      [] op = ENC_REQ -> IF HasEnc THEN {"encrsp"} ELSE {"unk", "rej"}            \* second stage: see OnRx
      [] op = PAUSE_ENC_REQ -> IF ~HasEnc THEN {"unk", "rej"}
                               ELSE IF S.encph = "on" THEN {"rsp"} ELSE {"none", "rsp", "unk", "rej"}
      [] op = START_ENC_RSP -> IF ~HasEnc THEN {"none", "unk"}
                               ELSE IF S.encph = "startSent" THEN {"rsp"} ELSE {"none", "rsp", "unk", "rej"}
      [] OTHER -> {"unk"}

Allowed(S, p) ==
    LET op == Op(p)  n == Len(p)  nom == NomLen(op)
        base ==
            IF n = 0 THEN {"none", "unkany"}                                   \* no opcode at all
            ELSE IF nom = 0 THEN {"unk"}                                       \* unknown / reserved opcode
            ELSE IF n = nom THEN AllowedWF(S, p)
            ELSE IF op = UNKNOWN_RSP THEN {"none"}
            ELSE IF op \in {REJECT_IND, REJECT_EXT_IND, PAUSE_ENC_RSP} \cup UnsolicitedOps THEN {"none", "unk"}
            ELSE {"unk"}                                                       \* malformed (too short or too long) request
    IN  IF EncBusy(S) THEN base \cup {"close"} ELSE base      \* 5.1.3.1: unexpected PDU while encryption starts -> may end the link

IsRej(tx) == (Len(tx) = 2 /\ tx[1] = REJECT_IND) \/ (Len(tx) = 3 /\ tx[1] = REJECT_EXT_IND)
RejCode(tx) == IF tx[1] = REJECT_IND THEN tx[2] ELSE tx[3]

\* remote feature octet 0 as far as the peer ever told us (or made us conclude) that it lacks a feature
FitsFeatureRsp(S, p, tx) ==
    /\ Len(tx) = 9 /\ tx[1] = FEATURE_RSP
    /\ LET both == FeatOctet(0) \cap Bits(p[2])
       IN  Bits(tx[2]) \subseteq both /\ (both \ S.peerLacks) \subseteq Bits(tx[2])
    /\ \A j \in 1..7 : /\ Bits(tx[j + 2]) \subseteq FeatOctet(j)                       \* own set or the intersection
                       /\ (FeatOctet(j) \cap Bits(p[j + 2])) \subseteq Bits(tx[j + 2])

Fits(kind, S, p, tx) ==
    LET op == Op(p) IN
    CASE kind = "unk"      -> tx = <<UNKNOWN_RSP, op>>
      [] kind = "unkany"   -> Len(tx) = 2 /\ tx[1] = UNKNOWN_RSP
      [] kind = "rej"      -> IsRej(tx) /\ (tx[1] = REJECT_EXT_IND => tx[2] = op)
      [] kind = "rejkey"   -> IsRej(tx) /\ RejCode(tx) = 6 /\ (tx[1] = REJECT_EXT_IND => tx[2] = ENC_REQ)
      [] kind = "encrsp"   -> Len(tx) = 13 /\ tx[1] = ENC_RSP
      [] kind = "startenc" -> tx = <<START_ENC_REQ>>
      [] kind = "rsp" ->
            CASE op = FEATURE_REQ   -> FitsFeatureRsp(S, p, tx)
              [] op = VERSION_IND   -> Len(tx) = 6 /\ tx[1] = VERSION_IND /\ tx[2] = VersNr /\ U16(tx, 3) = CompId
              [] op = PING_REQ      -> tx = <<PING_RSP>>
              [] op = PHY_REQ       -> /\ Len(tx) = 3 /\ tx[1] = PHY_RSP
                                       /\ tx[2] \in (IF Has2M THEN {1, 2, 3} ELSE {1}) /\ tx[3] \in (IF Has2M THEN {1, 2, 3} ELSE {1})
              [] op = LENGTH_REQ    -> Len(tx) = 9 /\ tx[1] = LENGTH_RSP
              [] op = CONNECTION_PARAM_REQ -> Len(tx) = 24 /\ tx[1] = CONNECTION_PARAM_RSP /\ ValidParams(tx)
              [] op = PAUSE_ENC_REQ -> tx = <<PAUSE_ENC_RSP>>
              [] op = START_ENC_RSP -> tx = <<START_ENC_RSP>>
              [] OTHER -> FALSE
      [] OTHER -> FALSE

\* ---- state ----------------------------------------------------------------------------------------
\*  owed  : received PDUs whose reaction has not been seen yet: [p, kinds, must, ctx]  (ctx = state at reception)
\*  want  : PDUs the application asked for and that were not transmitted yet: [k, t, arg]
\*  pend  : peripheral initiated procedures waiting for the central's answer: [k, t]
Fresh(itv) == [ok |-> TRUE, alive |-> TRUE, itv |-> itv, now |-> 0, verTx |-> 0, verRx |-> FALSE, peerLacks |-> {},
               encph |-> "off", owed |-> <<>>, want |-> {}, pend |-> {}, closeOk |-> {}, closeMust |-> FALSE,
               sawTimeout |-> FALSE]
Dead == [Fresh(0) EXCEPT !.alive = FALSE]

Bad(S) == [S EXCEPT !.ok = FALSE]

AnswersTo(p) ==             \* kinds of own procedures a received PDU ends
    LET op == Op(p) IN
    IF Len(p) # NomLen(op) THEN {}
    ELSE CASE op = VERSION_IND -> {"ver"}
           [] op = CONNECTION_UPDATE_IND -> {"param"}
           [] op = PHY_UPDATE_IND -> {"phy"}
           [] op = REJECT_IND -> {"ver", "param", "phy"}
           [] op \in {UNKNOWN_RSP, REJECT_EXT_IND} ->
                (IF p[2] = VERSION_IND THEN {"ver"} ELSE {}) \cup (IF p[2] = CONNECTION_PARAM_REQ THEN {"param"} ELSE {})
                \cup (IF p[2] = PHY_REQ THEN {"phy"} ELSE {})
           [] OTHER -> {}

OnRx(S, p) ==
    LET op == Op(p)
        wf == Len(p) > 0 /\ Len(p) = NomLen(op)
        kinds == Allowed(S, p)
        entry == [p |-> p, kinds |-> kinds, must |-> ~("none" \in kinds), ctx |-> [peerLacks |-> S.peerLacks]]
        enc2 == [p |-> p, kinds |-> {"startenc", "rejkey"}, must |-> TRUE, ctx |-> [peerLacks |-> S.peerLacks]]
        owed1 == IF kinds \subseteq {"none", "close"} THEN S.owed        \* nothing may be transmitted for it
                 ELSE IF wf /\ op = ENC_REQ /\ HasEnc                       \* a repeated LL_ENC_REQ supersedes the earlier one
                 THEN LET old == SelectSeq(S.owed, LAMBDA e : ~(Op(e.p) = ENC_REQ /\ "startenc" \in e.kinds))
                      IN  [i \in 1..Len(old) |-> IF Op(old[i].p) = ENC_REQ THEN [old[i] EXCEPT !.must = FALSE] ELSE old[i]]
                          \o <<entry, enc2>>
                 ELSE Append(S.owed, entry)
        lacks == CASE wf /\ op = FEATURE_REQ -> S.peerLacks \cup ((0..7) \ Bits(p[2]))
                   [] wf /\ op = VERSION_IND /\ p[2] <= 6 -> S.peerLacks \cup (1..7)      \* a 4.0 peer has none of the later features
                   [] wf /\ op = UNKNOWN_RSP /\ p[2] = CONNECTION_PARAM_REQ -> S.peerLacks \cup {1}
                   [] OTHER -> S.peerLacks
        ends == AnswersTo(p)
    IN  IF ~S.alive THEN Bad(S)
        ELSE [S EXCEPT
            !.owed = owed1,
            !.peerLacks = lacks,
            !.verRx = S.verRx \/ (wf /\ op = VERSION_IND),
            !.pend = {q \in S.pend : q.k \notin ends},
            !.encph = IF ~HasEnc \/ ~wf THEN S.encph
                      ELSE CASE op = ENC_REQ -> "keyAsked"
                             [] op = PAUSE_ENC_REQ -> "off"
                             [] op = START_ENC_RSP /\ S.encph = "startSent" -> "on"
                             [] OTHER -> S.encph,
            !.closeOk = S.closeOk \cup (IF wf /\ op = TERMINATE_IND THEN {p[2]} ELSE {})
                                  \cup (IF op \in {CONNECTION_UPDATE_IND, CHANNEL_MAP_IND, PHY_UPDATE_IND} THEN {40} ELSE {})
                                  \cup (IF op = TERMINATE_IND /\ ~wf /\ Len(p) > 2 THEN {p[2]} ELSE {})
                                  \cup (IF EncBusy(S) THEN {61} ELSE {}),
            !.closeMust = S.closeMust \/ (wf /\ op = TERMINATE_IND) ]

\* index of the first owed entry that explains the transmitted PDU (0: none)
RECURSIVE FindOwed(_, _, _)
FindOwed(S, tx, i) ==
    IF i > Len(S.owed) THEN 0
    ELSE LET e == S.owed[i]
             SS == [S EXCEPT !.peerLacks = e.ctx.peerLacks]
         IN  IF \E k \in e.kinds : Fits(k, SS, e.p, tx) THEN i ELSE FindOwed(S, tx, i + 1)

Remove(s, i) == SubSeq(s, 1, i - 1) \o SubSeq(s, i + 1, Len(s))

WantKind(tx) == CASE Op(tx) = VERSION_IND /\ Len(tx) = 6 -> "ver"
                  [] Op(tx) = CONNECTION_PARAM_REQ /\ Len(tx) = 24 -> "param"
                  [] Op(tx) = PHY_REQ /\ Len(tx) = 3 -> "phy"
                  [] Op(tx) = TERMINATE_IND /\ Len(tx) = 2 -> "term"
                  [] OTHER -> "none"

OnTx(S, tx) ==
    LET wk == WantKind(tx)
        w  == {q \in S.want : q.k = wk}
        i  == FindOwed(S, tx, 1)
        isVer == Op(tx) = VERSION_IND
    IN  IF ~S.alive THEN Bad(S)
        ELSE IF isVer /\ S.verTx >= 1 THEN Bad(S)                       \* 5.1.5: at most one LL_VERSION_IND per connection
        ELSE IF w # {} THEN                                             \* an application initiated PDU
            LET q == CHOOSE x \in w : TRUE IN
            IF wk = "ver" /\ (tx[2] # VersNr \/ U16(tx, 3) # CompId) THEN Bad(S)
            ELSE [S EXCEPT !.want = S.want \ {q},
                           !.owed = IF isVer THEN SelectSeq(S.owed, LAMBDA e : Op(e.p) # VERSION_IND) ELSE S.owed,
                           !.pend = IF wk = "term" THEN S.pend ELSE S.pend \cup {[k |-> wk, t |-> q.t]},
                           !.verTx = IF isVer THEN S.verTx + 1 ELSE S.verTx,
                           !.closeOk = IF wk = "term" THEN S.closeOk \cup {tx[2]} ELSE S.closeOk,
                           !.closeMust = S.closeMust \/ wk = "term"]
        ELSE IF i = 0 THEN Bad(S)                                       \* nothing explains this PDU
        ELSE LET e == S.owed[i] IN
             [S EXCEPT !.owed = Remove(S.owed, i),
                       !.verTx = IF isVer THEN S.verTx + 1 ELSE S.verTx,
                       !.encph = IF tx = <<START_ENC_REQ>> THEN "startSent"
                                 ELSE IF Op(e.p) = ENC_REQ /\ IsRej(tx) THEN "off" ELSE S.encph]

\* application calls that make the link layer start a procedure; r = the call's result
OnApp(S, c, t, arg, r) ==
    IF ~r \/ ~S.alive THEN S
    ELSE CASE c = "version_req" -> [S EXCEPT !.want = S.want \cup {[k |-> "ver", t |-> t]}]
           [] c \in {"param_req", "param_update"}                 \* both APIs send LL_CONNECTION_PARAM_REQ (param_update may fall
                                -> [S EXCEPT !.want = S.want \cup {[k |-> "param", t |-> t]}]   \* back to L2CAP: then `want` stays)
           [] c = "phy_req"     -> [S EXCEPT !.want = S.want \cup {[k |-> "phy", t |-> t]}]
           [] c = "disconnect"  -> [S EXCEPT !.want = S.want \cup {[k |-> "term", t |-> t]}, !.closeOk = S.closeOk \cup {arg}]
           [] OTHER -> S

Expired(S, q, t) == t >= q.t + ProcTimeout - S.itv - Slack          \* may end the link now (acts at event granularity)
Overdue(S, q, t) == t >  q.t + ProcTimeout + 2 * S.itv + Slack      \* must have ended the link

\* a connection event at time t (timeout: the central was not heard)
OnTime(S, t, timeout) ==
    IF ~S.alive THEN Bad(S)
    ELSE IF \E q \in S.pend : Overdue(S, q, t) THEN Bad(S)            \* 5.2: unanswered for 40 s and still connected
    ELSE [S EXCEPT !.now = t, !.sawTimeout = S.sawTimeout \/ timeout]

OnClosed(S, reason) ==
    IF ~S.alive THEN Bad(S)
    ELSE IF \/ reason \in S.closeOk
            \/ reason = 34 /\ \E q \in S.pend : Expired(S, q, S.now)   \* LL response timeout
            \/ reason = 8 /\ S.sawTimeout                              \* supervision timeout (C22)
         THEN [S EXCEPT !.alive = FALSE, !.owed = <<>>, !.pend = {}, !.want = {}]
         ELSE Bad(S)

\* the central has polled often enough: every mandatory reaction must have been seen
OnQuiesce(S) ==
    IF S.alive /\ (S.closeMust \/ \E i \in 1..Len(S.owed) : S.owed[i].must) THEN Bad(S)
    ELSE [S EXCEPT !.owed = <<>>]

\* ---- model: exhaustive exploration over a small alphabet ----------------------------------------------
CONSTANTS RxAlphabet,   \* PDUs the central may send
          MaxOwed, MaxT

vars == <<st>>
Init == st = Fresh(1000000)

Step(S) == S.ok /\ st' = S

Rx == \E p \in RxAlphabet : st.alive /\ Len(st.owed) < MaxOwed /\ Step(OnRx(st, p))

RECURSIVE SumPow(_)
SumPow(s) == IF s = {} THEN 0 ELSE LET x == CHOOSE y \in s : TRUE IN 2 ^ x + SumPow(s \ {x})

\* the peripheral reacts to owed entry i with a PDU of the allowed kind (abstract choice of one fitting PDU)
Witness(S, e, k) ==
    LET op == Op(e.p) IN
    CASE k = "unk" -> <<UNKNOWN_RSP, op>>
      [] k = "unkany" -> <<UNKNOWN_RSP, 255>>
      [] k = "rej" -> <<REJECT_EXT_IND, op, 30>>
      [] k = "rejkey" -> <<REJECT_EXT_IND, ENC_REQ, 6>>
      [] k = "encrsp" -> <<ENC_RSP, 0, 0, 0, 0, 0, 0, 0, 0, 0, 0, 0, 0>>
      [] k = "startenc" -> <<START_ENC_REQ>>
      [] k = "rsp" ->
            CASE op = FEATURE_REQ -> <<FEATURE_RSP>> \o [j \in 1..8 |->
                                        SumPow(IF j = 1 THEN FeatOctet(0) \cap Bits(e.p[2]) ELSE FeatOctet(j - 1))]
              [] op = VERSION_IND -> <<VERSION_IND, VersNr, CompId % 256, CompId \div 256, 0, 0>>
              [] op = PING_REQ -> <<PING_RSP>>
              [] op = PHY_REQ -> <<PHY_RSP, 1, 1>>
              [] op = LENGTH_REQ -> <<LENGTH_RSP, 27, 0, 72, 1, 27, 0, 72, 1>>
              [] op = CONNECTION_PARAM_REQ -> <<CONNECTION_PARAM_RSP>> \o SubSeq(e.p, 2, 24)
              [] op = PAUSE_ENC_REQ -> <<PAUSE_ENC_RSP>>
              [] op = START_ENC_RSP -> <<START_ENC_RSP>>
              [] OTHER -> <<>>
      [] OTHER -> <<>>

React == \E i \in 1..Len(st.owed) : \E k \in st.owed[i].kinds \ {"none", "close"} :
            /\ i = 1 \/ ~st.owed[1].must                       \* (the model answers in order)
            /\ LET tx == Witness(st, st.owed[i], k) IN FindOwed(st, tx, 1) = i /\ Step(OnTx(st, tx))

Ignore == /\ Len(st.owed) > 0 /\ "none" \in st.owed[1].kinds
          /\ Step([st EXCEPT !.owed = Tail(st.owed)])

\* several peripheral initiated procedures may be outstanding at the same time (one of each kind)
AppKind(c) == CASE c = "version_req" -> "ver" [] c = "phy_req" -> "phy" [] OTHER -> "param"
App == \E c \in {"version_req", "param_req", "param_update", "phy_req"} :
          /\ st.alive /\ ~\E q \in st.want \cup st.pend : q.k = AppKind(c)
          /\ Step(OnApp(st, c, st.now, 0, TRUE))

Initiate == \E q \in st.want :
          /\ q.k # "ver" \/ st.verTx = 0                      \* a correct peripheral does not repeat LL_VERSION_IND
          /\ LET tx == CASE q.k = "ver" -> <<VERSION_IND, VersNr, CompId % 256, CompId \div 256, 0, 0>>
                         [] q.k = "param" -> <<CONNECTION_PARAM_REQ, 10, 0, 20, 0, 0, 0, 100, 0, 0, 0, 0, 255, 255, 255, 255, 255, 255, 255, 255, 255, 255, 255, 255>>
                         [] OTHER -> <<PHY_REQ, 2, 2>>
             IN Step(OnTx(st, tx))

Tick == \E d \in {1, 10} : st.alive /\ st.now < MaxT /\ Step(OnTime(st, st.now + d * st.itv, FALSE))

Close == \E r \in {8, 19, 34, 40, 61} : st.alive /\ Step(OnClosed(st, r))

Quiesce == st.alive /\ Step(OnQuiesce(st))

Next == Rx \/ React \/ Ignore \/ App \/ Initiate \/ Tick \/ Close \/ Quiesce
Spec == Init /\ [][Next]_vars

\* ---- what the property says, as invariants of the table ---------------------------------------------
TypeOK == st.ok /\ st.verTx \in 0..1

\* responses and rejects are never answered (well-formed LL_UNKNOWN_RSP, LL_REJECT_IND, LL_REJECT_EXT_IND)
NeverAnswerRejects ==
    \A i \in 1..Len(st.owed) : ~(Op(st.owed[i].p) \in {UNKNOWN_RSP, REJECT_IND, REJECT_EXT_IND}
                                  /\ Len(st.owed[i].p) = NomLen(Op(st.owed[i].p)))
\* an unknown request can only be answered with LL_UNKNOWN_RSP
UnknownGetsUnknownRsp ==
    \A i \in 1..Len(st.owed) : LET e == st.owed[i] IN
        (Len(e.p) > 0 /\ NomLen(Op(e.p)) = 0) => (e.must /\ e.kinds \ {"close"} = {"unk"})
\* a request with a wrong length can only be answered with LL_UNKNOWN_RSP, and must be
MalformedGetsUnknownRsp ==
    \A i \in 1..Len(st.owed) : LET e == st.owed[i]  op == Op(e.p) IN
        (Len(e.p) > 0 /\ NomLen(op) # 0 /\ Len(e.p) # NomLen(op)
            /\ op \notin {UNKNOWN_RSP, REJECT_IND, REJECT_EXT_IND, PAUSE_ENC_RSP} \cup UnsolicitedOps)
        => (e.must /\ e.kinds \ {"close"} = {"unk"})
\* the link ends with "LL response timeout" only while an own procedure is unanswered long enough
TimeoutOnlyWhenPending == [][(st.alive /\ ~st'.alive /\ st.closeOk = {} /\ ~st.sawTimeout) => \E q \in st.pend : Expired(st, q, st.now)]_vars
VersionOnce == st.verTx <= 1
\* 5.2: the response timer of a procedure is stopped only by a PDU that answers THAT procedure (its response, or a
\* reject / unknown response naming its request; LL_REJECT_IND names nothing) - or the connection ends
OnlyItsAnswerStopsTheTimer ==
    [][\A q \in st.pend : (st'.alive /\ q \notin st'.pend) =>
            \E p \in RxAlphabet : q.k \in AnswersTo(p) /\ st' = OnRx(st, p)]_vars
\* ... and a PDU that names another procedure's request leaves it running
OtherAnswerKeepsTheTimer ==
    [][\A q \in st.pend : \A p \in RxAlphabet :
            (st' = OnRx(st, p) /\ q.k \notin AnswersTo(p) /\ st'.alive) => q \in st'.pend]_vars
\* the table never demands the impossible: every mandatory entry has a reaction that Fits accepts
Satisfiable ==
    \A i \in 1..Len(st.owed) : LET e == st.owed[i] IN
        e.must => \E k \in e.kinds : k = "close" \/ \E j \in 1..i : FindOwed(st, Witness(st, e, k), 1) = j
=============================================================================
