--------------------------- MODULE LLControlTrace ---------------------------
(* Trace validation for C27: the recorded connection events of the real link layer (harness/llctrl) *)
(* must be explained by the LLControl table.  Events: see harness/llctrl/llctrl_harness.cpp.          *)
(*   Ev: first the LL control PDUs the peripheral transmitted in the event (they were queued before  *)
(*       the event), then the LL control PDUs it received (processed after the event).              *)
EXTENDS LLControl, Json, IOUtils, TLC

Tr == ndJsonDeserialize(IOEnv.TRACE)

VARIABLE l
tvars == <<st, l>>
Ev == Tr[l]

\* LL control PDUs ([3, payload...]) of a list of [llid, payload...]
Ctrl(list) == LET c == SelectSeq(list, LAMBDA x : x[1] = 3) IN [i \in 1..Len(c) |-> Tail(c[i])]

RECURSIVE FoldTx(_, _), FoldRx(_, _)
FoldTx(S, txs) == IF Len(txs) = 0 \/ ~S.ok THEN S ELSE FoldTx(OnTx(S, Head(txs)), Tail(txs))
FoldRx(S, rxs) == IF Len(rxs) = 0 \/ ~S.ok THEN S ELSE FoldRx(OnRx(S, Head(rxs)), Tail(rxs))

FeatMask == LET RECURSIVE Sum(_)
                Sum(s) == IF s = {} THEN 0 ELSE LET x == CHOOSE y \in s : TRUE IN 2 ^ x + Sum(s \ {x})
            IN  Sum(Feat)

After(ev) ==
    CASE ev.e = "Reset"   -> IF ev.feat = FeatMask /\ ev.ver = VersNr /\ ev.comp = CompId THEN Dead ELSE Bad(Dead)
      [] ev.e = "ConnReq" -> IF st.alive THEN Bad(st) ELSE Fresh(ev.itv * 1250)
      [] ev.e = "Ev"      -> FoldRx(FoldTx(OnTime(st, ev.t, ev.to), Ctrl(ev.tx)), Ctrl(ev.rx))
      [] ev.e = "App"     -> OnApp(st, ev.c, ev.t, IF ev.c = "disconnect" /\ Len(ev.a) = 0 THEN 22 ELSE IF Len(ev.a) > 0 THEN ev.a[1] ELSE 0, ev.r)
      [] ev.e = "Cb"      -> IF ev.n = "closed" THEN OnClosed([st EXCEPT !.now = ev.now], ev.a[1])
                             ELSE IF ev.n = "attempt_timeout" THEN [st EXCEPT !.alive = FALSE]
                             ELSE st
      [] ev.e = "Quiesce" -> IF st.alive THEN OnQuiesce(OnTime(st, ev.now, FALSE)) ELSE OnQuiesce(st)
      [] ev.e = "Fin"     -> IF st.alive THEN OnTime(st, ev.now, FALSE) ELSE st
      [] ev.e = "Crash"   -> Bad(st)
      [] OTHER -> st                              \* Adv, Key, FindKey: not the subject of C27

Explain(ev) == LET S == After(ev) IN S.ok /\ st' = S

\* first Reset event after position i (linear scan: many executions per file, many known mismatches)
RECURSIVE ScanReset(_)
ScanReset(i) == IF i > Len(Tr) THEN Len(Tr) + 1 ELSE IF Tr[i].e = "Reset" THEN i ELSE ScanReset(i + 1)
NextReset(i) == ScanReset(i + 1)

TInit == st = Dead /\ l = 1

TNext ==
    \/ /\ l <= Len(Tr)
       /\ IF ENABLED Explain(Ev)
          THEN Explain(Ev) /\ l' = l + 1
          ELSE PrintT(<<"MISMATCH", l>>) /\ l' = NextReset(l) /\ UNCHANGED vars
    \/ /\ l = Len(Tr) + 1
       /\ PrintT(<<"TRACE_DONE", Len(Tr)>>)
       /\ l' = l + 1 /\ UNCHANGED vars

TSpec == TInit /\ [][TNext]_tvars
=============================================================================
