----------------------------- MODULE LLCallbacks -----------------------------
(* C29 - the connection life cycle is reported completely and in order.                            *)
(*                                                                                               *)
(* Per connection the application must see                                                        *)
(*      requested ; ( attempt_timeout | established ; info* ; closed(reason) )                     *)
(* each of requested / established (or attempt_timeout) / closed exactly once and in this order,   *)
(* nothing for a connection that was never requested, and a new connection is not reported before  *)
(* the previous one has been reported as over.  `info` are the change callbacks of                  *)
(* connection_callbacks.hpp: changed, version, features, rejected, unknown, phy.  They must be       *)
(* caused by something the central sent (in order; the property does not demand that every one of    *)
(* them is delivered, so an info callback may be missing but never invented, repeated or reordered). *)
(*                                                                                               *)
(*   life:  "idle"       no connection                                                             *)
(*          "accepted"   CONNECT_IND answered our advertisement; `requested` is owed               *)
(*          "requested"  requested delivered                                                       *)
(*          "established" established delivered                                                    *)
(*   over:  the link layer is advertising again: the connection has ended, the final callback is    *)
(*          owed (closed if established was or has to be reported, attempt_timeout otherwise)       *)
(*   heard: a connection event in which the central was received took place                         *)
EXTENDS Integers, Sequences, FiniteSets

VARIABLE cs

CIdle == [ok |-> TRUE, life |-> "idle", over |-> FALSE, heard |-> FALSE, info |-> <<>>, reasons |-> {}, loose |-> {}]
CBad(S) == [S EXCEPT !.ok = FALSE]

InfoNames == {"changed", "version", "features", "rejected", "unknown", "phy"}

\* the central's CONNECT_IND was accepted (a connection event got scheduled)
COnConnect(S) == IF S.life # "idle" THEN CBad(S)               \* the previous connection was never reported as over
                 ELSE [CIdle EXCEPT !.life = "accepted"]

\* a connection event; timeout: the central was not heard; causes: info callbacks caused by the received PDUs
\* (sequence of <<name, args>>), loose: names of info callbacks whose arguments / time the spec does not predict
COnEvent(S, timeout, causes, loose, reasons) ==
    IF S.life \notin {"accepted", "requested", "established"} \/ S.over THEN CBad(S)
    ELSE [S EXCEPT !.heard = S.heard \/ ~timeout, !.info = S.info \o causes, !.loose = S.loose \cup loose,
                   !.reasons = S.reasons \cup reasons \cup (IF timeout THEN {8} ELSE {})]

\* the link layer went back to advertising
COnAdvertising(S) == IF S.life = "idle" THEN S ELSE [S EXCEPT !.over = TRUE]

\* index of the first pending cause equal to c (0: none)
RECURSIVE Find(_, _, _)
Find(s, c, i) == IF i > Len(s) THEN 0 ELSE IF s[i] = c THEN i ELSE Find(s, c, i + 1)

COnCallback(S, n, a) ==
    CASE n = "requested" -> IF S.life = "accepted" THEN [S EXCEPT !.life = "requested"] ELSE CBad(S)
      [] n = "established" -> IF S.life = "requested" /\ S.heard THEN [S EXCEPT !.life = "established"] ELSE CBad(S)
      [] n = "attempt_timeout" -> IF S.life = "requested" /\ ~S.heard /\ S.over THEN CIdle ELSE CBad(S)
      [] n = "closed" -> IF S.life = "established" /\ S.over /\ a[1] \in S.reasons THEN CIdle ELSE CBad(S)
      [] n \in InfoNames ->
            IF S.life # "established" THEN CBad(S)
            ELSE IF n \in S.loose THEN S
            ELSE LET i == Find(S.info, <<n, a>>, 1) IN
                 IF i = 0 THEN CBad(S) ELSE [S EXCEPT !.info = SubSeq(S.info, i + 1, Len(S.info))]
      [] OTHER -> CBad(S)

\* the application asked for a disconnect with this reason
COnDisconnect(S, reason) == [S EXCEPT !.reasons = S.reasons \cup {reason}]

\* end of the observation: everything has been reported
COnFin(S) == IF S.life = "idle" \/ ~S.over THEN S ELSE CBad(S)

\* ---- model: a correct reporter with a lossy info channel -----------------------------------------------
CONSTANT MaxInfo
cvars == <<cs>>
CInit == cs = CIdle
CStep(S) == S.ok /\ cs' = S

Connect == CStep(COnConnect(cs))
Event == \E to \in BOOLEAN, c \in {<<>>, <<<<"rejected", <<6>>>>>>, <<<<"unknown", <<15>>>>, <<"version", <<9, 1, 2>>>>>>}, r \in {{}, {19}} :
            Len(cs.info) + Len(c) <= MaxInfo /\ CStep(COnEvent(cs, to, IF to THEN <<>> ELSE c, {}, IF to THEN {} ELSE r))
Advertise == cs.life # "idle" /\ ~cs.over /\ (cs.reasons # {} \/ ~cs.heard) /\ CStep(COnAdvertising(cs))
Report == \/ CStep(COnCallback(cs, "requested", <<>>))
          \/ CStep(COnCallback(cs, "established", <<>>))
          \/ CStep(COnCallback(cs, "attempt_timeout", <<>>))
          \/ \E r \in cs.reasons : CStep(COnCallback(cs, "closed", <<r>>))
          \/ \E i \in 1..Len(cs.info) : CStep(COnCallback(cs, cs.info[i][1], cs.info[i][2]))
CNext == Connect \/ Event \/ Advertise \/ Report
CSpec == CInit /\ [][CNext]_cvars

CTypeOK == cs.ok /\ cs.life \in {"idle", "accepted", "requested", "established"}
\* order: established only after requested, the final callback only after the connection is over
OrderOK == [][/\ (cs'.life = "established" /\ cs.life # "established") => cs.life = "requested"
              /\ (cs'.life = "requested" /\ cs.life # "requested") => cs.life = "accepted"
              /\ (cs'.life = "idle" /\ cs.life # "idle") => (cs.over /\ cs.life \in {"requested", "established"})
              /\ (cs'.life = "accepted" /\ cs.life # "accepted") => cs.life = "idle"]_cvars
=============================================================================
