CONSTANTS MaxInfo = 99  D = 3  Kinds = {"rej", "unk", "ver", "feat"}  MaxBurst = 2  Rand = FALSE
SPECIFICATION GSpec
INVARIANTS Emit
CHECK_DEADLOCK FALSE
