CONSTANTS MaxInfo = 99  D = 5  Kinds = {"rej", "ver"}  MaxBurst = 7  Rand = TRUE
SPECIFICATION GSpec
INVARIANTS Emit
CHECK_DEADLOCK FALSE
