CONSTANTS MaxInfo = 0
SPECIFICATION TSpec
CHECK_DEADLOCK FALSE
