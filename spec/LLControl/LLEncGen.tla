------------------------------- MODULE LLEncGen -------------------------------
(* Behaviour generator for C28: all sequences of length D (BFS) or random ones (-simulate) over    *)
(*   K LL_ENC_REQ(known key)  U LL_ENC_REQ(unknown key)  S LL_START_ENC_RSP  P LL_PAUSE_ENC_REQ      *)
(*   R LL_PAUSE_ENC_RSP       A ATT read of the protected characteristic   D disconnect + reconnect *)
(* es follows the operations with an ideal peripheral, so that the generator stays inside LLEnc.    *)
EXTENDS LLEnc, TLC, Json

CONSTANT D
VARIABLE hist
gvars == <<es, hist>>

GInit == EInit /\ hist = <<>>

Ideal(S) ==        \* the reactions of a correct peripheral, applied at once
    LET S1 == IF S.proc = "known" THEN EOnTx(S, "start_enc_req", 0)
              ELSE IF S.proc = "unknown" THEN EOnTx(S, "reject_enc", 6) ELSE S
    IN  IF Len(S1.reads) > 0 THEN EOnTx(S1, IF Head(S1.reads) THEN "read_rsp" ELSE "read_err", 0) ELSE S1

Apply(S, o) ==
    CASE o = "K" -> Ideal(EOnRx(S, "enc_req", CHOOSE i \in Known : TRUE))
      [] o = "U" -> Ideal(EOnRx(S, "enc_req", CHOOSE i \in Ids \ Known : TRUE))
      [] o = "S" -> EOnRx(S, "start_enc_rsp", 0)
      [] o = "P" -> EOnRx(S, "pause_enc_req", 0)
      [] o = "R" -> EOnRx(S, "pause_enc_rsp", 0)
      [] o = "A" -> Ideal(EOnRx(S, "att_read", 0))
      [] OTHER   -> EConnected(EDisconnected(S))

GNext == /\ Len(hist) < D
         /\ \E o \in {"K", "U", "S", "P", "R", "A", "D"} : es' = Apply(es, o) /\ es'.ok /\ hist' = Append(hist, o)

GSpec == GInit /\ [][GNext]_gvars
Emit == Len(hist) = D => PrintT(<<"BEHAVIOUR", ToJson(hist)>>)
=============================================================================
