CONSTANTS Ids = {}  Known = {}
SPECIFICATION TSpec
CHECK_DEADLOCK FALSE
