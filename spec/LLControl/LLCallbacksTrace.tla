--------------------------- MODULE LLCallbacksTrace ---------------------------
(* Trace validation for C29: every application callback the real link layer delivers (harness/llctrl) *)
(* must fit the life cycle of LLCallbacks; the stimuli (CONNECT_IND, connection events with their     *)
(* received PDUs, lost events, return to advertising, disconnect()) come from the same trace.          *)
EXTENDS LLCallbacks, Json, IOUtils, TLC

Tr == ndJsonDeserialize(IOEnv.TRACE)

VARIABLE l
tvars == <<cs, l>>
Ev == Tr[l]

U16(p, i) == p[i] + 256 * p[i + 1]
Ctrl(list) == LET c == SelectSeq(list, LAMBDA x : x[1] = 3) IN [i \in 1..Len(c) |-> Tail(c[i])]

\* info callback caused by a received, well formed control PDU (<<>>: none that the spec predicts exactly)
Cause(p) ==
    IF Len(p) = 0 THEN <<>>
    ELSE CASE p[1] = 13 /\ Len(p) = 2 -> <<"rejected", <<p[2]>>>>
           [] p[1] = 17 /\ Len(p) = 3 -> <<"rejected", <<p[3]>>>>
           [] p[1] = 7  /\ Len(p) = 2 -> <<"unknown", <<p[2]>>>>
           [] p[1] = 12 /\ Len(p) = 6 -> <<"version", <<p[2], U16(p, 3), U16(p, 5)>>>>
           [] p[1] = 8  /\ Len(p) = 9 -> <<"features", SubSeq(p, 2, 9)>>
           [] OTHER -> <<>>
RECURSIVE Causes(_)
Causes(ps) == IF Len(ps) = 0 THEN <<>>
              ELSE IF Cause(Head(ps)) = <<>> THEN Causes(Tail(ps)) ELSE <<Cause(Head(ps))>> \o Causes(Tail(ps))
\* callbacks whose time and arguments depend on instants / the encryption state (C21, C28): only their place in the life cycle is checked
Loose(ps) == (IF \E i \in 1..Len(ps) : Len(ps[i]) > 0 /\ ps[i][1] \in {0, 3, 6, 10, 11} THEN {"changed"} ELSE {})
             \cup (IF \E i \in 1..Len(ps) : Len(ps[i]) > 0 /\ ps[i][1] = 24 THEN {"phy"} ELSE {})
Reasons(ps) == {ps[i][2] : i \in {j \in 1..Len(ps) : Len(ps[j]) = 2 /\ ps[j][1] = 2}}
               \cup (IF \E i \in 1..Len(ps) : Len(ps[i]) > 0 /\ ps[i][1] \in {0, 1, 24} THEN {40} ELSE {})
               \cup (IF \E i \in 1..Len(ps) : Len(ps[i]) > 0 /\ ps[i][1] \in {3, 6, 10, 11} THEN {61} ELSE {})

After(ev) ==
    CASE ev.e = "Reset"   -> CIdle
      [] ev.e = "ConnReq" -> COnConnect(cs)
      [] ev.e = "Ev"      -> LET ps == Ctrl(ev.rx) IN COnEvent(cs, ev.to, Causes(ps), Loose(ps), Reasons(ps))
      [] ev.e = "Adv"     -> COnAdvertising(cs)
      [] ev.e = "Cb"      -> COnCallback(cs, ev.n, ev.a)
      [] ev.e = "App"     -> IF ev.c = "disconnect" THEN COnDisconnect(cs, IF Len(ev.a) = 0 THEN 22 ELSE ev.a[1])
                             ELSE IF ev.r THEN COnDisconnect(cs, 34) ELSE cs        \* an own procedure may run into the response timeout
      [] ev.e = "Fin"     -> COnFin(cs)
      [] ev.e = "Crash"   -> CBad(cs)
      [] OTHER -> cs

Explain(ev) == LET S == After(ev) IN S.ok /\ cs' = S

\* first Reset event after position i (linear scan: many executions per file, many known mismatches)
RECURSIVE ScanReset(_)
ScanReset(i) == IF i > Len(Tr) THEN Len(Tr) + 1 ELSE IF Tr[i].e = "Reset" THEN i ELSE ScanReset(i + 1)
NextReset(i) == ScanReset(i + 1)

TInit == cs = CIdle /\ l = 1

TNext ==
    \/ /\ l <= Len(Tr)
       /\ IF ENABLED Explain(Ev)
          THEN Explain(Ev) /\ l' = l + 1
          ELSE PrintT(<<"MISMATCH", l>>) /\ l' = NextReset(l) /\ UNCHANGED cvars
    \/ /\ l = Len(Tr) + 1
       /\ PrintT(<<"TRACE_DONE", Len(Tr)>>)
       /\ l' = l + 1 /\ UNCHANGED cvars

TSpec == TInit /\ [][TNext]_tvars
=============================================================================
