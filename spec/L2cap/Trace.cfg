CONSTANTS StubCids = {4, 6}  SigCid = 5  MaxMtu = 65
CONSTANTS MCFrames = {}  MCCmds = {}  MCAllocs = {}  MCData = {}
SPECIFICATION TSpec
INVARIANTS TypeOK
CHECK_DEADLOCK FALSE
