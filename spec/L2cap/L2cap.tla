-------------------------------- MODULE L2cap --------------------------------
(* Property-level specification of L2CAP channel multiplexing (bluetoe::details::l2cap<>) and of  *)
(* the LE signaling channel (bluetoe::l2cap::signaling_channel<>) - property C31.                 *)
(*                                                                                                *)
(* Multiplexer.  An L2CAP frame is <<len lo, len hi, cid lo, cid hi>> \o payload.                  *)
(*  - a frame is delivered to exactly the channel its CID names, once, with exactly its payload,  *)
(*    iff it has a complete header, its length field equals the payload size and the CID is one   *)
(*    of the configured channels; everything else is dropped (consumed, no delivery, no output);  *)
(*  - the link layer hands out output buffers: allocate(MaxMtu) returns a buffer of `alloc` bytes *)
(*    or nothing (alloc < MaxMtu). Without a buffer a deliverable frame is NOT consumed (result   *)
(*    FALSE), nothing is delivered and nothing changes - the link layer offers it again;          *)
(*  - a reply is sent on the CID of the request, its length field equals its payload size and the *)
(*    reply (and the capacity offered to the channel, + 4 octets header) fits the allocated       *)
(*    buffer;                                                                                     *)
(*  - pending channel output is transmitted with the CID of the channel that produced it while    *)
(*    buffers last.                                                                               *)
(* Signaling channel (Core spec Vol 3 Part A, 4).  pend in {idle, queued, transmitted}:           *)
(*  - a queued Connection Parameter Update Request is emitted exactly once, with identifier       *)
(*    `ident` (never 0) and the requested parameters;                                             *)
(*  - only a Connection Parameter Update Response with the matching identifier and the correct    *)
(*    length (6 octets, length field 2) completes it; then ident advances (255 -> 1, never 0);    *)
(*  - every other well formed command that is not a response and carries a non-zero identifier is *)
(*    answered with Command Reject (command not understood) echoing that identifier;              *)
(*  - nothing is ever sent in answer to a command without identifier octet or with identifier 0;  *)
(*  - where Core spec and property leave freedom the reply is nondeterministic: responses that    *)
(*    are not accepted (wrong identifier / length / no request outstanding) and malformed commands*)
(*    with a non-zero identifier may be discarded silently or rejected; a received Command Reject *)
(*    for the outstanding request may end the request or be ignored.                              *)
EXTENDS Integers, Sequences, FiniteSets

CONSTANTS StubCids,    \* CIDs served by recording stub channels (harness) / abstract channels (model)
          SigCid,      \* CID of the signaling channel (5)
          MaxMtu       \* maximum_mtu_size of the l2cap<> instance = size requested from the link layer

VARIABLES pend,        \* "idle" | "queued" | "transmitted"
          ident,       \* identifier of the current / next Connection Parameter Update Request
          params,      \* <<interval_min, interval_max, latency, timeout>> of the queued / transmitted request
          outq,        \* [StubCids -> Seq(payload)] output pending in the stub channels (environment state)
          obs          \* what the last step showed at the interface (for stating the properties)

vars  == <<pend, ident, params, outq, obs>>
svars == <<pend, ident, params>>

Cids == StubCids \cup {SigCid}

U16(lo, hi)   == lo + 256 * hi
Lo(x)         == x % 256
Hi(x)         == (x \div 256) % 256
Frame(cid, p) == <<Lo(Len(p)), Hi(Len(p)), Lo(cid), Hi(cid)>> \o p
HdrOK(f)      == Len(f) >= 4 /\ U16(f[1], f[2]) = Len(f) - 4
CidOf(f)      == U16(f[3], f[4])
PayloadOf(f)  == SubSeq(f, 5, Len(f))

(* ---------------------------------- signaling channel ---------------------------------- *)
CmdReject   == 1
CpuRequest  == 18      \* 0x12
CpuResponse == 19      \* 0x13

RejectOf(id)       == <<CmdReject, id, 2, 0, 0, 0>>
RequestCmd(id, p)  == <<CpuRequest, id, 8, 0, Lo(p[1]), Hi(p[1]), Lo(p[2]), Hi(p[2]), Lo(p[3]), Hi(p[3]), Lo(p[4]), Hi(p[4])>>
NextIdent(id)      == IF id = 255 THEN 1 ELSE id + 1

HasIdent(c)    == Len(c) >= 2 /\ c[2] # 0
WellFormed(c)  == Len(c) >= 4 /\ U16(c[3], c[4]) = Len(c) - 4
IsResponse(c)  == Len(c) >= 1 /\ c[1] \in {CpuResponse, CmdReject}
Matching(c)    == Len(c) = 6 /\ c[1] = CpuResponse /\ c[2] = ident /\ c[3] = 2 /\ c[4] = 0
\* the peer rejects our request
PeerReject(c)  == WellFormed(c) /\ c[1] = CmdReject /\ c[2] = ident

\* command c arrives on the signaling channel; `reply` is what the channel answers (<<>> = nothing)
SigInput(c, reply) ==
    IF pend = "transmitted" /\ Matching(c)
    THEN /\ reply = <<>>
         /\ pend' = "idle" /\ ident' = NextIdent(ident) /\ UNCHANGED params
    ELSE /\ IF HasIdent(c) /\ WellFormed(c) /\ ~IsResponse(c)
            THEN reply = RejectOf(c[2])
            ELSE IF HasIdent(c) THEN reply \in {<<>>, RejectOf(c[2])}
            ELSE reply = <<>>
         /\ \/ UNCHANGED svars
            \/ /\ pend = "transmitted" /\ PeerReject(c)
               /\ pend' = "idle" /\ ident' = NextIdent(ident) /\ UNCHANGED params

\* the channel is asked for output; `out` is what it produces (<<>> = nothing)
SigOutput(out) ==
    IF pend = "queued"
    THEN out = RequestCmd(ident, params) /\ pend' = "transmitted" /\ UNCHANGED <<ident, params>>
    ELSE out = <<>> /\ UNCHANGED svars

\* API: connection_parameter_update_request(p); r = accepted
SigRequest(p, r) ==
    /\ r = (pend = "idle")
    /\ IF r THEN pend' = "queued" /\ params' = p /\ UNCHANGED ident ELSE UNCHANGED svars

(* ---------------------------------- direct use of the signaling channel ---------------- *)
SigIn(c, cap, reply) ==
    /\ SigInput(c, reply)
    /\ Len(reply) <= cap
    /\ obs' = [k |-> "sigin", cmd |-> c, reply |-> reply]
    /\ UNCHANGED outq

SigOut(cap, out) ==
    /\ SigOutput(out)
    /\ Len(out) <= cap
    /\ obs' = [k |-> "sigout", out |-> out]
    /\ UNCHANGED outq

Request(p, r) ==
    /\ SigRequest(p, r)
    /\ obs' = [k |-> "req", r |-> r]
    /\ UNCHANGED outq

(* ---------------------------------- multiplexer ---------------------------------------- *)
Avail(alloc) == alloc >= MaxMtu        \* allocate( MaxMtu ) must return nothing if it cannot provide that size

\* calls: the channel invocations observed during the step, each [cid, in, cap, reply]
Input(frame, alloc, r, calls, outs) ==
    /\ obs' = [k |-> "input", frame |-> frame, alloc |-> alloc, r |-> r, calls |-> calls, outs |-> outs]
    /\ UNCHANGED outq
    /\ IF ~(HdrOK(frame) /\ CidOf(frame) \in Cids)
       THEN \* malformed or unknown CID: dropped (or, without buffer, left to be offered again and dropped then)
            /\ calls = <<>> /\ outs = <<>>
            /\ (r \/ ~Avail(alloc))
            /\ UNCHANGED svars
       ELSE IF ~Avail(alloc)
       THEN /\ r = FALSE /\ calls = <<>> /\ outs = <<>> /\ UNCHANGED svars
       ELSE /\ r = TRUE
            /\ Len(calls) = 1
            /\ LET call == calls[1] IN
               /\ call.cid = CidOf(frame)
               /\ call.in = PayloadOf(frame)
               /\ call.cap + 4 <= alloc                      \* whatever the channel may write fits the buffer
               /\ Len(call.reply) <= call.cap
               /\ outs = IF call.reply = <<>> THEN <<>> ELSE <<Frame(CidOf(frame), call.reply)>>
               /\ IF CidOf(frame) = SigCid THEN SigInput(call.in, call.reply) ELSE UNCHANGED svars

\* result of consuming the frames outs[i..] from the pending output: [q, p, ok]
RECURSIVE PumpFrom(_, _, _, _)
PumpFrom(q, p, outs, i) ==
    IF i > Len(outs) THEN [q |-> q, p |-> p, ok |-> TRUE]
    ELSE LET f == outs[i] IN
         IF ~HdrOK(f) THEN [q |-> q, p |-> p, ok |-> FALSE]
         ELSE IF CidOf(f) \in StubCids /\ q[CidOf(f)] # <<>> /\ Head(q[CidOf(f)]) = PayloadOf(f)
              THEN PumpFrom([q EXCEPT ![CidOf(f)] = Tail(@)], p, outs, i + 1)
         ELSE IF CidOf(f) = SigCid /\ p = "queued" /\ PayloadOf(f) = RequestCmd(ident, params)
              THEN PumpFrom(q, "transmitted", outs, i + 1)
         ELSE [q |-> q, p |-> p, ok |-> FALSE]

\* transmit_pending_l2cap_output while the link layer can provide nbuf buffers of alloc octets each;
\* caps: the capacities offered to channels during the step
Pump(nbuf, alloc, caps, outs) ==
    LET eff == IF Avail(alloc) THEN nbuf ELSE 0
        res == PumpFrom(outq, pend, outs, 1)
    IN  /\ Len(outs) <= eff
        /\ res.ok                                                      \* every frame is pending output of the channel its CID names
        /\ \A k \in 1 .. Len(outs) : Len(outs[k]) <= alloc              \* and fits the buffer
        /\ \A k \in 1 .. Len(caps) : caps[k] + 4 <= alloc
        /\ Len(outs) < eff => ((\A c \in StubCids : res.q[c] = <<>>) /\ res.p # "queued")   \* buffers left => nothing left
        /\ outq' = res.q /\ pend' = res.p /\ UNCHANGED <<ident, params>>
        /\ obs' = [k |-> "pump", outs |-> outs, alloc |-> alloc]

\* environment: a stub channel gets something to send
Queue(cid, data) ==
    /\ cid \in StubCids /\ Len(data) >= 1
    /\ outq' = [outq EXCEPT ![cid] = Append(@, data)]
    /\ obs' = [k |-> "queue"]
    /\ UNCHANGED svars

(* ---------------------------------- model ----------------------------------------------- *)
TypeOK == /\ pend \in {"idle", "queued", "transmitted"}
          /\ ident \in 1 .. 255
          /\ DOMAIN outq = StubCids

Init == /\ pend = "idle" /\ ident = 1 /\ params = <<0, 0, 0, 0>>
        /\ outq = [c \in StubCids |-> <<>>]
        /\ obs = [k |-> "init"]

\* constructive versions of the channel behaviour for model checking (the relation above admits more)
CONSTANTS MCFrames, MCCmds, MCAllocs, MCData

StubReply(cid, in, cap, mode) == IF mode = 0 THEN <<>> ELSE IF mode = 1 THEN <<cid>> ELSE [i \in 1 .. cap |-> (cid + i) % 256]

MCInput(frame, alloc, mode) ==
    IF ~(HdrOK(frame) /\ CidOf(frame) \in Cids) THEN Input(frame, alloc, TRUE, <<>>, <<>>)
    ELSE IF ~Avail(alloc) THEN Input(frame, alloc, FALSE, <<>>, <<>>)
    ELSE LET cid == CidOf(frame)
             in  == PayloadOf(frame)
             cap == alloc - 4
         IN  IF cid # SigCid
             THEN LET rep == StubReply(cid, in, cap, mode)
                  IN  Input(frame, alloc, TRUE, <<[cid |-> cid, in |-> in, cap |-> cap, reply |-> rep]>>,
                            IF rep = <<>> THEN <<>> ELSE <<Frame(cid, rep)>>)
             ELSE \E rep \in {<<>>} \cup (IF Len(in) >= 2 THEN {RejectOf(in[2])} ELSE {}) :
                      Input(frame, alloc, TRUE, <<[cid |-> cid, in |-> in, cap |-> cap, reply |-> rep]>>,
                            IF rep = <<>> THEN <<>> ELSE <<Frame(cid, rep)>>)

\* pending frames in a canonical order (stub channels by CID, the signaling request last), first k of them
RECURSIVE Flatten(_, _)
Flatten(q, cs) == IF cs = {} THEN <<>>
                  ELSE LET c == CHOOSE x \in cs : \A y \in cs : x <= y
                       IN  [i \in 1 .. Len(q[c]) |-> Frame(c, q[c][i])] \o Flatten(q, cs \ {c})
Pending == Flatten(outq, StubCids) \o (IF pend = "queued" THEN <<Frame(SigCid, RequestCmd(ident, params))>> ELSE <<>>)
MCPump(nbuf, alloc) == LET eff == IF Avail(alloc) THEN nbuf ELSE 0
                           k   == IF Len(Pending) < eff THEN Len(Pending) ELSE eff
                       IN  Pump(nbuf, alloc, <<>>, SubSeq(Pending, 1, k))

Next == \/ \E f \in MCFrames, a \in MCAllocs, m \in 0 .. 2 : MCInput(f, a, m)
        \/ \E n \in 0 .. 2, a \in MCAllocs : MCPump(n, a)
        \/ \E r \in BOOLEAN : Request(<<6, 12, 0, 100>>, r)
        \/ \E c \in StubCids, d \in MCData : Len(outq[c]) < 1 /\ Queue(c, d)
        \/ \E c \in MCCmds : \E rep \in {<<>>} \cup (IF Len(c) >= 2 THEN {RejectOf(c[2])} ELSE {}) : SigIn(c, 23, rep)
        \/ \E o \in {<<>>, RequestCmd(ident, params)} : SigOut(23, o)
        \* responses relative to the current identifier: matching, next identifier, previous identifier
        \/ \E id \in {ident, NextIdent(ident), IF ident = 1 THEN 255 ELSE ident - 1} :
              \/ \E rep \in {<<>>, RejectOf(id)} : SigIn(<<CpuResponse, id, 2, 0, 0, 0>>, 23, rep)
              \/ MCInput(Frame(SigCid, <<CpuResponse, id, 2, 0, 0, 0>>), MaxMtu + 4, 0)

Spec == Init /\ [][Next]_vars

(* ---------------------------------- the listed property --------------------------------- *)
IsInput == obs.k = "input"
\* (obs is hidden by the VIEW during model checking, so the properties are stated on every step: [][P']_vars)
\* delivered to exactly the channel the CID names, only if the length field matches
DeliveredRightP == IsInput /\ obs.calls # <<>> =>
                    /\ Len(obs.calls) = 1 /\ HdrOK(obs.frame)
                    /\ obs.calls[1].cid = CidOf(obs.frame) /\ CidOf(obs.frame) \in Cids
                    /\ obs.calls[1].in = PayloadOf(obs.frame)
\* frames for unknown CIDs and malformed frames are dropped
DroppedP        == IsInput /\ ~(HdrOK(obs.frame) /\ CidOf(obs.frame) \in Cids) => obs.calls = <<>> /\ obs.outs = <<>>
\* replies use the same CID, a consistent length field and fit the allocated buffer
ReplyRightP     == IsInput => \A i \in 1 .. Len(obs.outs) :
                    /\ HdrOK(obs.outs[i]) /\ CidOf(obs.outs[i]) = CidOf(obs.frame)
                    /\ Len(obs.outs[i]) <= obs.alloc /\ Avail(obs.alloc)
\* no buffer: not consumed, no effect
NoBufferP       == IsInput /\ ~obs.r => obs.calls = <<>> /\ obs.outs = <<>> /\ ~Avail(obs.alloc)
PumpRightP      == obs.k = "pump" => \A i \in 1 .. Len(obs.outs) : HdrOK(obs.outs[i]) /\ Len(obs.outs[i]) <= obs.alloc
DeliveredRight   == [][DeliveredRightP']_vars
Dropped          == [][DroppedP']_vars
ReplyRight       == [][ReplyRightP']_vars
NoBuffer         == [][NoBufferP']_vars
PumpRight        == [][PumpRightP']_vars
NoBufferNoChange == [][(obs'.k = "input" /\ ~obs'.r) => UNCHANGED <<svars, outq>>]_vars

\* everything the signaling channel ever sends
SigSent == IF obs.k = "sigin" THEN (IF obs.reply = <<>> THEN {} ELSE {obs.reply})
           ELSE IF obs.k = "sigout" THEN (IF obs.out = <<>> THEN {} ELSE {obs.out})
           ELSE IF obs.k \in {"input", "pump"} THEN {PayloadOf(obs.outs[i]) : i \in {j \in 1 .. Len(obs.outs) : CidOf(obs.outs[j]) = SigCid}}
           ELSE {}
SigCmdIn == IF obs.k = "sigin" THEN obs.cmd ELSE IF IsInput /\ obs.calls # <<>> /\ CidOf(obs.frame) = SigCid THEN obs.calls[1].in ELSE <<>>
NonZeroIdentP   == \A s \in SigSent : Len(s) >= 4 /\ s[2] # 0 /\ WellFormed(s)
RejectEchoesP   == \A s \in SigSent : s[1] = CmdReject => (HasIdent(SigCmdIn) /\ s = RejectOf(SigCmdIn[2]))
OnlyRejectOrRequestP == \A s \in SigSent : s[1] \in {CmdReject, CpuRequest}
NonZeroIdent        == [][NonZeroIdentP']_vars
RejectEchoes        == [][RejectEchoesP']_vars
OnlyRejectOrRequest == [][OnlyRejectOrRequestP']_vars
\* a queued request is emitted exactly once: emission <=> the step queued -> transmitted
EmitOnce       == [][((\E s \in SigSent' : s[1] = CpuRequest) <=> (pend = "queued" /\ pend' = "transmitted"))
                     /\ (pend = "queued" => pend' \in {"queued", "transmitted"})
                     /\ (\A s \in SigSent' : s[1] = CpuRequest => s = RequestCmd(ident, params))]_vars
\* only a matching response (or the peer's Command Reject for this request) completes; identifiers advance per completion
OnlyMatching   == [][(pend = "transmitted" /\ pend' # "transmitted") =>
                        (pend' = "idle" /\ (Matching(SigCmdIn') \/ PeerReject(SigCmdIn')))]_vars
IdentAdvance   == [][(ident' # ident \/ (pend = "transmitted" /\ pend' = "idle")) =>
                        (pend = "transmitted" /\ pend' = "idle" /\ ident' = NextIdent(ident) /\ ident' # 0)]_vars
RequestRule    == [][(pend = "idle" /\ pend' # "idle") => (pend' = "queued" /\ obs'.k = "req" /\ obs'.r)]_vars

\* model checking: obs is an output, not state
MCView  == <<pend, ident, params, outq>>
MCInit  == Init \/ (/\ pend = "idle" /\ ident = 253 /\ params = <<0, 0, 0, 0>> /\ outq = [c \in StubCids |-> <<>>] /\ obs = [k |-> "init"])
MCBound == ident \in {1, 2, 253, 254, 255}

(* ---------------------------------- model checking universe ----------------------------- *)
MCCmdU == {<<>>, <<19>>, <<19, 1>>, <<19, 1, 2, 0>>, <<19, 1, 2, 0, 0, 0>>, <<19, 2, 2, 0, 0, 0>>, <<19, 255, 2, 0, 0, 0>>,
           <<19, 0, 2, 0, 0, 0>>, <<19, 1, 2, 0, 0, 0, 0>>, <<19, 1, 3, 0, 0, 0>>, <<19, 1, 1, 0, 0>>,
           <<1, 1, 2, 0, 0, 0>>, <<1, 9, 2, 0, 0, 0>>, <<1, 0, 2, 0, 0, 0>>, <<1, 1>>,
           <<18, 3, 8, 0, 6, 0, 6, 0, 0, 0, 100, 0>>, <<18, 0, 8, 0, 6, 0, 6, 0, 0, 0, 100, 0>>, <<20, 7, 0, 0>>, <<20, 7, 1, 0>>,
           <<20, 7>>, <<20>>, <<10, 255, 2, 0, 1, 0>>}
MCFrameU == {Frame(SigCid, c) : c \in MCCmdU}
            \cup {Frame(c, p) : c \in StubCids \cup {7, 64}, p \in {<<>>, <<9>>, <<1, 2, 3>>}}
            \cup {<<>>, <<1>>, <<0, 0, 4>>, <<1, 0, 4, 0>>, <<0, 0, 4, 0, 7>>, <<2, 0, 4, 0, 7>>, <<255, 255, 4, 0, 7>>,
                  <<3, 0, 5, 0, 20, 7>>, <<1, 0, 5, 0, 20, 7>>, <<255, 255, 5, 0, 20, 7>>}
MCFrameS == {Frame(SigCid, c) : c \in {<<19>>, <<19, 1, 2, 0, 0, 0>>, <<19, 0, 2, 0, 0, 0>>, <<1, 1, 2, 0, 0, 0>>, <<20, 7, 0, 0>>, <<20, 0, 0, 0>>}}
            \cup {Frame(4, <<9>>), Frame(7, <<9>>), <<1>>, <<2, 0, 4, 0, 7>>}
MCAllocU == {0, MaxMtu - 1, MaxMtu + 4, MaxMtu + 20}
MCAllocS == {0, MaxMtu + 4}
MCDataU  == {<<7>>, <<8, 9>>}
=============================================================================
