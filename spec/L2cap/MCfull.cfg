CONSTANTS StubCids = {4}  SigCid = 5  MaxMtu = 23
CONSTANTS MCFrames <- MCFrameS  MCCmds <- MCCmdU  MCAllocs <- MCAllocS  MCData <- MCDataU
INIT Init
NEXT Next
VIEW MCView
INVARIANTS TypeOK
PROPERTIES DeliveredRight Dropped ReplyRight NoBuffer PumpRight NoBufferNoChange NonZeroIdent RejectEchoes OnlyRejectOrRequest EmitOnce OnlyMatching IdentAdvance RequestRule
