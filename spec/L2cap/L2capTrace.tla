----------------------------- MODULE L2capTrace -----------------------------
(* Trace validation for C31: every recorded call of the real l2cap<> multiplexer / signaling   *)
(* channel must be a step of L2cap.  Events (one JSON object per line):                        *)
(*   {"e":"Reset","maxmtu":maximum_mtu_size of the instance (0 in sig mode)}                  *)
(*   {"e":"Req","p":[imin,imax,latency,timeout],"r":bool, <obs>}                              *)
(*  signaling channel alone (harness mode sig)                                                *)
(*   {"e":"SigIn","cmd":[..],"cap":k,"reply":[..],"n":out_size, <obs>}                        *)
(*   {"e":"SigOut","cap":k,"out":[..],"n":out_size, <obs>}                                    *)
(*  multiplexer with stub channels 4, 6 and the real signaling channel 5 (harness mode mux)   *)
(*   {"e":"Input","frame":[..],"alloc":k,"rmode":m,"r":bool,                                  *)
(*        "calls":[{"cid":c,"in":[..],"cap":k,"reply":[..]}],"outs":[[frame]..], <obs>}       *)
(*   {"e":"Pump","nbuf":k,"alloc":k,"caps":[..],"outs":[[frame]..], <obs>}                    *)
(*   {"e":"Queue","cid":c,"data":[..], <obs>}                                                 *)
(*   <obs> = "st": state of the signaling channel as observed through its public interface on *)
(*           a copy ("idle" accepts a request, "queued" emits one now, else "transmitted"),   *)
(*           "id": identifier the copy would use for its next request (-1: not observable)    *)
EXTENDS L2cap, Json, IOUtils, TLC

Tr == ndJsonDeserialize(IOEnv.TRACE)

VARIABLE l
tvars == <<vars, l>>

Ev == Tr[l]

ObsOK(ev) == ev.st = pend' /\ (ev.id = -1 \/ ev.id = ident')

Explain(ev) ==
    \/ /\ ev.e = "Reset" /\ ev.maxmtu \in {0, MaxMtu}
       /\ pend' = "idle" /\ ident' = 1 /\ params' = <<0, 0, 0, 0>> /\ outq' = [c \in StubCids |-> <<>>] /\ obs' = [k |-> "init"]
    \/ ev.e = "Req"    /\ Request(ev.p, ev.r) /\ ObsOK(ev)
    \/ ev.e = "SigIn"  /\ ev.n = Len(ev.reply) /\ SigIn(ev.cmd, ev.cap, ev.reply) /\ ObsOK(ev)
    \/ ev.e = "SigOut" /\ ev.n = Len(ev.out) /\ SigOut(ev.cap, ev.out) /\ ObsOK(ev)
    \/ ev.e = "Input"  /\ Input(ev.frame, ev.alloc, ev.r, ev.calls, ev.outs) /\ ObsOK(ev)
    \/ ev.e = "Pump"   /\ Pump(ev.nbuf, ev.alloc, ev.caps, ev.outs) /\ ObsOK(ev)
    \/ ev.e = "Queue"  /\ Queue(ev.cid, ev.data) /\ ObsOK(ev)

Resets == {i \in 1..Len(Tr) : Tr[i].e = "Reset"}
NextReset(i) == IF \E j \in Resets : j > i
                THEN CHOOSE j \in Resets : j > i /\ \A k \in Resets : k > i => j <= k
                ELSE Len(Tr) + 1

TInit == Init /\ l = 1

TNext ==
    \/ /\ l <= Len(Tr)
       /\ IF ENABLED Explain(Ev)
          THEN Explain(Ev) /\ l' = l + 1
          ELSE PrintT(<<"MISMATCH", l>>) /\ l' = NextReset(l) /\ UNCHANGED vars
    \/ /\ l = Len(Tr) + 1
       /\ PrintT(<<"TRACE_DONE", Len(Tr)>>)
       /\ l' = l + 1 /\ UNCHANGED vars

TSpec == TInit /\ [][TNext]_tvars
=============================================================================
