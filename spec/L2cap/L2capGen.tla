------------------------------ MODULE L2capGen ------------------------------
(* Behaviour generator for C31.  Mode "sig": command sequences for the signaling channel alone;  *)
(* mode "mux": frames / pump / request sequences for the multiplexer; mode "wrap": the cycle      *)
(* request - emit - matching response repeated until the identifier wrapped 255 -> 1.             *)
(* A behaviour starts from one of the prefixes <<>>, <<req>>, <<req, emit>> (signaling channel    *)
(* idle / queued / transmitted) followed by K further operations: BFS enumerates all of them,     *)
(* -simulate produces random long ones.  Commands that depend on the identifier (matching /       *)
(* stale / wrong identifier responses) are built from the identifier of the *specification* state.*)
EXTENDS L2cap, TLC, Json

CONSTANTS Mode, K,
          GAllocs, GRmodes, GLens      \* mux mode: buffer sizes offered, stub reply modes, total frame lengths

VARIABLES hist, left
gvars == <<vars, hist, left>>

Do(op) == hist' = Append(hist, op) /\ left' = left - 1

P0 == <<6, 12, 0, 100>>
Other(id) == NextIdent(NextIdent(id))
Prev(id)  == IF id = 1 THEN 255 ELSE id - 1

\* the command alphabet of the signaling channel, relative to the current identifier
SigCmds == {
    <<CpuResponse, ident, 2, 0, 0, 0>>,                 \* matching response
    <<CpuResponse, Other(ident), 2, 0, 0, 0>>,          \* response with a wrong identifier
    <<CpuResponse, Prev(ident), 2, 0, 1, 0>>,           \* stale response (identifier of the previous request)
    <<CpuResponse, 0, 2, 0, 0, 0>>,                     \* response with identifier 0
    <<CpuResponse>>, <<CpuResponse, ident>>,            \* truncated responses
    <<CpuResponse, ident, 0, 0>>,                       \* response without result
    <<CpuResponse, ident, 3, 0, 0, 0, 0>>,              \* response that is too long
    <<CpuResponse, ident, 2, 0, 0, 0, 0>>,              \* length field does not match
    <<CmdReject, ident, 2, 0, 0, 0>>,                   \* the peer rejects our request
    <<CmdReject, Other(ident), 2, 0, 0, 0>>,            \* a reject for something else
    <<CpuRequest, 3, 8, 0, 6, 0, 6, 0, 0, 0, 100, 0>>,  \* a request a peripheral must reject
    <<20, 7, 0, 0>>, <<10, 255, 2, 0, 1, 0>>,           \* other / unknown commands
    <<20, 0, 0, 0>>,                                    \* unknown command with identifier 0
    <<20, 7, 5, 0>>,                                    \* unknown command, inconsistent length
    <<20, 7>>, <<20>>, <<>> }                           \* too short for a header

Replies(c) == {<<>>} \cup (IF Len(c) >= 2 THEN {RejectOf(c[2])} ELSE {})

\* mux mode: frames with total length n, length field in {0, n-5, n-4, n-3, 65535}, CIDs {4, 5, 6, 7, 0x40}
Body(k)    == [i \in 1 .. k |-> 20 + i]
Raw(n, lf, cid) == SubSeq(<<Lo(lf), Hi(lf), Lo(cid), Hi(cid)>> \o Body(IF n > 4 THEN n - 4 ELSE 0), 1, n)
LenFields(n) == {lf \in {0, n - 5, n - 4, n - 3, 65535} : lf >= 0}
GFrames == {Raw(n, lf, cid) : n \in GLens, lf \in UNION {LenFields(m) : m \in GLens}, cid \in {4, 5, 6, 7, 64}}
MuxFrames == {f \in GFrames : Len(f) < 2 \/ U16(f[1], f[2]) \in LenFields(Len(f))} \cup {Frame(SigCid, c) : c \in SigCmds}

GInit == /\ Init
         /\ hist = <<>> /\ left = K + 2

Prefix == \* first two steps: choose the state of the signaling channel the K operations start from
    \/ left = K + 2 /\ UNCHANGED vars /\ hist' = hist /\ left' = K                           \* idle
    \/ left = K + 2 /\ Request(P0, TRUE) /\ hist' = <<<<"req">> \o P0>> /\ left' = K + 1
    \/ left = K + 1 /\ UNCHANGED vars /\ hist' = hist /\ left' = K                           \* queued
    \/ /\ left = K + 1 /\ Mode # "mux" /\ SigOut(23, RequestCmd(ident, params))
       /\ hist' = Append(hist, <<"sigout", 23>>) /\ left' = K                                \* transmitted
    \/ /\ left = K + 1 /\ Mode = "mux" /\ MCPump(1, MaxMtu + 4)
       /\ hist' = Append(hist, <<"pump", 1, MaxMtu + 4>>) /\ left' = K

SigOps ==
    \/ \E r \in BOOLEAN : Request(P0, r) /\ Do(<<"req">> \o P0)
    \/ \E o \in {<<>>, RequestCmd(ident, params)} : SigOut(23, o) /\ Do(<<"sigout", 23>>)
    \/ \E c \in SigCmds : \E rep \in Replies(c) : SigIn(c, 23, rep) /\ Do(<<"sigin", 23>> \o c)

MuxOps ==
    \/ \E r \in BOOLEAN : Request(P0, r) /\ Do(<<"req">> \o P0)
    \/ \E f \in MuxFrames, a \in GAllocs, m \in GRmodes : MCInput(f, a, m) /\ Do(<<"input", a, m>> \o f)
    \/ \E n \in 0 .. 3, a \in GAllocs : MCPump(n, a) /\ Do(<<"pump", n, a>>)
    \/ \E c \in StubCids, k \in {1, 23} : Len(outq[c]) < 2 /\ Queue(c, [i \in 1 .. k |-> (128 + c * 8 + (i - 1)) % 256]) /\ Do(<<"queue", c, k>>)

WrapOps ==
    \/ pend = "idle" /\ Request(P0, TRUE) /\ Do(<<"req">> \o P0)
    \/ pend = "queued" /\ SigOut(23, RequestCmd(ident, params)) /\ Do(<<"sigout", 23>>)
    \/ pend = "transmitted" /\ SigIn(<<CpuResponse, ident, 2, 0, 0, 0>>, 23, <<>>) /\ Do(<<"sigin", 23, CpuResponse, ident, 2, 0, 0, 0>>)

GNext == \/ left > K /\ Mode # "wrap" /\ Prefix
         \/ left > K /\ Mode = "wrap" /\ UNCHANGED vars /\ hist' = hist /\ left' = K
         \/ /\ left <= K /\ left > 0
            /\ \/ Mode = "sig" /\ SigOps
               \/ Mode = "mux" /\ MuxOps
               \/ Mode = "wrap" /\ WrapOps

GSpec == GInit /\ [][GNext]_gvars

Emit == left = 0 => PrintT(<<"BEHAVIOUR", ToJson(hist)>>)
=============================================================================
