CONSTANTS StubCids = {4, 6}  SigCid = 5  MaxMtu = 65
CONSTANTS MCFrames = {}  MCCmds = {}  MCAllocs = {}  MCData = {}
CONSTANTS Mode = "sig"  K = 2  GAllocs = {0, 65, 69}  GRmodes = {1, 2}  GLens = {0, 3, 4, 5, 10}
SPECIFICATION GSpec
INVARIANTS Emit
CHECK_DEADLOCK FALSE
