CONSTANTS StubCids = {4, 6}  SigCid = 5  MaxMtu = 23
CONSTANTS MCFrames <- MCFrameU  MCCmds <- MCCmdU  MCAllocs <- MCAllocU  MCData <- MCDataU
INIT MCInit
NEXT Next
VIEW MCView
CONSTRAINT MCBound
INVARIANTS TypeOK
PROPERTIES DeliveredRight Dropped ReplyRight NoBuffer PumpRight NoBufferNoChange NonZeroIdent RejectEchoes OnlyRejectOrRequest EmitOnce OnlyMatching IdentAdvance RequestRule
