---------------------------- MODULE AttValuesGen ----------------------------
(* Behaviour generator for C06 / C08 / C09: all sequences of D abstract operations (BFS) or   *)
(* random ones (-simulate) over the model declaration IOEnv.DECL (spec/Att/decls/att_small,   *)
(* att_small_mtu).  Every step is a step of AttValues (the canonical outcome is taken), so    *)
(* the generator walks the model's state space; each leaf prints <<"BEHAVIOUR", json>>.       *)
(*                                                                                          *)
(* Operations are abstract so that checks/att_values.py can scale them onto the real servers: *)
(* a characteristic is named by its position k in the model declaration (0 = no such handle), *)
(* a CCCD by the position i of its characteristic, offsets / lengths by position codes        *)
(* relative to the size n of the addressed value:  0 -> 0, 1 -> min(1,n), 2 -> max(n-1,0),    *)
(* 3 -> n, 4 -> n+1.  The python side encodes the same operation for a real characteristic;   *)
(* PduOf below encodes it for the model.                                                      *)
(*   <<"rd", c, k>>  <<"decl", c, k>>  <<"blob", c, k, offcode>>  <<"multi", c, k1, k2>>  <<"rbt", c, k>>  *)
(*   <<"wr"|"wc", c, k, lencode, fill>>  <<"prep", c, k, offcode, lencode, fill>>  <<"exec", c, flag>>      *)
(*   <<"mtu", c, value>>  <<"badmtu", c, pdu length>>                                         *)
(*   <<"cw"|"cc", c, i, valuecode>> (CCCD write request / command)  <<"cr", c, i>>  <<"cb", c, i, off>>    *)
(*   <<"disc", c>>                                                                            *)
EXTENDS AttValues, Json, IOUtils

CONSTANTS Mode,    \* "C06" | "C08" | "C09"
          D,       \* length of the behaviours
          Level    \* 1 = reduced operation alphabet (quick tier), 2 = full

Decl == ndJsonDeserialize(IOEnv.DECL)[1]
Tab  == T            \* the table of the current state (built once by GInit; TLC does not cache Build(Decl))

VARIABLE hist
gvars == <<vars, hist>>

\* ---------------------------------------------------------------------------- model characteristics
ValIdx == SelectSeq([i \in 1..Len(Tab) |-> i], LAMBDA i : Tab[i].kind = "value")
NChars == Len(ValIdx)
VHandle(k) == IF k \in 1..NChars THEN Tab[ValIdx[k]].h ELSE MaxHandle(Tab) + 7
DHandle(k) == VHandle(k) - 1                                \* characteristic declaration
CHandle(i) == VHandle(i) + 1                                \* its CCCD (every model characteristic of att_small has one)
SizeK(k)   == IF k \in 1..NChars THEN Len(Tab[ValIdx[k]].val) ELSE 1
UuidK(k)   == Tab[ValIdx[k]].type
Pos(code, n) == CASE code = 0 -> 0 [] code = 1 -> Min(1, n) [] code = 2 -> Max(n - 1, 0) [] code = 3 -> n [] code = 4 -> n + 1
Fill(len, f) == [i \in 1..len |-> ((i + f) % 2) + 1]        \* octets 1 / 2 alternating, phase f
CccdValue(v) == CASE v = 0 -> <<>> [] v = 1 -> <<0>> [] v = 2 -> <<1>> [] v = 3 -> <<2>> [] v = 4 -> <<3>> [] v = 5 -> <<4>>
                  [] v = 6 -> <<255>> [] v = 7 -> <<0, 0>> [] v = 8 -> <<1, 0>> [] v = 9 -> <<2, 0>> [] v = 10 -> <<3, 0>>
                  [] v = 11 -> <<0, 1>> [] v = 12 -> <<253, 255>> [] v = 13 -> <<7, 0>> [] v = 14 -> <<1, 0, 0>>

PduOf(op) ==
    CASE op[1] = "rd"    -> <<OpRead>> \o LE16(VHandle(op[3]))
      [] op[1] = "decl"  -> <<OpRead>> \o LE16(DHandle(op[3]))
      [] op[1] = "blob"  -> <<OpReadBlob>> \o LE16(VHandle(op[3])) \o LE16(Pos(op[4], SizeK(op[3])))
      [] op[1] = "multi" -> <<OpReadMultiple>> \o LE16(VHandle(op[3])) \o LE16(VHandle(op[4]))
      [] op[1] = "rbt"   -> <<OpReadByType, 1, 0, 255, 255>> \o UuidK(op[3])
      [] op[1] = "wr"    -> <<OpWrite>> \o LE16(VHandle(op[3])) \o Fill(Pos(op[4], SizeK(op[3])), op[5])
      [] op[1] = "wc"    -> <<OpWriteCmd>> \o LE16(VHandle(op[3])) \o Fill(Pos(op[4], SizeK(op[3])), op[5])
      [] op[1] = "prep"  -> <<OpPrepare>> \o LE16(VHandle(op[3])) \o LE16(Pos(op[4], SizeK(op[3]))) \o Fill(Pos(op[5], SizeK(op[3])), op[6])
      [] op[1] = "exec"  -> <<OpExecute, op[3]>>
      [] op[1] = "mtu"   -> <<OpMtuReq>> \o LE16(op[3])
      [] op[1] = "badmtu" -> SubSeq(<<OpMtuReq, 48, 0, 0>>, 1, op[3])
      [] op[1] = "cw"    -> <<OpWrite>> \o LE16(CHandle(op[3])) \o CccdValue(op[4])
      [] op[1] = "cc"    -> <<OpWriteCmd>> \o LE16(CHandle(op[3])) \o CccdValue(op[4])
      [] op[1] = "cr"    -> <<OpRead>> \o LE16(CHandle(op[3]))
      [] op[1] = "cb"    -> <<OpReadBlob>> \o LE16(CHandle(op[3])) \o LE16(op[4])

\* ---------------------------------------------------------------------------- operation alphabets
Codes  == 0..4
Fills  == IF Level >= 2 THEN {0, 1} ELSE {0}
RW     == {k \in 1..NChars : Tab[ValIdx[k]].wr}              \* writable model characteristics
OpsC06 ==
       {<<"rd", c, k>> : c \in {0, 1}, k \in 0..NChars}
  \cup {<<"decl", 0, k>> : k \in 1..NChars}
  \cup {<<"blob", 0, k, o>> : k \in 1..NChars, o \in {0, 3, 4}}
  \cup {<<"multi", 0, 1, 2>>, <<"multi", 0, 2, 3>>, <<"multi", 0, 3, 0>>}
  \cup {<<"rbt", 0, k>> : k \in 2..NChars}
  \cup {<<"wr", 0, k, l, f>> : k \in RW, l \in Codes, f \in Fills}
  \cup {<<"wr", 0, k, 1, 0>> : k \in 0..NChars}
  \cup {<<"wc", 0, k, l, 1>> : k \in RW, l \in {3, 4}}
  \cup {<<"wc", 0, k, 1, 1>> : k \in 0..NChars}
  \cup {<<"prep", 0, k, o, l, 1>> : k \in RW, o \in {0, 2, 4}, l \in {1, 3}}
  \cup {<<"prep", c, k, 0, 1, 0>> : c \in {0, 1}, k \in 0..NChars}
  \cup {<<"exec", c, f>> : c \in {0, 1}, f \in {0, 1}}
OpsC08 ==
       {<<"mtu", c, m>> : c \in (IF Level >= 2 THEN {0, 1} ELSE {0}), m \in {0, 22, 23, 24, 47, 48, 65, 300, 65535}}
  \cup {<<"badmtu", 0, n>> : n \in {1, 2, 4}}
  \cup {<<"disc", 0>>}
CWValues == IF Level >= 2 THEN 0..14 ELSE {0, 2, 4, 6, 8, 10, 12, 14}
OpsC09 ==
       {<<"cw", c, i, v>> : c \in {0, 1}, i \in (IF Level >= 2 THEN 1..3 ELSE 1..2), v \in CWValues}
  \cup (IF Level >= 2 THEN {<<"cc", c, i, v>> : c \in {0, 1}, i \in 1..2, v \in {4, 7, 9, 14}} ELSE {<<"cc", 0, 1, 9>>, <<"cc", 1, 2, 7>>})
  \cup {<<"cr", 0, 1>>, <<"cb", 0, 1, 1>>, <<"cb", 1, 2, 3>>, <<"disc", 1>>}
Ops == CASE Mode = "C06" -> OpsC06 [] Mode = "C08" -> OpsC08 [] Mode = "C09" -> OpsC09

\* ---------------------------------------------------------------------------- behaviour
\* one representative of the allowed outcomes: the accepting one where the request may be accepted
Canon(c, in) == LET os == Outcomes(c, in) IN
                IF \E r \in os : r.pat.k = "bytes" THEN CHOOSE r \in os : r.pat.k = "bytes" ELSE CHOOSE r \in os : TRUE

GInit == InitFor(Decl) /\ hist = <<>>

GNext ==
    /\ Len(hist) < D
    /\ \E op \in Ops :
          /\ hist' = Append(hist, op)
          /\ IF op[1] = "disc" THEN Disconnect(op[2] + 1) ELSE Becomes(Canon(op[2] + 1, PduOf(op)))

GSpec == GInit /\ [][GNext]_gvars

\* printed at every leaf (state at depth D); always TRUE
Emit == Len(hist) = D => PrintT(<<"BEHAVIOUR", ToJson(hist)>>)
=============================================================================
