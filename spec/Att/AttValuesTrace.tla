--------------------------- MODULE AttValuesTrace ---------------------------
(* Trace validation: every recorded call of harness/att/att_harness.cpp on a real Bluetoe   *)
(* server must be a step of AttValues (C06, C08, C09).                                      *)
(*   {"e":"Reset","decl":<normalized declaration>,"smtu":n,"ncccd":k}   first Reset of a trace *)
(*   {"e":"Reset","again":true,"smtu":n,"ncccd":k}                       every later one        *)
(*   {"e":"Req","c":c,"in":[..],"out":[..], <obs>}      any ATT PDU                          *)
(*   {"e":"Notify","serial":s,"ind":b,"r":0|1, <obs>}   server.notify / indicate              *)
(*   {"e":"Out","c":c,"out":[..],"n":k, <obs>}          server.l2cap_output                   *)
(*   {"e":"Disc","c":c, <obs>}                          client_disconnected + new connection  *)
(*   <obs> = "mtu":[negotiated MTU per connection], "vals":[[serial,[bytes]],..] (memory of   *)
(*           the bound / const / handler values), "cccd":[[low octet of every CCCD in handle  *)
(*           order, read back on that connection],..], "cb": subscription callbacks in the call*)
(* The observation logged with an event must equal the projection of the state after the     *)
(* step.  For an event the specification cannot explain TLC prints <<"MISMATCH", l>> and      *)
(* <<"WHY", l, name, context, tags>> (material for the finding signature).                    *)
EXTENDS AttValues, Json, IOUtils

Tr == TLCGet(7)          \* = TrFile, see TInit

VARIABLE l
tvars == <<vars, l>>
Ev == Tr[l]

\* ---------------------------------------------------------------------------- observations
\* the logged observation equals the projection of the state (v: value store, cc: configurations, mc: client MTUs)
ValsObs(ev, v)  == \A i \in 1..Len(ev.vals) : v[cfg.serh[ev.vals[i][1]]] = ev.vals[i][2]
CccdObs(ev, cc) == \A c \in Conns : ev.cccd[c] = [i \in 1..Len(cfg.cccdh) |-> cc[c][cfg.cccdh[i]]]
MtuObs(ev, mc)  == ev.mtu = [c \in Conns |-> Min(cfg.smax, mc[c])]
ObsOK(ev, s) == ValsObs(ev, s.value) /\ CccdObs(ev, s.cccd) /\ MtuObs(ev, s.mtuc)

NoEncryption(t) == \A i \in 1..Len(t) : ~t[i].enc
Here == [cfg |-> cfg, value |-> value, mtuc |-> mtuc, cccd |-> cccd, wq |-> wq]

\* the set of states the logged event may lead to ({} = the specification cannot explain the event); for a request these
\* are the outcomes r of AttValues!Outcomes with  Request(c, in, out, cb)  whose next state shows the logged observation
After(ev) ==
    CASE ev.e = "Reset" ->
            \* (the table of a declaration is built once: a Reset with the declaration of the current state reuses it)
            \* every Reset after the first one of a trace carries "again" instead of the declaration: the same server, new objects
            {s \in (IF "again" \in DOMAIN ev THEN (IF cfg.d = <<>> THEN {} ELSE {StateOf(cfg)})
                    ELSE IF ev.decl = cfg.d THEN {StateOf(cfg)} ELSE IF WellFormed(ev.decl) THEN {InitState(ev.decl)} ELSE {}) :
                /\ NoEncryption(s.cfg.t)                       \* link security is C05's subject
                /\ ev.smtu = s.cfg.smax /\ ev.ncccd = Len(s.cfg.cccdh)}
      [] ev.e = "Req" ->
            {[Here EXCEPT !.value = r.value, !.mtuc = r.mtuc, !.cccd = r.cccd, !.wq = r.wq] :
                r \in {q \in Outcomes(ev.c + 1, ev.in) : PatMatches(q.pat, ev.c + 1, ev.in, ev.out) /\ q.cb = ev.cb /\ ObsOK(ev, q)}}
      [] ev.e = "Out" ->
            IF OutputOK(ev.c + 1, ev.out) /\ ev.n = Len(ev.out) /\ ev.cb = 0 /\ ObsOK(ev, Here) THEN {Here} ELSE {}
      [] ev.e = "Notify" ->
            IF ev.cb = 0 /\ ObsOK(ev, Here) THEN {Here} ELSE {}
      [] ev.e = "Disc" ->
            {s \in {[Here EXCEPT !.mtuc = [mtuc EXCEPT ![ev.c + 1] = 23],
                                 !.cccd = [cccd EXCEPT ![ev.c + 1] = [h \in DOMAIN cccd[ev.c + 1] |-> 0]],
                                 !.wq = IF wq.owner = ev.c + 1 THEN EmptyQ ELSE wq]} : ev.cb = 0 /\ ObsOK(ev, s)}
      [] OTHER -> {}

Goto(s) == cfg' = s.cfg /\ value' = s.value /\ mtuc' = s.mtuc /\ cccd' = s.cccd /\ wq' = s.wq
\* the same as a relation between state and next state
Explain(ev) ==
    \/ ev.e = "Reset"  /\ \E s \in After(ev) : Goto(s)
    \/ ev.e = "Req"    /\ Request(ev.c + 1, ev.in, ev.out, ev.cb) /\ ObsOK(ev, [value |-> value', cccd |-> cccd', mtuc |-> mtuc'])
    \/ ev.e = "Out"    /\ Output(ev.c + 1, ev.out) /\ After(ev) # {}
    \/ ev.e = "Notify" /\ UNCHANGED vars /\ After(ev) # {}
    \/ ev.e = "Disc"   /\ Disconnect(ev.c + 1) /\ After(ev) # {}

\* ---------------------------------------------------------------------------- diagnosis (signature material)
OpName(op) == CASE op = OpMtuReq -> "ExchangeMtu" [] op = OpRead -> "Read" [] op = OpReadBlob -> "ReadBlob"
                [] op = OpReadMultiple -> "ReadMultiple" [] op = OpReadByType -> "ReadByType" [] op = OpWrite -> "Write"
                [] op = OpWriteCmd -> "WriteCmd" [] op = OpPrepare -> "Prepare" [] op = OpExecute -> "Execute"
                [] op = OpConfirmation -> "Confirmation" [] OTHER -> "Op" \o ToString(op)
Perm(a) == (IF a.rd THEN "r" ELSE "-") \o (IF a.wr THEN "w" ELSE "-")
\* context of an attribute: <value kind + permission options> @ <effective permissions>
AttrClass(h) ==
    IF ~Has(h) THEN "none@--"
    ELSE LET a == AttrOf(h) IN
         IF a.kind = "value"
         THEN CharOf(a).vkind \o (IF CharOf(a).no_read THEN ":no_read" ELSE "") \o (IF CharOf(a).no_write THEN ":no_write" ELSE "") \o "@" \o Perm(a)
         ELSE a.kind \o "@" \o Perm(a)
HasHandle(in) == Len(in) >= 3 /\ in[1] \in {OpRead, OpReadBlob, OpWrite, OpWriteCmd, OpPrepare}
SizeClass(c, in) ==
    IF ~HasHandle(in) \/ ~Has(U16(in, 2)) THEN ""
    ELSE LET n == Len(CurVal(c, AttrOf(U16(in, 2)))) IN
         CASE in[1] \in {OpWrite, OpWriteCmd} -> ":len" \o (IF Len(in) - 3 > n THEN ">" ELSE IF Len(in) - 3 = n THEN "=" ELSE "<") \o "size"
           [] in[1] = OpReadBlob /\ Len(in) = 5 -> ":off" \o (IF U16(in, 4) > n THEN ">" ELSE IF U16(in, 4) = n THEN "=" ELSE "<") \o "size"
           [] OTHER -> ""
\* the attribute a multi-attribute request / response fails on
MultiHandles(in) == IF in[1] = OpReadMultiple /\ Len(in) >= 3 THEN [i \in 1..((Len(in) - 1) \div 2) |-> U16(in, 2 * i)] ELSE <<>>
Offending(c, in, out) ==
    IF in[1] = OpReadMultiple
    THEN LET hs == MultiHandles(in)  bad == {i \in 1..Len(hs) : ~Has(hs[i]) \/ ~AttrOf(hs[i]).rd} IN
         IF bad = {} THEN 0 ELSE hs[CHOOSE i \in bad : \A j \in bad : i <= j]
    ELSE IF in[1] = OpReadByType /\ RbtListed(out)
    THEN LET es == RbtEntries(out)  bad == {i \in 1..Len(es) : ~RbtEntryOK(c, in, es[i])} IN
         IF bad = {} THEN 0 ELSE U16(es[CHOOSE i \in bad : \A j \in bad : i <= j], 1)
    ELSE 0
RbtTags(c, in, out) ==
    IF in[1] # OpReadByType \/ ~RbtListed(out) THEN {}
    ELSE LET h == Offending(c, in, out) IN
         IF h = 0 THEN {"first_entry_size"}
         ELSE IF ~Has(h) THEN {"no_such_attribute"}
         ELSE IF ~AttrOf(h).rd THEN {"unreadable_reported"}
         ELSE IF ~TypeEq(AttrOf(h).type, Drop(in, 5)) THEN {"wrong_type"} ELSE {"value"}
GotClass(out) == IF out = <<>> THEN "none"
                 ELSE IF out[1] = OpError THEN "err" \o (IF Len(out) = 5 THEN ToString(out[5]) ELSE "?")
                 ELSE "rsp" \o ToString(out[1])
PatClass(p) == CASE p.k = "bytes" -> {IF p.b = <<>> THEN "none" ELSE "rsp" \o ToString(p.b[1])}
                 [] p.k = "err" -> {"err" \o ToString(e) : e \in p.codes}
                 [] OTHER -> {p.k}
\* which logged observations differ from outcome r
ObsDiff(ev, r) == (IF ~ValsObs(ev, r.value) THEN {"vals"} ELSE {}) \cup (IF ~CccdObs(ev, r.cccd) THEN {"cccd"} ELSE {})
                  \cup (IF ~MtuObs(ev, r.mtuc) THEN {"mtu"} ELSE {}) \cup (IF r.cb # ev.cb THEN {"cb=" \o ToString(ev.cb)} ELSE {})

WhyReq(ev) ==
    LET c  == ev.c + 1
        os == Outcomes(c, ev.in)
        m  == {r \in os : PatMatches(r.pat, c, ev.in, ev.out)}
        ctx == IF HasHandle(ev.in) THEN AttrClass(U16(ev.in, 2)) \o SizeClass(c, ev.in)
               ELSE IF Offending(c, ev.in, ev.out) # 0 THEN AttrClass(Offending(c, ev.in, ev.out)) ELSE "-@-"
    IN  <<OpName(ev.in[1]), ctx,
          (IF Len(ev.out) > Mtu(c) THEN {"len>mtu"} ELSE {}) \cup
          (IF m = {} THEN {"got=" \o GotClass(ev.out)} \cup {"exp=" \o x : x \in UNION {PatClass(r.pat) : r \in os}} \cup RbtTags(c, ev.in, ev.out)
           ELSE ObsDiff(ev, CHOOSE r \in m : \A q \in m : Cardinality(ObsDiff(ev, r)) <= Cardinality(ObsDiff(ev, q))))>>

WhyOut(ev) ==
    LET c == ev.c + 1  out == ev.out IN
    <<"Out", (IF out = <<>> THEN "none" ELSE IF out[1] = OpNotification THEN "ntf" ELSE IF out[1] = OpIndication THEN "ind" ELSE "other") \o "@-",
      (IF Len(out) > Mtu(c) \/ ev.n > Mtu(c) THEN {"len>mtu"} ELSE {}) \cup
      (IF ev.n # Len(out) THEN {"n>capacity"} ELSE {}) \cup
      (IF out # <<>> /\ (Len(out) < 3 \/ out[1] \notin {OpNotification, OpIndication}) THEN {"frame"}
       ELSE IF out # <<>> /\ (~Has(U16(out, 2)) \/ AttrOf(U16(out, 2)).kind # "value") THEN {"handle"}
       ELSE IF out # <<>> /\ Drop(out, 3) # Take(value[U16(out, 2)], Mtu(c) - 3)
            THEN {IF Len(out) <= Mtu(c) THEN "payload" ELSE "payload_not_cut"}
       ELSE {}) \cup
      (IF ev.cb # 0 THEN {"cb"} ELSE {})>>

Why(ev) ==
    CASE ev.e = "Req"   -> WhyReq(ev)
      [] ev.e = "Out"   -> WhyOut(ev)
      [] ev.e = "Reset" -> <<"Reset", "decl@-", {"declaration_not_in_scope"}>>
      [] OTHER          -> <<ev.e, "-@-", {"obs"}>>

\* requests that never change the state: a rejected one does not end the validation of the execution
StateNeutral(ev) ==
    \/ ev.e \in {"Out", "Notify"}
    \/ ev.e = "Req" /\ ev.in[1] \in {OpRead, OpReadBlob, OpReadMultiple, OpReadByType, 4, 6, 16}

\* ---------------------------------------------------------------------------- trace automaton (spec/README.md contract)
Resets == {i \in 1..Len(Tr) : Tr[i].e = "Reset"}
NextReset(i) == IF \E j \in Resets : j > i
                THEN CHOOSE j \in Resets : j > i /\ \A k \in Resets : k > i => j <= k
                ELSE Len(Tr) + 1

\* the parsed trace is kept in a TLC register (TLC would parse the file again at every use of the definition)
TrFile == ndJsonDeserialize(IOEnv.TRACE)

\* before the first Reset: no declaration
TInit == /\ cfg = [d |-> <<>>, t |-> <<>>, smax |-> 23, wqsize |-> 0, ix |-> <<>>, cccdh |-> <<>>, serh |-> <<>>]
         /\ value = <<>> /\ wq = EmptyQ /\ mtuc = [c \in Conns |-> 23] /\ cccd = [c \in Conns |-> <<>>]
         /\ l = 1 /\ TLCSet(7, TrFile)

\* deterministic fold (contract of spec/README.md: MISMATCH / resynchronisation / TRACE_DONE); After(Ev) is evaluated once
\* per event and plays the part of `ENABLED Explain(Ev)` / `Explain(Ev)`
TNext ==
    \/ /\ l <= Len(Tr)
       /\ \E ns \in {After(Ev)} :
             IF ns # {}
             THEN (\E s \in ns : Goto(s)) /\ l' = l + 1
             ELSE /\ PrintT(<<"MISMATCH", l>>) /\ PrintT(<<"WHY", l>> \o Why(Ev))
                  /\ l' = IF StateNeutral(Ev) THEN l + 1 ELSE NextReset(l)
                  /\ UNCHANGED vars
    \/ /\ l = Len(Tr) + 1
       /\ PrintT(<<"TRACE_DONE", Len(Tr)>>)
       /\ l' = l + 1 /\ UNCHANGED vars

TSpec == TInit /\ [][TNext]_tvars
=============================================================================
