CONSTANTS Mode = "C08"  Alphabet = {1, 2}  QMax = 1  NCccd = 2  NC = 2
SPECIFICATION MSpec
VIEW MView
INVARIANTS TypeOK MtuOK ProbesNeverChangeState C06_ReadsReturnCurrentValue C08_ResponsesFitMtu
PROPERTIES C08_MtuChangesOnlyByValidExchange C08_RejectedExchangeChangesNothing
CHECK_DEADLOCK FALSE
