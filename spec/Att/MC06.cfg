CONSTANTS Mode = "C06"  Alphabet = {1}  QMax = 1  NCccd = 2  NC = 1
SPECIFICATION MSpec
VIEW MView
CONSTRAINT QueueBound
INVARIANTS TypeOK MtuOK ProbesNeverChangeState C06_ReadsReturnCurrentValue C06_PermissionsEnforced C06_PropertiesMatchPermissions C08_ResponsesFitMtu C09_ReadBack
PROPERTIES C06_OnlyWritesChangeValues C06_WriteStoresPrefix C06_RejectedWriteChangesNothing C06_PrepareChangesNoValue C09_CallbackIffChange
CHECK_DEADLOCK FALSE
