----------------------------- MODULE AttValuesMC -----------------------------
(* Exhaustive exploration of AttValues on a small declaration (IOEnv.DECL = one normalized   *)
(* declaration as written by tools/gen_server.py; spec/Att/decls/att_small.json: values of   *)
(* 1 and 3 octets, a read-only value, three CCCDs;  att_small_mtu.json: a 60 octet value,    *)
(* server MTU 48).  TLC explores the complete reachable state space under every request of   *)
(* the input alphabet of the chosen property (Mode) that can change the state; requests that *)
(* never change the state (reads) are quantified over in state invariants instead of being   *)
(* steps.  `last` remembers the step taken (hidden from the state fingerprint by VIEW) so    *)
(* that the listed properties can be stated as action properties over (state, step, state').  *)
EXTENDS AttValues, Json, IOUtils

CONSTANTS Mode,     \* "C06" | "C08" | "C09"  - selects the input alphabet
          Alphabet, \* octets used in written values
          QMax,     \* bound on the number of prepared writes explored
          NCccd,    \* number of CCCDs written in mode C09 (the first NCccd of the declaration)
          NC        \* number of connections that send requests

Decl == ndJsonDeserialize(IOEnv.DECL)[1]

VARIABLE last       \* [c, in, pat, cb] of the step that led to this state (c = 0 initially; in = <<>> for Disconnect)
mvars == <<vars, last>>
MView == vars

\* ---------------------------------------------------------------------------- input alphabets
Tab == T     \* the table of the current state (built once by MInit; TLC would re-evaluate Build(Decl) at every use)
VH  == ValueHandles(Tab)
CH  == CccdHandles(Tab)
CHW == {h \in CH : Cardinality({g \in CH : g < h}) < NCccd}
MaxH == MaxHandle(Tab)
AllH == 0..(MaxH + 1)
Seqs(k) == UNION {[1..j -> Alphabet] : j \in 0..k}

RdReq(h)           == <<OpRead>> \o LE16(h)
BlobReq(h, off)    == <<OpReadBlob>> \o LE16(h) \o LE16(off)
WrReq(op, h, b)    == <<op>> \o LE16(h) \o b
PrepReq(h, off, b) == <<OpPrepare>> \o LE16(h) \o LE16(off) \o b
MtuReq(m)          == <<OpMtuReq>> \o LE16(m)
RbtReq(s, e, u)    == <<OpReadByType>> \o LE16(s) \o LE16(e) \o u
Uuids == {Tab[i].type : i \in 1..Len(Tab)}
CccdValues == {<<>>, <<0>>, <<1>>, <<2>>, <<3>>, <<4>>, <<255>>, <<0, 0>>, <<1, 0>>, <<2, 0>>, <<3, 0>>,
               <<0, 1>>, <<253, 255>>, <<7, 0>>, <<1, 0, 0>>}

\* requests that may change the state
Steps ==
    CASE Mode = "C06" ->
               {WrReq(op, h, b) : op \in {OpWrite, OpWriteCmd}, h \in VH, b \in Seqs(4)}
          \cup {WrReq(OpWrite, h, <<1>>) : h \in AllH \ CH}
          \cup {PrepReq(h, off, b) : h \in VH, off \in {0, 2, 4}, b \in {<<>>, <<1>>, <<2, 2>>}}
          \cup {<<OpExecute, f>> : f \in {0, 1, 2}}
          \cup {<<OpWrite, 1>>, <<OpWriteCmd>>, <<OpPrepare, 3, 0, 0>>}                          \* malformed
      [] Mode = "C08" ->
               {MtuReq(m) : m \in {0, 22, 23, 24, 47, 48, 65, 300, 65535}}
          \cup {<<OpMtuReq>>, <<OpMtuReq, 48>>, <<OpMtuReq, 48, 0, 0>>}
      [] Mode = "C09" ->
               {WrReq(op, h, b) : op \in {OpWrite, OpWriteCmd}, h \in CHW, b \in CccdValues}
\* requests that never change the state: their answers are checked in every reachable state
Probes ==
       {RdReq(h) : h \in AllH}
  \cup {BlobReq(h, off) : h \in VH \cup CH \cup {0}, off \in 0..4}
  \cup {<<OpReadMultiple>> \o LE16(a) \o LE16(b) : a \in VH, b \in VH}
  \cup {RbtReq(1, 65535, u) : u \in Uuids}
  \cup {<<OpRead>>, <<OpReadBlob, 1, 0>>, <<OpReadMultiple, 1, 0, 2>>, <<OpConfirmation>>}      \* malformed / no effect
MConns == 1..NC

\* ---------------------------------------------------------------------------- behaviour
MInit == InitFor(Decl) /\ last = [c |-> 0, in |-> <<>>, pat |-> PBounded, cb |-> 0]

MNext ==
    \/ \E c \in MConns, in \in Steps : \E r \in Outcomes(c, in) :
          Becomes(r) /\ last' = [c |-> c, in |-> in, pat |-> r.pat, cb |-> r.cb]
    \/ \E c \in MConns : Disconnect(c) /\ last' = [c |-> c, in |-> <<>>, pat |-> PBounded, cb |-> 0]

MSpec == MInit /\ [][MNext]_mvars
QueueBound == Len(wq.q) <= QMax

\* ---------------------------------------------------------------------------- the listed properties, on the model
ProbesNeverChangeState == \A c \in MConns, in \in Probes : \A r \in Outcomes(c, in) : r = Same(r.pat)

\* C06: a value changes only through an accepted write to a writable attribute (or the execution of prepared writes)
IsWriteOp(in) == in # <<>> /\ in[1] \in {OpWrite, OpWriteCmd, OpExecute}
C06_OnlyWritesChangeValues ==
    [][\A h \in DOMAIN value : value'[h] # value[h] =>
            /\ AttrOf(h).wr
            /\ IsWriteOp(last'.in)
            /\ last'.in[1] = OpExecute \/ (last'.pat.k = "bytes" /\ U16(last'.in, 2) = h)]_mvars
\* C06: an accepted Write Request / Command stores exactly the written octets at offset 0 and nothing else
C06_WriteStoresPrefix ==
    [][(last'.in # <<>> /\ last'.in[1] = OpWrite /\ last'.pat = PBytes(<<RspWrite>>) /\ U16(last'.in, 2) \in DOMAIN value) =>
            LET h == U16(last'.in, 2)  b == Drop(last'.in, 3) IN
            /\ Len(b) <= Len(value[h])
            /\ value'[h] = b \o Drop(value[h], Len(b))
            /\ \A g \in DOMAIN value \ {h} : value'[g] = value[g]]_mvars
\* C06: a rejected write (error response) changes nothing
C06_RejectedWriteChangesNothing ==
    [][(last'.in # <<>> /\ last'.in[1] \in {OpWrite, OpPrepare} /\ last'.pat.k \in {"err", "anyerr"}) => UNCHANGED vars]_mvars
\* C06: prepared writes never touch a value before they are executed
C06_PrepareChangesNoValue == [][(last'.in # <<>> /\ last'.in[1] = OpPrepare) => UNCHANGED <<value, cccd>>]_mvars
\* C06: reads return the current bytes (every connection sees the same store) cut to the MTU, blobs from the offset
C06_ReadsReturnCurrentValue ==
    \A c \in MConns, h \in DOMAIN value :
        AttrOf(h).rd =>
            /\ Outcomes(c, RdReq(h)) = {Same(PBytes(<<RspRead>> \o Take(value[h], Mtu(c) - 1)))}
            /\ \A off \in 0..4 :
                 Outcomes(c, BlobReq(h, off)) =
                    {Same(IF off > Len(value[h]) THEN PErr({EInvalidOffset})
                          ELSE PBytes(<<RspReadBlob>> \o Take(Drop(value[h], off), Mtu(c) - 1)))}
\* C06: no access path returns octets of a value without read permission / accepts a write without write permission
C06_PermissionsEnforced ==
    \A c \in MConns, h \in DOMAIN value :
        /\ ~AttrOf(h).rd =>
              /\ \A in \in {RdReq(h), BlobReq(h, 0)} : \A r \in Outcomes(c, in) : r.pat = PErr({EReadNotPermitted})
              /\ \A g \in VH : \A r \in Outcomes(c, <<OpReadMultiple>> \o LE16(g) \o LE16(h)) : r.pat.k = "err"
        /\ ~AttrOf(h).wr =>
              \A in \in {WrReq(OpWrite, h, <<1>>), PrepReq(h, 0, <<1>>)} : \A r \in Outcomes(c, in) :
                  r.pat \in {PErr({EWriteNotPermitted}), PErr({ENotSupported})} /\ r = Same(r.pat)
\* C06: properties octet of the declaration = what the access rules permit (read 0x02, write 0x08, notify, indicate)
Bit(x, b) == (x \div b) % 2 = 1
C06_PropertiesMatchPermissions ==
    \A i \in 1..Len(T) : T[i].kind = "chardecl" =>
        LET props == T[i].val[1]  vh == U16(T[i].val, 2) IN
        /\ Bit(props, 2) = (\A r \in Outcomes(1, RdReq(vh)) : r.pat.k = "bytes")
        /\ Bit(props, 8) = (\A r \in Outcomes(1, WrReq(OpWrite, vh, <<>>)) : r.pat = PBytes(<<RspWrite>>))
        /\ Bit(props, 16) = CharOf(T[i]).notify /\ Bit(props, 32) = CharOf(T[i]).indicate
\* C08: the MTU changes only through a well formed Exchange MTU request with a value >= 23 on that connection
C08_MtuChangesOnlyByValidExchange ==
    [][\A c \in Conns : mtuc'[c] # mtuc[c] =>
            \/ last'.in = <<>> /\ last'.c = c /\ mtuc'[c] = 23
            \/ /\ last'.c = c /\ Len(last'.in) = 3 /\ last'.in[1] = OpMtuReq /\ U16(last'.in, 2) >= 23
               /\ mtuc'[c] = U16(last'.in, 2) /\ last'.pat = PBytes(<<RspMtu>> \o LE16(cfg.smax))]_mvars
C08_RejectedExchangeChangesNothing ==
    [][(last'.in # <<>> /\ last'.in[1] = OpMtuReq /\ (Len(last'.in) # 3 \/ U16(last'.in, 2) < 23)) =>
            last'.pat = PAnyErr /\ UNCHANGED vars]_mvars
\* C08: every fully specified response fits the MTU, and a long value is cut to exactly the MTU
C08_ResponsesFitMtu ==
    \A c \in MConns, in \in Probes : \A r \in Outcomes(c, in) :
        /\ r.pat.k = "bytes" => Len(r.pat.b) <= Mtu(c)
        /\ (in[1] = OpRead /\ Len(in) = 3 /\ U16(in, 2) \in DOMAIN value /\ r.pat.k = "bytes")
              => Len(r.pat.b) = Min(Mtu(c), 1 + Len(value[U16(in, 2)]))
\* C09: only the addressed configuration of the writing connection changes; two bits; callback iff change
C09_Frame ==
    [][\A c \in Conns : \A h \in DOMAIN cccd[c] : cccd'[c][h] # cccd[c][h] =>
            \/ last'.in = <<>> /\ last'.c = c
            \/ /\ last'.c = c /\ last'.in[1] \in {OpWrite, OpWriteCmd} /\ U16(last'.in, 2) = h
               /\ Len(last'.in) \in 4..5 /\ cccd'[c][h] = last'.in[4] % 4]_mvars
C09_CallbackIffChange == [][last'.in # <<>> => (last'.cb = (IF cccd' # cccd THEN 1 ELSE 0))]_mvars
C09_TwoOctetWriteAccepted ==
    \A c \in MConns : \A h \in DOMAIN cccd[c], b \in {0, 1, 2, 3, 4, 255} :
        \A r \in Outcomes(c, WrReq(OpWrite, h, <<b, 0>>)) : r.pat = PBytes(<<RspWrite>>) /\ r.cccd[c][h] = b % 4
C09_ReadBack ==
    \A c \in MConns : \A h \in DOMAIN cccd[c] : Outcomes(c, RdReq(h)) = {Same(PBytes(<<RspRead, cccd[c][h], 0>>))}
=============================================================================
