------------------------------ MODULE AttValues ------------------------------
(* Property-level specification of the ATT value store, the ATT_MTU and the Client         *)
(* Characteristic Configuration of a Bluetoe GATT server: C06, C08, C09.                    *)
(*                                                                                          *)
(* State (per server): `value` - the bytes of every characteristic value attribute (by      *)
(* handle);  per connection c: `mtuc[c]` - the last valid client MTU, `cccd[c]` - the two     *)
(* configuration bits of every CCCD (by handle);  `wq` - the prepared writes and their owner.*)
(* The attribute table is GattDb!Build(declaration) (spec/Gatt).                             *)
(*                                                                                          *)
(* One action per public call: Request(c, in, out) - the ATT PDU `in` arrives on connection  *)
(* c and the server answers `out` (<<>> = nothing);  Output(c, out) - the server is polled    *)
(* for a notification / indication;  Disconnect(c).  Outcomes(c, in) is the SET of allowed    *)
(* outcomes [response pattern, next state, callback count]; where a property leaves freedom   *)
(* the set has several members or the pattern is loose.                                       *)
(*                                                                                          *)
(* C06  value semantics (Core Vol 3 Part F 3.4.4 / 3.4.5: a write of m <= n octets to a value *)
(*      of fixed length n replaces the first m octets, more than n octets is Invalid          *)
(*      Attribute Value Length; a rejected write changes nothing; Read / Read Blob return the *)
(*      current bytes from the offset, at most ATT_MTU-1, Invalid Offset iff offset > length);*)
(*      attributes without read / write permission answer Read / Write Not Permitted on       *)
(*      every access path and never change; the properties octet of the characteristic        *)
(*      declaration (GattDb!Props) is derived from the same permission predicate.             *)
(* C08  Mtu(c) = Min(server maximum, last valid client MTU), initially 23; an Exchange MTU    *)
(*      request with a wrong length or a value below 23 is answered with an error and changes *)
(*      nothing; the response carries the server maximum; every response, notification and    *)
(*      indication has at most Mtu(c) octets and long values are cut to exactly Mtu(c)-1 /    *)
(*      Mtu(c)-3 octets.                                                                      *)
(* C09  cccd[c][h] in 0..3; a write of 2 octets at offset 0 stores octet 1 modulo 4 (all other *)
(*      bits are dropped), shorter writes replace a prefix or are refused, longer ones are    *)
(*      refused; a read returns <<bits, 0>>; nothing but cccd[c][h] changes; the subscription *)
(*      callback count of a request is 1 iff the stored value changed, else 0.                *)
(*                                                                                          *)
(* Out of scope (owned by other properties, therefore loose here): which attributes a         *)
(* discovery response lists (C02/C03: Read By Type entries are checked for permission and     *)
(* current value only, the other discovery responses only for the MTU bound), which           *)
(* notification is delivered when (C10-C12), capacity of the prepare queue (C07: Prepare      *)
(* Queue Full is always an allowed answer), link encryption (C05: declarations with           *)
(* encryption requirements are refused by Reset), malformed PDUs (C01: any error response).   *)
EXTENDS AttDiscovery

NConn == 3
Conns == 1..NConn

VARIABLES cfg,      \* constant per server: [d: declaration, t: attribute table, smax: server maximum MTU, wqsize: prepare queue
                    \*   octets (0 = none), ix: handle -> table index, cccdh: CCCD handles in table order, serh: running number of a
                    \*   characteristic of the declaration -> its value handle]
          value,    \* value handle -> byte sequence
          mtuc,     \* connection -> last valid client MTU
          cccd,     \* connection -> (CCCD handle -> 0..3)
          wq        \* [owner: 0 (free) or connection, q: sequence of [h, off, bytes]]
vars == <<cfg, value, mtuc, cccd, wq>>

\* ---------------------------------------------------------------------------- opcodes / error codes
OpMtuReq == 2        RspMtu == 3
OpRead == 10         RspRead == 11
OpReadBlob == 12     RspReadBlob == 13
OpReadMultiple == 14 RspReadMultiple == 15
OpWrite == 18        RspWrite == 19
OpPrepare == 22      RspPrepare == 23
OpExecute == 24      RspExecute == 25
OpWriteCmd == 82
OpNotification == 27 OpIndication == 29 OpConfirmation == 30

EInvalidHandle == 1   EReadNotPermitted == 2   EWriteNotPermitted == 3   ENotSupported == 6
EInvalidOffset == 7   EQueueFull == 9          EInvalidLength == 13

\* ---------------------------------------------------------------------------- table access
T == cfg.t
Mtu(c) == Min(cfg.smax, mtuc[c])
Has(h) == h \in DOMAIN cfg.ix
AttrOf(h) == T[cfg.ix[h]]
Take(s, n) == SubSeq(s, 1, Min(Len(s), Max(n, 0)))
Drop(s, n) == SubSeq(s, n + 1, Len(s))
\* bytes written at offset off over old (fixed length): everything else unchanged
Overlay(old, off, bytes) == [i \in 1..Len(old) |-> IF i > off /\ i <= off + Len(bytes) THEN bytes[i - off] ELSE old[i]]

ValueHandles(t) == {t[i].h : i \in {j \in 1..Len(t) : t[j].kind = "value"}}
CccdHandles(t)  == {t[i].h : i \in {j \in 1..Len(t) : t[j].kind = "cccd"}}
\* the characteristic record of the declaration an attribute belongs to
CharOf(a) == Services(cfg.d)[a.svc].chars[a.chr]

CurVal(c, a) == CASE a.kind = "value" -> value[a.h]
                  [] a.kind = "cccd"  -> <<cccd[c][a.h], 0>>
                  [] OTHER            -> a.val
\* the table as connection c sees it now (for AttDiscovery)
Cur(c) == [i \in 1..Len(T) |-> [T[i] EXCEPT !.val = CurVal(c, T[i])]]

EmptyQ == [owner |-> 0, q |-> <<>>]

SeqRange(q) == {q[i] : i \in 1..Len(q)}
MakeCfg(d, t) ==
    [d |-> d, t |-> t, smax |-> d.opts.mtu, wqsize |-> d.opts.wq,
     ix    |-> [h \in {t[i].h : i \in 1..Len(t)} |-> CHOOSE i \in 1..Len(t) : t[i].h = h],
     cccdh |-> LET idx == SelectSeq([i \in 1..Len(t) |-> i], LAMBDA i : t[i].kind = "cccd") IN [i \in 1..Len(idx) |-> t[idx[i]].h],
     serh  |-> LET own == SelectSeq([i \in 1..Len(t) |-> i], LAMBDA i : t[i].kind = "value" /\ t[i].svc <= Len(d.services))
               IN  [s \in 1..Len(own) |-> t[CHOOSE i \in SeqRange(own) : d.services[t[i].svc].chars[t[i].chr].serial = s].h]]
\* initial state of a server with configuration cf
StateOf(cf) ==
    [cfg   |-> cf,
     value |-> [h \in ValueHandles(cf.t) |-> cf.t[cf.ix[h]].val],
     mtuc  |-> [c \in Conns |-> 23],
     cccd  |-> [c \in Conns |-> [h \in SeqRange(cf.cccdh) |-> 0]],
     wq    |-> EmptyQ]
\* (table and configuration are bound once through singleton sets: TLC would rebuild a LET-bound table at every use)
InitState(d) == CHOOSE s \in {StateOf(cf) : cf \in {MakeCfg(d, t) : t \in {Build(d)}}} : TRUE
InitFor(d) ==
    \E s \in {InitState(d)} : cfg = s.cfg /\ value = s.value /\ mtuc = s.mtuc /\ cccd = s.cccd /\ wq = s.wq

\* ---------------------------------------------------------------------------- response patterns
Pat(k, b, codes) == [k |-> k, b |-> b, codes |-> codes]
PBytes(b)   == Pat("bytes", b, {})          \* exactly these octets (<<>> = no response)
PErr(codes) == Pat("err", <<>>, codes)      \* error response for this request with one of these codes (handle field free)
PAnyErr     == Pat("anyerr", <<>>, {})      \* any error response for this request (malformed PDU; C01)
PReadByType == Pat("rbt", <<>>, {})         \* RbtOK: listed attributes are readable and carry their current value
PBounded    == Pat("bounded", <<>>, {})     \* anything within the MTU (owned by another property)

\* Read By Type on the value store. WHICH matching attributes are listed is C02's subject (AttDiscovery); here: every
\* listed attribute has the requested type, may be read, and is reported with the prefix of its current value that
\* has the common entry length; the first entry is as long as the MTU allows (Min(length, MTU - 4, 253))
RbtEntries(out) == [i \in 1..((Len(out) - 2) \div out[2]) |-> SubSeq(out, 3 + (i - 1) * out[2], 2 + i * out[2])]
RbtListed(out) == Len(out) >= 4 /\ out[1] = RspReadByType /\ out[2] >= 2 /\ (Len(out) - 2) % out[2] = 0
RbtEntryOK(c, in, e) ==
    /\ Has(U16(e, 1))
    /\ LET a == AttrOf(U16(e, 1))  v == CurVal(c, AttrOf(U16(e, 1))) IN
       a.rd /\ TypeEq(a.type, Drop(in, 5)) /\ Len(e) - 2 <= Len(v) /\ Drop(e, 2) = Take(v, Len(e) - 2)
RbtOK(c, in, out) ==
    \/ IsError(out, in[1])
    \/ /\ RbtListed(out)
       /\ \A i \in 1..Len(RbtEntries(out)) : RbtEntryOK(c, in, RbtEntries(out)[i])
       /\ LET e == RbtEntries(out)[1] IN
          Len(e) - 2 = Min(Min(Len(CurVal(c, AttrOf(U16(e, 1)))), Mtu(c) - 4), 253)

PatMatches(p, c, in, out) ==
    /\ Len(out) <= Mtu(c)
    /\ CASE p.k = "bytes"   -> out = p.b
         [] p.k = "err"     -> IsErrorCode(out, in[1], p.codes)
         [] p.k = "anyerr"  -> IsError(out, in[1])
         [] p.k = "rbt"     -> RbtOK(c, in, out)
         [] p.k = "bounded" -> TRUE

\* an outcome: response pattern + complete next state + number of subscription callbacks
Same(p) == [pat |-> p, value |-> value, mtuc |-> mtuc, cccd |-> cccd, wq |-> wq, cb |-> 0]

\* ---------------------------------------------------------------------------- C08: Exchange MTU
ExchangeMtu(c, in) ==
    IF Len(in) = 3 /\ U16(in, 2) >= 23
    THEN {[Same(PBytes(<<RspMtu>> \o LE16(cfg.smax))) EXCEPT !.mtuc = [mtuc EXCEPT ![c] = U16(in, 2)]]}
    ELSE {Same(PAnyErr)}

\* ---------------------------------------------------------------------------- C06: reads
Read(c, in) ==
    IF Len(in) # 3 THEN {Same(PAnyErr)}
    ELSE LET h == U16(in, 2) IN
         IF ~Has(h) THEN {Same(PErr({EInvalidHandle}))}
         ELSE LET a == AttrOf(h) IN
              IF ~a.rd THEN {Same(PErr({EReadNotPermitted}))}
              ELSE {Same(PBytes(<<RspRead>> \o Take(CurVal(c, a), Mtu(c) - 1)))}

ReadBlob(c, in) ==
    IF Len(in) # 5 THEN {Same(PAnyErr)}
    ELSE LET h == U16(in, 2)  off == U16(in, 4) IN
         IF ~Has(h) THEN {Same(PErr({EInvalidHandle}))}
         ELSE LET a == AttrOf(h)  v == CurVal(c, a) IN
              IF ~a.rd THEN {Same(PErr({EReadNotPermitted}))}
              ELSE IF off > Len(v) THEN {Same(PErr({EInvalidOffset}))}
              ELSE {Same(PBytes(<<RspReadBlob>> \o Take(Drop(v, off), Mtu(c) - 1)))}

RECURSIVE Concat(_, _, _)
Concat(c, hs, i) == IF i > Len(hs) THEN <<>> ELSE CurVal(c, AttrOf(hs[i])) \o Concat(c, hs, i + 1)

ReadMultiple(c, in) ==
    IF Len(in) < 5 \/ Len(in) % 2 = 0 THEN {Same(PAnyErr)}
    ELSE LET hs  == [i \in 1..((Len(in) - 1) \div 2) |-> U16(in, 2 * i)]
             bad == {IF ~Has(hs[i]) THEN EInvalidHandle ELSE EReadNotPermitted :
                        i \in {j \in 1..Len(hs) : ~Has(hs[j]) \/ ~AttrOf(hs[j]).rd}}
         IN  IF bad # {} THEN {Same(PErr(bad))}          \* which of several failing handles is reported is free
             ELSE {Same(PBytes(<<RspReadMultiple>> \o Take(Concat(c, hs, 1), Mtu(c) - 1)))}

\* ---------------------------------------------------------------------------- C06 / C09: effect of one write
\* base = [value, cccd, cb]; result = [err (set of codes, {} = written), value, cccd, cb]
Eff(err, base) == [err |-> err, value |-> base.value, cccd |-> base.cccd, cb |-> base.cb]

WriteEffect(c, base, h, off, bytes) ==
    IF ~Has(h) THEN Eff({EInvalidHandle}, base)
    ELSE LET a == AttrOf(h) IN
         CASE a.kind = "value" ->
                LET old == base.value[h] IN
                IF ~a.wr THEN Eff({EWriteNotPermitted}, base)
                ELSE IF off > Len(old) THEN Eff({EInvalidOffset}, base)
                ELSE IF off + Len(bytes) > Len(old) THEN Eff({EInvalidLength}, base)
                ELSE [Eff({}, base) EXCEPT !.value = [base.value EXCEPT ![h] = Overlay(old, off, bytes)]]
           [] a.kind = "cccd" ->
                LET old == base.cccd[c][h]
                    new == Overlay(<<old, 0>>, off, bytes)[1] % 4        \* only the two defined bits are kept
                IN  IF off > 2 THEN Eff({EInvalidOffset}, base)
                    ELSE IF off + Len(bytes) > 2 THEN Eff({EInvalidLength}, base)
                    ELSE [Eff({}, base) EXCEPT !.cccd = [base.cccd EXCEPT ![c][h] = new],
                                               !.cb = base.cb + (IF new # old THEN 1 ELSE 0)]
           [] OTHER -> Eff({EWriteNotPermitted}, base)

Base == [value |-> value, cccd |-> cccd, cb |-> 0]

\* a write of fewer than the 2 octets of a CCCD may also be refused (GATT defines the descriptor as 2 octets)
WriteEffects(c, h, bytes) ==
    {WriteEffect(c, Base, h, 0, bytes)}
    \cup (IF Has(h) /\ AttrOf(h).kind = "cccd" /\ Len(bytes) < 2 THEN {Eff({EInvalidLength}, Base)} ELSE {})

Write(c, in, withResponse) ==
    IF Len(in) < 3 THEN {Same(IF withResponse THEN PAnyErr ELSE PBytes(<<>>))}
    ELSE {IF e.err = {}
          THEN [Same(PBytes(IF withResponse THEN <<RspWrite>> ELSE <<>>)) EXCEPT !.value = e.value, !.cccd = e.cccd, !.cb = e.cb]
          ELSE Same(IF withResponse THEN PErr(e.err) ELSE PBytes(<<>>))
            : e \in WriteEffects(c, U16(in, 2), Drop(in, 3))}

\* ---------------------------------------------------------------------------- prepared writes (permission path of C06)
Prepare(c, in) ==
    IF cfg.wqsize = 0 THEN {Same(PErr({ENotSupported}))}
    ELSE IF Len(in) < 5 THEN {Same(PAnyErr)}
    ELSE LET h == U16(in, 2) IN
         IF ~Has(h) THEN {Same(PErr({EInvalidHandle}))}
         ELSE IF ~AttrOf(h).wr THEN {Same(PErr({EWriteNotPermitted}))}
         ELSE {Same(PErr({EQueueFull}))}                              \* capacity / ownership: C07
              \cup (IF wq.owner \in {0, c}
                    THEN {[Same(PBytes(<<RspPrepare>> \o Take(Drop(in, 1), Mtu(c) - 1)))
                              EXCEPT !.wq = [owner |-> c, q |-> Append(wq.q, [h |-> h, off |-> U16(in, 4), bytes |-> Drop(in, 5)])]]}
                    ELSE {})

\* state after the first n queued writes; [err, value, cccd, cb] of the first failing one otherwise
RECURSIVE ApplyQ(_, _, _, _)
ApplyQ(c, base, q, i) ==
    IF i > Len(q) THEN Eff({}, base)
    ELSE LET e == WriteEffect(c, base, q[i].h, q[i].off, q[i].bytes) IN
         IF e.err # {} THEN e        \* carries the state reached before the failing entry
         ELSE ApplyQ(c, [value |-> e.value, cccd |-> e.cccd, cb |-> e.cb], q, i + 1)

Execute(c, in) ==
    IF cfg.wqsize = 0 THEN {Same(PErr({ENotSupported}))}
    ELSE IF Len(in) # 2 \/ in[2] \notin {0, 1} THEN {Same(PAnyErr)}
    ELSE IF wq.owner # c THEN {Same(PBytes(<<RspExecute>>))}
    ELSE IF in[2] = 0 THEN {[Same(PBytes(<<RspExecute>>)) EXCEPT !.wq = EmptyQ]}
    ELSE LET e == ApplyQ(c, Base, wq.q, 1) IN
         IF e.err = {}
         THEN {[Same(PBytes(<<RspExecute>>)) EXCEPT !.value = e.value, !.cccd = e.cccd, !.cb = e.cb, !.wq = EmptyQ]}
         \* a queued write fails: the queue is discarded; ATT leaves open whether the writes queued before it
         \* took effect - everything or nothing of that prefix
         ELSE {[Same(PErr(e.err)) EXCEPT !.wq = EmptyQ],
               [Same(PErr(e.err)) EXCEPT !.value = e.value, !.cccd = e.cccd, !.cb = e.cb, !.wq = EmptyQ]}

\* ---------------------------------------------------------------------------- all requests
Outcomes(c, in) ==
    CASE in[1] = OpMtuReq       -> ExchangeMtu(c, in)
      [] in[1] = OpRead         -> Read(c, in)
      [] in[1] = OpReadBlob     -> ReadBlob(c, in)
      [] in[1] = OpReadMultiple -> ReadMultiple(c, in)
      [] in[1] = OpReadByType   -> IF Len(in) \in {7, 21} THEN {Same(PReadByType)} ELSE {Same(PAnyErr)}
      [] in[1] = OpWrite        -> Write(c, in, TRUE)
      [] in[1] = OpWriteCmd     -> Write(c, in, FALSE)
      [] in[1] = OpPrepare      -> Prepare(c, in)
      [] in[1] = OpExecute      -> Execute(c, in)
      [] in[1] = OpConfirmation -> {Same(PBytes(<<>>))}
      [] OTHER                  -> {Same(PBounded)}

Becomes(r) == /\ value' = r.value /\ mtuc' = r.mtuc /\ cccd' = r.cccd /\ wq' = r.wq /\ UNCHANGED cfg

\* the request `in` on connection c is answered with `out`, the callback fires cb times
Request(c, in, out, cb) ==
    \E r \in Outcomes(c, in) : PatMatches(r.pat, c, in, out) /\ r.cb = cb /\ Becomes(r)

\* ---------------------------------------------------------------------------- C08: notifications / indications
\* which characteristic is sent when is C10-C12; here: whatever is sent fits Mtu(c) and carries exactly the first
\* Mtu(c)-3 octets of the current value of the characteristic it names
OutputOK(c, out) ==
    \/ out = <<>>
    \/ /\ Len(out) >= 3 /\ Len(out) <= Mtu(c)
       /\ out[1] \in {OpNotification, OpIndication}
       /\ Has(U16(out, 2))
       /\ LET a == AttrOf(U16(out, 2)) IN
          /\ a.kind = "value"
          /\ IF out[1] = OpNotification THEN CharOf(a).notify ELSE CharOf(a).indicate
          /\ Drop(out, 3) = Take(value[a.h], Mtu(c) - 3)
Output(c, out) == OutputOK(c, out) /\ UNCHANGED vars

\* a new connection starts with the default MTU and all configurations cleared; its prepared writes are dropped
Disconnect(c) ==
    /\ mtuc' = [mtuc EXCEPT ![c] = 23]
    /\ cccd' = [cccd EXCEPT ![c] = [h \in DOMAIN cccd[c] |-> 0]]
    /\ wq' = IF wq.owner = c THEN EmptyQ ELSE wq
    /\ UNCHANGED <<cfg, value>>

\* ---------------------------------------------------------------------------- invariants
TypeOK ==
    /\ \A h \in DOMAIN value : Len(value[h]) = Len(AttrOf(h).val) /\ \A i \in 1..Len(value[h]) : value[h][i] \in 0..255
    /\ \A c \in Conns : mtuc[c] \in 23..65535 /\ \A h \in DOMAIN cccd[c] : cccd[c][h] \in 0..3
    /\ wq.owner \in 0..NConn /\ (wq.owner = 0 => wq.q = <<>>)
MtuOK == \A c \in Conns : Mtu(c) >= 23 /\ Mtu(c) <= cfg.smax
=============================================================================
