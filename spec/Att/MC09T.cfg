CONSTANTS Mode = "C09"  Alphabet = {1, 2}  QMax = 1  NCccd = 3  NC = 2
SPECIFICATION MSpec
VIEW MView
INVARIANTS TypeOK ProbesNeverChangeState C09_TwoOctetWriteAccepted C09_ReadBack C08_ResponsesFitMtu
PROPERTIES C09_Frame C09_CallbackIffChange C06_OnlyWritesChangeValues
CHECK_DEADLOCK FALSE
