------------------------------- MODULE L2capSdu -------------------------------
(* Property-level specification of L2CAP fragmentation / reassembly over link layer data    *)
(* PDUs (C19):  bluetoe::link_layer::ll_l2cap_sdu_buffer< BufferedRadio, Callbacks, MTU >.  *)
(*                                                                                          *)
(* Receive side.  The radio below hands over a queue of LL data PDUs [llid, body]; llid 2 = *)
(* start fragment of an L2CAP frame (body begins with the 16 bit length L and the 16 bit    *)
(* channel id), llid 1 = continuation fragment, llid 3 = LL control PDU.  The central on the *)
(* other side is free to send *any* sequence of such PDUs.  What may be handed to the layer  *)
(* above (next_ll_l2cap_received) is fixed by the PDU stream alone:                          *)
(*   - LL control PDUs pass unchanged, in order, and do not touch a reassembly in progress   *)
(*   - an SDU (frame) is delivered only if its bytes are exactly one start fragment followed *)
(*     by the continuation fragments that come directly after it (LL control PDUs may be     *)
(*     interleaved), L + 4 bytes in total for the L announced in that start fragment         *)
(*   - every start fragment ends the reassembly of the SDU before it (that one is incomplete *)
(*     and lost), a continuation fragment without an SDU in reassembly is dropped            *)
(*   - a frame whose fragments bring more than the announced L + 4 bytes is malformed: the   *)
(*     implementation may drop it or deliver its first L + 4 bytes (freedom)                 *)
(*   - an SDU with L > MTU cannot be stored and is dropped; a complete, well-formed SDU with *)
(*     L <= MTU must be delivered (exactly once, in order)                                  *)
(* Memory safety ("never writes outside its buffer") is judged on the real code by           *)
(* AddressSanitizer with intra-object redzones: a crash is an event no action explains;      *)
(* L2capSduImpl.tla models the copy lengths so that TLC finds the overflowing sequences.     *)
(*                                                                                          *)
(* Transmit side.  An SDU (L2CAP frame of 4 + n bytes) committed by the layer above is       *)
(* handed to the radio as one start fragment followed by continuation fragments, each with   *)
(* at most `maxp` (current maximum LL payload) bytes, the bodies concatenating to the frame; *)
(* no second SDU is accepted before the last fragment is out (no interleaving); LL control   *)
(* PDUs may be sent in between.                                                              *)
EXTENDS Integers, Sequences, FiniteSets

VARIABLES mtu,    \* the MTU template argument (23: the specialisation that maps SDUs 1:1 to LL PDUs), fixed at construction
          inq,    \* PDUs received by the radio and not yet looked at by the reassembly, oldest first
          ra,     \* reassembly: <<>> or << [L |-> announced length, got |-> frame bytes so far] >>
          cur,    \* <<>> or << [llid, body, held] >>: what next_ll_l2cap_received currently offers; held = number of
                  \* radio receive buffers (0/1) it still occupies
          txp,    \* <<>> or << [frame |-> bytes of the committed SDU, sent |-> number of bytes handed to the radio] >>
          maxp    \* current maximum LL payload on the transmit side

vars == <<mtu, inq, ra, cur, txp, maxp>>

Start == 2
Cont  == 1
Ctrl  == 3
Passthrough == mtu = 23

Pdu(llid, body) == [llid |-> llid, body |-> body]
Prefix(s, n) == SubSeq(s, 1, n)

\* classification of a start fragment
Announced(p) == p.body[1] + 256 * p.body[2]
StartClass(p) ==
    IF Len(p.body) < 4 THEN "short"                              \* not even an L2CAP header
    ELSE IF Announced(p) + 4 = Len(p.body) THEN "exact"          \* unfragmented frame
    ELSE IF Announced(p) + 4 < Len(p.body) THEN "excess"         \* more bytes than announced: malformed
    ELSE IF Announced(p) <= mtu THEN "frag"                      \* first fragment of a frame that fits
    ELSE "big"                                                   \* first fragment of a frame larger than the MTU

(* Deliver(q, r): the possible results of looking for the next deliverable item in the PDU   *)
(* stream q with reassembly state r: [out, q, ra] with out = <<>> (stream exhausted) or      *)
(* << [llid, body] >>.  More than one result only where the implementation has freedom.      *)
RECURSIVE Deliver(_, _)
Deliver(q, r) ==
    IF q = <<>> THEN { [out |-> <<>>, q |-> q, ra |-> r] }
    ELSE LET p == Head(q)  rest == Tail(q) IN
    IF Passthrough \/ p.llid = Ctrl THEN { [out |-> <<p>>, q |-> rest, ra |-> r] }
    ELSE IF p.llid = Start THEN
        LET c == StartClass(p) IN
        IF c = "exact"  THEN { [out |-> <<p>>, q |-> rest, ra |-> <<>>] }
        ELSE IF c = "frag" THEN Deliver(rest, << [L |-> Announced(p), got |-> p.body] >>)
        ELSE IF c = "excess" THEN Deliver(rest, <<>>)
                                  \cup { [out |-> << Pdu(Start, Prefix(p.body, Announced(p) + 4)) >>, q |-> rest, ra |-> <<>>] }
        ELSE Deliver(rest, <<>>)                                 \* "short", "big": dropped, and the SDU before it is lost
    ELSE \* continuation
        IF r = <<>> THEN Deliver(rest, <<>>)
        ELSE LET g == r[1].got \o p.body  n == r[1].L + 4 IN
             IF Len(g) < n THEN Deliver(rest, << [r[1] EXCEPT !.got = g] >>)
             ELSE IF Len(g) = n THEN { [out |-> << Pdu(Start, g) >>, q |-> rest, ra |-> <<>>] }
             ELSE Deliver(rest, <<>>) \cup { [out |-> << Pdu(Start, Prefix(g, n)) >>, q |-> rest, ra |-> <<>>] }

(* ---- actions: one per public call (and per environment event of the radio below) -------- *)
Init(m, p) == mtu = m /\ maxp = p /\ inq = <<>> /\ ra = <<>> /\ cur = <<>> /\ txp = <<>>

Reset(m, p) == mtu' = m /\ maxp' = p /\ inq' = <<>> /\ ra' = <<>> /\ cur' = <<>> /\ txp' = <<>>

\* environment: the radio received a PDU
Rx(p) == inq' = Append(inq, p) /\ UNCHANGED <<mtu, ra, cur, txp, maxp>>

\* environment: the link layer negotiated another maximum transmit size
SetMaxTx(p) == maxp' = p /\ UNCHANGED <<mtu, inq, ra, cur, txp>>

(* what the radio got to transmit during a call: tx = sequence of [llid, len, body, msize]     *)
(* (len = length field of the LL header, body = the len bytes behind the header, msize = size  *)
(* of the buffer committed).  Data PDUs must be the next fragments of the pending SDU.         *)
Datas(tx) == SelectSeq(tx, LAMBDA f : f.llid # Ctrl)
RECURSIVE Fragments(_, _, _)
Fragments(fs, frame, sent) ==        \* fs continue `frame` at offset `sent`; result: new offset or -1
    IF fs = <<>> THEN sent
    ELSE LET f == Head(fs) IN
         IF /\ f.llid = (IF sent = 0 THEN Start ELSE Cont)              \* one start fragment, then continuations
            /\ f.len <= maxp /\ Len(f.body) = f.len                     \* within the current maximum PDU size
            /\ sent + f.len <= Len(frame)
            /\ f.body = SubSeq(frame, sent + 1, sent + f.len)           \* bodies concatenate to the SDU
         THEN Fragments(Tail(fs), frame, sent + f.len)
         ELSE -1
NotAllowed == << [frame |-> <<>>, sent |-> -1] >>
Emitted(tx, pending) ==              \* pending' after the radio got tx; NotAllowed if tx is not allowed
    IF Datas(tx) = <<>> THEN pending
    ELSE IF pending = <<>> THEN NotAllowed                              \* data PDU out of nowhere
    ELSE LET s == Fragments(Datas(tx), pending[1].frame, pending[1].sent) IN
         IF s = -1 THEN NotAllowed
         ELSE IF s = Len(pending[1].frame) THEN <<>>
         ELSE << [pending[1] EXCEPT !.sent = s] >>
Pump(tx) == Emitted(tx, txp) # NotAllowed /\ txp' = Emitted(tx, txp)

\* next_ll_l2cap_received() -> r: something is offered; (llid, body): what; qlen: PDUs left in the radio's queue;
\* tx: PDUs given to the radio during the call (pending fragments are sent from here as well)
Next(r, llid, body, qlen, tx) ==
    /\ Pump(tx)
    /\ IF cur # <<>>
       THEN /\ r /\ llid = cur[1].llid /\ body = cur[1].body                 \* idempotent until freed
            /\ qlen = Len(inq) + cur[1].held
            /\ UNCHANGED <<mtu, inq, ra, cur, maxp>>
       ELSE \E o \in Deliver(inq, ra) :
            /\ r = (o.out # <<>>)
            /\ r => llid = o.out[1].llid /\ body = o.out[1].body
            /\ qlen - Len(o.q) \in (IF r THEN {0, 1} ELSE {0})               \* consumed PDUs are given back to the radio
            /\ inq' = o.q /\ ra' = o.ra
            /\ cur' = IF r THEN << [llid |-> llid, body |-> body, held |-> qlen - Len(o.q)] >> ELSE <<>>
            /\ UNCHANGED <<mtu, maxp>>

\* free_ll_l2cap_received()   @pre something is offered
Free(qlen, tx) ==
    /\ cur # <<>>
    /\ Pump(tx)
    /\ qlen = Len(inq)                                                       \* the offered item is gone, nothing else
    /\ cur' = <<>>
    /\ UNCHANGED <<mtu, inq, ra, maxp>>

\* allocate_l2cap_transmit_buffer( n ) -> r, room = bytes behind the LL header of the returned buffer
TxAlloc(n, r, room) ==
    /\ ~Passthrough => r = (txp = <<>>)                                      \* one SDU at a time
    /\ r => room >= n + 4
    /\ UNCHANGED vars

\* the layer above wrote `frame` (4 + n bytes) into the buffer; commit_l2cap_transmit_buffer()
TxCommit(frame, tx) ==
    /\ txp = <<>>
    /\ LET p == << [frame |-> frame, sent |-> 0] >> IN
       /\ Emitted(tx, p) # NotAllowed
       /\ txp' = Emitted(tx, p)
       /\ Passthrough => txp' = <<>>                                         \* no buffer of its own: out at once
    /\ UNCHANGED <<mtu, inq, ra, cur, maxp>>

\* allocate_ll_transmit_buffer( n ) + fill + commit_ll_transmit_buffer: an LL control PDU of the link layer itself.
\* r: a buffer was available.  The control PDU is the last PDU of tx.
LlSend(r, body, tx) ==
    /\ IF r THEN /\ tx # <<>> /\ tx[Len(tx)].llid = Ctrl /\ tx[Len(tx)].body = body
                 /\ Pump(SubSeq(tx, 1, Len(tx) - 1))
                 /\ \A i \in 1 .. Len(tx) - 1 : tx[i].llid # Ctrl
            ELSE Pump(tx) /\ \A i \in 1 .. Len(tx) : tx[i].llid # Ctrl
    /\ UNCHANGED <<mtu, inq, ra, cur, maxp>>

\* the radio keeps providing transmit buffers until nothing more is sent: the whole SDU must be out
Drain(tx) ==
    /\ Pump(tx) /\ txp' = <<>>
    /\ \A i \in 1 .. Len(tx) : tx[i].llid # Ctrl
    /\ UNCHANGED <<mtu, inq, ra, cur, maxp>>

(* ---- invariants of the property level ---------------------------------------------------- *)
TypeOK == /\ Len(ra) <= 1 /\ Len(cur) <= 1 /\ Len(txp) <= 1
          /\ ra # <<>> => /\ ra[1].L <= mtu /\ Len(ra[1].got) < ra[1].L + 4 /\ Len(ra[1].got) >= 4
                          /\ ra[1].L = ra[1].got[1] + 256 * ra[1].got[2]
          /\ txp # <<>> => txp[1].sent < Len(txp[1].frame)
\* an SDU that is offered has exactly the announced length and never exceeds the MTU
OfferedOK == (cur # <<>> /\ ~Passthrough /\ cur[1].llid = Start) =>
                 /\ Len(cur[1].body) >= 4
                 /\ Len(cur[1].body) = cur[1].body[1] + 256 * cur[1].body[2] + 4
                 /\ (cur[1].held = 0 => Len(cur[1].body) <= mtu + 4)

(* ---- closed system for exhaustive checking of the property level -------------------------- *)
CONSTANTS Mtus,       \* MTUs explored
          Pdus,       \* PDUs the environment may send
          Frames,     \* SDU frames the layer above may send
          MaxPs,      \* maximum LL payloads the link layer may negotiate
          MaxQ        \* bound on the radio queue / number of PDUs received
VARIABLE nrx
cvars == <<vars, nrx>>
\* the most eager implementation: everything out at once in fragments of maxp bytes
RECURSIVE Chop(_, _, _)
Chop(frame, sent, mp) ==
    IF sent >= Len(frame) THEN <<>>
    ELSE LET n == IF Len(frame) - sent < mp THEN Len(frame) - sent ELSE mp IN
         << [llid |-> IF sent = 0 THEN Start ELSE Cont, len |-> n, body |-> SubSeq(frame, sent + 1, sent + n), msize |-> n + 2] >>
         \o Chop(frame, sent + n, mp)
CNext ==
    \/ nrx < MaxQ /\ nrx' = nrx + 1 /\ \E p \in Pdus : Rx(p)
    \/ /\ UNCHANGED nrx
       /\ \/ \E o \in (IF cur # <<>> THEN {0} ELSE Deliver(inq, ra)) :
                IF cur # <<>> THEN Next(TRUE, cur[1].llid, cur[1].body, Len(inq) + cur[1].held, <<>>)
                ELSE IF o.out = <<>> THEN Next(FALSE, 0, <<>>, Len(o.q), <<>>)
                ELSE \E h \in {0, 1} : Next(TRUE, o.out[1].llid, o.out[1].body, Len(o.q) + h, <<>>)
          \/ Free(Len(inq), <<>>)
          \/ \E f \in Frames : txp = <<>> /\ \E k \in 0 .. 1 :                 \* k fragments now, the rest at Drain
                TxCommit(f, SubSeq(Chop(f, 0, maxp), 1, k))
          \/ txp # <<>> /\ Drain(Chop(txp[1].frame, txp[1].sent, maxp))
          \/ \E p \in MaxPs : SetMaxTx(p)
CSpec == (\E m \in Mtus : Init(m, 3)) /\ nrx = 0 /\ [][CNext]_cvars

\* a scaled down central for MTU 6: start fragments too short / exact / with excess / first of a fitting frame / of a
\* too large frame, continuations of 0..3 bytes, an LL control PDU; the layer above sends frames of 4 + {0, 2, 5} bytes
McPdus == { Pdu(Start, b) : b \in { <<1, 0, 9>>, <<0, 0, 1, 0>>, <<1, 0, 1, 0, 20>>, <<1, 0, 1, 0, 21, 22>>,
                                    <<3, 0, 1, 0, 23>>, <<6, 0, 1, 0, 24, 25>>, <<7, 0, 1, 0, 26>> } }
          \cup { Pdu(Cont, b) : b \in { <<>>, <<31>>, <<32, 33>>, <<34, 35, 36>> } }
          \cup { Pdu(Ctrl, <<99>>) }
McCtrlOnly == { Pdu(Ctrl, <<99>>) }
McFrames == { <<0, 0, 4, 0>>, <<2, 0, 4, 0, 41, 42>>, <<5, 0, 4, 0, 51, 52, 53, 54, 55>> }

\* every SDU ever offered is exact: checked as an invariant over all reachable states (OfferedOK), and no reassembly
\* survives a start fragment
NoStaleReassembly == [][\A p \in Pdus : (cur = <<>> /\ cur' # <<>> /\ cur'[1].llid = Start /\ ~Passthrough) =>
                            Len(cur'[1].body) = cur'[1].body[1] + 256 * cur'[1].body[2] + 4]_cvars
=============================================================================
