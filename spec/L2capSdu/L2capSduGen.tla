----------------------------- MODULE L2capSduGen -----------------------------
(* Random behaviour generator for the replay on the real ll_l2cap_sdu_buffer (-simulate):      *)
(* mixed receive / transmit histories at the real MTUs.  Every second step picks the kind of    *)
(* the next operation (so that the many parameter combinations of "rx" do not crowd out the     *)
(* other calls), the step after it performs it on the property-level state.  The generator's    *)
(* own idea of the transmit state is only used to keep the histories sensible; the verdict      *)
(* comes from validating the recorded trace of the real class.                                  *)
(* Operations = script lines of harness/l2capsdu: reset mtu oh maxp | rx llid n L cid fill |     *)
(* next | free | bufs k | maxtx p | txsdu n cid fill | llsend n fill | drain                    *)
EXTENDS L2capSdu, TLC, Json

CONSTANTS D,          \* number of operations per behaviour
          BigPdus     \* TRUE: the central may use LL payloads up to 251 bytes (data length extension)

VARIABLES hist, pick, fillc
gvars == <<cvars, hist, pick, fillc>>

Body(llid, n, L, cid, fill) ==
    [i \in 1 .. n |-> IF llid = Start /\ i <= 4 THEN <<L % 256, L \div 256, cid % 256, cid \div 256>>[i]
                      ELSE (fill + i - 1) % 256]

BodySizes == {0, 1, 3, 4, 5, 12, 23, 27} \cup (IF BigPdus THEN {mtu + 4, mtu + 5, 100, 251} ELSE {})
Lens(n)   == {x \in {0, 1, n - 4, n - 3, 23, mtu - 1, mtu, mtu + 1, 2 * mtu, 600} : x >= 0}
SduSizes  == {x \in {0, 1, 22, 23, 24, mtu - 1, mtu} : x <= mtu}
Kinds     == {"rx", "rxnext", "next", "free", "bufs", "maxtx", "txsdu", "llsend", "drain"}

GInit == /\ \E m \in Mtus, o \in {0, 1} : Init(m, 27) /\ hist = << <<"reset", m, o, 27>> >>
         /\ nrx = 0 /\ pick = "" /\ fillc = 1

Log(op) == hist' = Append(hist, op)
NextFill(n) == fillc' = ((fillc + n) % 250) + 1

\* the receive side follows the specification (first of the allowed results), so that free is only used when
\* something is offered
DoNext == IF cur # <<>> THEN UNCHANGED <<inq, ra, cur>>
          ELSE LET o == CHOOSE o \in Deliver(inq, ra) : TRUE IN
               /\ inq' = o.q /\ ra' = o.ra
               /\ cur' = IF o.out = <<>> THEN <<>> ELSE << [llid |-> o.out[1].llid, body |-> o.out[1].body, held |-> 0] >>

Perform ==
    \/ /\ pick \in {"rx", "rxnext"}
       /\ \E llid \in {Cont, Start, Ctrl}, n \in BodySizes : \E L \in (IF llid = Start THEN Lens(n) ELSE {0}) :
            LET p == Pdu(llid, Body(llid, n, L, 4, fillc)) IN
            /\ IF pick = "rx"
               THEN /\ inq' = Append(inq, p) /\ UNCHANGED <<ra, cur>>
                    /\ Log(<<"rx", llid, n, L, 4, fillc>>)
               ELSE /\ LET q2 == Append(inq, p) IN
                       IF cur # <<>> THEN inq' = q2 /\ UNCHANGED <<ra, cur>>
                       ELSE LET o == CHOOSE o \in Deliver(q2, ra) : TRUE IN
                            /\ inq' = o.q /\ ra' = o.ra
                            /\ cur' = IF o.out = <<>> THEN <<>> ELSE << [llid |-> o.out[1].llid, body |-> o.out[1].body, held |-> 0] >>
                    /\ hist' = hist \o << <<"rx", llid, n, L, 4, fillc>>, <<"next">> >>
            /\ NextFill(n)
       /\ UNCHANGED <<mtu, txp, maxp>>
    \/ /\ pick = "next" /\ DoNext /\ Log(<<"next">>) /\ UNCHANGED <<mtu, txp, maxp, fillc>>
    \/ /\ pick = "free"
       /\ IF cur # <<>> THEN cur' = <<>> /\ Log(<<"free">>) ELSE UNCHANGED cur /\ Log(<<"next">>)
       /\ UNCHANGED <<mtu, inq, ra, txp, maxp, fillc>>
    \/ /\ pick = "bufs" /\ \E k \in {1, 2, 3, 10} : Log(<<"bufs", k>>)
       /\ UNCHANGED <<vars, fillc>>
    \/ /\ pick = "maxtx" /\ \E p \in {27, 28, 50, 100, 251} : SetMaxTx(p) /\ Log(<<"maxtx", p>>)
       /\ UNCHANGED fillc
    \/ /\ pick = "txsdu" /\ \E n \in SduSizes : Log(<<"txsdu", n, 4, fillc>>) /\ NextFill(n)
       /\ txp' = << [frame |-> <<>>, sent |-> 0] >>
       /\ UNCHANGED <<mtu, inq, ra, cur, maxp>>
    \/ /\ pick = "llsend" /\ \E n \in {1, 2, 12, 27} : Log(<<"llsend", n, fillc>>) /\ NextFill(n)
       /\ UNCHANGED vars
    \/ /\ pick = "drain" /\ txp # <<>> /\ txp' = <<>> /\ Log(<<"drain">>)
       /\ UNCHANGED <<mtu, inq, ra, cur, maxp, fillc>>

GNext ==
    /\ pick # "done"
    /\ IF pick = ""
       THEN /\ pick' \in (IF Len(hist) > D THEN {"done"} ELSE IF txp = <<>> THEN Kinds \ {"drain"} ELSE Kinds)
            /\ UNCHANGED <<cvars, hist, fillc>>
       ELSE Perform /\ pick' = "" /\ UNCHANGED nrx

GSpec == GInit /\ [][GNext]_gvars

\* printed when a behaviour is complete; always TRUE
Emit == pick = "done" => PrintT(<<"BEHAVIOUR", ToJson(hist)>>)
=============================================================================
