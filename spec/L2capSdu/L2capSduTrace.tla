---------------------------- MODULE L2capSduTrace ----------------------------
(* Trace validation for C19: every recorded call of the real ll_l2cap_sdu_buffer (and every    *)
(* event of the stub radio below it) must be a step of the property-level L2capSdu.            *)
(* Events (harness/l2capsdu/l2capsdu_harness.cpp), all with <c> = "tx":[{llid,len,msize,body}], *)
(* "qlen", "avail", "amax", "badfree":                                                        *)
(*   {"e":"Reset","mtu":m,"oh":o,"maxp":p}      {"e":"rx","llid":k,"body":[..]}                *)
(*   {"e":"next","r":bool,"llid":k,"body":[..]} {"e":"free","did":bool}                        *)
(*   {"e":"bufs","k":n}  {"e":"maxtx","p":p}    {"e":"txalloc","n":n,"r":bool,"room":k}        *)
(*   {"e":"txcommit","frame":[..]}  {"e":"llsend","r":bool,"body":[..]}  {"e":"drain"}         *)
(*   {"e":"Crash",...}   the harness process died (AddressSanitizer, signal): never explained   *)
(* For a rejected event the specification prints, besides its position, the classes of the      *)
(* abnormal PDUs the central sent in this execution (`causes`), from which the check builds     *)
(* the signature of the finding.                                                                *)
EXTENDS L2capSdu, Json, IOUtils, TLC

Tr == ndJsonDeserialize(IOEnv.TRACE)

VARIABLES l,        \* position in the trace
          oh,       \* layout overhead of the stub radio (only to bound the transmit buffer sizes requested)
          causes    \* classes of the abnormal PDUs consumed so far in this execution (diagnosis only)
tvars == <<vars, nrx, l, oh, causes>>

Ev == Tr[l]

\* class of PDU p when the reassembly state is r, and the reassembly state after it (the same for every
\* choice the implementation has)
ClassOf(p, r) ==
    LET busy == IF r # <<>> THEN ".ra" ELSE ""                          \* an SDU is in reassembly
        big  == IF r = <<>> /\ Len(p.body) > mtu + 4 THEN ".big" ELSE "" IN   \* the PDU alone is larger than an SDU buffer
    IF p.llid = Ctrl THEN "ctrl" \o busy
    ELSE IF p.llid = Start THEN "start_" \o StartClass(p) \o busy \o big
    ELSE IF r = <<>> THEN "cont_stray" \o big
    ELSE LET n == Len(r[1].got) + Len(p.body) IN
         IF n < r[1].L + 4 THEN "cont_part" ELSE IF n = r[1].L + 4 THEN "cont_done" ELSE "cont_over"
After(p, r) ==
    IF p.llid = Ctrl THEN r
    ELSE IF p.llid = Start THEN (IF StartClass(p) = "frag" THEN << [L |-> Announced(p), got |-> p.body] >> ELSE <<>>)
    ELSE IF r = <<>> THEN <<>>
    ELSE IF Len(r[1].got) + Len(p.body) < r[1].L + 4 THEN << [r[1] EXCEPT !.got = @ \o p.body] >> ELSE <<>>
Normal == {"ctrl", "start_exact", "start_frag", "cont_part", "cont_done"}
RECURSIVE Abnormal(_, _, _)
Abnormal(q, r, k) ==      \* abnormal classes among the first k PDUs of q
    IF k = 0 \/ q = <<>> THEN {}
    ELSE ({ClassOf(Head(q), r)} \ Normal) \cup Abnormal(Tail(q), After(Head(q), r), k - 1)

Bodies(tx) == [i \in 1 .. Len(tx) |-> tx[i]]
AllocOK(ev) == ev.amax <= 2 + oh + maxp /\ ev.badfree = 0      \* transmit buffers within the current maximum PDU size

Explain(ev) ==
    \/ /\ ev.e = "Reset" /\ Reset(ev.mtu, ev.maxp) /\ oh' = ev.oh /\ causes' = {}
    \/ /\ ev.e = "rx" /\ Rx(Pdu(ev.llid, ev.body)) /\ ev.tx = <<>> /\ ev.badfree = 0 /\ UNCHANGED <<oh, causes>>
    \/ /\ ev.e = "next" /\ Next(ev.r, ev.llid, ev.body, ev.qlen, ev.tx) /\ AllocOK(ev)
       /\ causes' = causes \cup Abnormal(inq, ra, Len(inq) - Len(inq'))
       /\ UNCHANGED oh
    \/ /\ ev.e = "free" /\ ev.did /\ Free(ev.qlen, ev.tx) /\ AllocOK(ev) /\ UNCHANGED <<oh, causes>>
    \/ /\ ev.e = "free" /\ ~ev.did /\ cur = <<>> /\ ev.tx = <<>> /\ UNCHANGED <<vars, oh, causes>>
    \/ /\ ev.e = "bufs" /\ ev.tx = <<>> /\ UNCHANGED <<vars, oh, causes>>
    \/ /\ ev.e = "maxtx" /\ SetMaxTx(ev.p) /\ ev.tx = <<>> /\ UNCHANGED <<oh, causes>>
    \/ /\ ev.e = "txalloc" /\ TxAlloc(ev.n, ev.r, ev.room) /\ ev.tx = <<>> /\ AllocOK(ev) /\ UNCHANGED <<oh, causes>>
    \/ /\ ev.e = "txcommit" /\ TxCommit(ev.frame, ev.tx) /\ AllocOK(ev) /\ UNCHANGED <<oh, causes>>
    \/ /\ ev.e = "llsend" /\ LlSend(ev.r, ev.body, ev.tx) /\ AllocOK(ev) /\ UNCHANGED <<oh, causes>>
    \/ /\ ev.e = "drain" /\ Drain(ev.tx) /\ ev.badfree = 0 /\ UNCHANGED <<oh, causes>>

Resets == {i \in 1..Len(Tr) : Tr[i].e = "Reset"}
NextReset(i) == IF \E j \in Resets : j > i
                THEN CHOOSE j \in Resets : j > i /\ \A k \in Resets : k > i => j <= k
                ELSE Len(Tr) + 1

TInit == Init(24, 27) /\ nrx = 0 /\ l = 1 /\ oh = 0 /\ causes = {}

\* diagnosis for a rejected event: the abnormal PDU classes seen so far plus those still queued (the failing call may
\* have been working on any of them)
Diagnosis == causes \cup Abnormal(inq, ra, Len(inq))

TNext ==
    \/ /\ l <= Len(Tr)
       /\ IF ENABLED Explain(Ev)
          THEN Explain(Ev) /\ l' = l + 1 /\ UNCHANGED nrx
          ELSE /\ PrintT(<<"MISMATCH", l, Ev.e, Diagnosis>>)
               /\ l' = NextReset(l) /\ UNCHANGED <<vars, nrx, oh, causes>>
    \/ /\ l = Len(Tr) + 1
       /\ PrintT(<<"TRACE_DONE", Len(Tr)>>)
       /\ l' = l + 1 /\ UNCHANGED <<vars, nrx, oh, causes>>

TSpec == TInit /\ [][TNext]_tvars
=============================================================================
