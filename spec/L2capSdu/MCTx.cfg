CONSTANTS Mtus = {6}  Pdus <- McCtrlOnly  Frames <- McFrames  MaxPs = {2,3,27}  MaxQ = 1
SPECIFICATION CSpec
INVARIANTS TypeOK OfferedOK
CHECK_DEADLOCK FALSE
