CONSTANTS Mtus = {}  Pdus = {}  Frames = {}  MaxPs = {}  MaxQ = 0
SPECIFICATION TSpec
INVARIANTS TypeOK OfferedOK
CHECK_DEADLOCK FALSE
