CONSTANTS Mtus = {23, 24, 40, 65, 247}  Pdus = {}  Frames = {}  MaxPs = {}  MaxQ = 0  D = 30  BigPdus = FALSE
SPECIFICATION GSpec
INVARIANTS Emit
CHECK_DEADLOCK FALSE
