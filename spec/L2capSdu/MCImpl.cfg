CONSTANTS MTU = 8  OH = 0  Ns = {0,1,2,3,4,5,6,7,8,9,10}  Ls = {0,1,2,3,4,5,6,7,8,9,10}  MaxRx = 5  D = 14
SPECIFICATION ISpec
VIEW View
INVARIANTS NoOverflow
CHECK_DEADLOCK FALSE
