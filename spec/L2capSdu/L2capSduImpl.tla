---------------------------- MODULE L2capSduImpl ----------------------------
(* Implementation-shaped model of the receive side of ll_l2cap_sdu_buffer (general template): *)
(* receive_size_, receive_buffer_used_ and the *actual* copy lengths of add_to_receive_buffer  *)
(* (std::copy( begin, end, &receive_buffer_[ receive_buffer_used_ ] ) copies the whole          *)
(* fragment, only the bookkeeping uses copy_size).  Bytes are abstracted away: a PDU is         *)
(* [llid, n = body length, L = announced L2CAP length (start fragments)].                      *)
(* `wmax` is a ghost: one past the highest index of receive_buffer_ written so far.            *)
(* NoOverflow (wmax <= size of receive_buffer_) is what C19 demands; TLC finds the shortest    *)
(* PDU sequences that break it, and - as a generator - one history per distinct overflowing    *)
(* state, which the check replays on the real class under AddressSanitizer.                    *)
EXTENDS Integers, Sequences, TLC, Json

CONSTANTS MTU,        \* template argument MTUSize (# 23)
          OH,         \* layout overhead of the radio (bytes between LL header and body)
          Ns,         \* body lengths the central uses
          Ls,         \* L2CAP length fields the central announces in start fragments
          MaxRx,      \* number of PDUs received
          D           \* bound on the number of operations

LlOverhead == 2 + OH
Overall    == 2 + OH + 4
Cap        == MTU + Overall                 \* sizeof receive_buffer_

VARIABLES rsize, used, wmax,   \* receive_size_, receive_buffer_used_, ghost: one past the highest index written
          offered,             \* what the last next_ll_l2cap_received() handed out: "none", "pdu" (a PDU of the radio), "sdu"
          held,                \* 1: a PDU that was handed out is still the first one in the radio's queue
          nrx, hist
ivars == <<rsize, used, wmax, offered, held, nrx, hist>>
View  == <<rsize, used, wmax, offered, held, nrx>>

Min(a, b) == IF a < b THEN a ELSE b
Max(a, b) == IF a > b THEN a ELSE b

\* add_to_receive_buffer( begin, begin + n ) on state s = [rsize, used, wmax]
Add(s, n) == LET c == Min(s.rsize, n) IN
             [rsize |-> s.rsize - c, used |-> s.used + c, wmax |-> IF n > 0 THEN Max(s.wmax, s.used + n) ELSE s.wmax]

\* one round of the for loop of next_ll_l2cap_received() for PDU p: [s, out] with out = "pdu" (p is handed out and
\* stays in the radio's queue), "sdu" (p consumed, the receive buffer is handed out) or "none" (p consumed)
Step(p, s) ==
    IF p.llid = 3 \/ (p.llid = 2 /\ p.n >= 4 /\ p.L + 4 = p.n) THEN [s |-> s, out |-> "pdu"]
    ELSE LET s2 == IF p.llid = 2
                   THEN IF p.n >= 4 /\ p.L <= MTU
                        THEN Add([s EXCEPT !.rsize = p.L + Overall], p.n + LlOverhead)    \* the whole PDU incl. LL header
                        ELSE s
                   ELSE Add(s, p.n)
         IN [s |-> s2, out |-> IF s2.used # 0 /\ s2.rsize = 0 THEN "sdu" ELSE "none"]

IInit == rsize = 0 /\ used = 0 /\ wmax = 0 /\ offered = "none" /\ held = 0 /\ nrx = 0 /\ hist = <<>>

\* the radio receives PDU p and the link layer looks for news (nothing is on offer: the loop gets to p at once)
IRxNext ==
    /\ offered = "none" /\ held = 0 /\ nrx < MaxRx
    /\ \E llid \in {1, 2, 3}, n \in Ns, L \in Ls :
          /\ llid # 2 => L = 0
          /\ LET r == Step([llid |-> llid, n |-> n, L |-> L], [rsize |-> rsize, used |-> used, wmax |-> wmax]) IN
             /\ rsize' = r.s.rsize /\ used' = r.s.used /\ wmax' = r.s.wmax
             /\ offered' = r.out /\ held' = IF r.out = "pdu" THEN 1 ELSE 0
          /\ hist' = hist \o << <<"rx", llid, n, L>>, <<"next">> >>
    /\ nrx' = nrx + 1

\* next_ll_l2cap_received() with the PDU handed out before still in the queue: it is handed out again
INextAgain ==
    /\ offered = "none" /\ held = 1
    /\ offered' = "pdu" /\ hist' = Append(hist, <<"next">>)
    /\ UNCHANGED <<rsize, used, wmax, held, nrx>>

\* free_ll_l2cap_received()
IFree ==
    /\ offered # "none"
    /\ IF used # 0 THEN used' = 0 /\ rsize' = 0 /\ UNCHANGED held      \* also when the item handed out was a PDU of the radio
       ELSE held' = 0 /\ UNCHANGED <<rsize, used>>
    /\ offered' = "none"
    /\ hist' = Append(hist, <<"free">>)
    /\ UNCHANGED <<wmax, nrx>>

\* (nothing is explored behind an overflow: what the real code does then is undefined)
INext == wmax <= Cap /\ Len(hist) < D /\ (IRxNext \/ INextAgain \/ IFree)
ISpec == IInit /\ [][INext]_ivars

NoOverflow == wmax <= Cap
\* generator: print the history of every distinct overflowing state
EmitOverflow == wmax > Cap => PrintT(<<"BEHAVIOUR", ToJson(hist)>>)
=============================================================================
