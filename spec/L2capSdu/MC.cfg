CONSTANTS Mtus = {6}  Pdus <- McPdus  Frames = {}  MaxPs = {3}  MaxQ = 3
SPECIFICATION CSpec
INVARIANTS TypeOK OfferedOK
PROPERTIES NoStaleReassembly
CHECK_DEADLOCK FALSE
