------------------------------ MODULE Advertising ------------------------------
(* Property-level specification of the advertiser of the Bluetoe link layer (C24, C25).                *)
(*                                                                                                    *)
(* The specification is an acceptor of what can be observed at the two interfaces of                  *)
(* link_layer<...> while it is not connected: the application interface (run, start/stop advertising, *)
(* channel map, interval, white list, advertising type, directed address) and the scheduled-radio      *)
(* interface (schedule_advertisment -> AdvTx; adv_timeout / adv_received callbacks; connection event   *)
(* scheduled -> a connection was entered).  One action per call; `ntx` / `ncn` are the numbers of      *)
(* advertisements / connection events the call made the link layer schedule at the radio.             *)
(*                                                                                                    *)
(* C24  the transmissions split into advertising events; each event is the ascending list of the       *)
(*      enabled channels; never a disabled channel; consecutive event starts are interval + 0..10 ms   *)
(*      apart; start / stop / count bound what is sent; advertising resumes after a connection only    *)
(*      when wanted.                                                                                  *)
(* C25  adv_received(pdu) enters a connection iff pdu is a CONNECT_IND of length 34 addressed to the   *)
(*      own address and address type, the advertising on air is connectable, for directed advertising  *)
(*      the initiator is the advertised target, and the initiator passes the connection filter;        *)
(*      otherwise advertising goes on.  Scan half as far as the link layer decides it: scan response    *)
(*      data is offered to the radio iff the advertising on air is scannable, and the filter functions.*)
(*                                                                                                    *)
(* Named tolerances (where the property leaves freedom or the documentation excludes a use):          *)
(*   T1 a channel map call while an advertising sequence is running ("not supported" according to the  *)
(*      documentation of variable_advertising_channel_map) makes the current event `dirty`: until the  *)
(*      next event starts only "never a disabled channel" is demanded.                                 *)
(*   T2 start_advertising( n ) counts advertising PDUs (implementation comment and the repository's     *)
(*      tests; the class documentation says "events").  n PDUs are at most n events, which is the bound *)
(*      the property asks for; an event may therefore be cut short by the count or by stop.            *)
(*   T3 the interval separating two events may be any interval that was configured since the earlier   *)
(*      event started.                                                                                *)
(*   T4 a changed advertising type may be used from the next PDU or from the next start.               *)
(*   T5 the Core specification defines advInterval as an integer multiple of 0.625 ms (Vol 6, Part B,  *)
(*      4.4.2.2.1: T_advEvent = advInterval + advDelay, advDelay 0 .. 10 ms); bluetoe configures the     *)
(*      interval in ms.  A configured interval that is no multiple of 0.625 ms may be rounded UP to the  *)
(*      next multiple; never down: "the advertising interval plus a delay of 0 to 10 ms" leaves nothing *)
(*      below the configured interval.  Distances are judged in microseconds:                          *)
(*          interval <= distance of consecutive event starts <= RoundUp(interval) + 10 ms               *)
EXTENDS Integers, Sequences, FiniteSets

Chans    == {37, 38, 39}
MaxDelay == 10000          \* advDelay: 0 .. 10 ms, in us
MaxGap   == 10000          \* PDUs of one advertising event start at most 10 ms apart
MinIv    == 20000
MaxIv    == 10240000
AdvUnit  == 625            \* granularity of advInterval in us (T5)

RoundUp(i) == ((i + AdvUnit - 1) \div AdvUnit) * AdvUnit
\* C24: d us between two consecutive advertising event starts, i the configured advertising interval in us
DistanceOK(d, i) == d >= i /\ d <= RoundUp(i) + MaxDelay

VARIABLES
    cfg,      \* configuration of the execution: [auto, iv, own, ownr, wln, types] (+ varmap, variv for generators)
    phase,    \* "init" (before run()), "adv" (advertising state), "conn" (connecting / connected)
    pend,     \* an advertisement is scheduled at the radio and not yet reported back
    on,       \* advertising is wanted
    left,     \* -1: unlimited; n > 0: PDUs still to be scheduled of start_advertising( n )
    map,      \* enabled advertising channels
    iv,       \* advertising interval (us)
    ivs,      \* intervals configured since the current event started (T3)
    ev,       \* current advertising event [open, chans, dirty, span]
    owed,     \* [n, chain] n AdvTx events have to follow; chain: they continue a running sequence
    lastAdv,  \* header + 12 bytes of the advertising PDU scheduled last
    prop,     \* advertising PDU type selected by the application
    peer,     \* directed advertising address <<bytes, random>> or <<>>
    wl, connF, scanF

vars == <<cfg, phase, pend, on, left, map, iv, ivs, ev, owed, lastAdv, prop, peer, wl, connF, scanF>>

Min(S) == CHOOSE x \in S : \A y \in S : x <= y

NoEvent == [open |-> FALSE, chans |-> {}, dirty |-> FALSE, span |-> 0]

\* ---- PDU fields (over the air byte sequences, 1-based) ----------------------------------------------
PduType(p) == p[1] % 16
TxAdd(p)   == (p[1] \div 64) % 2 = 1
RxAdd(p)   == (p[1] \div 128) % 2 = 1
LenF(p)    == p[2]
Addr1(p)   == SubSeq(p, 3, 8)       \* AdvA of advertising PDUs / ScanA / InitA
Addr2(p)   == SubSeq(p, 9, 14)      \* TargetA of ADV_DIRECT_IND / AdvA of SCAN_REQ and CONNECT_IND

ADV_IND == 0  ADV_DIRECT_IND == 1  ADV_NONCONN_IND == 2  SCAN_REQ == 3  SCAN_RSP == 4  CONNECT_IND == 5  ADV_SCAN_IND == 6
ConnectReqSize == 34

AdvType     == PduType(lastAdv)
Connectable == AdvType \in {ADV_IND, ADV_DIRECT_IND}
Scannable(t)== t \in {ADV_IND, ADV_SCAN_IND}

ConnAccept(a) == ~connF \/ a \in wl
ScanAccept(a) == ~scanF \/ a \in wl

\* C25: the connect request the advertiser has to follow.  `size` is the size the radio reports.
AcceptConnect(p, size) ==
    /\ size = 2 + ConnectReqSize /\ Len(p) >= size
    /\ PduType(p) = CONNECT_IND /\ LenF(p) = ConnectReqSize
    /\ Connectable
    /\ Addr2(p) = cfg.own /\ RxAdd(p) = cfg.ownr
    /\ AdvType = ADV_DIRECT_IND => (Addr1(p) = Addr2(lastAdv) /\ TxAdd(p) = RxAdd(lastAdv))
    /\ ConnAccept(<<Addr1(p), TxAdd(p)>>)

\* ---- actions ---------------------------------------------------------------------------------------
Reset(c) ==
    /\ cfg' = c /\ phase' = "init" /\ pend' = FALSE /\ on' = c.auto /\ left' = -1
    /\ map' = Chans /\ iv' = c.iv /\ ivs' = {c.iv} /\ ev' = NoEvent /\ owed' = [n |-> 0, chain |-> FALSE]
    /\ lastAdv' = <<>> /\ prop' = c.types[1] /\ peer' = <<>> /\ wl' = {} /\ connF' = FALSE /\ scanF' = FALSE

\* advertising (re)starts from an idle radio iff it is wanted
Begin(want, ntx) ==
    /\ ntx = (IF want THEN 1 ELSE 0)
    /\ pend' = want
    /\ owed' = [n |-> ntx, chain |-> FALSE]

Idle == owed.n = 0

Run(ntx) ==
    /\ Idle /\ phase = "init" /\ phase' = "adv"
    /\ Begin(on, ntx)
    /\ UNCHANGED <<cfg, on, left, map, iv, ivs, ev, lastAdv, prop, peer, wl, connF, scanF>>

StartAdv(n, ntx) ==          \* n = -1: start_advertising(), n > 0: start_advertising( n )
    /\ Idle /\ ~cfg.auto /\ (n = -1 \/ n > 0)
    /\ on' = TRUE /\ left' = n
    /\ IF phase = "adv" /\ ~pend
       THEN Begin(TRUE, ntx)
       ELSE ntx = 0 /\ UNCHANGED <<pend, owed>>       \* running already (or not in the advertising state): nothing new
    /\ UNCHANGED <<cfg, phase, map, iv, ivs, ev, lastAdv, prop, peer, wl, connF, scanF>>

StopAdv(ntx) ==
    /\ Idle /\ ~cfg.auto /\ ntx = 0
    /\ on' = FALSE /\ left' = -1
    /\ UNCHANGED <<cfg, phase, pend, map, iv, ivs, ev, owed, lastAdv, prop, peer, wl, connF, scanF>>

SetMap(m, ntx) ==            \* add / remove one channel; the map never becomes empty (documented precondition)
    /\ Idle /\ ntx = 0 /\ m # {} /\ m \subseteq Chans
    /\ map' = m
    /\ ev' = IF ev.open THEN [ev EXCEPT !.dirty = TRUE] ELSE ev        \* T1
    /\ UNCHANGED <<cfg, phase, pend, on, left, iv, ivs, owed, lastAdv, prop, peer, wl, connF, scanF>>

SetIv(us, ntx) ==            \* values outside 20 ms .. 10.24 s are ignored
    /\ Idle /\ ntx = 0
    /\ iv' = IF us >= MinIv /\ us <= MaxIv THEN us ELSE iv
    /\ ivs' = ivs \cup {iv'}
    /\ UNCHANGED <<cfg, phase, pend, on, left, map, ev, owed, lastAdv, prop, peer, wl, connF, scanF>>

\* the scheduled advertisement ended without a request the advertiser follows: go on iff wanted
GoOn(ntx) ==
    /\ ntx = (IF on THEN 1 ELSE 0)
    /\ pend' = on
    /\ owed' = [n |-> ntx, chain |-> TRUE]
    /\ ev' = IF on THEN ev ELSE NoEvent

Timeout(ntx) ==
    /\ Idle /\ phase = "adv" /\ pend
    /\ GoOn(ntx)
    /\ UNCHANGED <<cfg, phase, on, left, map, iv, ivs, lastAdv, prop, peer, wl, connF, scanF>>

AdvRx(p, size, ntx, ncn) ==
    /\ Idle /\ phase = "adv" /\ pend
    /\ IF AcceptConnect(p, size)
       THEN /\ ncn = 1 /\ ntx = 0
            /\ phase' = "conn" /\ pend' = FALSE /\ ev' = NoEvent
            /\ on' = cfg.auto /\ left' = -1           \* manual start: has to be asked for again
            /\ UNCHANGED owed
       ELSE /\ ncn = 0
            /\ GoOn(ntx)
            /\ UNCHANGED <<phase, on, left>>
    /\ UNCHANGED <<cfg, map, iv, ivs, lastAdv, prop, peer, wl, connF, scanF>>

Disc(ntx) ==                 \* the connection (attempt) ended
    /\ Idle /\ phase = "conn" /\ phase' = "adv"
    /\ Begin(on, ntx)
    /\ UNCHANGED <<cfg, on, left, map, iv, ivs, ev, lastAdv, prop, peer, wl, connF, scanF>>

\* ---- C24: one scheduled transmission ----------------------------------------------------------------
\* dt: distance to the previously scheduled transmission; adv: header + 12 bytes of the advertising PDU;
\* rsp: header + AdvA of the scan response data handed to the radio (<<>>: none)
IsNewEvent(dt) ==
    IF ~ev.open THEN TRUE
    ELSE IF ev.dirty THEN ev.span + dt >= MinIv
    ELSE ev.chans = map

PduOK(adv, rsp) ==
    LET t == PduType(adv) IN
    /\ t \in {cfg.types[i] : i \in DOMAIN cfg.types}
    /\ t = prop \/ (owed.chain /\ t = AdvType)                                          \* T4
    /\ Addr1(adv) = cfg.own /\ TxAdd(adv) = cfg.ownr
    /\ t = ADV_DIRECT_IND => (peer # <<>> /\ Addr2(adv) = peer[1] /\ RxAdd(adv) = peer[2])
    /\ IF Scannable(t)
       THEN Len(rsp) >= 8 /\ PduType(rsp) = SCAN_RSP /\ Addr1(rsp) = cfg.own /\ TxAdd(rsp) = cfg.ownr
       ELSE rsp = <<>>

AdvTx(ch, dt, busy, adv, rsp) ==
    /\ owed.n > 0 /\ owed' = [owed EXCEPT !.n = @ - 1]
    /\ ~busy /\ dt >= 0
    /\ ch \in map                                                                       \* never a disabled channel
    /\ IF IsNewEvent(dt)
       THEN /\ ch = Min(map)
            /\ (owed.chain /\ ev.open) => \E i \in ivs : DistanceOK(ev.span + dt, i)                          \* T3, T5
            /\ ev' = [open |-> TRUE, chans |-> {ch}, dirty |-> FALSE, span |-> 0]
            /\ ivs' = {iv}
       ELSE /\ owed.chain /\ dt <= MaxGap
            /\ ev.dirty \/ (map \ ev.chans # {} /\ ch = Min(map \ ev.chans))                                   \* ascending, nothing skipped
            /\ ev' = [ev EXCEPT !.chans = @ \cup {ch}, !.span = @ + dt]
            /\ ivs' = ivs
    /\ PduOK(adv, rsp)
    /\ lastAdv' = adv
    /\ left' = IF left > 1 THEN left - 1 ELSE -1                                        \* T2
    /\ on' = IF left = 1 THEN FALSE ELSE on
    /\ UNCHANGED <<cfg, phase, pend, map, iv, prop, peer, wl, connF, scanF>>

\* ---- C25 environment: white list, filters, advertising type, directed address -----------------------
WlAdd(a, r, ntx) ==
    /\ Idle /\ ntx = 0
    /\ r = (a \in wl \/ Cardinality(wl) < cfg.wln)
    /\ wl' = IF r THEN wl \cup {a} ELSE wl
    /\ UNCHANGED <<cfg, phase, pend, on, left, map, iv, ivs, ev, owed, lastAdv, prop, peer, connF, scanF>>
WlClear(ntx) ==
    /\ Idle /\ ntx = 0 /\ wl' = {}
    /\ UNCHANGED <<cfg, phase, pend, on, left, map, iv, ivs, ev, owed, lastAdv, prop, peer, connF, scanF>>
SetConnF(b, ntx) ==
    /\ Idle /\ ntx = 0 /\ connF' = b
    /\ UNCHANGED <<cfg, phase, pend, on, left, map, iv, ivs, ev, owed, lastAdv, prop, peer, wl, scanF>>
SetScanF(b, ntx) ==
    /\ Idle /\ ntx = 0 /\ scanF' = b
    /\ UNCHANGED <<cfg, phase, pend, on, left, map, iv, ivs, ev, owed, lastAdv, prop, peer, wl, connF>>
FilterQ(a, s, c, ntx) ==
    /\ Idle /\ ntx = 0 /\ s = ScanAccept(a) /\ c = ConnAccept(a)
    /\ UNCHANGED vars
SetType(t, ntx) ==
    /\ Idle /\ ntx = 0 /\ t \in {cfg.types[i] : i \in DOMAIN cfg.types} /\ prop' = t
    /\ UNCHANGED <<cfg, phase, pend, on, left, map, iv, ivs, ev, owed, lastAdv, peer, wl, connF, scanF>>
SetPeer(a, ntx) ==           \* only used while no directed advertising waits for its address: nothing starts
    /\ Idle /\ ntx = 0 /\ peer' = a
    /\ UNCHANGED <<cfg, phase, pend, on, left, map, iv, ivs, ev, owed, lastAdv, prop, wl, connF, scanF>>
=============================================================================
