CONSTANTS Profile = "c25"
SPECIFICATION CheckedSpec
INVARIANTS TypeOK Consistent CleanPrefix NoStuck
CHECK_DEADLOCK FALSE
