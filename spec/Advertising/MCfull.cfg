CONSTANTS Profile = "c24full"
SPECIFICATION CheckedSpec
INVARIANTS TypeOK Consistent CleanPrefix NoStuck
CHECK_DEADLOCK FALSE
