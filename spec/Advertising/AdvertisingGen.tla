---------------------------- MODULE AdvertisingGen ----------------------------
(* Behaviour generator for C24: input sequences (application calls and radio callbacks) for the real     *)
(* link layer, enumerated by TLC from the specification's own state (so that only sensible inputs are    *)
(* produced: adv_timeout only while an advertisement is scheduled, disconnect only in a connection ...). *)
(* A behaviour = preamble (initial channel map, optional start call, run) + up to D free operations of    *)
(* the family's alphabet:                                                                               *)
(*   "map"  to | add c | rem c            at most MaxChg map calls       (all 7 initial maps)            *)
(*   "iv"   to | iv ms                    at most MaxChg interval calls  (ms in IvBfs; initial maps: all  *)
(*                                        three channels, {38})                                          *)
(*   "ctl"  to | start | startn k | stop | rxok | rxbad | disc           (manual start)                  *)
(*   "all"  everything the configuration offers (used with -simulate for long random behaviours)         *)
(*   "long" to, D times; a configuration with a run-time interval may call iv ms as its first or as its    *)
(*          sixth free operation (at most MaxChg calls).  The advertising delay is pseudo random; an        *)
(*          implementation that cycles through the delays 0..10 ms (bluetoe: (d + 7) mod 11 ms, delay 0 is   *)
(*          used between the 11th and the 12th event after construction) shows every delay with every      *)
(*          interval when D >= 36 (three channels per event) - the check counts the observed distances.    *)
(* BFS prints every behaviour of exactly D free operations; with -simulate the random ones.              *)
(* One TLC run serves several plans: a plan = harness configuration x family x D x MaxChg, encoded as the *)
(* number cfg * 1000000 + family * 10000 + D * 100 + MaxChg (family 1 map, 2 iv, 3 ctl, 4 all, 5 long); the *)
(* first element of a behaviour names its plan.                                                          *)
EXTENDS AdvertisingMC, Json

CONSTANT Plans

VARIABLES plan,    \* the plan of this behaviour
          hist,    \* operations so far
          stage,   \* 0: choose map, 1: start choice, 2: run, 3: free operations
          nfree,   \* free operations so far
          nchg     \* map / interval calls so far
gvars == <<vars, plan, hist, stage, nfree, nchg>>

\* the compiled configurations (harness ADV_CFG): 1 manual start, run-time map and interval; 2 the same with
\* automatic start; 3 automatic, fixed map, 20 ms; 4 manual, fixed map, 10.24 s; 10 .. 14 automatic, fixed map,
\* advertising_interval< 33 | 21 | 152 | 1022 | 10239 > (no multiples of 0.625 ms)
CfgId  == plan \div 1000000
Fam    == CASE (plan \div 10000) % 100 = 1 -> "map" [] (plan \div 10000) % 100 = 2 -> "iv"
            [] (plan \div 10000) % 100 = 3 -> "ctl" [] (plan \div 10000) % 100 = 5 -> "long" [] OTHER -> "all"
D      == (plan \div 100) % 100
MaxChg == plan % 100
GAuto   == CfgId \in {2, 3} \cup 10..14
GVarMap == CfgId \in {1, 2}
GVarIv  == CfgId \in {1, 2}
GIv0    == CASE CfgId = 3 -> 20000 [] CfgId = 4 -> 10240000 [] CfgId = 10 -> 33000 [] CfgId = 11 -> 21000
             [] CfgId = 12 -> 152000 [] CfgId = 13 -> 1022000 [] CfgId = 14 -> 10239000 [] OTHER -> 100000
\* run-time intervals (ms): the limits, one beyond each limit (ignored), multiples and non-multiples of 0.625 ms / 5 ms
IvMs    == {19, 20, 21, 33, 100, 152, 1022, 10239, 10240, 10241}
IvBfs   == {19, 20, 33, 100, 10239, 10240, 10241}          \* family "iv" (all sequences): every class of IvMs

GCfg == [auto |-> GAuto, iv |-> GIv0, own |-> OwnA, ownr |-> TRUE, wln |-> 0, types |-> <<0>>, varmap |-> GVarMap, variv |-> GVarIv]

GInit ==
    /\ plan \in Plans
    /\ cfg = GCfg /\ phase = "init" /\ pend = FALSE /\ on = GAuto /\ left = -1
    /\ map = Chans /\ iv = GIv0 /\ ivs = {GIv0} /\ ev = NoEvent /\ owed = [n |-> 0, chain |-> FALSE]
    /\ lastAdv = <<>> /\ prop = 0 /\ peer = <<>> /\ wl = {} /\ connF = FALSE /\ scanF = FALSE
    /\ hist = << <<"plan", plan>> >> /\ stage = 0 /\ nfree = 0 /\ nchg = 0

Do(ops) == hist' = hist \o ops

\* the transmission the specification expects next (canonical choice where it leaves freedom)
CanonTx ==
    LET new == IsNewEvent(0)
        ch  == IF new \/ ev.dirty \/ map \ ev.chans = {} THEN Min(map) ELSE Min(map \ ev.chans)
        dt  == IF new /\ owed.chain /\ ev.open THEN iv - ev.span ELSE 0
    IN  AdvTx(ch, dt, FALSE, MkAdv(prop), MkRsp(prop))

RemOps(m) == LET S == Chans \ m IN
             (IF 37 \in S THEN << <<"rem", 37>> >> ELSE <<>>) \o (IF 38 \in S THEN << <<"rem", 38>> >> ELSE <<>>) \o
             (IF 39 \in S THEN << <<"rem", 39>> >> ELSE <<>>)

RxOk  == MkReq(CONNECT_IND, 34, 34, A(1), cfg.own, cfg.ownr)
RxBad == MkReq(SCAN_REQ, 12, 12, A(1), cfg.own, cfg.ownr)

InFam(f) == Fam = f \/ Fam = "all"

Free(ntx) ==
    \/ Timeout(ntx) /\ Do(<< <<"to">> >>) /\ UNCHANGED nchg
    \/ /\ Fam = "long" /\ GVarIv /\ nfree \in {0, 5} /\ nchg < MaxChg /\ nchg' = nchg + 1
       /\ \E ms \in IvMs : ms * 1000 # iv /\ SetIv(ms * 1000, ntx) /\ Do(<< <<"iv", ms>> >>)
    \/ /\ InFam("map") /\ GVarMap /\ nchg < MaxChg /\ nchg' = nchg + 1
       /\ \E c \in Chans : \/ c \notin map /\ SetMap(map \cup {c}, ntx) /\ Do(<< <<"add", c>> >>)
                           \/ c \in map /\ map # {c} /\ SetMap(map \ {c}, ntx) /\ Do(<< <<"rem", c>> >>)
    \/ /\ InFam("iv") /\ GVarIv /\ nchg < MaxChg /\ nchg' = nchg + 1
       /\ \E ms \in (IF Fam = "iv" THEN IvBfs ELSE IvMs) : ms * 1000 # iv /\ SetIv(ms * 1000, ntx) /\ Do(<< <<"iv", ms>> >>)
    \/ /\ InFam("ctl") /\ UNCHANGED nchg
       /\ \/ StartAdv(-1, ntx) /\ Do(<< <<"start">> >>)
          \/ \E k \in (IF Fam = "all" THEN {1, 2, 4} ELSE {1, 2}) : StartAdv(k, ntx) /\ Do(<< <<"startn", k>> >>)
          \/ StopAdv(ntx) /\ Do(<< <<"stop">> >>)
          \/ \E ncn \in Bit : AdvRx(RxOk, 36, ntx, ncn) /\ Do(<< <<"rxok">> >>)
          \/ \E ncn \in Bit : AdvRx(RxBad, 14, ntx, ncn) /\ Do(<< <<"rxbad">> >>)
          \/ Disc(ntx) /\ Do(<< <<"disc">> >>)

GNext ==
    \/ owed.n > 0 /\ CanonTx /\ UNCHANGED <<plan, hist, stage, nfree, nchg>>
    \/ /\ owed.n = 0 /\ UNCHANGED plan
       /\ \E ntx \in Bit :
          \/ /\ stage = 0 /\ stage' = 1 /\ UNCHANGED <<nfree, nchg>>
             /\ \E m \in (IF GVarMap /\ Fam = "iv" THEN {Chans, {38}} ELSE IF GVarMap /\ Fam # "ctl" THEN SUBSET Chans \ {{}} ELSE {Chans}) : SetMap(m, ntx) /\ Do(RemOps(m))
          \/ /\ stage = 1 /\ stage' = 2 /\ UNCHANGED <<nfree, nchg>>
             /\ IF GAuto THEN UNCHANGED vars /\ UNCHANGED hist /\ ntx = 0
                ELSE \/ StartAdv(-1, ntx) /\ Do(<< <<"start">> >>)
                     \/ InFam("ctl") /\ \E k \in {1, 2, 4} : StartAdv(k, ntx) /\ Do(<< <<"startn", k>> >>)
                     \/ InFam("ctl") /\ UNCHANGED vars /\ UNCHANGED hist /\ ntx = 0
          \/ /\ stage = 2 /\ stage' = 3 /\ UNCHANGED <<nfree, nchg>>
             /\ Run(ntx) /\ Do(<< <<"run">> >>)
          \/ /\ stage = 3 /\ nfree < D /\ nfree' = nfree + 1 /\ UNCHANGED stage
             /\ Free(ntx)

GSpec == GInit /\ [][GNext]_gvars

\* printed once per complete behaviour; always TRUE
Emit == (nfree = D /\ owed.n = 0) => PrintT(<<"BEHAVIOUR", ToJson(hist)>>)
=============================================================================
