SPECIFICATION TSpec
INVARIANTS TTypeOK
CHECK_DEADLOCK FALSE
