CONSTANTS Profile = "c25full"
SPECIFICATION CheckedSpec
INVARIANTS TypeOK Consistent CleanPrefix NoStuck
CHECK_DEADLOCK FALSE
