--------------------------- MODULE AdvertisingTrace ---------------------------
(* Trace validation: every recorded call / callback / scheduling request of the real link layer must be *)
(* a step of Advertising.tla.  Events (harness/adv/adv_harness.cpp), one JSON object per line:          *)
(*   {"e":"Reset","auto":b,"iv_us":n,"own":[6],"ownr":b,"wln":n,"types":[codes],...}                   *)
(*   calls:  Run | Start | StartN{n} | Stop | AddCh{c} | RemCh{c} | SetIv{ms} | Timeout{was_pend} |      *)
(*           AdvRx{was_pend,size,pdu} | Disc | WlAdd{a,ar,r} | WlClear | ConnF{b} | ScanF{b} |           *)
(*           FilterQ{a,ar,scan,conn} | Peer{a,ar} | Type{code}    each with "ntx","ncn","pend"            *)
(*   {"e":"AdvTx","ch":c,"t_us":t,"busy":b,"pdu":[header + <= 12 bytes],"rsp":[header + AdvA] or []}    *)
EXTENDS Advertising, Json, IOUtils, TLC

Tr == ndJsonDeserialize(IOEnv.TRACE)

VARIABLES l,       \* position in the trace
          tlast    \* time of the previous scheduled transmission
tvars == <<vars, l, tlast>>

Ev == Tr[l]

\* what every call event reports besides its own result: nothing entered a connection (Disc: the attempts to
\* reschedule the connection event are not counted), the radio state
Call(e) == (e.e = "Disc" \/ e.ncn = 0) /\ e.pend = pend'

Explain(e) ==
    \/ /\ e.e = "Reset"
       /\ Reset([auto |-> e.auto, iv |-> e.iv_us, own |-> e.own, ownr |-> e.ownr, wln |-> e.wln, types |-> e.types])
       /\ tlast' = 0
    \/ /\ e.e = "AdvTx"
       /\ AdvTx(e.ch, e.t_us - tlast, e.busy, e.pdu, e.rsp)
       /\ tlast' = e.t_us
    \/ /\ e.e = "AdvRx" /\ e.was_pend
       /\ AdvRx(e.pdu, e.size, e.ntx, e.ncn) /\ e.pend = pend'
       /\ UNCHANGED tlast
    \/ /\ e.e # "Reset" /\ e.e # "AdvTx" /\ e.e # "AdvRx"
       /\ UNCHANGED tlast
       /\ \/ e.e = "Run"     /\ Run(e.ntx)
          \/ e.e = "Start"   /\ StartAdv(-1, e.ntx)
          \/ e.e = "StartN"  /\ StartAdv(e.n, e.ntx)
          \/ e.e = "Stop"    /\ StopAdv(e.ntx)
          \/ e.e = "AddCh"   /\ SetMap(map \cup {e.c}, e.ntx)
          \/ e.e = "RemCh"   /\ SetMap(map \ {e.c}, e.ntx)
          \/ e.e = "SetIv"   /\ SetIv(e.ms * 1000, e.ntx)
          \/ e.e = "Timeout" /\ e.was_pend /\ Timeout(e.ntx)
          \/ e.e = "Disc"    /\ ~e.still_conn /\ Disc(e.ntx)
          \/ e.e = "WlAdd"   /\ WlAdd(<<e.a, e.ar>>, e.r, e.ntx)
          \/ e.e = "WlClear" /\ WlClear(e.ntx)
          \/ e.e = "ConnF"   /\ SetConnF(e.b, e.ntx)
          \/ e.e = "ScanF"   /\ SetScanF(e.b, e.ntx)
          \/ e.e = "FilterQ" /\ FilterQ(<<e.a, e.ar>>, e.scan, e.conn, e.ntx)
          \/ e.e = "Peer"    /\ SetPeer(<<e.a, e.ar>>, e.ntx)
          \/ e.e = "Type"    /\ SetType(e.code, e.ntx)
       /\ Call(e)

Resets == {i \in 1..Len(Tr) : Tr[i].e = "Reset"}
NextReset(i) == IF \E j \in Resets : j > i
                THEN CHOOSE j \in Resets : j > i /\ \A k \in Resets : k > i => j <= k
                ELSE Len(Tr) + 1

Dummy == [auto |-> TRUE, iv |-> 100000, own |-> <<0, 0, 0, 0, 0, 0>>, ownr |-> FALSE, wln |-> 0, types |-> <<0>>]

TInit ==
    /\ l = 1 /\ tlast = 0
    /\ cfg = Dummy /\ phase = "init" /\ pend = FALSE /\ on = TRUE /\ left = -1
    /\ map = Chans /\ iv = 100000 /\ ivs = {100000} /\ ev = NoEvent /\ owed = [n |-> 0, chain |-> FALSE]
    /\ lastAdv = <<>> /\ prop = 0 /\ peer = <<>> /\ wl = {} /\ connF = FALSE /\ scanF = FALSE

TNext ==
    \/ /\ l <= Len(Tr)
       /\ IF ENABLED Explain(Ev)
          THEN Explain(Ev) /\ l' = l + 1
          ELSE PrintT(<<"MISMATCH", l>>) /\ l' = NextReset(l) /\ UNCHANGED <<vars, tlast>>
    \/ /\ l = Len(Tr) + 1
       /\ PrintT(<<"TRACE_DONE", Len(Tr)>>)
       /\ l' = l + 1 /\ UNCHANGED <<vars, tlast>>

TSpec == TInit /\ [][TNext]_tvars

TTypeOK == phase \in {"init", "adv", "conn"} /\ map \subseteq Chans /\ owed.n \in {0, 1}
=============================================================================
