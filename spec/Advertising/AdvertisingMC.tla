----------------------------- MODULE AdvertisingMC -----------------------------
(* Closed system for exhaustive checking of Advertising.tla: the acceptor composed with an environment *)
(* that offers every application call / radio callback over small finite parameter sets, and with a    *)
(* radio that reports every transmission the acceptor allows.  Profile "c24": manual and automatic      *)
(* start, all channel maps and map changes, intervals {33, 100 ms, 10.24 s}, counts {1, 2} ("c24full": *)
(* + 20 ms, 10.239 s, 19 ms (ignored), count 4), connect / disconnect.  Profile "c25": four advertising types (and directed only),  *)
(* own address random / public, white list of 2 with 3 candidate addresses, both filters, a grid of     *)
(* received PDUs (a well-formed CONNECT_IND per initiator and each single defect; profile "c25full":    *)
(* CONNECT_IND x length field x size x InitA x AdvA x RxAdd, SCAN_REQ x ScanA x AdvA x RxAdd).           *)
EXTENDS Advertising, TLC

CONSTANT Profile          \* "c24" | "c24full" | "c25" | "c25full"
Is24 == Profile \in {"c24", "c24full"}

OwnA    == <<71, 17, 8, 21, 15, 192>>
A(k)    == << <<(k \div 2) + 1, 16, 32, 48, 64, 192>>, k % 2 = 1 >>      \* address id k as in the harness
Zeros(n)== [i \in 1..n |-> 0]

McCfgs ==
    IF Is24
    THEN {[auto |-> a, iv |-> 100000, own |-> OwnA, ownr |-> TRUE, wln |-> 0, types |-> <<0>>, varmap |-> TRUE, variv |-> TRUE] : a \in BOOLEAN}
    ELSE {[auto |-> TRUE, iv |-> 100000, own |-> OwnA, ownr |-> r, wln |-> 2, types |-> ty, varmap |-> FALSE, variv |-> FALSE] :
              r \in BOOLEAN, ty \in {<<0, 1, 6, 2>>, <<1>>}}
McIvs    == IF Profile = "c24" THEN {33000, 10240000} ELSE IF Is24 THEN {20000, 33000, 10239000, 10240000, 19000} ELSE {}
McCounts == IF Profile = "c24" THEN {1, 2} ELSE IF Is24 THEN {1, 2, 4} ELSE {}
McAddrs  == IF Is24 THEN {} ELSE {A(0), A(1), A(2)}

\* a request PDU: type, length field, n payload bytes, initiator / scanner address, advertiser address bytes, RxAdd
MkReq(t, lenf, n, ia, aa, rx) ==
    <<t + (IF ia[2] THEN 64 ELSE 0) + (IF rx THEN 128 ELSE 0), lenf>> \o SubSeq(ia[1] \o aa \o Zeros(22), 1, n)

Other == A(4)[1]
McRx ==
    IF Is24
    THEN {[p |-> MkReq(CONNECT_IND, 34, 34, A(1), cfg.own, cfg.ownr), size |-> 36],
          [p |-> MkReq(SCAN_REQ, 12, 12, A(1), cfg.own, cfg.ownr), size |-> 14]}
    ELSE IF Profile = "c25"      \* a well-formed request per initiator + every single defect
    THEN {[p |-> MkReq(CONNECT_IND, 34, 34, ia, cfg.own, cfg.ownr), size |-> 36] : ia \in McAddrs} \cup
         {[p |-> MkReq(SCAN_REQ, 12, 12, A(1), cfg.own, cfg.ownr), size |-> 14],
          [p |-> MkReq(CONNECT_IND, 12, 34, A(1), cfg.own, cfg.ownr), size |-> 36],
          [p |-> MkReq(CONNECT_IND, 34, 12, A(1), cfg.own, cfg.ownr), size |-> 14],
          [p |-> MkReq(CONNECT_IND, 34, 34, A(1), Other, cfg.ownr), size |-> 36],
          [p |-> MkReq(CONNECT_IND, 34, 34, A(1), cfg.own, ~cfg.ownr), size |-> 36]}
    ELSE {[p |-> MkReq(CONNECT_IND, lf, n, ia, aa, rx), size |-> 2 + n] :
              lf \in {12, 34}, n \in {12, 34}, ia \in McAddrs, aa \in {cfg.own, Other}, rx \in BOOLEAN} \cup
         {[p |-> MkReq(SCAN_REQ, 12, 12, ia, aa, rx), size |-> 14] : ia \in McAddrs, aa \in {cfg.own, Other}, rx \in BOOLEAN}

\* the PDUs a correct advertiser hands to the radio
MkAdv(t) ==
    LET dir == t = ADV_DIRECT_IND /\ peer # <<>>
        hdr == t + (IF cfg.ownr THEN 64 ELSE 0) + (IF dir /\ peer[2] THEN 128 ELSE 0)
    IN  <<hdr, 12>> \o cfg.own \o (IF dir THEN peer[1] ELSE Zeros(6))
MkRsp(t) == IF Scannable(t) THEN <<SCAN_RSP + (IF cfg.ownr THEN 64 ELSE 0), 8>> \o cfg.own ELSE <<>>

Init == \E c \in McCfgs :
    /\ cfg = c /\ phase = "init" /\ pend = FALSE /\ on = c.auto /\ left = -1
    /\ map = Chans /\ iv = c.iv /\ ivs = {c.iv} /\ ev = NoEvent /\ owed = [n |-> 0, chain |-> FALSE]
    /\ lastAdv = <<>> /\ prop = c.types[1] /\ peer = <<>> /\ wl = {} /\ connF = FALSE /\ scanF = FALSE

Bit == {0, 1}
Types == {cfg.types[i] : i \in DOMAIN cfg.types}

\* every transmission the acceptor allows: any channel, shortest / longest distance, current or previous type
\* distances of event starts: earliest, latest, latest after rounding the interval up to the next 0.625 ms (T5)
McDist(i) == {i, i + MaxDelay, RoundUp(i) + MaxDelay}
TxStep == \E ch \in Chans, t \in {prop} \cup (IF lastAdv # <<>> THEN {AdvType} ELSE {}) :
              \/ AdvTx(ch, 0, FALSE, MkAdv(t), MkRsp(t))
              \/ \E i \in ivs : \E d \in McDist(i) : AdvTx(ch, d - ev.span, FALSE, MkAdv(t), MkRsp(t))

\* the distance rule is sharp (evaluated by TLC when the model is loaded): nothing below the configured interval, nothing
\* above the rounded up interval + 10 ms
ASSUME /\ DistanceOK(33000, 33000) /\ ~DistanceOK(32999, 33000) /\ ~DistanceOK(32500, 33000)
       /\ DistanceOK(43125, 33000) /\ ~DistanceOK(43126, 33000)
       /\ DistanceOK(20000, 20000) /\ DistanceOK(30000, 20000) /\ ~DistanceOK(30001, 20000) /\ ~DistanceOK(19999, 20000)
       /\ DistanceOK(10239000, 10239000) /\ DistanceOK(10249375, 10239000) /\ ~DistanceOK(10249376, 10239000)
       /\ ~DistanceOK(10238750, 10239000)

\* environment assumption: directed advertising is only selected / started with an address set
DirOK(t) == t = ADV_DIRECT_IND => peer # <<>>

EnvStep == \E ntx \in Bit :
    \/ DirOK(prop) /\ Run(ntx)
    \/ StopAdv(ntx) \/ Timeout(ntx) \/ Disc(ntx)
    \/ \E n \in {-1} \cup McCounts : StartAdv(n, ntx)
    \/ cfg.varmap /\ \E c \in Chans : SetMap(map \cup {c}, ntx) \/ (map # {c} /\ SetMap(map \ {c}, ntx))
    \/ cfg.variv /\ \E i \in McIvs : SetIv(i, ntx)
    \/ \E r \in McRx, ncn \in Bit : AdvRx(r.p, r.size, ntx, ncn)
    \/ \E a \in McAddrs : \/ \E r \in BOOLEAN : cfg.wln > 0 /\ WlAdd(a, r, ntx)
                          \/ (phase = "init" /\ SetPeer(a, ntx))
    \/ \E b \in BOOLEAN : cfg.wln > 0 /\ (SetConnF(b, ntx) \/ (Profile = "c25full" /\ SetScanF(b, ntx)))
    \/ \E t \in Types : DirOK(t) /\ SetType(t, ntx)

Next == TxStep \/ EnvStep

Spec == Init /\ [][Next]_vars

\* ---- what is checked on the model -------------------------------------------------------------------
TypeOK ==
    /\ phase \in {"init", "adv", "conn"} /\ pend \in BOOLEAN /\ on \in BOOLEAN
    /\ left = -1 \/ left > 0
    /\ map # {} /\ map \subseteq Chans /\ iv \in ivs
    /\ ev.chans \subseteq Chans /\ owed.n \in {0, 1}
    /\ Cardinality(wl) <= cfg.wln

\* an advertisement is at the radio only in the advertising state; a running count implies advertising is wanted
Consistent ==
    /\ pend => phase = "adv"
    /\ (owed.n = 0 /\ left > 0) => on
    /\ cfg.auto => (on /\ left = -1)
    /\ (owed.n = 0 /\ ev.open) => pend
    /\ owed.n > 0 => pend

\* an event without a map call is an ascending prefix of the enabled channels
CleanPrefix == (ev.open /\ ~ev.dirty) => \A c \in ev.chans, d \in map \ ev.chans : c < d

\* the advertiser never gets stuck: whatever it is owed can be transmitted
NoStuck == owed.n > 0 => ENABLED TxStep

\* ---- action properties, evaluated on every transition of the model (Assert is much cheaper than PROPERTIES) ------
IsTx == owed'.n < owed.n
\* nothing is transmitted that was not wanted when it was scheduled; nothing on a disabled channel
TxOnlyWanted  == IsTx => on
TxOnlyEnabled == IsTx => (ev'.chans \subseteq (ev.chans \cup map))
\* a limited start sends at most that many PDUs: the remaining count strictly decreases with every transmission
CountDown     == (IsTx /\ left > 0) => (left' = left - 1 \/ (left = 1 /\ left' = -1 /\ ~on'))
\* a connection is entered only out of connectable advertising that is on air, and ends the advertising sequence
ConnEntered   == (phase = "adv" /\ phase' = "conn") => (Connectable /\ pend /\ ~pend' /\ ~ev'.open)
\* an event in which no map call happened never repeats or skips a channel
CleanAscending == (IsTx /\ ev.open /\ ~ev.dirty /\ ev'.chans # ev.chans /\ ev.chans \subseteq ev'.chans)
                    => \A c \in ev.chans, d \in ev'.chans \ ev.chans : c < d

CheckedNext ==
    /\ Next
    /\ Assert(TxOnlyWanted, "TxOnlyWanted") /\ Assert(TxOnlyEnabled, "TxOnlyEnabled") /\ Assert(CountDown, "CountDown")
    /\ Assert(ConnEntered, "ConnEntered") /\ Assert(CleanAscending, "CleanAscending")

CheckedSpec == Init /\ [][CheckedNext]_vars
=============================================================================
