CONSTANTS Profile = "c24"
SPECIFICATION CheckedSpec
INVARIANTS TypeOK Consistent CleanPrefix NoStuck
CHECK_DEADLOCK FALSE
