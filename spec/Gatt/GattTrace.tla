------------------------------ MODULE GattTrace ------------------------------
(* Trace validation for the GATT foundation: binds a compiled Bluetoe server to           *)
(*   - GattDb!Build(decl)            (C04: table dump events Count / Idx / Probe)         *)
(*   - AttDiscovery!ResponseOK       (C02, C03: Req events of the four discovery opcodes, *)
(*                                    Enum events = client side enumeration)              *)
(* Events are written by harness/gatt/gatt_harness.cpp (format: spec/Gatt/README.md).     *)
(* Every execution starts with {"e":"Reset","decl":<normalized declaration>}; the table    *)
(* is rebuilt from the declaration carried by the event, so one trace file may contain     *)
(* executions of different servers.                                                        *)
(* For an event the specification cannot explain TLC prints <<"MISMATCH", l>> and           *)
(* <<"WHY", l, event, context, tags>> (diagnosis used for the finding signature).           *)
EXTENDS AttDiscovery, Json, IOUtils

Tr == ndJsonDeserialize(IOEnv.TRACE)
NConn == 3

VARIABLES db,      \* attribute table of the server under test (GattDb!Build of the Reset event's declaration)
          mtu,     \* negotiated ATT_MTU per connection
          enc,     \* link encrypted? per connection
          smtu,    \* server's maximum MTU
          l
vars  == <<db, mtu, enc, smtu>>
tvars == <<vars, l>>

Ev == Tr[l]

\* ---------------------------------------------------------------------------- C04: table dump
\* 16 bit view of an attribute type as stored by details::attribute (128 bit types are not constrained)
Type16OK(a, t16) == Len(a.type) = 2 => t16 = U16(a.type, 1)

IdxOK(ev) ==
    /\ ev.i + 1 \in 1..Len(db)
    /\ LET a == db[ev.i + 1] IN
       /\ ev.h = a.h                      \* handle_by_index: the handle Build assigns to the i-th attribute
       /\ Type16OK(a, ev.t)
       /\ ev.ix = ev.i                    \* index_by_handle(handle_by_index(i)) = i
       /\ ev.fx = ev.i

FirstIdx(t, h) == IF \E i \in 1..Len(t) : t[i].h >= h
                  THEN (CHOOSE i \in 1..Len(t) : t[i].h >= h /\ \A j \in 1..(i - 1) : t[j].h < h) - 1
                  ELSE -1
ExactIdx(t, h) == IF HasAttr(t, h) THEN AttrAt(t, h) - 1 ELSE -1

OpRead == 10   RspRead == 11
ReadOK(t, h, out, m, e) ==
    IF h = 0 \/ ~HasAttr(t, h) THEN IsErrorCode(out, OpRead, {ErrInvalidHandle})
    ELSE LET a == t[AttrAt(t, h)]
         IN  IF Readable(a, e) THEN out = <<RspRead>> \o SubSeq(a.val, 1, Min(Len(a.val), m - 1))
             ELSE IsErrorCode(out, OpRead, ReadErrors)

ProbeFields == <<"fx", "ix", "fi", "rd", "rt0", "rt1", "rt2", "rt3">>
ProbeFieldOK(ev, f) ==
    LET h  == ev.h
        hb == LE16(h)
        rt(k, out) == ResponseOK(db, <<OpReadByType>> \o hb \o hb \o <<k, 40>>, out, ev.mtu, FALSE)
    IN  CASE f = "fx"  -> ev.fx = FirstIdx(db, h)
          [] f = "ix"  -> ev.ix = (IF h = 0 THEN -1 ELSE ExactIdx(db, h))
          \* discovery requests on the one-handle range h..h are judged here only where the table has an
          \* attribute (it must report h, its type and its declaration value under h); what a range without
          \* any attribute returns is C02's business
          [] f = "fi"  -> HasAttr(db, h) => ResponseOK(db, <<OpFindInfo>> \o hb \o hb, ev.fi, ev.mtu, FALSE)
          [] f = "rd"  -> ReadOK(db, h, ev.rd, ev.mtu, FALSE)
          [] f = "rt0" -> HasAttr(db, h) => rt(0, ev.rt0)
          [] f = "rt1" -> HasAttr(db, h) => rt(1, ev.rt1)
          [] f = "rt2" -> HasAttr(db, h) => rt(2, ev.rt2)
          [] f = "rt3" -> HasAttr(db, h) => rt(3, ev.rt3)
ProbeOK(ev) == \A i \in 1..Len(ProbeFields) : ProbeFieldOK(ev, ProbeFields[i])

\* ---------------------------------------------------------------------------- C02 / C03
MtuOK(ev) ==     \* Exchange MTU with a legal client value; (C08 owns the full rule)
    /\ ev.cm >= 23
    /\ ev.out = <<3>> \o LE16(smtu)
    /\ ev.mtu = Min(smtu, ev.cm)

ReqOK(ev) == IsDiscovery(ev.in) /\ ResponseOK(db, ev.in, ev.out, mtu[ev.c + 1], enc[ev.c + 1])

IsPrefixOf(a, b) == Len(a) <= Len(b) /\ a = SubSeq(b, 1, Len(a))
EnumOK(ev) ==
    LET r == Rq(ev.in)
        e == enc[ev.c + 1]
        target == EnumTargetReadable(db, r, e)
    IN  /\ IsDiscovery(ev.in)
        /\ IF BadRange(r) THEN ev.visited = <<>> /\ ev.term = "error"
           ELSE IF Support(r) = "no" THEN ev.visited = <<>> /\ ev.term \in {"error", "not_found"}      \* rejected with any error
           ELSE \/ /\ ev.term \in {"not_found", "end"}                          \* every match exactly once, ascending
                   /\ \E lo \in LooseOpts(r) : ev.visited = EnumTargetReadable(db, [r EXCEPT !.loose = lo], e)
                \/ Support(r) = "may" /\ ev.term \in {"error", "not_found"} /\ ev.visited = <<>>
                \/ /\ r.op = OpReadByType /\ ev.term = "error"                    \* stopped by an unreadable attribute
                   /\ \E i \in 1..Len(Matching(db, r)) : ~Readable(Matching(db, r)[i], e)
                   /\ IsPrefixOf(ev.visited, target)

\* ---------------------------------------------------------------------------- explanation of one event
WellFormedDecl(d) == WellFormed(d)

Explain(ev) ==
    \/ /\ ev.e = "Reset"
       /\ WellFormedDecl(ev.decl)
       /\ db' = Build(ev.decl) /\ smtu' = ev.decl.opts.mtu
       /\ ev.smtu = ev.decl.opts.mtu
       /\ mtu' = [c \in 1..NConn |-> 23] /\ enc' = [c \in 1..NConn |-> FALSE]
    \/ ev.e = "Count" /\ ev.n = Len(db) /\ UNCHANGED vars
    \/ ev.e = "Idx"   /\ IdxOK(ev)   /\ UNCHANGED vars
    \/ ev.e = "Probe" /\ ProbeOK(ev) /\ UNCHANGED vars
    \/ ev.e = "Mtu"   /\ MtuOK(ev)   /\ mtu' = [mtu EXCEPT ![ev.c + 1] = ev.mtu] /\ UNCHANGED <<db, enc, smtu>>
    \/ ev.e = "Sec"   /\ enc' = [enc EXCEPT ![ev.c + 1] = ev.enc] /\ UNCHANGED <<db, mtu, smtu>>
    \/ ev.e = "Req"   /\ ReqOK(ev)   /\ ev.mtu = mtu[ev.c + 1] /\ UNCHANGED vars
    \/ ev.e = "Enum"  /\ EnumOK(ev)  /\ UNCHANGED vars

\* ---------------------------------------------------------------------------- diagnosis (signature material)
\* context of a table position: "inc" = an include declaration at or before it, "fixed" = the declaration uses
\* fixed handles, "plain" otherwise
HasFixed == \E i \in 1..Len(db) : db[i].fixed
CtxIdx(i)  == IF \E j \in 1..Len(db) : db[j].kind = "include" /\ j <= i THEN "inc" ELSE IF HasFixed THEN "fixed" ELSE "plain"
CtxHandle(h) == IF \E j \in 1..Len(db) : db[j].kind = "include" /\ db[j].h <= h THEN "inc" ELSE IF HasFixed THEN "fixed" ELSE "plain"
\* for discovery requests: "inc" = the table contains an include declaration (the real server's table then differs
\* from the prescribed one, known C04 defect, and every discovery answer may be affected), "std" otherwise
CtxTable == IF \E j \in 1..Len(db) : db[j].kind = "include" THEN "inc" ELSE "std"
KindAt(h) == IF HasAttr(db, h) THEN db[AttrAt(db, h)].kind ELSE "none"
OpName(op) == CASE op = OpFindInfo -> "FindInformation" [] op = OpReadByType -> "ReadByType"
                [] op = OpReadByGroupType -> "ReadByGroupType" [] op = OpFindByTypeValue -> "FindByTypeValue" [] OTHER -> "Other"
\* Read By Type is diagnosed per width of the requested type: t128 = a 128 bit UUID that is no alias of a 16 bit one
IsBaseAlias(u) == Len(u) = 16 /\ Expand(SubSeq(u, 13, 14)) = u
OpNameT(in) == IF in[1] = OpReadByType
               THEN "ReadByType:" \o (IF Len(in) = 21 /\ ~IsBaseAlias(SubSeq(in, 6, 21)) THEN "t128" ELSE "t16")
               ELSE OpName(in[1])

Why(ev) ==
    CASE ev.e = "Reset" -> <<"Reset", "decl", IF WellFormedDecl(ev.decl) THEN {"smtu"} ELSE {"declaration_not_well_formed"}>>
      [] ev.e = "Count" -> <<"Count", IF HasFixed THEN "fixed" ELSE "plain", {"n"}>>
      [] ev.e = "Idx" ->
            IF ev.i + 1 \notin 1..Len(db) THEN <<"Idx", "plain", {"index_out_of_table"}>>
            ELSE LET a == db[ev.i + 1] IN
                 <<"Idx:" \o a.kind, CtxIdx(ev.i + 1),
                   (IF ev.h # a.h THEN {"h"} ELSE {}) \cup (IF ~Type16OK(a, ev.t) THEN {"t"} ELSE {})
                   \cup (IF ev.ix # ev.i THEN {"ix"} ELSE {}) \cup (IF ev.fx # ev.i THEN {"fx"} ELSE {})>>
      [] ev.e = "Probe" ->
            <<"Probe:" \o KindAt(ev.h), CtxHandle(ev.h), {ProbeFields[i] : i \in {j \in 1..Len(ProbeFields) : ~ProbeFieldOK(ev, ProbeFields[j])}}>>
      [] ev.e = "Mtu" -> <<"Mtu", "plain", {"mtu"}>>
      [] ev.e = "Req" ->
            IF ~IsDiscovery(ev.in) THEN <<"Req", "plain", {"not_a_discovery_request"}>>
            ELSE <<OpNameT(ev.in), CtxTable,
                   IF ev.mtu # mtu[ev.c + 1] THEN {"mtu_changed"} ELSE Diagnose(db, ev.in, ev.out, mtu[ev.c + 1], enc[ev.c + 1])>>
      [] ev.e = "Enum" ->
            IF ~IsDiscovery(ev.in) THEN <<"Enum", "plain", {"not_a_discovery_request"}>>
            ELSE LET r == Rq(ev.in)
                     target == EnumTargetReadable(db, r, enc[ev.c + 1])
                     ts == {target[i] : i \in 1..Len(target)}
                     vs == {ev.visited[i] : i \in 1..Len(ev.visited)}
                 IN  <<"Enum:" \o OpNameT(ev.in), CtxTable,
                       (IF ts \ vs # {} THEN {"missed"} ELSE {}) \cup (IF vs \ ts # {} THEN {"extra"} ELSE {})
                       \cup (IF Cardinality(vs) # Len(ev.visited) THEN {"duplicate"} ELSE {})
                       \cup (IF \E i \in 1..(Len(ev.visited) - 1) : ev.visited[i] >= ev.visited[i + 1] THEN {"order"} ELSE {})
                       \cup (IF ev.term \in {"not_found", "end"} THEN {} ELSE {"term_" \o ev.term})>>
      [] OTHER -> <<ev.e, "plain", {"unknown_event"}>>

\* ---------------------------------------------------------------------------- trace automaton (spec/README.md contract)
Resets == {i \in 1..Len(Tr) : Tr[i].e = "Reset"}
NextReset(i) == IF \E j \in Resets : j > i
                THEN CHOOSE j \in Resets : j > i /\ \A k \in Resets : k > i => j <= k
                ELSE Len(Tr) + 1

TInit == /\ db = <<>> /\ mtu = [c \in 1..NConn |-> 23] /\ enc = [c \in 1..NConn |-> FALSE] /\ smtu = 23
         /\ l = 1

TNext ==
    \/ /\ l <= Len(Tr)
       /\ IF ENABLED Explain(Ev)
          THEN Explain(Ev) /\ l' = l + 1
          ELSE /\ PrintT(<<"MISMATCH", l>>) /\ PrintT(<<"WHY", l>> \o Why(Ev))
               \* events that never change the state are judged one by one; after any other rejected event the
               \* state is unknown and validation resumes at the next Reset
               /\ l' = IF Ev.e \in {"Count", "Idx", "Probe", "Req", "Enum"} /\ db # <<>> THEN l + 1 ELSE NextReset(l)
               /\ UNCHANGED vars
    \/ /\ l = Len(Tr) + 1
       /\ PrintT(<<"TRACE_DONE", Len(Tr)>>)
       /\ l' = l + 1 /\ UNCHANGED vars

TSpec == TInit /\ [][TNext]_tvars
=============================================================================
