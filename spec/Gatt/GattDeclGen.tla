----------------------------- MODULE GattDeclGen -----------------------------
(* Seeded random sampler of server declarations: `tlc -simulate num=N -seed VERIF_SEED`.   *)
(* Every behaviour of GattDecl builds one declaration; when it is finished it is printed   *)
(* as <<"DECL", json>> (normalized form; checks/_gatt.py converts it to the input format   *)
(* of tools/gen_server.py - a pure change of notation).                                    *)
EXTENDS GattDecl, Json

GSpec == Spec
Emit == Finished => PrintT(<<"DECL", ToJson(d)>>)
=============================================================================
