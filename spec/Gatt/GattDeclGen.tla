----------------------------- MODULE GattDeclGen -----------------------------
(* Seeded random sampler of server declarations: `tlc -simulate num=N -seed VERIF_SEED`.   *)
(* Every behaviour of GattDecl builds one declaration; when it is finished it is printed   *)
(* as <<"DECL", json>> (normalized form; checks/_gatt.py converts it to the input format   *)
(* of tools/gen_server.py - a pure change of notation).                                    *)
(* TLC's simulator computes all successors of a state before it picks one; the 10^4        *)
(* characteristic shapes are therefore drawn with RandomElement (seeded by -seed) instead  *)
(* of being enumerated: DeclGen.cfg has  ShapeChoices <- RandomShapes.                     *)
EXTENDS GattDecl, Json

MinGap == CHOOSE g \in Gaps : \A h \in Gaps : g <= h
RandomShapes ==
    { [wide |-> w, id |-> i, vkind |-> v, size |-> z, cccd |-> IF v = "fixed" THEN "none" ELSE c, named |-> n,
       fix |-> f, gap |-> IF f = "none" THEN MinGap ELSE g, enc |-> e] :
      w \in {RandomElement(BOOLEAN)}, i \in {RandomElement(CharIds)}, v \in {RandomElement(VKinds)},
      z \in {RandomElement(Sizes)}, c \in {RandomElement(Cccds)}, n \in {RandomElement(BOOLEAN)},
      f \in {RandomElement({"none", "none", "handle", "handles"})}, g \in {RandomElement(Gaps)}, e \in {RandomElement(EncOpts)} }

GSpec == Spec
Emit == Finished => PrintT(<<"DECL", ToJson(d)>>)
=============================================================================
