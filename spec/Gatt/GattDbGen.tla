------------------------------ MODULE GattDbGen ------------------------------
(* Evaluates the reference construction on concrete declarations:                          *)
(* reads IOEnv.DECLS (NDJSON, one normalized declaration per line, written by              *)
(* tools/gen_server.py), checks GattDb!WellFormed and the C04 table invariants TableOK on  *)
(* every one and prints <<"TABLE", name, ToJson(summary)>> - the handles and attribute      *)
(* types the request sweeps of C02/C03 range over (the python checks take the grid from    *)
(* here, they never compute a table themselves).                                           *)
EXTENDS GattDb, TLC, Json, IOUtils

Decls == ndJsonDeserialize(IOEnv.DECLS)

VARIABLE i
Summary(d) ==
    LET t == Build(d)
    IN  [name |-> d.name, wellformed |-> TRUE, maxHandle |-> MaxHandle(t), n |-> Len(t),
         handles |-> [k \in 1..Len(t) |-> t[k].h],
         kinds   |-> [k \in 1..Len(t) |-> t[k].kind],
         types   |-> [k \in 1..Len(t) |-> t[k].type],
         svcUuids |-> [k \in 1..Len(Services(d)) |-> Services(d)[k].uuid]]

Init == i = 1
Next == /\ i <= Len(Decls)
        /\ IF WellFormed(Decls[i])
           THEN PrintT(<<"TABLE", Decls[i].name, ToJson(Summary(Decls[i]))>>)
           ELSE PrintT(<<"TABLE", Decls[i].name, ToJson([name |-> Decls[i].name, wellformed |-> FALSE])>>)
        /\ i' = i + 1
Spec == Init /\ [][Next]_i

\* C04 on the model: the reference table of every (well-formed) declaration in use is consistent
TablesOK == i <= Len(Decls) /\ WellFormed(Decls[i]) => TableOK(Decls[i], Build(Decls[i]))
=============================================================================
