CONSTANTS Starts <- AllStarts  Ends <- AllEnds  Mtus = {23, 65}
SPECIFICATION Spec
INVARIANTS Enumerates Sound NoSecondary
CHECK_DEADLOCK FALSE
