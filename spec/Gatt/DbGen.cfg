SPECIFICATION Spec
INVARIANT TablesOK
CHECK_DEADLOCK FALSE
