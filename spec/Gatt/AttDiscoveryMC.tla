--------------------------- MODULE AttDiscoveryMC ---------------------------
(* Design-level check of C02 / C03 on the specification itself: a server that answers      *)
(* every discovery request with ANY response AttDiscovery allows (any non-empty prefix of   *)
(* any candidate run), talking to a client that repeats the request from "last returned     *)
(* handle + 1".  TLC explores every request (all start / end handles, all attribute types   *)
(* of the table + an absent one, the four opcodes, MTU 23 and 65) and every choice of the   *)
(* server, for a fixed declaration that has a gap, an include, a secondary service with the *)
(* UUID of no primary one, 16 and 128 bit UUIDs, an unreadable value and the GAP service.   *)
(*   Enumerates  - the client sees every matching attribute exactly once, in order          *)
(*   Sound       - only in-range, matching attributes are ever reported                     *)
(*   NoSecondary - <<Primary Service>> discovery never reports a secondary service (C03)    *)
EXTENDS AttDiscovery

NoPrio == [kind |-> "none", list |-> <<>>]
Wide(i) == <<i, 60, 199, 91, 237, 78, 138, 162, 159, 73, 226, 13, 148, 64, 139, 140>>
Ch(u, n) == [DefaultChar EXCEPT !.uuid = u, !.vkind = "bound", !.init = [i \in 1..n |-> 16 + i]]
Svc(u, sec, h, inc, chars) == [uuid |-> u, secondary |-> sec, handle |-> h, includes |-> inc, enc |-> "inherit",
                               prio |-> NoPrio, chars |-> chars]
MCDecl ==
    [name |-> "mc",
     opts |-> [wq |-> 0, mtu |-> 65, enc |-> "inherit", gap |-> TRUE, sname |-> <<77, 67>>, has_sname |-> TRUE,
               appearance |-> 0, prio |-> NoPrio],
     services |-> <<
        Svc(LE16(40961), TRUE, 0, <<>>, << Ch(LE16(45057), 2) >>),
        Svc(LE16(40962), FALSE, 6, <<1>>, << [Ch(LE16(45057), 2) EXCEPT !.notify = TRUE],
                                             [Ch(Wide(1), 3) EXCEPT !.no_read = TRUE],
                                             [Ch(LE16(45058), 2) EXCEPT !.handles = <<15, 17, 0>>] >>),
        Svc(Wide(9), FALSE, 0, <<>>, << Ch(LE16(45057), 4) >>) >>]

T == Build(MCDecl)
ASSUME WellFormed(MCDecl) /\ TableOK(MCDecl, T)

CONSTANTS Starts, Ends, Mtus   \* start / end handles and MTUs to explore (DiscMC.cfg: a corner selection, DiscMCThorough.cfg: all)
Hs == 0..(MaxHandle(T) + 1) \cup {65535}
AllEnds == Hs
AllStarts == Hs
CornerStarts == {0, 1, 3, 4, 6, 7, 8, 11, 14, 15, 16, 18, 21, 25, 26, 65535}
\* last handle of a service, first of the next, inside the gaps 4..5 and 13..14 / 16, last handle, beyond
CornerEnds == {0, 3, 4, 5, 6, 10, 13, 16, 17, 20, 25, 26, 65535}
AbsentType == LE16(65520)
Types == {T[i].type : i \in 1..Len(T)} \cup {AbsentType, Expand(UCharDecl)}
GroupTypes == {UPrimary, USecondary, UCharDecl, AbsentType}
SvcValues == {T[i].val : i \in {j \in 1..Len(T) : IsGroup(T[j])}}
             \cup {Expand(T[i].val) : i \in {j \in 1..Len(T) : IsGroup(T[j])}} \cup {AbsentType}

Requests ==
    [op : {OpFindInfo}, s : Starts, e : Ends, type : {<<>>}, value : {<<>>}, loose : {FALSE}]
    \cup [op : {OpReadByType}, s : Starts, e : Ends, type : Types, value : {<<>>}, loose : {FALSE}]
    \cup [op : {OpReadByGroupType}, s : Starts, e : Ends, type : GroupTypes, value : {<<>>}, loose : {FALSE}]
    \cup [op : {OpFindByTypeValue}, s : Starts, e : Ends, type : {UPrimary, USecondary}, value : SvcValues, loose : BOOLEAN]

VARIABLES r0, mtu, cur, visited, state      \* state: "run" | "not_found" | "end" | "error"
mvars == <<r0, mtu, cur, visited, state>>

Init == r0 \in Requests /\ mtu \in Mtus /\ cur = r0.s /\ visited = <<>> /\ state = "run"

Handles(c, n) == [i \in 1..n |-> c[i].h]
Step ==
    /\ state = "run"
    /\ LET r == [r0 EXCEPT !.s = cur]
           cs == Candidates(T, r, mtu, FALSE)
       IN  IF BadRange(r) \/ Support(r) = "no"
           THEN state' = "error" /\ UNCHANGED <<cur, visited>>
           ELSE \/ /\ Matching(T, r) = <<>> \/ (r.op = OpReadByType /\ \A c \in cs : c = <<>>)      \* Attribute Not Found
                   /\ state' = "not_found" /\ UNCHANGED <<cur, visited>>
                \/ /\ Support(r) = "may" \/ (r.op = OpReadByType /\ Matching(T, r) # <<>> /\ ~Readable(Matching(T, r)[1], FALSE))
                   /\ state' = "error" /\ UNCHANGED <<cur, visited>>                                \* allowed rejection
                \/ \E c \in cs : \E n \in 1..Len(c) :
                      LET last == IF r.op \in {OpReadByGroupType, OpFindByTypeValue} THEN GroupEnd(T, c[n]) ELSE c[n].h
                      IN  /\ visited' = visited \o Handles(c, n)
                          /\ IF last = 65535 \/ last >= r0.e THEN state' = "end" /\ cur' = cur
                                                             ELSE state' = "run" /\ cur' = last + 1
    /\ UNCHANGED <<r0, mtu>>

Spec == Init /\ [][Step]_mvars

Target == EnumTargetReadable(T, r0, FALSE)
IsPrefixOf(a, b) == Len(a) <= Len(b) /\ a = SubSeq(b, 1, Len(a))

Enumerates  == /\ state \in {"not_found", "end"} => visited = Target
               /\ IsPrefixOf(visited, Target)
Sound       == \A i \in 1..Len(visited) : /\ visited[i] >= r0.s /\ visited[i] <= r0.e
                                          /\ HasAttr(T, visited[i]) /\ Matches(r0, T[AttrAt(T, visited[i])])
NoSecondary == (r0.op \in {OpReadByGroupType, OpFindByTypeValue} /\ TypeEq(r0.type, UPrimary))
                  => \A i \in 1..Len(visited) : T[AttrAt(T, visited[i])].kind = "primary"
=============================================================================
