---------------------------- MODULE AttDiscovery ----------------------------
(* Property-level semantics of the four ATT discovery requests on an attribute table       *)
(* (C02, C03).  Pure operators: `ResponseOK(t, in, out, mtu, enc)` says whether the bytes  *)
(* `out` are an allowed answer to the request bytes `in` for the table t = GattDb!Build(d), *)
(* negotiated ATT_MTU `mtu` and link encryption `enc`.  Att.tla / the trace specs use it as *)
(* the guard of their Request action; AttDiscoveryMC.tla model checks the enumeration clause.*)
(*                                                                                          *)
(* For Find Information 0x04, Read By Type 0x08, Read By Group Type 0x10 and Find By Type   *)
(* Value 0x06 with (start, end, type [, value]):                                            *)
(*   - attribute types are UUIDs: a 16 bit UUID and its 128 bit form 0000xxxx-0000-1000-8000-  *)
(*     00805F9B34FB are the same type (Expand / TypeEq), every other 128 bit value is not;   *)
(*   - Error Response `Invalid Handle` iff start = 0 or start > end;                        *)
(*   - Error Response `Attribute Not Found` iff no attribute in start..end matches;         *)
(*   - otherwise the response carries a NON-EMPTY PREFIX of the matching attributes in      *)
(*     ascending handle order; all entries of one response have one format / length, so the *)
(*     prefix cannot extend beyond the first matching attribute with a different format;    *)
(*     the PDU fits the MTU.  Fewer entries than possible are allowed - skipped, out of     *)
(*     range, non matching or additional entries are not.                                   *)
(*   - the group end handle of a service is the handle of its last attribute;               *)
(*   - a request for <<Primary Service>> never reports a secondary service (C03).           *)
(* Freedom left to the implementation (the properties are silent):                          *)
(*   - Read By Type and attributes that can not be read on this link: the list may stop in  *)
(*     front of such an attribute (Core spec), or leave it out; if the first match is not   *)
(*     readable, its read error or - when nothing readable is left - Attribute Not Found;   *)
(*   - Read By Group Type <<Secondary Service>> may be answered or rejected; every other    *)
(*     group type is rejected with any error; Find By Type Value for a type other than      *)
(*     <<Primary Service>> may be answered correctly or rejected with any error;            *)
(*   - the handle reported in an error response is not constrained.                         *)
EXTENDS GattDb, TLC

OpError == 1   OpFindInfo == 4   OpFindByTypeValue == 6   OpReadByType == 8   OpReadByGroupType == 16
RspFindInfo == 5   RspFindByTypeValue == 7   RspReadByType == 9   RspReadByGroupType == 17

ErrInvalidHandle == 1   ErrAttributeNotFound == 10   ErrUnsupportedGroupType == 16
ReadErrors == {2, 5, 8, 12, 15}     \* read not permitted, insufficient authentication / authorization / key size / encryption

\* a 16 bit UUID is an alias of its 128 bit Bluetooth base UUID form
Expand(u) == IF Len(u) = 2 THEN <<251, 52, 155, 95, 128, 0, 0, 128, 0, 16, 0, 0>> \o u \o <<0, 0>> ELSE u
TypeEq(a, b) == Expand(a) = Expand(b)

IsDiscovery(in) ==
    /\ Len(in) >= 1
    /\ CASE in[1] = OpFindInfo        -> Len(in) = 5
         [] in[1] = OpReadByType      -> Len(in) \in {7, 21}
         [] in[1] = OpReadByGroupType -> Len(in) \in {7, 21}
         [] in[1] = OpFindByTypeValue -> Len(in) >= 7
         [] OTHER -> FALSE

\* parsed request
Rq(in) == [op |-> in[1], s |-> U16(in, 2), e |-> U16(in, 4),
           type  |-> IF in[1] = OpFindInfo THEN <<>> ELSE IF in[1] = OpFindByTypeValue THEN SubSeq(in, 6, 7) ELSE SubSeq(in, 6, Len(in)),
           value |-> IF in[1] = OpFindByTypeValue THEN SubSeq(in, 8, Len(in)) ELSE <<>>,
           loose |-> FALSE]      \* Find By Type Value only: compare the value as a UUID (see Matches)

BadRange(r) == r.s = 0 \/ r.s > r.e
IsGroup(a) == a.kind \in {"primary", "secondary"}

Matches(r, a) ==
    CASE r.op = OpFindInfo        -> TRUE
      [] r.op = OpReadByType      -> TypeEq(a.type, r.type)
      [] r.op = OpReadByGroupType -> IsGroup(a) /\ TypeEq(a.type, r.type)
      \* ATT compares the attribute *value* octet by octet (Vol 3 Part F 3.4.3.3): that is what must match. A server
      \* may in addition treat a 16 bit service UUID and its 128 bit Bluetooth base UUID form as the same value
      \* (r.loose); any other value - a near alias with other bits set, a longer value that merely starts with
      \* the attribute's value - never matches.
      [] r.op = OpFindByTypeValue -> TypeEq(a.type, r.type)
                                       /\ IF r.loose THEN Expand(a.val) = Expand(r.value) ELSE a.val = r.value

InRange(r, a) == a.h >= r.s /\ a.h <= r.e
Matching(t, r) == SelectSeq(t, LAMBDA a : InRange(r, a) /\ Matches(r, a))

Readable(a, enc) == a.rd /\ (a.enc => enc)
GroupEnd(t, a) == IF IsGroup(a) THEN SvcLast(t, a.svc) ELSE a.h

\* size and exact bytes of the response entry for attribute a
EntrySize(r, a, mtu) ==
    CASE r.op = OpFindInfo        -> 2 + Len(a.type)
      [] r.op = OpReadByType      -> 2 + Min(Min(Len(a.val), mtu - 4), 253)
      [] r.op = OpReadByGroupType -> 4 + Min(Len(a.val), mtu - 6)
      [] r.op = OpFindByTypeValue -> 4
Entry(t, r, a, mtu) ==
    CASE r.op = OpFindInfo        -> LE16(a.h) \o a.type
      [] r.op = OpReadByType      -> LE16(a.h) \o SubSeq(a.val, 1, EntrySize(r, a, mtu) - 2)
      [] r.op = OpReadByGroupType -> LE16(a.h) \o LE16(GroupEnd(t, a)) \o SubSeq(a.val, 1, EntrySize(r, a, mtu) - 4)
      [] r.op = OpFindByTypeValue -> LE16(a.h) \o LE16(GroupEnd(t, a))

\* longest prefix of m whose entries all have the size of the first one
RECURSIVE RunLen(_, _, _, _)
RunLen(r, m, mtu, i) == IF i > Len(m) \/ EntrySize(r, m[i], mtu) # EntrySize(r, m[1], mtu) THEN i - 1 ELSE RunLen(r, m, mtu, i + 1)
Run(r, m, mtu) == IF m = <<>> THEN <<>> ELSE SubSeq(m, 1, RunLen(r, m, mtu, 1))

RECURSIVE ReadablePrefixLen(_, _, _)
ReadablePrefixLen(m, enc, i) == IF i > Len(m) \/ ~Readable(m[i], enc) THEN i - 1 ELSE ReadablePrefixLen(m, enc, i + 1)

\* the sequences a list response may be a non-empty prefix of
Candidates(t, r, mtu, enc) ==
    LET m == Matching(t, r)
    IN  IF r.op = OpReadByType
        THEN { Run(r, SubSeq(m, 1, ReadablePrefixLen(m, enc, 1)), mtu),                  \* stop in front of an unreadable one
               Run(r, SelectSeq(m, LAMBDA a : Readable(a, enc)), mtu) }                 \* leave unreadable ones out
        ELSE { Run(r, m, mtu) }

\* ---------------------------------------------------------------------------- responses
IsError(out, op) == Len(out) = 5 /\ out[1] = OpError /\ out[2] = op
IsErrorCode(out, op, codes) == IsError(out, op) /\ out[5] \in codes

RspOp(r)  == CASE r.op = OpFindInfo -> RspFindInfo [] r.op = OpReadByType -> RspReadByType
               [] r.op = OpReadByGroupType -> RspReadByGroupType [] r.op = OpFindByTypeValue -> RspFindByTypeValue
HdrLen(r) == IF r.op = OpFindByTypeValue THEN 1 ELSE 2
HeaderOK(r, out, size) ==
    /\ Len(out) > HdrLen(r) /\ out[1] = RspOp(r)
    /\ CASE r.op = OpFindInfo        -> out[2] = (IF size = 4 THEN 1 ELSE 2)
         [] r.op = OpFindByTypeValue -> TRUE
         [] OTHER                    -> out[2] = size

IsPrefixResponse(t, r, out, mtu, c) ==
    /\ c # <<>>
    /\ LET size == EntrySize(r, c[1], mtu)
           body == Len(out) - HdrLen(r)
       IN  /\ HeaderOK(r, out, size)
           /\ body % size = 0 /\ body \div size >= 1 /\ body \div size <= Len(c)
           /\ \A i \in 1..(body \div size) :
                 SubSeq(out, HdrLen(r) + (i - 1) * size + 1, HdrLen(r) + i * size) = Entry(t, r, c[i], mtu)

ListOK(t, r, out, mtu, enc) == \E c \in Candidates(t, r, mtu, enc) : IsPrefixResponse(t, r, out, mtu, c)

\* "must": the type has to be served; "may": served correctly or rejected; "no": rejected
Support(r) ==
    CASE r.op = OpReadByGroupType -> IF TypeEq(r.type, UPrimary) THEN "must" ELSE IF TypeEq(r.type, USecondary) THEN "may" ELSE "no"
      [] r.op = OpFindByTypeValue -> IF TypeEq(r.type, UPrimary) THEN "must" ELSE "may"
      [] OTHER -> "must"

Served(t, r, out, mtu, enc) ==
    LET m == Matching(t, r) IN
    IF BadRange(r) THEN IsErrorCode(out, r.op, {ErrInvalidHandle})
    ELSE IF m = <<>> THEN IsErrorCode(out, r.op, {ErrAttributeNotFound})
    ELSE \/ ListOK(t, r, out, mtu, enc)
         \/ /\ r.op = OpReadByType
            /\ \/ ~Readable(m[1], enc) /\ IsErrorCode(out, r.op, ReadErrors)
               \/ (\A i \in 1..Len(m) : ~Readable(m[i], enc)) /\ IsErrorCode(out, r.op, {ErrAttributeNotFound})

LooseOpts(r) == IF r.op = OpFindByTypeValue THEN {FALSE, TRUE} ELSE {FALSE}

ResponseOK(t, in, out, mtu, enc) ==
    LET r == Rq(in) IN
    /\ Len(out) <= mtu
    /\ CASE Support(r) = "must" -> \E lo \in LooseOpts(r) : Served(t, [r EXCEPT !.loose = lo], out, mtu, enc)
         [] Support(r) = "may"  -> (\E lo \in LooseOpts(r) : Served(t, [r EXCEPT !.loose = lo], out, mtu, enc)) \/ IsError(out, r.op)
         [] OTHER               -> IsError(out, r.op)

\* ---------------------------------------------------------------------------- enumeration (client view)
\* handles a client collects when it repeats the request from `last + 1` until Attribute Not Found
EnumTarget(t, r, enc) ==
    LET m == Matching(t, r)
    IN  [i \in 1..Len(m) |-> m[i].h]
EnumTargetReadable(t, r, enc) ==
    LET m == SelectSeq(Matching(t, r), LAMBDA a : r.op # OpReadByType \/ Readable(a, enc))
    IN  [i \in 1..Len(m) |-> m[i].h]

\* ---------------------------------------------------------------------------- diagnosis of a rejected response
\* (only evaluated for responses ResponseOK rejects; gives the check a stable signature)
RawSize(r, out) == CASE r.op = OpFindInfo -> (IF out[2] = 1 THEN 4 ELSE IF out[2] = 2 THEN 18 ELSE 0)
                     [] r.op = OpFindByTypeValue -> 4
                     [] OTHER -> out[2]
Diagnose(t, in, out, mtu, enc) ==
    LET r == Rq(in)
        m == Matching(t, r)
        base == SelectSeq(m, LAMBDA a : r.op # OpReadByType \/ Readable(a, enc))
        mh == {m[i].h : i \in 1..Len(m)}
        bh == {base[i].h : i \in 1..Len(base)}
        wantsPrimary == r.op \in {OpReadByGroupType, OpFindByTypeValue} /\ TypeEq(r.type, UPrimary)
    IN
    (IF Len(out) > mtu THEN {"mtu"} ELSE {}) \cup
    (IF Len(out) = 0 THEN {"no_response"}
     ELSE IF out[1] = OpError THEN
        (IF ~IsError(out, r.op) THEN {"bad_error_frame"}
         ELSE IF BadRange(r) THEN {"invalid_handle_expected"}
         ELSE IF out[5] = ErrInvalidHandle THEN {"invalid_handle_for_valid_range"}
         ELSE IF out[5] = ErrAttributeNotFound THEN {"not_found_but_match"}
         ELSE {"unexpected_error"})
     ELSE IF Support(r) = "no" THEN {"error_expected"}
     ELSE IF out[1] # RspOp(r) THEN {"wrong_opcode"}
     ELSE IF BadRange(r) THEN {"invalid_handle_expected"}
     ELSE IF Len(out) <= HdrLen(r) THEN {"empty_list"}
     ELSE IF RawSize(r, out) < (IF r.op = OpReadByType THEN 2 ELSE 4) \/ (Len(out) - HdrLen(r)) % RawSize(r, out) # 0 THEN {"malformed"}
     ELSE LET size == RawSize(r, out)
              n    == (Len(out) - HdrLen(r)) \div size
              ent(i) == SubSeq(out, HdrLen(r) + (i - 1) * size + 1, HdrLen(r) + i * size)
              hs   == [i \in 1..n |-> U16(ent(i), 1)]
              tags ==
                (IF \E i \in 1..n : hs[i] < r.s \/ hs[i] > r.e THEN {"out_of_range"} ELSE {}) \cup
                (IF \E i \in 1..n : ~HasAttr(t, hs[i]) THEN {"no_such_attribute"} ELSE {}) \cup
                (IF wantsPrimary /\ \E i \in 1..n : HasAttr(t, hs[i]) /\ t[AttrAt(t, hs[i])].kind = "secondary" THEN {"secondary_reported"} ELSE {}) \cup
                (IF \E i \in 1..n : HasAttr(t, hs[i]) /\ hs[i] >= r.s /\ hs[i] <= r.e /\ hs[i] \notin mh
                                    /\ ~(wantsPrimary /\ t[AttrAt(t, hs[i])].kind = "secondary") THEN {"wrong_type"} ELSE {}) \cup
                (IF \E i \in 1..(n - 1) : hs[i] >= hs[i + 1] THEN {"order"} ELSE {}) \cup
                (IF \E x \in bh : x < hs[n] /\ \A i \in 1..n : hs[i] # x THEN {"skipped"} ELSE {}) \cup
                (IF \E i \in 1..n : hs[i] \in mh /\ size = EntrySize(r, t[AttrAt(t, hs[i])], mtu) /\ ent(i) # Entry(t, r, t[AttrAt(t, hs[i])], mtu)
                    THEN (IF r.op \in {OpReadByGroupType, OpFindByTypeValue}
                             /\ \E i \in 1..n : hs[i] \in mh /\ U16(ent(i), 3) # GroupEnd(t, t[AttrAt(t, hs[i])])
                          THEN {"group_end"} ELSE {"entry_data"}) ELSE {}) \cup
                (IF \E i \in 1..n : hs[i] \in mh /\ size # EntrySize(r, t[AttrAt(t, hs[i])], mtu) THEN {"entry_size"} ELSE {})
          IN IF tags = {} THEN {"unclassified"} ELSE tags)
=============================================================================
