CONSTANTS
  MaxServices = 3  MaxChars = 2  MaxTotalChars = 4  MaxIncludes = 1
  Gaps = {0, 2}  GapOpts = {TRUE, FALSE}
  VKinds = {"bound", "const", "fixed", "fixed_uint", "handler"}
  EncOpts = {"inherit", "requires", "none"}  CharIds = {1, 2, 3}
  ShellKinds <- ShellKindsAll
  ShapeChoices <- RandomShapes
  Sizes = {1, 2, 4, 20}  Cccds = {"none", "notify", "indicate"}
SPECIFICATION GSpec
INVARIANT Emit
CHECK_DEADLOCK FALSE
